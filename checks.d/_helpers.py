"""Per-property configuration of the check driver (see DESIGN.md §3, §5)."""

def rapid(name, test, q, t, **kw):
    d = dict(name=name, kind="rapid", test=test, quick=q, thorough=t)
    d.update(kw)
    return d

def direct(name, test, **kw):
    d = dict(name=name, kind="direct", test=test, quick=dict(shards=1, timeout=900), thorough=dict(shards=1, timeout=3600))
    d.update(kw)
    return d

def fuzz(name, test, seconds, **kw):
    d = dict(name=name, kind="fuzz", test=test, tiers=["thorough"], quick=dict(seconds=10), thorough=dict(seconds=seconds))
    d.update(kw)
    return d

