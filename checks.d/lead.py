from _helpers import rapid, direct, fuzz

PROPS = {
    "C01": dict(pkg="chain", level="exploration", stages=[
        direct("near-tie", "TestC01NearTie", quick=dict(shards=2, timeout=900), thorough=dict(shards=4, timeout=3600)),
        direct("preoak", "TestC01PreOak", quick=dict(shards=5, timeout=900), thorough=dict(shards=12, timeout=3600)),
        rapid("rapid", "TestC01", dict(shards=16, checks=150), dict(shards=16, checks=5000, timeout=6000)),
        rapid("checkpoint", "TestC01Checkpoint", dict(shards=8, checks=100), dict(shards=16, checks=3000, timeout=3000)),
    ]),
    "C17": dict(pkg="chain", level="exploration", stages=[
        direct("exhaustive", "TestC17Exhaustive"),
        rapid("rapid", "TestC17", dict(shards=16, checks=2500), dict(shards=16, checks=40000, timeout=3000)),
        rapid("chain", "TestC17Chain", dict(shards=8, checks=40), dict(shards=16, checks=1500, timeout=5000)),
        fuzz("fuzz", "FuzzC17Ops", 180),
    ]),
    "C20": dict(pkg="wallet", level="exploration", stages=[
        direct("vectors", "TestC20Vectors"),
        direct("sweep", "TestC20Sweep"),
        direct("concurrent", "TestC20Concurrent"),
        direct("concurrent-race", "TestC20Concurrent", race=True, tiers=["thorough"]),
        rapid("rapid", "TestC20", dict(shards=8, checks=6000), dict(shards=16, checks=300000, timeout=3000)),
        fuzz("fuzz", "FuzzC20Phrase", 240),
    ]),
}

PROPS["C02"] = dict(pkg="chain", level="exploration", stages=[
    rapid("rapid", "TestC02", dict(shards=16, checks=200), dict(shards=16, checks=4000, timeout=7000)),
])

PROPS["C03"] = dict(pkg="chain", level="fault_enumeration", stages=[
    direct("preoak", "TestC03PreOak"),
    rapid("rapid", "TestC03", dict(shards=16, checks=100), dict(shards=16, checks=1200, timeout=7000)),
])

PROPS["C19"] = dict(pkg="chain", level="exploration", stages=[
    direct("prune-crash", "TestC19PruneCrash"),
    direct("concurrent", "TestC19Concurrent", quick=dict(shards=4, timeout=900), thorough=dict(shards=8, timeout=3600)),
    direct("concurrent-race", "TestC19Concurrent", race=True, tiers=["thorough"]),
    direct("large-backlog", "TestC19LargeBacklog", quick=dict(shards=2, timeout=900), thorough=dict(shards=3, timeout=3600)),
    rapid("rapid", "TestC19", dict(shards=16, checks=120), dict(shards=16, checks=4000, timeout=7000)),
])

PROPS["C14"] = dict(pkg="chain", level="exploration", stages=[
    direct("diamond", "TestC14Diamond"),
    direct("heavy-reject", "TestC14HeavyReject"),
    rapid("rapid", "TestC14", dict(shards=16, checks=700), dict(shards=16, checks=8000, timeout=7000)),
])

PROPS["C13"] = dict(pkg="chain", level="exploration", stages=[
    direct("distance", "TestC13Distance"),
    direct("unvalidated-parent", "TestC13UnvalidatedParent"),
    rapid("rapid", "TestC13", dict(shards=16, checks=400), dict(shards=16, checks=5000, timeout=7000)),
])

PROPS["C05"] = dict(pkg="chain", level="exploration", stages=[
    direct("heavy", "TestC05Heavy"),
    direct("resurrect", "TestC05Resurrect"),
    direct("pooled-proofs", "TestC05PooledProofs"),
    rapid("rapid", "TestC05", dict(shards=16, checks=100), dict(shards=16, checks=3000, timeout=7000)),
])

PROPS["C04"] = dict(pkg="chain", level="exploration", stages=[
    direct("preoak", "TestC04PreOak", quick=dict(shards=2, timeout=900), thorough=dict(shards=3, timeout=3600)),
    direct("long-concurrent", "TestC04LongConcurrent", quick=dict(shards=1, timeout=900), thorough=dict(shards=1, timeout=3600)),
    direct("long-concurrent-race", "TestC04LongConcurrent", race=True, tiers=["thorough"]),
    direct("notify", "TestC04Notify"),
    direct("notify-race", "TestC04Notify", race=True, tiers=["thorough"]),
    rapid("rapid", "TestC04", dict(shards=16, checks=200), dict(shards=16, checks=4000, timeout=7000)),
    rapid("concurrent", "TestC04Concurrent", dict(shards=8, checks=60), dict(shards=16, checks=400, timeout=7000)),
    rapid("concurrent-race", "TestC04Concurrent", dict(shards=8, checks=40), dict(shards=16, checks=150, timeout=7000), race=True, tiers=["thorough"]),
])
