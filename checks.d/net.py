from _helpers import rapid, direct, fuzz

PROPS = {
    "C18": dict(pkg="net", level="exploration", replay_test="TestC18ThreadGroup", stages=[
        rapid("tg", "TestC18ThreadGroup", dict(shards=16, checks=200, timeout=600), dict(shards=16, checks=20000, timeout=7000)),
        rapid("limits", "TestC18Limits", dict(shards=16, checks=12, timeout=900), dict(shards=16, checks=600, timeout=7000)),
        rapid("caps", "TestC18Caps", dict(shards=16, checks=15, timeout=900), dict(shards=16, checks=600, timeout=7000)),
        rapid("close", "TestC18Close", dict(shards=16, checks=150, timeout=900), dict(shards=16, checks=3000, timeout=7000)),
        rapid("tg-race", "TestC18ThreadGroup", dict(shards=8, checks=200), dict(shards=8, checks=1500, timeout=3000), race=True, tiers=["thorough"]),
        rapid("limits-race", "TestC18Limits", dict(shards=8, checks=10), dict(shards=8, checks=60, timeout=3000), race=True, tiers=["thorough"]),
        rapid("caps-race", "TestC18Caps", dict(shards=8, checks=10), dict(shards=8, checks=60, timeout=3000), race=True, tiers=["thorough"]),
        rapid("close-race", "TestC18Close", dict(shards=8, checks=20), dict(shards=8, checks=150, timeout=3000), race=True, tiers=["thorough"]),
    ]),
    "C12": dict(pkg="net", level="exploration", stages=[
        direct("stars", "TestC12Stars", quick=dict(shards=16, timeout=1200), thorough=dict(shards=16, timeout=3600)),
        direct("forks", "TestC12Forks", quick=dict(shards=16, timeout=1200), thorough=dict(shards=16, timeout=3600)),
        rapid("rapid", "TestC12", dict(shards=16, checks=3, timeout=1200), dict(shards=16, checks=120, timeout=14000)),
        rapid("race", "TestC12", dict(shards=4, checks=2), dict(shards=4, checks=10, timeout=7200), race=True, tiers=["thorough"]),
    ]),
    "C11": dict(pkg="net", level="exploration", stages=[
        direct("lies", "TestC11Lies", quick=dict(shards=16, timeout=1200), thorough=dict(shards=16, timeout=3600)),
        rapid("rapid", "TestC11", dict(shards=16, checks=4, timeout=1200), dict(shards=16, checks=100, timeout=14000)),
        rapid("race", "TestC11", dict(shards=4, checks=2), dict(shards=4, checks=10, timeout=7200), race=True, tiers=["thorough"]),
    ]),
}
