from _helpers import rapid, direct, fuzz

PROPS = {
    "C18": dict(pkg="net", level="exploration", replay_test="TestC18ThreadGroup", stages=[
        rapid("tg", "TestC18ThreadGroup", dict(shards=16, checks=200, timeout=600), dict(shards=16, checks=5000, timeout=3000)),
    ]),
}
