from _helpers import rapid, direct, fuzz

PROPS = {
    "C10": dict(pkg="rhpc", level="fault_enumeration", stages=[
        direct("enum", "TestC10Enum"),
        direct("cross", "TestC10Cross"),
        rapid("rapid", "TestC10", dict(shards=16, checks=400), dict(shards=16, checks=3000, timeout=3000)),
        fuzz("fuzz", "FuzzC10Response", 600),
    ]),
    "C16": dict(pkg="rhpc", level="fault_enumeration", stages=[
        direct("enum", "TestC16Enum"),
        rapid("rapid", "TestC16", dict(shards=16, checks=250), dict(shards=16, checks=800, timeout=3000)),
    ]),
}
