from _helpers import rapid, direct, fuzz

PROPS = {
    "C10": dict(pkg="rhpc", level="fault_enumeration", stages=[
        direct("enum", "TestC10Enum", quick=dict(shards=8, timeout=900), thorough=dict(shards=16, timeout=3600)),
        direct("cross", "TestC10Cross"),
        rapid("rapid", "TestC10", dict(shards=16, checks=400), dict(shards=16, checks=20000, timeout=3000)),
        fuzz("fuzz", "FuzzC10Response", 600),
    ]),
    "C16": dict(pkg="rhpc", level="fault_enumeration", stages=[
        direct("enum", "TestC16Enum", quick=dict(shards=8, timeout=900), thorough=dict(shards=8, timeout=3600)),
        direct("overlap", "TestC16Overlap"),
        direct("concurrent", "TestC16Concurrent"),
        direct("concurrent-race", "TestC16Concurrent", race=True, tiers=["thorough"]),
        rapid("rapid", "TestC16", dict(shards=16, checks=500), dict(shards=16, checks=10000, timeout=3000)),
    ]),
}
