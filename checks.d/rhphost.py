from _helpers import rapid, direct, fuzz

PROPS = {
    "C09": dict(pkg="rhp", level="fault_enumeration", stages=[
        direct("faults", "TestC09Faults", quick=dict(shards=4, timeout=900), thorough=dict(shards=8, timeout=3600)),
        direct("exhaustive", "TestC09Exhaustive", quick=dict(shards=4, timeout=900), thorough=dict(shards=8, timeout=3600)),
        rapid("rapid", "TestC09", dict(shards=8, checks=150), dict(shards=16, checks=8000, timeout=7000)),
    ]),
    "C08": dict(pkg="rhp", level="exploration", stages=[
        rapid("rapid", "TestC08", dict(shards=16, checks=250), dict(shards=16, checks=15000, timeout=7000)),
    ]),
    "C15": dict(pkg="rhp", level="exploration", stages=[
        rapid("rapid", "TestC15", dict(shards=16, checks=200), dict(shards=16, checks=12000, timeout=7000)),
    ]),
}
