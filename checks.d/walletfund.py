from _helpers import rapid, direct, fuzz

PROPS = {
    "C06": dict(pkg="walletf", level="exploration", stages=[
        direct("claim-routing", "TestC06ClaimRouting"),
        rapid("payouts", "TestC06Payouts", dict(shards=8, checks=150, timeout=900), dict(shards=16, checks=3000, timeout=6000)),
        rapid("minerpayouts", "TestC06MinerPayouts", dict(shards=8, checks=150, timeout=900), dict(shards=16, checks=2000, timeout=6000)),
        rapid("nooutputs", "TestC06NoOutputs", dict(shards=4, checks=150, timeout=900), dict(shards=16, checks=1500, timeout=6000)),
        rapid("v2payouts", "TestC06V2Payouts", dict(shards=8, checks=150, timeout=900), dict(shards=16, checks=3000, timeout=6000)),
        rapid("rapid", "TestC06", dict(shards=16, checks=300, timeout=900), dict(shards=16, checks=3000, timeout=6000)),
    ]),
    "C07": dict(pkg="walletf", level="exploration", stages=[
        rapid("rapid", "TestC07", dict(shards=16, checks=800, timeout=900), dict(shards=16, checks=6000, timeout=6000)),
        rapid("concurrent", "TestC07Concurrent", dict(shards=16, checks=200, timeout=900), dict(shards=16, checks=2000, timeout=6000)),
        rapid("concurrent-race", "TestC07Concurrent", dict(shards=4, checks=20), dict(shards=16, checks=200, timeout=6000),
              tiers=["thorough"], race=True),
    ]),
}
