"""Per-property configuration of the check driver: the union of checks.d/*.py
(each defines PROPS; see checks.d/lead.py and DESIGN.md §3, §5)."""
import glob, importlib.util, os, sys

_d = os.path.join(os.path.dirname(os.path.abspath(__file__)), "checks.d")
sys.path.insert(0, _d)
PROPS = {}
for _f in sorted(glob.glob(os.path.join(_d, "*.py"))):
    if os.path.basename(_f).startswith("_"):
        continue
    _spec = importlib.util.spec_from_file_location("checks_" + os.path.basename(_f)[:-3], _f)
    _m = importlib.util.module_from_spec(_spec)
    _spec.loader.exec_module(_m)
    PROPS.update(_m.PROPS)
