"""Per-property configuration of the check driver (see DESIGN.md §3, §5)."""

def rapid(name, test, q, t, **kw):
    d = dict(name=name, kind="rapid", test=test, quick=q, thorough=t)
    d.update(kw)
    return d

def direct(name, test, **kw):
    d = dict(name=name, kind="direct", test=test, quick=dict(shards=1, timeout=900), thorough=dict(shards=1, timeout=3600))
    d.update(kw)
    return d

def fuzz(name, test, seconds, **kw):
    d = dict(name=name, kind="fuzz", test=test, tiers=["thorough"], quick=dict(seconds=10), thorough=dict(seconds=seconds))
    d.update(kw)
    return d

PROPS = {
    "C01": dict(pkg="chain", level="exploration", stages=[
        rapid("rapid", "TestC01", dict(shards=16, checks=150), dict(shards=16, checks=5000, timeout=6000)),
    ]),
    "C17": dict(pkg="chain", level="exploration", stages=[
        direct("exhaustive", "TestC17Exhaustive"),
        rapid("rapid", "TestC17", dict(shards=8, checks=1500), dict(shards=16, checks=40000, timeout=3000)),
        fuzz("fuzz", "FuzzC17Ops", 180),
    ]),
    "C20": dict(pkg="wallet", level="exploration", stages=[
        direct("vectors", "TestC20Vectors"),
        direct("sweep", "TestC20Sweep"),
        rapid("rapid", "TestC20", dict(shards=8, checks=6000), dict(shards=16, checks=300000, timeout=3000)),
        fuzz("fuzz", "FuzzC20Phrase", 240),
    ]),
}
