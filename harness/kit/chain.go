package kit

import (
	"bytes"
	"crypto/sha256"
	"fmt"
	"sort"
	"time"

	"go.sia.tech/core/consensus"
	"go.sia.tech/core/types"
	"go.sia.tech/coreutils/chain"

	"verif/refl"
)

// ---------------------------------------------------------------- actors

// Actor is a deterministic key pair and its standard v1 address (which v2
// transactions spend through the unlock-conditions policy).
type Actor struct {
	SK   types.PrivateKey
	PK   types.PublicKey
	UC   types.UnlockConditions
	Addr types.Address
}

// NumActors is the number of actors every case knows.
const NumActors = 4

// NewActor derives actor i deterministically.
func NewActor(i int) Actor {
	seed := sha256.Sum256([]byte(fmt.Sprintf("verif-actor-%d", i)))
	sk := types.NewPrivateKeyFromSeed(seed[:])
	pk := sk.PublicKey()
	uc := types.StandardUnlockConditions(pk)
	return Actor{SK: sk, PK: pk, UC: uc, Addr: uc.UnlockHash()}
}

// Actors is the fixed actor set.
var Actors = func() []Actor {
	a := make([]Actor, NumActors)
	for i := range a {
		a[i] = NewActor(i)
	}
	return a
}()

// ActorOf returns the index of the actor owning addr, or -1.
func ActorOf(addr types.Address) int {
	for i, a := range Actors {
		if a.Addr == addr {
			return i
		}
	}
	return -1
}

func mod(i, n int) int {
	if n <= 0 {
		return 0
	}
	return ((i % n) + n) % n
}

// ---------------------------------------------------------------- network

// NetSpec is the drawn part of the consensus network.
type NetSpec struct {
	Maturity int `json:"maturity"` // 1..3
	Allow    int `json:"allow"`    // v2 allow height, >= 1
	ReqOff   int `json:"req_off"`  // require = allow + ReqOff
	CutOff   int `json:"cut_off"`  // final cut = require + CutOff
	// Hard selects a harder initial proof-of-work target (difficulty ~2^(4*Hard)
	// instead of ~1), which gives the per-block difficulty adjustment enough
	// resolution for chain length and accumulated work to come apart.
	Hard int `json:"hard,omitempty"`
	// Calm starts the difficulty estimator in equilibrium (initial estimated
	// hashrate = one block of initial difficulty per block interval) instead of
	// the test network's very high initial estimate, under which the difficulty
	// rises at the maximum rate whatever the timestamps are. With Calm, fast and
	// slow branches really get different difficulties.
	Calm bool `json:"calm,omitempty"`
	// Oak > 1 moves the Oak difficulty hardfork to that height: below it the
	// target is adjusted every 500 blocks from the timestamp of the ancestor
	// 1000 blocks back, which the store has to supply (AncestorTimestamp).
	Oak int `json:"oak,omitempty"`
}

// Network builds the consensus network and the genesis block of a case.
func (ns NetSpec) Network() (*consensus.Network, types.Block) {
	n, genesis := chain.TestnetZen()
	n.InitialTarget = types.BlockID{0xFF}
	switch clamp(ns.Hard, 0, 3) {
	case 1:
		n.InitialTarget = types.BlockID{0x10} // difficulty ~16
	case 2:
		n.InitialTarget = types.BlockID{0x01} // ~256
	case 3:
		n.InitialTarget = types.BlockID{0x00, 0x10} // ~4096
	}
	n.BlockInterval = time.Second
	if ns.Calm {
		n.HardforkASIC.OakTime = time.Second
		n.HardforkASIC.OakTarget = n.InitialTarget
	}
	n.MaturityDelay = uint64(clamp(ns.Maturity, 1, 10))
	n.HardforkDevAddr.Height = 1
	n.HardforkTax.Height = 1
	n.HardforkStorageProof.Height = 1
	n.HardforkOak.Height = 1
	n.HardforkOak.FixHeight = 1
	n.HardforkASIC.Height = 1
	n.HardforkFoundation.Height = 1
	if ns.Oak > 1 {
		n.HardforkOak.Height = uint64(ns.Oak)
		n.HardforkOak.FixHeight = uint64(ns.Oak) + 3
		n.HardforkASIC.Height = uint64(ns.Oak) + 5
		n.HardforkASIC.OakTime = 10 * time.Second
		n.HardforkASIC.OakTarget = n.InitialTarget
		n.HardforkFoundation.Height = uint64(ns.Oak) + 7
	}
	// genesis far in the past so wall-clock future checks never trigger
	n.HardforkOak.GenesisTimestamp = time.Date(2020, time.January, 1, 0, 0, 0, 0, time.UTC)
	genesis.Timestamp = n.HardforkOak.GenesisTimestamp
	// actor 0 controls the foundation addresses
	n.HardforkFoundation.PrimaryAddress = Actors[0].Addr
	n.HardforkFoundation.FailsafeAddress = Actors[1].Addr
	allow := clamp(ns.Allow, 1, 1<<20)
	n.HardforkV2.AllowHeight = uint64(allow)
	n.HardforkV2.RequireHeight = uint64(allow + clamp(ns.ReqOff, 0, 1<<20))
	n.HardforkV2.FinalCutHeight = n.HardforkV2.RequireHeight + uint64(clamp(ns.CutOff, 0, 1<<20))
	// genesis allocation: 6 siacoin outputs and one siafund output per actor
	var scos []types.SiacoinOutput
	var sfos []types.SiafundOutput
	for i, a := range Actors {
		for k := 0; k < 6; k++ {
			scos = append(scos, types.SiacoinOutput{Address: a.Addr, Value: types.Siacoins(uint32(1000 * (k + 1)))})
		}
		sfos = append(sfos, types.SiafundOutput{Address: a.Addr, Value: uint64(1000 * (i + 1))})
	}
	genesis.Transactions = []types.Transaction{{SiacoinOutputs: scos, SiafundOutputs: sfos}}
	return n, genesis
}

func clamp(v, lo, hi int) int {
	if v < lo {
		return lo
	}
	if v > hi {
		return hi
	}
	return v
}

// ---------------------------------------------------------------- intents

// Intent describes a transaction to build, resolved against the parent ledger
// when the block is built. Unresolvable intents are skipped (and counted).
type Intent struct {
	Kind string `json:"kind"`
	Who  int    `json:"who"`
	To   int    `json:"to,omitempty"`
	Pick int    `json:"pick,omitempty"` // which candidate element (mod #candidates)
	Amt  int    `json:"amt,omitempty"`  // amount selector 0..9
	A    int    `json:"a,omitempty"`    // kind-specific small ints
	B    int    `json:"b,omitempty"`
	Eph  bool   `json:"eph,omitempty"` // spend an output created earlier in this block
	Fee  bool   `json:"fee,omitempty"`
	Bad  int    `json:"bad,omitempty"` // intent-level corruption selector (0 = none)
	V2   bool   `json:"v2,omitempty"`  // generic kinds: prefer the v2 form where both are allowed
}

// IntentKinds lists every kind the builder understands.
var IntentKinds = []string{
	"pay", "pay", "sf", "form", "form", "fcop", "fcop", "fcop", "attest", "foundation", "arb", "formprove", "sfchain",
}

// SpecificIntentKinds are the version-specific kinds generic ones resolve to.
var SpecificIntentKinds = []string{
	"v1pay", "v1merge", "v1sf", "v1form", "v1rev", "v1proof",
	"v2pay", "v2merge", "v2sf", "v2form", "v2rev", "v2renew", "v2proof", "v2expire", "v2attest", "v2foundation", "v2arb",
}

type ephSFOut struct {
	id    types.SiafundOutputID
	out   types.SiafundOutput
	owner int
}

type ephOut struct {
	id    types.SiacoinOutputID
	out   types.SiacoinOutput
	owner int
	v2    bool
}

// BlockBuilder resolves intents against a parent ledger.
type BlockBuilder struct {
	L      *refl.Ledger
	Height uint64 // child height
	// UniqueWindows makes every v1 contract get a WindowEnd no other v1
	// contract of this chain ever had.
	UniqueWindows bool
	// IgnoreRegime lets v1 transactions be built above the require height and
	// v2 ones below the allow height (they are then invalid).
	IgnoreRegime bool

	Txns   []types.Transaction
	V2Txns []types.V2Transaction
	// per-transaction intent kind, parallel to Txns / V2Txns
	TxnKinds   []string
	V2TxnKinds []string
	Skipped    []string

	spentSC map[types.SiacoinOutputID]bool
	spentSF map[types.SiafundOutputID]bool
	usedFC  map[types.FileContractID]bool
	eph     []ephOut
	// ephemeral siafund outputs of v2 transactions built or absorbed so far,
	// usable only while nothing in the builder changes the tax revenue (their
	// claim start is then exactly the parent ledger's revenue)
	ephSF    []ephSFOut
	taxMoved bool
	// v1 contracts formed by transactions built or absorbed so far (a v1
	// revision may follow its formation inside one block / one pool)
	ephFC []types.FileContractElement
	// siafund outputs of v1 transactions built or absorbed so far (a v1 block
	// may spend a siafund output it created itself; the claim is implicit, so
	// unlike v2 nothing about the tax revenue constrains it)
	ephSF1 []ephSFOut
	usedWE map[uint64]bool
	serial int
	onlyFC *types.FileContractID
}

// NewBlockBuilder creates a builder for a child of l.
func NewBlockBuilder(l *refl.Ledger) *BlockBuilder {
	return &BlockBuilder{L: l, Height: l.Height() + 1, UniqueWindows: true,
		spentSC: map[types.SiacoinOutputID]bool{}, spentSF: map[types.SiafundOutputID]bool{}, usedFC: map[types.FileContractID]bool{}, usedWE: map[uint64]bool{}}
}

func (bb *BlockBuilder) v1Allowed() bool {
	return bb.IgnoreRegime || bb.Height < bb.L.State.Network.HardforkV2.RequireHeight
}
func (bb *BlockBuilder) v2Allowed() bool {
	return bb.IgnoreRegime || bb.Height >= bb.L.State.Network.HardforkV2.AllowHeight
}

// spendable siacoin elements of an actor, in id order
func (bb *BlockBuilder) scCandidates(who int) []types.SiacoinElement {
	var out []types.SiacoinElement
	for _, id := range bb.L.SortedSCIDs() {
		e := bb.L.SCE[id]
		if e.SiacoinOutput.Address == Actors[who].Addr && e.MaturityHeight <= bb.Height && !bb.spentSC[id] {
			out = append(out, e)
		}
	}
	return out
}

func (bb *BlockBuilder) sfCandidates(who int) []types.SiafundElement {
	var out []types.SiafundElement
	for _, id := range bb.L.SortedSFIDs() {
		e := bb.L.SFE[id]
		if e.SiafundOutput.Address == Actors[who].Addr && !bb.spentSF[id] {
			out = append(out, e)
		}
	}
	return out
}

func (bb *BlockBuilder) ephCandidates(who int, v2 bool) []int {
	var out []int
	for i, e := range bb.eph {
		if e.owner == who && e.v2 == v2 && !bb.spentSC[e.id] {
			out = append(out, i)
		}
	}
	return out
}

func amountOf(v types.Currency, sel int) types.Currency {
	a := v.Mul64(uint64(mod(sel, 10) + 1)).Div64(12)
	if a.IsZero() {
		a = v
	}
	return a
}

func (bb *BlockBuilder) skip(in Intent, why string) {
	bb.Skipped = append(bb.Skipped, in.Kind+":"+why)
}

func signV1(cs consensus.State, txn *types.Transaction, signers map[types.Hash256]int) {
	// signers: parent id -> actor
	txn.Signatures = nil
	ids := make([]types.Hash256, 0, len(signers))
	for id := range signers {
		ids = append(ids, id)
	}
	sort.Slice(ids, func(i, j int) bool { return bytes.Compare(ids[i][:], ids[j][:]) < 0 })
	for _, id := range ids {
		txn.Signatures = append(txn.Signatures, types.TransactionSignature{ParentID: id, CoveredFields: types.CoveredFields{WholeTransaction: true}})
	}
	for i, id := range ids {
		h := cs.WholeSigHash(*txn, id, 0, 0, nil)
		sig := Actors[signers[id]].SK.SignHash(h)
		txn.Signatures[i].Signature = sig[:]
	}
}

func policyFor(who int) types.SpendPolicy {
	return types.SpendPolicy{Type: types.PolicyTypeUnlockConditions(Actors[who].UC)}
}

// SignV2 signs every siacoin and siafund input of txn with the owner's key.
func SignV2(cs consensus.State, txn *types.V2Transaction) {
	for i := range txn.SiacoinInputs {
		txn.SiacoinInputs[i].SatisfiedPolicy = types.SatisfiedPolicy{}
	}
	for i := range txn.SiafundInputs {
		txn.SiafundInputs[i].SatisfiedPolicy = types.SatisfiedPolicy{}
	}
	h := cs.InputSigHash(*txn)
	for i := range txn.SiacoinInputs {
		who := ActorOf(txn.SiacoinInputs[i].Parent.SiacoinOutput.Address)
		if who < 0 {
			continue
		}
		txn.SiacoinInputs[i].SatisfiedPolicy = types.SatisfiedPolicy{Policy: policyFor(who), Signatures: []types.Signature{Actors[who].SK.SignHash(h)}}
	}
	for i := range txn.SiafundInputs {
		who := ActorOf(txn.SiafundInputs[i].Parent.SiafundOutput.Address)
		if who < 0 {
			continue
		}
		txn.SiafundInputs[i].SatisfiedPolicy = types.SatisfiedPolicy{Policy: policyFor(who), Signatures: []types.Signature{Actors[who].SK.SignHash(h)}}
	}
}

func (bb *BlockBuilder) pickWindowEnd(want uint64) uint64 {
	if !bb.UniqueWindows {
		return want
	}
	for bb.L.UsedWindowEnds[want] || bb.usedWE[want] {
		want++
	}
	bb.usedWE[want] = true
	return want
}

// pickV1Input selects a siacoin input for a v1 transaction.
func (bb *BlockBuilder) pickV1Input(in Intent) (id types.SiacoinOutputID, out types.SiacoinOutput, ok bool) {
	who := mod(in.Who, NumActors)
	if in.Eph {
		if c := bb.ephCandidates(who, false); len(c) > 0 {
			e := bb.eph[c[mod(in.Pick, len(c))]]
			return e.id, e.out, true
		}
	}
	c := bb.scCandidates(who)
	if len(c) == 0 {
		return id, out, false
	}
	e := c[mod(in.Pick, len(c))]
	return e.ID, e.SiacoinOutput, true
}

func (bb *BlockBuilder) pickV2Input(in Intent) (types.SiacoinElement, bool) {
	who := mod(in.Who, NumActors)
	if in.Eph {
		if c := bb.ephCandidates(who, true); len(c) > 0 {
			e := bb.eph[c[mod(in.Pick, len(c))]]
			return types.SiacoinElement{ID: e.id, StateElement: types.StateElement{LeafIndex: types.UnassignedLeafIndex}, SiacoinOutput: e.out}, true
		}
	}
	c := bb.scCandidates(who)
	if len(c) == 0 {
		return types.SiacoinElement{}, false
	}
	return c[mod(in.Pick, len(c))].Copy(), true
}

func (bb *BlockBuilder) addV1(txn types.Transaction, kind string) {
	for i, o := range txn.SiacoinOutputs {
		bb.eph = append(bb.eph, ephOut{txn.SiacoinOutputID(i), o, ActorOf(o.Address), false})
	}
	for _, sci := range txn.SiacoinInputs {
		bb.spentSC[sci.ParentID] = true
	}
	for _, sfi := range txn.SiafundInputs {
		bb.spentSF[sfi.ParentID] = true
	}
	if len(txn.FileContracts) > 0 {
		bb.taxMoved = true
	}
	for i, fc := range txn.FileContracts {
		bb.ephFC = append(bb.ephFC, types.FileContractElement{ID: txn.FileContractID(i), FileContract: fc})
	}
	for i, o := range txn.SiafundOutputs {
		bb.ephSF1 = append(bb.ephSF1, ephSFOut{txn.SiafundOutputID(i), o, ActorOf(o.Address)})
	}
	for _, fcr := range txn.FileContractRevisions {
		bb.usedFC[fcr.ParentID] = true
	}
	bb.Txns = append(bb.Txns, txn)
	bb.TxnKinds = append(bb.TxnKinds, kind)
}

func (bb *BlockBuilder) addV2(txn types.V2Transaction, kind string) {
	txid := txn.ID()
	for i, o := range txn.SiacoinOutputs {
		bb.eph = append(bb.eph, ephOut{txn.SiacoinOutputID(txid, i), o, ActorOf(o.Address), true})
	}
	for _, sci := range txn.SiacoinInputs {
		bb.spentSC[sci.Parent.ID] = true
	}
	for _, sfi := range txn.SiafundInputs {
		bb.spentSF[sfi.Parent.ID] = true
	}
	for i, o := range txn.SiafundOutputs {
		bb.ephSF = append(bb.ephSF, ephSFOut{txn.SiafundOutputID(txid, i), o, ActorOf(o.Address)})
	}
	if len(txn.FileContracts) > 0 || len(txn.FileContractResolutions) > 0 {
		bb.taxMoved = true
	}
	bb.V2Txns = append(bb.V2Txns, txn)
	bb.V2TxnKinds = append(bb.V2TxnKinds, kind)
}

func feeOf(in Intent) types.Currency {
	if !in.Fee {
		return types.ZeroCurrency
	}
	return types.Siacoins(1).Div64(100).Mul64(uint64(1 + mod(in.A, 7)))
}

// v1 contract payout P with tax exactly representable: P = m * 10^7 hastings
func v1Payout(sel int) (payout, tax types.Currency) {
	m := uint64(1+mod(sel, 9)) * 1e6
	payout = types.NewCurrency64(m).Mul64(1e7)
	tax = types.NewCurrency64(m).Mul64(39).Mul64(1e4)
	return
}

// LeafData is the single 64-byte leaf every generated contract stores.
func LeafData(serial int) (leaf [64]byte) {
	h := sha256.Sum256([]byte(fmt.Sprintf("leaf-%d", serial)))
	copy(leaf[:], h[:])
	copy(leaf[32:], h[:])
	return
}

// v1LeafRoot is the Merkle root of a one-leaf v1 file.
func v1LeafRoot(leaf [64]byte) types.Hash256 {
	buf := make([]byte, 65)
	copy(buf[1:], leaf[:])
	return types.HashBytes(buf)
}

// Add resolves one intent; it reports whether a transaction was produced.
func (bb *BlockBuilder) Add(in Intent) bool {
	cs := bb.L.State
	who, to := mod(in.Who, NumActors), mod(in.To, NumActors)
	bb.serial++
	switch in.Kind {
	case "formprove":
		// a v1 contract formed and proven inside one block (its window opens
		// at this very height); where v1 is not allowed, an ordinary v2 formation
		gen := in
		if bb.v1Allowed() {
			gen.Kind = "v1formprove"
		} else {
			gen.Kind = "v2form"
		}
		bb.serial--
		return bb.Add(gen)
	case "sfchain":
		// a two-step siafund move inside one block: the second transaction
		// spends a siafund output the first one created
		g1 := in
		g1.Kind, g1.Eph = "sf", false
		bb.serial--
		if !bb.Add(g1) {
			return false
		}
		g2 := in
		g2.Kind, g2.Eph, g2.Who, g2.To = "sf", true, in.To, in.Who+1
		bb.Add(g2)
		return true
	case "pay", "sf", "form", "attest", "foundation", "arb", "merge":
		v2 := in.V2
		if v2 && !bb.v2Allowed() {
			v2 = false
		} else if !v2 && !bb.v1Allowed() {
			v2 = true
		}
		if in.Kind == "attest" || in.Kind == "foundation" || in.Kind == "arb" {
			v2 = true
		}
		gen := in
		if v2 {
			gen.Kind = "v2" + in.Kind
		} else {
			gen.Kind = "v1" + in.Kind
		}
		bb.serial--
		return bb.Add(gen)
	case "fcop":
		type cand struct {
			id  types.FileContractID
			ops []string
		}
		var cands []cand
		if bb.v1Allowed() && in.Eph {
			// a contract formed earlier in this block (or pool): only a revision
			// can follow its formation at the same height
			for _, e := range bb.ephFC {
				if !bb.usedFC[e.ID] && ActorOf(e.FileContract.UnlockHash) >= 0 {
					cands = append(cands, cand{e.ID, []string{"v1rev"}})
				}
			}
		}
		if bb.v1Allowed() && len(cands) == 0 {
			for _, id := range bb.L.SortedFCIDs() {
				e := bb.L.FCE[id]
				if bb.usedFC[id] {
					continue
				}
				if e.FileContract.WindowStart >= bb.Height && ActorOf(e.FileContract.UnlockHash) >= 0 {
					cands = append(cands, cand{id, []string{"v1rev"}})
				} else if e.FileContract.WindowStart >= 1 && e.FileContract.WindowStart <= bb.Height {
					cands = append(cands, cand{id, []string{"v1proof"}})
				}
			}
		}
		if bb.v2Allowed() {
			for _, id := range bb.L.SortedV2FCIDs() {
				e := bb.L.V2FCE[id]
				if bb.usedFC[id] {
					continue
				}
				fc := e.V2FileContract
				ops := []string{"v2renew"}
				if fc.ProofHeight >= bb.Height {
					ops = append(ops, "v2rev", "v2rev")
				}
				if _, ok := bb.L.CIE[fc.ProofHeight]; ok && bb.Height >= fc.ProofHeight && fc.ProofHeight <= bb.L.Height() {
					ops = append(ops, "v2proof", "v2proof")
				}
				if bb.Height > fc.ExpirationHeight {
					ops = append(ops, "v2expire", "v2expire")
				}
				cands = append(cands, cand{id, ops})
			}
		}
		if len(cands) == 0 {
			bb.skip(in, "no-contract")
			return false
		}
		// flatten to (contract, op) pairs; time-constrained operations (proofs,
		// expirations) are weighted up so that they happen while they can
		type pair struct {
			id types.FileContractID
			op string
		}
		var pairs []pair
		for _, c := range cands {
			for _, op := range c.ops {
				w := 1
				if op == "v1proof" || op == "v2proof" || op == "v2expire" {
					w = 3
				}
				for k := 0; k < w; k++ {
					pairs = append(pairs, pair{c.id, op})
				}
			}
		}
		pr := pairs[mod(in.Pick*7+in.A, len(pairs))]
		c := cand{id: pr.id}
		gen := in
		gen.Kind = pr.op
		gen.A = in.A / 3
		bb.onlyFC = &c.id
		bb.serial--
		ok := bb.Add(gen)
		bb.onlyFC = nil
		return ok
	}
	switch in.Kind {
	case "v1pay":
		if !bb.v1Allowed() {
			bb.skip(in, "regime")
			return false
		}
		id, out, ok := bb.pickV1Input(in)
		if !ok {
			bb.skip(in, "no-input")
			return false
		}
		fee := feeOf(in)
		if out.Value.Cmp(fee.Add(types.NewCurrency64(3))) <= 0 {
			bb.skip(in, "dust")
			return false
		}
		rest := out.Value.Sub(fee)
		amt := amountOf(rest, in.Amt)
		txn := types.Transaction{SiacoinInputs: []types.SiacoinInput{{ParentID: id, UnlockConditions: Actors[who].UC}}}
		txn.SiacoinOutputs = append(txn.SiacoinOutputs, types.SiacoinOutput{Address: Actors[to].Addr, Value: amt})
		if r := rest.Sub(amt); !r.IsZero() {
			if mod(in.B, 3) == 2 && r.Cmp(types.NewCurrency64(2)) > 0 {
				h := r.Div64(2)
				txn.SiacoinOutputs = append(txn.SiacoinOutputs, types.SiacoinOutput{Address: Actors[who].Addr, Value: h}, types.SiacoinOutput{Address: Actors[mod(to+1, NumActors)].Addr, Value: r.Sub(h)})
			} else {
				txn.SiacoinOutputs = append(txn.SiacoinOutputs, types.SiacoinOutput{Address: Actors[who].Addr, Value: r})
			}
		}
		if !fee.IsZero() {
			txn.MinerFees = []types.Currency{fee}
		}
		if in.Bad == 1 { // outputs exceed inputs
			txn.SiacoinOutputs[0].Value = txn.SiacoinOutputs[0].Value.Add(types.NewCurrency64(1))
		}
		signV1(cs, &txn, map[types.Hash256]int{types.Hash256(id): who})
		if in.Bad == 2 {
			txn.Signatures[0].Signature[3] ^= 0x40
		}
		bb.addV1(txn, in.Kind)
		return true

	case "v1merge":
		// two inputs (outputs created earlier in the block preferred when Eph is
		// set), one or two outputs: diamond-shaped dependencies among v1 sets
		if !bb.v1Allowed() {
			bb.skip(in, "regime")
			return false
		}
		type cand struct {
			id  types.SiacoinOutputID
			out types.SiacoinOutput
		}
		var ins []cand
		if in.Eph {
			for _, i := range bb.ephCandidates(who, false) {
				ins = append(ins, cand{bb.eph[i].id, bb.eph[i].out})
			}
		}
		for _, e := range bb.scCandidates(who) {
			ins = append(ins, cand{e.ID, e.SiacoinOutput})
		}
		if len(ins) < 2 {
			bb.skip(in, "no-input")
			return false
		}
		a := mod(in.Pick, len(ins))
		b := mod(in.Pick+1+mod(in.A, len(ins)-1), len(ins))
		if a == b {
			b = mod(a+1, len(ins))
		}
		sum := ins[a].out.Value.Add(ins[b].out.Value)
		amt := amountOf(sum, in.Amt)
		if amt.IsZero() {
			bb.skip(in, "dust")
			return false
		}
		txn := types.Transaction{SiacoinInputs: []types.SiacoinInput{{ParentID: ins[a].id, UnlockConditions: Actors[who].UC}, {ParentID: ins[b].id, UnlockConditions: Actors[who].UC}}}
		txn.SiacoinOutputs = append(txn.SiacoinOutputs, types.SiacoinOutput{Address: Actors[to].Addr, Value: amt})
		if r := sum.Sub(amt); !r.IsZero() {
			txn.SiacoinOutputs = append(txn.SiacoinOutputs, types.SiacoinOutput{Address: Actors[who].Addr, Value: r})
		}
		signV1(cs, &txn, map[types.Hash256]int{types.Hash256(ins[a].id): who, types.Hash256(ins[b].id): who})
		bb.addV1(txn, in.Kind)
		return true

	case "v1sf":
		if !bb.v1Allowed() {
			bb.skip(in, "regime")
			return false
		}
		c := bb.sfCandidates(who)
		kind := in.Kind
		if in.Eph {
			// a siafund output created earlier in this block / pool
			var ec []types.SiafundElement
			for _, o := range bb.ephSF1 {
				if o.owner == who && !bb.spentSF[o.id] {
					ec = append(ec, types.SiafundElement{ID: o.id, SiafundOutput: o.out})
				}
			}
			if len(ec) == 0 {
				// whoever owns one spends it
				for _, o := range bb.ephSF1 {
					if o.owner >= 0 && !bb.spentSF[o.id] {
						ec = append(ec, types.SiafundElement{ID: o.id, SiafundOutput: o.out})
						who = o.owner
						break
					}
				}
			}
			if len(ec) > 0 {
				c, kind = ec, "v1sf-eph"
			}
		}
		if len(c) == 0 {
			bb.skip(in, "no-input")
			return false
		}
		e := c[mod(in.Pick, len(c))]
		claim := Actors[mod(in.A, NumActors)].Addr
		txn := types.Transaction{SiafundInputs: []types.SiafundInput{{ParentID: e.ID, UnlockConditions: Actors[who].UC, ClaimAddress: claim}}}
		v := e.SiafundOutput.Value
		give := v * uint64(mod(in.Amt, 10)+1) / 12
		if give == 0 {
			give = v
		}
		txn.SiafundOutputs = append(txn.SiafundOutputs, types.SiafundOutput{Address: Actors[to].Addr, Value: give})
		if v > give {
			txn.SiafundOutputs = append(txn.SiafundOutputs, types.SiafundOutput{Address: Actors[who].Addr, Value: v - give})
		}
		signV1(cs, &txn, map[types.Hash256]int{types.Hash256(e.ID): who})
		bb.addV1(txn, kind)
		return true

	case "v1form", "v1formprove":
		if !bb.v1Allowed() {
			bb.skip(in, "regime")
			return false
		}
		id, out, ok := bb.pickV1Input(in)
		if !ok {
			bb.skip(in, "no-input")
			return false
		}
		payout, tax := v1Payout(in.Amt)
		fee := feeOf(in)
		if out.Value.Cmp(payout.Add(fee)) < 0 {
			bb.skip(in, "funds")
			return false
		}
		validSum := payout.Sub(tax)
		rv := validSum.Mul64(uint64(1 + mod(in.B, 3))).Div64(4)
		ws := bb.Height + uint64(1+mod(in.A, 4))
		we := bb.pickWindowEnd(ws + uint64(1+mod(in.A/4, 3)))
		if !bb.UniqueWindows {
			// shared-window mode: cluster window ends on multiples of three so
			// that expiration lists with several entries are common
			we = (bb.Height/3 + 2) * 3
			ws = we - 1 - uint64(mod(in.A, 2))
			if ws < bb.Height {
				ws = bb.Height
			}
		}
		fc := types.FileContract{
			WindowStart: ws, WindowEnd: we, Payout: payout, UnlockHash: Actors[who].Addr,
			ValidProofOutputs:  []types.SiacoinOutput{{Address: Actors[who].Addr, Value: rv}, {Address: Actors[to].Addr, Value: validSum.Sub(rv)}},
			MissedProofOutputs: []types.SiacoinOutput{{Address: Actors[who].Addr, Value: rv}, {Address: Actors[to].Addr, Value: validSum.Sub(rv).Div64(2)}, {Address: types.VoidAddress, Value: validSum.Sub(rv).Sub(validSum.Sub(rv).Div64(2))}},
		}
		var proofLeaf [64]byte
		if mod(in.Pick, 2) == 1 {
			leaf := LeafData(mod(in.Pick/2, 16))
			fc.Filesize = 64
			fc.FileMerkleRoot = v1LeafRoot(leaf)
			proofLeaf = leaf
		}
		if in.Kind == "v1formprove" && bb.Height >= 1 {
			// the window opens with this block: the proof can ride in it
			fc.WindowStart = bb.Height
			if fc.WindowEnd <= fc.WindowStart {
				fc.WindowEnd = fc.WindowStart + 1
			}
		}
		txn := types.Transaction{SiacoinInputs: []types.SiacoinInput{{ParentID: id, UnlockConditions: Actors[who].UC}}, FileContracts: []types.FileContract{fc}}
		if r := out.Value.Sub(payout).Sub(fee); !r.IsZero() {
			txn.SiacoinOutputs = []types.SiacoinOutput{{Address: Actors[who].Addr, Value: r}}
		}
		if !fee.IsZero() {
			txn.MinerFees = []types.Currency{fee}
		}
		signV1(cs, &txn, map[types.Hash256]int{types.Hash256(id): who})
		bb.addV1(txn, in.Kind)
		if in.Kind == "v1formprove" && bb.Height >= 1 {
			fcid := txn.FileContractID(0)
			bb.usedFC[fcid] = true
			bb.addV1(types.Transaction{StorageProofs: []types.StorageProof{{ParentID: fcid, Leaf: proofLeaf}}}, "v1proof")
		}
		return true

	case "v1rev":
		if !bb.v1Allowed() {
			bb.skip(in, "regime")
			return false
		}
		var c []types.FileContractElement
		for _, id := range bb.L.SortedFCIDs() {
			e := bb.L.FCE[id]
			if bb.onlyFC != nil && *bb.onlyFC != id {
				continue
			}
			if !bb.usedFC[id] && e.FileContract.WindowStart >= bb.Height && (ActorOf(e.FileContract.UnlockHash) >= 0) {
				c = append(c, e)
			}
		}
		if in.Eph || bb.onlyFC != nil {
			var ec []types.FileContractElement
			for _, e := range bb.ephFC {
				if bb.onlyFC != nil && *bb.onlyFC != e.ID {
					continue
				}
				if !bb.usedFC[e.ID] && ActorOf(e.FileContract.UnlockHash) >= 0 {
					ec = append(ec, e)
				}
			}
			if len(ec) > 0 {
				c = ec
			}
		}
		if len(c) == 0 {
			bb.skip(in, "no-contract")
			return false
		}
		e := c[mod(in.Pick, len(c))]
		owner := ActorOf(e.FileContract.UnlockHash)
		rev := e.FileContract
		rev.ValidProofOutputs = append([]types.SiacoinOutput(nil), rev.ValidProofOutputs...)
		rev.MissedProofOutputs = append([]types.SiacoinOutput(nil), rev.MissedProofOutputs...)
		rev.RevisionNumber++
		if in.Bad == 3 {
			rev.RevisionNumber = e.FileContract.RevisionNumber
		}
		if mod(in.A, 2) == 1 { // window change
			rev.WindowStart = maxU64(rev.WindowStart, bb.Height) + uint64(mod(in.B, 2))
			rev.WindowEnd = bb.pickWindowEnd(rev.WindowStart + uint64(1+mod(in.B/2, 3)))
			if !bb.UniqueWindows {
				rev.WindowEnd = (rev.WindowStart/3 + 1 + uint64(mod(in.B, 2))) * 3
			}
		}
		if mod(in.Amt, 2) == 1 && len(rev.ValidProofOutputs) == 2 { // move value renter -> host
			d := rev.ValidProofOutputs[0].Value.Div64(3)
			rev.ValidProofOutputs[0].Value = rev.ValidProofOutputs[0].Value.Sub(d)
			rev.ValidProofOutputs[1].Value = rev.ValidProofOutputs[1].Value.Add(d)
			rev.MissedProofOutputs[0].Value = rev.MissedProofOutputs[0].Value.Sub(d)
			rev.MissedProofOutputs[1].Value = rev.MissedProofOutputs[1].Value.Add(d)
		}
		txn := types.Transaction{FileContractRevisions: []types.FileContractRevision{{ParentID: e.ID, UnlockConditions: Actors[owner].UC, FileContract: rev}}}
		signV1(cs, &txn, map[types.Hash256]int{types.Hash256(e.ID): owner})
		bb.usedFC[e.ID] = true
		if _, confirmed := bb.L.FCE[e.ID]; !confirmed {
			bb.addV1(txn, "v1rev-eph")
			return true
		}
		bb.addV1(txn, in.Kind)
		return true

	case "v1proof":
		if !bb.v1Allowed() {
			bb.skip(in, "regime")
			return false
		}
		var c []types.FileContractElement
		for _, id := range bb.L.SortedFCIDs() {
			e := bb.L.FCE[id]
			if bb.onlyFC != nil && *bb.onlyFC != id {
				continue
			}
			if !bb.usedFC[id] && e.FileContract.WindowStart <= bb.Height && e.FileContract.WindowStart >= 1 {
				c = append(c, e)
			}
		}
		if len(c) == 0 {
			bb.skip(in, "no-open-window")
			return false
		}
		e := c[mod(in.Pick, len(c))]
		sp := types.StorageProof{ParentID: e.ID}
		if e.FileContract.Filesize == 64 {
			// find the leaf among the 16 the builder uses
			found := false
			for s := 0; s < 16 && !found; s++ {
				if l := LeafData(s); v1LeafRoot(l) == e.FileContract.FileMerkleRoot {
					sp.Leaf, found = l, true
				}
			}
		}
		if in.Bad == 4 {
			sp.Leaf[0] ^= 1
		}
		txn := types.Transaction{StorageProofs: []types.StorageProof{sp}}
		bb.usedFC[e.ID] = true
		bb.addV1(txn, in.Kind)
		return true

	case "v2pay", "v2arb", "v2attest", "v2foundation":
		if !bb.v2Allowed() {
			bb.skip(in, "regime")
			return false
		}
		if in.Kind == "v2foundation" {
			who = ActorOf(cs.FoundationManagementAddress)
			if who < 0 {
				bb.skip(in, "foundation-key")
				return false
			}
			in.Who = who
		}
		pe, ok := bb.pickV2Input(in)
		if !ok {
			bb.skip(in, "no-input")
			return false
		}
		fee := feeOf(in)
		if pe.SiacoinOutput.Value.Cmp(fee.Add(types.NewCurrency64(3))) <= 0 {
			bb.skip(in, "dust")
			return false
		}
		rest := pe.SiacoinOutput.Value.Sub(fee)
		amt := amountOf(rest, in.Amt)
		txn := types.V2Transaction{SiacoinInputs: []types.V2SiacoinInput{{Parent: pe}}, MinerFee: fee}
		txn.SiacoinOutputs = append(txn.SiacoinOutputs, types.SiacoinOutput{Address: Actors[to].Addr, Value: amt})
		if r := rest.Sub(amt); !r.IsZero() {
			txn.SiacoinOutputs = append(txn.SiacoinOutputs, types.SiacoinOutput{Address: Actors[who].Addr, Value: r})
		}
		switch in.Kind {
		case "v2arb":
			txn.ArbitraryData = []byte(fmt.Sprintf("arb-%d-%d", in.A, in.B))
		case "v2attest":
			a := types.Attestation{PublicKey: Actors[who].PK, Key: fmt.Sprintf("key-%d", in.A), Value: []byte{byte(in.B)}}
			a.Signature = Actors[who].SK.SignHash(cs.AttestationSigHash(a))
			txn.Attestations = []types.Attestation{a}
		case "v2foundation":
			na := Actors[mod(in.A, NumActors)].Addr
			txn.NewFoundationAddress = &na
		}
		if in.Bad == 1 {
			txn.SiacoinOutputs[0].Value = txn.SiacoinOutputs[0].Value.Add(types.NewCurrency64(1))
		}
		if in.Bad == 5 && len(txn.SiacoinInputs[0].Parent.StateElement.MerkleProof) > 0 {
			txn.SiacoinInputs[0].Parent.StateElement.MerkleProof[0][0] ^= 1
		}
		if in.Bad == 6 && txn.SiacoinInputs[0].Parent.StateElement.LeafIndex != types.UnassignedLeafIndex {
			txn.SiacoinInputs[0].Parent.StateElement.LeafIndex ^= 1
		}
		SignV2(cs, &txn)
		if in.Bad == 2 {
			txn.SiacoinInputs[0].SatisfiedPolicy.Signatures[0][5] ^= 0x10
		}
		bb.addV2(txn, in.Kind)
		return true

	case "v2merge":
		// two inputs (ephemeral ones preferred when Eph is set), one output:
		// gives transaction sets diamond-shaped dependencies
		if !bb.v2Allowed() {
			bb.skip(in, "regime")
			return false
		}
		var ins []types.SiacoinElement
		if in.Eph {
			for _, i := range bb.ephCandidates(who, true) {
				e := bb.eph[i]
				ins = append(ins, types.SiacoinElement{ID: e.id, StateElement: types.StateElement{LeafIndex: types.UnassignedLeafIndex}, SiacoinOutput: e.out})
			}
		}
		for _, e := range bb.scCandidates(who) {
			ins = append(ins, e.Copy())
		}
		if len(ins) < 2 {
			bb.skip(in, "no-input")
			return false
		}
		a := mod(in.Pick, len(ins))
		b := mod(in.Pick+1+mod(in.A, len(ins)-1), len(ins))
		if a == b {
			b = mod(a+1, len(ins))
		}
		txn := types.V2Transaction{SiacoinInputs: []types.V2SiacoinInput{{Parent: ins[a]}, {Parent: ins[b]}}}
		sum := ins[a].SiacoinOutput.Value.Add(ins[b].SiacoinOutput.Value)
		amt := amountOf(sum, in.Amt)
		if amt.IsZero() {
			bb.skip(in, "dust")
			return false
		}
		txn.SiacoinOutputs = append(txn.SiacoinOutputs, types.SiacoinOutput{Address: Actors[to].Addr, Value: amt})
		if r := sum.Sub(amt); !r.IsZero() {
			txn.SiacoinOutputs = append(txn.SiacoinOutputs, types.SiacoinOutput{Address: Actors[who].Addr, Value: r})
		}
		SignV2(cs, &txn)
		bb.addV2(txn, in.Kind)
		return true

	case "v2sf":
		if !bb.v2Allowed() {
			bb.skip(in, "regime")
			return false
		}
		var e types.SiafundElement
		picked := false
		if in.Eph && !bb.taxMoved && cs.Index.Height+1 < cs.Network.HardforkV2.EphemeralOutputHeight {
			// a siafund output created earlier in this block / set
			var ec []ephSFOut
			for _, o := range bb.ephSF {
				if o.owner == who && !bb.spentSF[o.id] {
					ec = append(ec, o)
				}
			}
			if len(ec) > 0 {
				o := ec[mod(in.Pick, len(ec))]
				e = types.SiafundElement{ID: o.id, StateElement: types.StateElement{LeafIndex: types.UnassignedLeafIndex}, SiafundOutput: o.out, ClaimStart: cs.SiafundTaxRevenue}
				picked = true
			}
		}
		if !picked {
			c := bb.sfCandidates(who)
			if len(c) == 0 {
				bb.skip(in, "no-input")
				return false
			}
			e = c[mod(in.Pick, len(c))].Copy()
		}
		v := e.SiafundOutput.Value
		give := v * uint64(mod(in.Amt, 10)+1) / 12
		if give == 0 {
			give = v
		}
		txn := types.V2Transaction{SiafundInputs: []types.V2SiafundInput{{Parent: e, ClaimAddress: Actors[mod(in.A, NumActors)].Addr}}}
		txn.SiafundOutputs = append(txn.SiafundOutputs, types.SiafundOutput{Address: Actors[to].Addr, Value: give})
		if v > give {
			txn.SiafundOutputs = append(txn.SiafundOutputs, types.SiafundOutput{Address: Actors[who].Addr, Value: v - give})
		}
		SignV2(cs, &txn)
		bb.addV2(txn, in.Kind)
		return true

	case "v2form":
		if !bb.v2Allowed() {
			bb.skip(in, "regime")
			return false
		}
		pe, ok := bb.pickV2Input(in)
		if !ok {
			bb.skip(in, "no-input")
			return false
		}
		fc := bb.newV2Contract(in, who, to)
		cost := fc.RenterOutput.Value.Add(fc.HostOutput.Value).Add(cs.V2FileContractTax(fc))
		fee := feeOf(in)
		if pe.SiacoinOutput.Value.Cmp(cost.Add(fee)) < 0 {
			bb.skip(in, "funds")
			return false
		}
		txn := types.V2Transaction{SiacoinInputs: []types.V2SiacoinInput{{Parent: pe}}, FileContracts: []types.V2FileContract{fc}, MinerFee: fee}
		if r := pe.SiacoinOutput.Value.Sub(cost).Sub(fee); !r.IsZero() {
			txn.SiacoinOutputs = []types.SiacoinOutput{{Address: Actors[who].Addr, Value: r}}
		}
		SignV2(cs, &txn)
		bb.addV2(txn, in.Kind)
		return true

	case "v2rev", "v2renew", "v2proof", "v2expire":
		if !bb.v2Allowed() {
			bb.skip(in, "regime")
			return false
		}
		var c []types.V2FileContractElement
		for _, id := range bb.L.SortedV2FCIDs() {
			e := bb.L.V2FCE[id]
			if bb.usedFC[id] || (bb.onlyFC != nil && *bb.onlyFC != id) {
				continue
			}
			fc := e.V2FileContract
			switch in.Kind {
			case "v2rev":
				if fc.ProofHeight >= bb.Height {
					c = append(c, e)
				}
			case "v2renew":
				c = append(c, e)
			case "v2proof":
				if bb.Height >= fc.ProofHeight && fc.ProofHeight <= bb.L.Height() {
					if _, ok := bb.L.CIE[fc.ProofHeight]; ok {
						c = append(c, e)
					}
				}
			case "v2expire":
				if bb.Height > fc.ExpirationHeight {
					c = append(c, e)
				}
			}
		}
		if len(c) == 0 {
			bb.skip(in, "no-contract")
			return false
		}
		e := c[mod(in.Pick, len(c))].Copy()
		fc := e.V2FileContract
		renter, host := actorOfKey(fc.RenterPublicKey), actorOfKey(fc.HostPublicKey)
		if renter < 0 || host < 0 {
			bb.skip(in, "foreign-keys")
			return false
		}
		var txn types.V2Transaction
		switch in.Kind {
		case "v2rev":
			rev := fc
			rev.RevisionNumber++
			if in.Bad == 3 {
				rev.RevisionNumber = fc.RevisionNumber
			}
			if mod(in.Amt, 2) == 1 {
				d := rev.RenterOutput.Value.Div64(4)
				rev.RenterOutput.Value = rev.RenterOutput.Value.Sub(d)
				rev.HostOutput.Value = rev.HostOutput.Value.Add(d)
			}
			if mod(in.A, 3) == 1 {
				rev.ProofHeight = maxU64(rev.ProofHeight, bb.Height) + uint64(mod(in.B, 2))
				rev.ExpirationHeight = rev.ProofHeight + uint64(1+mod(in.B/2, 3))
			}
			signContract(cs, &rev, renter, host)
			txn.FileContractRevisions = []types.V2FileContractRevision{{Parent: e, Revision: rev}}
		case "v2renew":
			nc := bb.newV2Contract(in, renter, host)
			nc.RenterOutput.Value = fc.RenterOutput.Value
			nc.HostOutput.Value = fc.HostOutput.Value
			nc.MissedHostValue = fc.HostOutput.Value
			nc.TotalCollateral = types.ZeroCurrency
			signContract(cs, &nc, renter, host)
			ren := types.V2FileContractRenewal{NewContract: nc}
			// roll part of each side over, pay the rest out
			ren.RenterRollover = fc.RenterOutput.Value.Mul64(uint64(mod(in.Amt, 3))).Div64(2)
			ren.HostRollover = fc.HostOutput.Value.Mul64(uint64(mod(in.A, 3))).Div64(2)
			ren.FinalRenterOutput = types.SiacoinOutput{Address: fc.RenterOutput.Address, Value: fc.RenterOutput.Value.Sub(ren.RenterRollover)}
			ren.FinalHostOutput = types.SiacoinOutput{Address: fc.HostOutput.Address, Value: fc.HostOutput.Value.Sub(ren.HostRollover)}
			cost := nc.RenterOutput.Value.Add(nc.HostOutput.Value).Add(cs.V2FileContractTax(nc))
			need := cost.Sub(ren.RenterRollover.Add(ren.HostRollover))
			in2 := in
			in2.Who = renter
			in2.Eph = false
			pe, ok := bb.pickV2Input(in2)
			if !ok || pe.SiacoinOutput.Value.Cmp(need) < 0 {
				bb.skip(in, "funds")
				return false
			}
			txn.SiacoinInputs = []types.V2SiacoinInput{{Parent: pe}}
			if r := pe.SiacoinOutput.Value.Sub(need); !r.IsZero() {
				txn.SiacoinOutputs = []types.SiacoinOutput{{Address: Actors[renter].Addr, Value: r}}
			}
			h := cs.RenewalSigHash(ren)
			ren.RenterSignature = Actors[renter].SK.SignHash(h)
			ren.HostSignature = Actors[host].SK.SignHash(h)
			txn.FileContractResolutions = []types.V2FileContractResolution{{Parent: e, Resolution: &ren}}
		case "v2proof":
			sp := types.V2StorageProof{ProofIndex: bb.L.CIE[fc.ProofHeight].Copy()}
			for s := 0; s < 16; s++ {
				if l := LeafData(s); cs.StorageProofLeafHash(l[:]) == fc.FileMerkleRoot {
					sp.Leaf = l
					break
				}
			}
			if in.Bad == 4 {
				sp.Leaf[1] ^= 1
			}
			txn.FileContractResolutions = []types.V2FileContractResolution{{Parent: e, Resolution: &sp}}
		case "v2expire":
			txn.FileContractResolutions = []types.V2FileContractResolution{{Parent: e, Resolution: &types.V2FileContractExpiration{}}}
		}
		SignV2(cs, &txn)
		bb.usedFC[e.ID] = true
		bb.addV2(txn, in.Kind)
		return true
	}
	bb.skip(in, "unknown-kind")
	return false
}

func actorOfKey(pk types.PublicKey) int {
	for i, a := range Actors {
		if a.PK == pk {
			return i
		}
	}
	return -1
}

func signContract(cs consensus.State, fc *types.V2FileContract, renter, host int) {
	fc.RenterSignature, fc.HostSignature = types.Signature{}, types.Signature{}
	h := cs.ContractSigHash(*fc)
	fc.RenterSignature = Actors[renter].SK.SignHash(h)
	fc.HostSignature = Actors[host].SK.SignHash(h)
}

func (bb *BlockBuilder) newV2Contract(in Intent, renter, host int) types.V2FileContract {
	leaf := LeafData(mod(in.Pick, 16))
	unit := types.Siacoins(uint32(1 + mod(in.Amt, 5)))
	fc := types.V2FileContract{
		Capacity: 64, Filesize: 64, FileMerkleRoot: bb.L.State.StorageProofLeafHash(leaf[:]),
		ProofHeight:     bb.Height + uint64(1+mod(in.A, 4)),
		RenterOutput:    types.SiacoinOutput{Address: Actors[renter].Addr, Value: unit.Mul64(2)},
		HostOutput:      types.SiacoinOutput{Address: Actors[host].Addr, Value: unit},
		MissedHostValue: unit.Div64(2),
		TotalCollateral: unit.Div64(2),
		RenterPublicKey: Actors[renter].PK,
		HostPublicKey:   Actors[host].PK,
	}
	fc.ExpirationHeight = fc.ProofHeight + uint64(1+mod(in.B, 3))
	signContract(bb.L.State, &fc, renter, host)
	return fc
}

func maxU64(a, b uint64) uint64 {
	if a > b {
		return a
	}
	return b
}

// ---------------------------------------------------------------- blocks

// Grind sets the nonce of b so that it meets (ok=true) or misses (ok=false)
// the proof-of-work target of parent state cs. When no missing nonce is found
// quickly (the target can be the easiest possible), the nonce is instead made
// indivisible by the required factor, which is just as invalid.
func Grind(cs consensus.State, b *types.Block, ok bool) {
	factor := cs.NonceFactor()
	// keep the salt part of the nonce (see AssembleBlock): distinct tree nodes
	// get distinct ids even when parent, timestamp, miner and transactions agree
	b.Nonce = (b.Nonce / (factor << 24)) * (factor << 24)
	limit := 1 << 22
	if !ok {
		limit = 4096
	}
	for i := 0; i < limit; i++ {
		if (b.ID().CmpWork(cs.PoWTarget()) >= 0) == ok {
			return
		}
		b.Nonce += factor
	}
	if ok {
		panic("kit: cannot grind nonce")
	}
	if factor > 1 {
		b.Nonce += factor + 1
	}
}

// AssembleBlock builds a block with the given transactions on parent state cs.
func AssembleBlock(cs consensus.State, ts time.Time, miner types.Address, txns []types.Transaction, v2txns []types.V2Transaction, salt uint64) types.Block {
	b := types.Block{ParentID: cs.Index.ID, Timestamp: ts, MinerPayouts: []types.SiacoinOutput{{Address: miner, Value: cs.BlockReward()}}, Transactions: txns}
	for _, t := range txns {
		b.MinerPayouts[0].Value = b.MinerPayouts[0].Value.Add(t.TotalFees())
	}
	h := cs.Index.Height + 1
	if h >= cs.Network.HardforkV2.AllowHeight {
		b.V2 = &types.V2BlockData{Height: h, Transactions: v2txns}
		for _, t := range v2txns {
			b.MinerPayouts[0].Value = b.MinerPayouts[0].Value.Add(t.MinerFee)
		}
		b.V2.Commitment = cs.Commitment(miner, b.Transactions, b.V2Transactions())
	}
	b.Nonce = (salt + 1) * (cs.NonceFactor() << 24)
	Grind(cs, &b, true)
	return b
}

// Recommit recomputes the v2 commitment (after transactions were altered) and
// re-grinds the nonce.
func Recommit(cs consensus.State, b *types.Block) {
	if b.V2 != nil {
		b.V2.Commitment = cs.Commitment(b.MinerPayouts[0].Address, b.Transactions, b.V2Transactions())
	}
	Grind(cs, b, true)
}

// Absorb makes the builder treat the given (pooled) transactions as if they
// came earlier in the block: their inputs count as spent and their siacoin
// outputs can be spent as ephemeral outputs. Nothing is added to the block.
func (bb *BlockBuilder) Absorb(txns []types.Transaction, v2txns []types.V2Transaction) {
	for _, txn := range txns {
		if len(txn.FileContracts) > 0 {
			bb.taxMoved = true
		}
		for i, fc := range txn.FileContracts {
			bb.ephFC = append(bb.ephFC, types.FileContractElement{ID: txn.FileContractID(i), FileContract: fc})
		}
		for i, o := range txn.SiafundOutputs {
			bb.ephSF1 = append(bb.ephSF1, ephSFOut{txn.SiafundOutputID(i), o, ActorOf(o.Address)})
		}
		for i, o := range txn.SiacoinOutputs {
			bb.eph = append(bb.eph, ephOut{txn.SiacoinOutputID(i), o, ActorOf(o.Address), false})
		}
		for _, sci := range txn.SiacoinInputs {
			bb.spentSC[sci.ParentID] = true
		}
		for _, sfi := range txn.SiafundInputs {
			bb.spentSF[sfi.ParentID] = true
		}
		for _, fcr := range txn.FileContractRevisions {
			bb.usedFC[fcr.ParentID] = true
		}
		for _, sp := range txn.StorageProofs {
			bb.usedFC[sp.ParentID] = true
		}
	}
	for _, txn := range v2txns {
		txid := txn.ID()
		for i, o := range txn.SiacoinOutputs {
			bb.eph = append(bb.eph, ephOut{txn.SiacoinOutputID(txid, i), o, ActorOf(o.Address), true})
		}
		for _, sci := range txn.SiacoinInputs {
			bb.spentSC[sci.Parent.ID] = true
		}
		for _, sfi := range txn.SiafundInputs {
			bb.spentSF[sfi.Parent.ID] = true
		}
		for i, o := range txn.SiafundOutputs {
			bb.ephSF = append(bb.ephSF, ephSFOut{txn.SiafundOutputID(txid, i), o, ActorOf(o.Address)})
		}
		if len(txn.FileContracts) > 0 || len(txn.FileContractResolutions) > 0 {
			bb.taxMoved = true
		}
		for _, fcr := range txn.FileContractRevisions {
			bb.usedFC[fcr.Parent.ID] = true
		}
		for _, fcr := range txn.FileContractResolutions {
			bb.usedFC[fcr.Parent.ID] = true
		}
	}
}

// Reset drops the transactions built so far but keeps the spent/ephemeral
// bookkeeping (used to build several sets against one pool).
func (bb *BlockBuilder) Reset() {
	bb.Txns, bb.V2Txns, bb.TxnKinds, bb.V2TxnKinds = nil, nil, nil, nil
}

// DropEphemeral forgets the ephemeral outputs absorbed so far (their
// creating transactions are not part of what is being built).
func (bb *BlockBuilder) DropEphemeral() { bb.eph, bb.ephSF, bb.ephFC, bb.ephSF1 = nil, nil, nil, nil }

// V1Spend builds a signed v1 transaction moving the whole element to another actor.
func V1Spend(cs consensus.State, e types.SiacoinElement, who, to int, tag int) types.Transaction {
	txn := types.Transaction{
		SiacoinInputs:  []types.SiacoinInput{{ParentID: e.ID, UnlockConditions: Actors[who].UC}},
		SiacoinOutputs: []types.SiacoinOutput{{Address: Actors[to].Addr, Value: e.SiacoinOutput.Value}},
		ArbitraryData:  [][]byte{[]byte(fmt.Sprintf("NonSia-conflict-%d", tag))},
	}
	signV1(cs, &txn, map[types.Hash256]int{types.Hash256(e.ID): who})
	return txn
}

// CopyV1 deep-copies a v1 transaction through its encoding.
func CopyV1(t types.Transaction) types.Transaction { return copyV1Txns([]types.Transaction{t})[0] }

// V1SpendMany builds a signed v1 transaction of actor `who` spending all the
// given elements to one output of actor `to`, paying `fee`.
func V1SpendMany(cs consensus.State, elems []types.SiacoinElement, who, to int, fee types.Currency, tag int) types.Transaction {
	var sum types.Currency
	txn := types.Transaction{ArbitraryData: [][]byte{[]byte(fmt.Sprintf("NonSia-many-%d", tag))}}
	signers := map[types.Hash256]int{}
	for _, e := range elems {
		txn.SiacoinInputs = append(txn.SiacoinInputs, types.SiacoinInput{ParentID: e.ID, UnlockConditions: Actors[who].UC})
		sum = sum.Add(e.SiacoinOutput.Value)
		signers[types.Hash256(e.ID)] = who
	}
	txn.SiacoinOutputs = []types.SiacoinOutput{{Address: Actors[to].Addr, Value: sum.Sub(fee)}}
	if !fee.IsZero() {
		txn.MinerFees = []types.Currency{fee}
	}
	signV1(cs, &txn, signers)
	return txn
}

// V2SpendMany is the v2 counterpart (elements carry their proofs as of cs).
func V2SpendMany(cs consensus.State, elems []types.SiacoinElement, to int, fee types.Currency, tag int) types.V2Transaction {
	var sum types.Currency
	txn := types.V2Transaction{ArbitraryData: []byte(fmt.Sprintf("many-%d", tag)), MinerFee: fee}
	for _, e := range elems {
		txn.SiacoinInputs = append(txn.SiacoinInputs, types.V2SiacoinInput{Parent: e.Copy()})
		sum = sum.Add(e.SiacoinOutput.Value)
	}
	txn.SiacoinOutputs = []types.SiacoinOutput{{Address: Actors[to].Addr, Value: sum.Sub(fee)}}
	SignV2(cs, &txn)
	return txn
}

// V1SpendPadded is V1SpendMany for one element with `pad` bytes of arbitrary
// data (to give the transaction a chosen weight).
func V1SpendPadded(cs consensus.State, e types.SiacoinElement, who, to int, fee types.Currency, pad int, tag int) types.Transaction {
	txn := types.Transaction{
		SiacoinInputs:  []types.SiacoinInput{{ParentID: e.ID, UnlockConditions: Actors[who].UC}},
		SiacoinOutputs: []types.SiacoinOutput{{Address: Actors[to].Addr, Value: e.SiacoinOutput.Value.Sub(fee)}},
	}
	if !fee.IsZero() {
		txn.MinerFees = []types.Currency{fee}
	}
	data := make([]byte, pad)
	copy(data, []byte(fmt.Sprintf("NonSia-pad-%d", tag)))
	txn.ArbitraryData = [][]byte{data}
	signV1(cs, &txn, map[types.Hash256]int{types.Hash256(e.ID): who})
	return txn
}
