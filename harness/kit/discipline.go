package kit

import (
	"fmt"

	"go.sia.tech/core/consensus"
	"go.sia.tech/core/types"
)

// ChainOp is one apply or revert the store performed.
type ChainOp struct {
	Apply bool
	ID    types.BlockID // the block applied or reverted
}

// OpRecorder hooks a node's store and records every single apply / revert in
// the order the store saw them.
type OpRecorder struct {
	Ops  []ChainOp
	last types.BlockID
}

// Attach installs the recorder on the node (flush injection, if any, must be
// composed by the caller through Also).
func (r *OpRecorder) Attach(n *Node, also func(apply bool, cs consensus.State) bool) {
	r.last = n.CM.Tip().ID
	n.Hooked.AfterApply = func(cs consensus.State) bool {
		r.Ops = append(r.Ops, ChainOp{Apply: true, ID: cs.Index.ID})
		r.last = cs.Index.ID
		return also != nil && also(true, cs)
	}
	n.Hooked.AfterRevert = func(cs consensus.State) bool {
		r.Ops = append(r.Ops, ChainOp{Apply: false, ID: r.last})
		r.last = cs.Index.ID
		return also != nil && also(false, cs)
	}
}

// Discipline is the documented list discipline of the v1 expiration lists:
// append when a block adds a contract to a height, swap-remove (last element
// moves into the hole) when a block removes it, prepend when a revert puts it
// back; revert diffs are processed in reverse order. It is driven by the exact
// sequence of applies and reverts the node performed.
type Discipline struct {
	Lists map[uint64][]types.FileContractID
	// applied remembers, per block, the diffs in the order the block was
	// applied with (the store reverts a block with the supplement it stored
	// when applying it).
	applied map[types.BlockID][]consensus.FileContractElementDiff
}

// NewDiscipline returns the empty model.
func NewDiscipline() *Discipline {
	return &Discipline{Lists: map[uint64][]types.FileContractID{}, applied: map[types.BlockID][]consensus.FileContractElementDiff{}}
}

func (d *Discipline) remove(h uint64, id types.FileContractID) error {
	l := d.Lists[h]
	for i := range l {
		if l[i] == id {
			l[i] = l[len(l)-1]
			d.Lists[h] = l[:len(l)-1]
			if len(d.Lists[h]) == 0 {
				delete(d.Lists, h)
			}
			return nil
		}
	}
	return fmt.Errorf("discipline: contract %v not in list %d", id, h)
}

// diffsInNodeOrder returns the v1 contract diffs of a block with the expiry
// diffs (which core emits in supplement order) rearranged to the order the
// node's list has.
func (d *Discipline) diffsInNodeOrder(tn *TNode) []consensus.FileContractElementDiff {
	diffs := tn.Ledger.FCDiffs
	expired := map[types.FileContractID]consensus.FileContractElementDiff{}
	var out []consensus.FileContractElementDiff
	for _, fd := range diffs {
		if fd.Resolved && !fd.Valid && fd.FileContractElement.FileContract.WindowEnd == tn.Height && !fd.Created {
			// could be a natural expiry (from the supplement) - those come last
			expired[fd.FileContractElement.ID] = fd
			continue
		}
		out = append(out, fd)
	}
	for _, id := range d.Lists[tn.Height] {
		if fd, ok := expired[id]; ok {
			out = append(out, fd)
			delete(expired, id)
		}
	}
	for _, fd := range diffs { // anything left (keeps the model total)
		if _, ok := expired[fd.FileContractElement.ID]; ok {
			out = append(out, fd)
			delete(expired, fd.FileContractElement.ID)
		}
	}
	return out
}

// Step applies one store operation to the model.
func (d *Discipline) Step(t *Tree, op ChainOp) error {
	tn := t.ByID[op.ID]
	if tn == nil || tn.Ledger == nil {
		return fmt.Errorf("discipline: store applied/reverted block %v that has no reference ledger", op.ID)
	}
	if tn.Height > t.Network.HardforkV2.RequireHeight {
		return nil // the store does not maintain v1 elements above the require height
	}
	if op.Apply {
		diffs := d.diffsInNodeOrder(tn)
		d.applied[op.ID] = diffs
		for _, fd := range diffs {
			fce := fd.FileContractElement
			switch {
			case fd.Created && fd.Resolved:
			case fd.Resolved:
				if err := d.remove(fce.FileContract.WindowEnd, fce.ID); err != nil {
					return err
				}
			case fd.Revision != nil:
				if fd.Revision.WindowEnd != fce.FileContract.WindowEnd {
					if err := d.remove(fce.FileContract.WindowEnd, fce.ID); err != nil {
						return err
					}
					d.Lists[fd.Revision.WindowEnd] = append(d.Lists[fd.Revision.WindowEnd], fce.ID)
				}
			default:
				d.Lists[fce.FileContract.WindowEnd] = append(d.Lists[fce.FileContract.WindowEnd], fce.ID)
			}
		}
		return nil
	}
	// revert: the diffs of the block as the store applied it, reversed
	diffs, ok := d.applied[op.ID]
	if !ok {
		return fmt.Errorf("discipline: revert of block %v that was never applied", op.ID)
	}
	for i := len(diffs) - 1; i >= 0; i-- {
		fd := diffs[i]
		fce := fd.FileContractElement
		switch {
		case fd.Created && fd.Resolved:
		case fd.Resolved:
			d.Lists[fce.FileContract.WindowEnd] = append([]types.FileContractID{fce.ID}, d.Lists[fce.FileContract.WindowEnd]...)
		case fd.Revision != nil:
			if fd.Revision.WindowEnd != fce.FileContract.WindowEnd {
				if err := d.remove(fd.Revision.WindowEnd, fce.ID); err != nil {
					return err
				}
				d.Lists[fce.FileContract.WindowEnd] = append([]types.FileContractID{fce.ID}, d.Lists[fce.FileContract.WindowEnd]...)
			}
		default:
			if err := d.remove(fce.FileContract.WindowEnd, fce.ID); err != nil {
				return err
			}
		}
	}
	return nil
}

// EqualLists compares the model with per-height lists.
func (d *Discipline) EqualLists(other map[uint64][]types.FileContractID) (uint64, bool) {
	for h, l := range d.Lists {
		if fmt.Sprint(l) != fmt.Sprint(other[h]) {
			return h, false
		}
	}
	for h, l := range other {
		if len(l) > 0 && len(d.Lists[h]) == 0 {
			return h, false
		}
	}
	return 0, true
}
