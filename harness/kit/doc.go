// Package kit holds the shared plumbing of the verification harness.
package kit

import _ "pgregory.net/rapid"
import _ "go.sia.tech/coreutils/chain"
