package kit

import "pgregory.net/rapid"

// rapid's integer generators are heavily biased towards small and boundary
// values (IntRange(0,99) returns 0 or 1 in 20% of the draws), which is what
// one wants for sizes but not for probabilities. The helpers below build
// calibrated choices from fair coin flips (rapid.Bool is fair); they still go
// through rapid, so shrinking and replay work, and they shrink towards "the
// event does not happen" / index 0.

// Uniform draws an integer uniformly from [0, n).
func Uniform(t *rapid.T, n int, label string) int {
	if n <= 1 {
		return 0
	}
	bits := 0
	for (1 << bits) < n*8 { // 3 extra bits keep the modulo bias below 1/8 of a step
		bits++
	}
	v := 0
	for i := 0; i < bits; i++ {
		v <<= 1
		if rapid.Bool().Draw(t, label) {
			v |= 1
		}
	}
	return v % n
}

// Chance reports an event with the given probability in percent.
func Chance(t *rapid.T, pct int, label string) bool {
	if pct <= 0 {
		return false
	}
	return Uniform(t, 1000, label) >= 1000-pct*10
}

// PickString draws uniformly from a list.
func PickString(t *rapid.T, xs []string, label string) string {
	return xs[Uniform(t, len(xs), label)]
}
