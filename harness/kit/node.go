package kit

import (
	"bytes"
	"encoding/binary"
	"fmt"
	"sort"
	"strings"

	"go.sia.tech/core/consensus"
	"go.sia.tech/core/types"
	"go.sia.tech/coreutils/chain"

	"verif/kvm"
	"verif/refl"
)

// Node is a chain manager under test with its store and backend.
type Node struct {
	Tree    *Tree
	Backend *kvm.Backend
	Store   *chain.DBStore
	Hooked  *HookStore
	CM      *chain.Manager
	// Known records every block id that was ever handed to the node.
	Submitted map[types.BlockID]bool
	MaxHeight uint64
}

// HookStore wraps a DBStore so that the harness can observe every single
// apply/revert and inject a Flush right after it - exactly what the store's own
// time/size based rule does in production.
type HookStore struct {
	*chain.DBStore
	// AfterApply / AfterRevert are called after the inner call returned; the
	// argument is the new tip state. Returning true makes the wrapper flush.
	AfterApply  func(cs consensus.State) bool
	AfterRevert func(cs consensus.State) bool
	// AfterFlush is called after every completed flush (natural or injected).
	AfterFlush func()
}

// ApplyBlock implements chain.Store.
func (h *HookStore) ApplyBlock(s consensus.State, cau consensus.ApplyUpdate) {
	h.DBStore.ApplyBlock(s, cau)
	if h.AfterApply != nil && h.AfterApply(s) {
		if err := h.DBStore.Flush(); err != nil {
			panic(err)
		}
		if h.AfterFlush != nil {
			h.AfterFlush()
		}
	}
}

// RevertBlock implements chain.Store.
func (h *HookStore) RevertBlock(s consensus.State, cru consensus.RevertUpdate) {
	h.DBStore.RevertBlock(s, cru)
	if h.AfterRevert != nil && h.AfterRevert(s) {
		if err := h.DBStore.Flush(); err != nil {
			panic(err)
		}
		if h.AfterFlush != nil {
			h.AfterFlush()
		}
	}
}

// Flush implements chain.Store.
func (h *HookStore) Flush() error {
	err := h.DBStore.Flush()
	if h.AfterFlush != nil {
		h.AfterFlush()
	}
	return err
}

// NewNode creates a fresh node for the tree on the named backend.
func NewNode(t *Tree, backend string) (*Node, error) {
	be, err := kvm.NewBackend(backend)
	if err != nil {
		return nil, err
	}
	return OpenNode(t, be)
}

// OpenNode opens (or initialises) a node over an existing backend.
func OpenNode(t *Tree, be *kvm.Backend) (*Node, error) {
	store, tip, err := chain.NewDBStore(be.DB, t.Network, t.Genesis, nil)
	if err != nil {
		return nil, err
	}
	hs := &HookStore{DBStore: store}
	var opts []chain.ManagerOption
	if len(t.OrderOverride) > 0 {
		opts = append(opts, chain.WithExpiringContractOrder(t.OrderOverride))
	}
	return &Node{Tree: t, Backend: be, Store: store, Hooked: hs, CM: chain.NewManager(hs, tip, opts...), Submitted: map[types.BlockID]bool{}, MaxHeight: tip.Index.Height}, nil
}

// Close releases the backend.
func (n *Node) Close() {
	if n.Backend != nil {
		n.Backend.Close()
	}
}

// Submit hands blocks to AddBlocks and records them.
func (n *Node) Submit(blocks []types.Block) error {
	for _, b := range blocks {
		n.Submitted[b.ID()] = true
	}
	err := n.CM.AddBlocks(blocks)
	if h := n.CM.Tip().Height; h > n.MaxHeight {
		n.MaxHeight = h
	}
	return err
}

// TipNode returns the tree node of the manager's tip (nil if unknown).
// ValidatedParent reports whether a block may serve as the parent of a batch
// handed to AddValidatedV2Blocks: the documented domain only asks for a known
// parent (its state is stored) - also one that AddBlocks merely stored, which
// is how the syncer continues a long branch that crossed the require height.
func (n *Node) ValidatedParent(id types.BlockID) bool {
	_, ok := n.CM.State(id)
	return ok
}

func (n *Node) TipNode() *TNode { return n.Tree.ByID[n.CM.Tip().ID] }

// ---------------------------------------------------------------- audit A1

// Audit checks that the chain the manager reports is parent linked, made of
// blocks core validated on exactly that parent, and that every stored state
// on it (and the tip state) equals the reference ledger's, byte for byte.
func (n *Node) Audit() error {
	tip := n.CM.Tip()
	ts := n.CM.TipState()
	if ts.Index != tip {
		return fmt.Errorf("audit: TipState().Index %v != Tip() %v", ts.Index, tip)
	}
	tn := n.Tree.ByID[tip.ID]
	if tn == nil {
		return fmt.Errorf("audit: tip %v is not a block of the tree", tip)
	}
	if tn.Ledger == nil {
		return fmt.Errorf("audit: tip %v (tree block %d, corruption %q) is INVALID according to core: %v", tip, tn.Idx, tn.Corrupt, tn.Err)
	}
	if tn.Height != tip.Height {
		return fmt.Errorf("audit: tip height %d, tree says %d", tip.Height, tn.Height)
	}
	if !bytes.Equal(refl.StateBytes(ts), refl.StateBytes(tn.Ledger.State)) {
		return fmt.Errorf("audit: TipState differs from the state obtained by replaying the best chain from genesis (tip %v)", tip)
	}
	// walk down
	cur := tn
	for h := tip.Height; ; h-- {
		idx, ok := n.CM.BestIndex(h)
		if !ok {
			return fmt.Errorf("audit: BestIndex(%d) missing below tip %v", h, tip)
		}
		if idx != cur.Index() {
			return fmt.Errorf("audit: BestIndex(%d) = %v but the tip's ancestor at that height is %v", h, idx, cur.Index())
		}
		if !n.Submitted[cur.ID] && cur.Idx >= 0 {
			return fmt.Errorf("audit: best chain contains block %v that was never submitted", idx)
		}
		st, ok := n.CM.State(cur.ID)
		if !ok {
			return fmt.Errorf("audit: State(%v) missing on best chain", idx)
		}
		if !bytes.Equal(refl.StateBytes(st), refl.StateBytes(cur.Ledger.State)) {
			return fmt.Errorf("audit: stored state of best-chain block %v differs from the reference", idx)
		}
		if hdr, ok := n.Store.Header(cur.ID); !ok {
			return fmt.Errorf("audit: Header(%v) missing on best chain", idx)
		} else if hdr.ID() != cur.ID || (cur.Parent != nil && hdr.ParentID != cur.Parent.ID) {
			return fmt.Errorf("audit: header of %v is not parent linked", idx)
		}
		if h == 0 {
			break
		}
		cur = cur.Parent
	}
	for h := tip.Height + 1; h <= n.MaxHeight+2; h++ {
		if idx, ok := n.CM.BestIndex(h); ok {
			return fmt.Errorf("audit: BestIndex(%d) = %v above the tip %v", h, idx, tip)
		}
	}
	return nil
}

// FullReplayAudit replays the node's best chain from genesis through core
// using the blocks the node itself serves (no per-node cache).
func (n *Node) FullReplayAudit() error {
	tip := n.CM.Tip()
	l := refl.Genesis(n.Tree.Network, n.Tree.Genesis)
	for h := uint64(1); h <= tip.Height; h++ {
		idx, ok := n.CM.BestIndex(h)
		if !ok {
			return fmt.Errorf("replay: BestIndex(%d) missing", h)
		}
		b, ok := n.CM.Block(idx.ID)
		if !ok {
			// pruned: take the body from the tree
			tn := n.Tree.ByID[idx.ID]
			if tn == nil {
				return fmt.Errorf("replay: block %v unknown", idx)
			}
			b = tn.Block
		}
		if b.ID() != idx.ID {
			return fmt.Errorf("replay: Block(%v) returned a block with id %v", idx, b.ID())
		}
		var order []types.FileContractID
		if _, bs, ok := n.Store.Block(idx.ID); ok && bs != nil && len(bs.ExpiringFileContracts) > 1 {
			for _, fce := range bs.ExpiringFileContracts {
				order = append(order, fce.ID)
			}
			if !samePermutation(order, l.Expiring[h]) {
				return fmt.Errorf("replay: stored supplement of %v expires %v, reference set is %v", idx, order, l.Expiring[h])
			}
		}
		var err error
		if l, err = l.Apply(b, order); err != nil {
			return fmt.Errorf("replay: best-chain block %v is invalid on its parent: %w", idx, err)
		}
	}
	if !bytes.Equal(refl.StateBytes(l.State), refl.StateBytes(n.CM.TipState())) {
		return fmt.Errorf("replay: TipState differs from a replay of the served best chain")
	}
	return nil
}

func samePermutation(a, b []types.FileContractID) bool {
	if len(a) != len(b) {
		return false
	}
	m := map[types.FileContractID]int{}
	for _, x := range a {
		m[x]++
	}
	for _, x := range b {
		m[x]--
	}
	for _, v := range m {
		if v != 0 {
			return false
		}
	}
	return true
}

// ---------------------------------------------------------------- dumps

var chainBuckets = []string{"Version", "Network", "MainChain", "States", "Blocks", "FileContracts", "SiacoinElements", "SiafundElements", "Tree"}

// Dump is the comparable image of everything a store serves for its best
// chain: sorted bucket contents (Blocks/States restricted to best-chain ids,
// Tree restricted to the nodes reachable for the current leaf count) plus the
// API-level view.
type Dump struct {
	Lines []string
}

// Diff returns a short description of the first differences.
func (d Dump) Diff(o Dump) string {
	a, b := map[string]bool{}, map[string]bool{}
	for _, l := range d.Lines {
		a[l] = true
	}
	for _, l := range o.Lines {
		b[l] = true
	}
	var out []string
	for _, l := range d.Lines {
		if !b[l] {
			out = append(out, "- "+clip(l))
		}
	}
	for _, l := range o.Lines {
		if !a[l] {
			out = append(out, "+ "+clip(l))
		}
	}
	if len(out) > 12 {
		out = append(out[:12], fmt.Sprintf("… %d more", len(out)-12))
	}
	return strings.Join(out, "\n")
}

func clip(s string) string {
	if len(s) > 260 {
		return s[:260] + "…"
	}
	return s
}

// Equal compares two dumps.
func (d Dump) Equal(o Dump) bool {
	if len(d.Lines) != len(o.Lines) {
		return false
	}
	for i := range d.Lines {
		if d.Lines[i] != o.Lines[i] {
			return false
		}
	}
	return true
}

func treeKeyReachable(key []byte, numLeaves uint64) bool {
	if len(key) != 4 {
		return true
	}
	k := binary.BigEndian.Uint32(key)
	// row = number of leading one bits
	row := uint64(0)
	for row < 32 && k&(1<<(31-row)) != 0 {
		row++
	}
	col := uint64(k) & ((1 << (32 - row)) - 1)
	// node (row, col) covers leaves [col<<row, (col+1)<<row); it is served only
	// as the sibling on the path of a leaf inside a complete subtree, i.e. when
	// the whole node lies below numLeaves
	return (col+1)<<row <= numLeaves
}

// DumpOpts selects what a dump contains.
type DumpOpts struct {
	// ElementsOnly drops MainChain/States/Blocks (used for "unchanged after a
	// failed call" comparisons where Blocks/States may legitimately grow).
	ElementsOnly bool
	// SkipExpirationOrder canonicalises the order inside expiration lists.
	SkipExpirationOrder bool
	// IncludeTree adds the raw accumulator node bucket (restricted to nodes
	// inside complete subtrees). By default it is left out: what the store
	// serves from it - Merkle proofs - is compared through the served
	// supplements instead, and nodes no live element's proof passes through are
	// not observable.
	IncludeTree bool
}

// Dump takes the image of the node's store. It flushes first (a flush is
// always allowed).
func (n *Node) Dump(o DumpOpts) Dump {
	var d Dump
	n.Store.Flush()
	tip := n.CM.TipState()
	best := map[types.BlockID]bool{}
	for h := uint64(0); h <= tip.Index.Height; h++ {
		if idx, ok := n.CM.BestIndex(h); ok {
			best[idx.ID] = true
		}
	}
	req := n.Tree.Network.HardforkV2.RequireHeight
	for _, bn := range chainBuckets {
		b := n.Backend.DB.Bucket([]byte(bn))
		if b == nil {
			d.Lines = append(d.Lines, "bucket "+bn+" MISSING")
			continue
		}
		if o.ElementsOnly && (bn == "States" || bn == "Blocks") {
			continue
		}
		for _, kv := range kvm.Collect(b) {
			switch bn {
			case "States", "Blocks":
				if len(kv.K) == 32 && !best[types.BlockID(kv.K)] {
					continue
				}
			case "Tree":
				if !o.IncludeTree {
					continue
				}
				if !treeKeyReachable(kv.K, tip.Elements.NumLeaves) {
					continue
				}
				if tip.Index.Height > req {
					continue // elements are frozen above the require height
				}
			case "FileContracts":
				if len(kv.K) == 8 && len(kv.V) == 0 {
					continue // an emptied expiration list is the same as none (not observable)
				}
				if len(kv.K) == 8 && o.SkipExpirationOrder {
					ids := make([]string, 0, len(kv.V)/32)
					for i := 0; i+32 <= len(kv.V); i += 32 {
						ids = append(ids, string(kv.V[i:i+32]))
					}
					sort.Strings(ids)
					kv.V = []byte(strings.Join(ids, ""))
				}
			}
			d.Lines = append(d.Lines, fmt.Sprintf("%s %x = %x", bn, kv.K, kv.V))
		}
	}
	d.Lines = append(d.Lines, fmt.Sprintf("tipstate %x", refl.StateBytes(tip)))
	return d
}

// ServedView is the API-level image: supplements the store hands out for a
// synthetic transaction naming every given element id and for an empty child
// block, plus the expiration lists.
func (n *Node) ServedView(l *refl.Ledger, heights uint64) Dump {
	var d Dump
	var txn types.Transaction
	for _, id := range l.SortedSCIDs() {
		txn.SiacoinInputs = append(txn.SiacoinInputs, types.SiacoinInput{ParentID: id})
	}
	for _, id := range l.SortedSFIDs() {
		txn.SiafundInputs = append(txn.SiafundInputs, types.SiafundInput{ParentID: id})
	}
	for _, id := range l.SortedFCIDs() {
		txn.FileContractRevisions = append(txn.FileContractRevisions, types.FileContractRevision{ParentID: id})
		txn.StorageProofs = append(txn.StorageProofs, types.StorageProof{ParentID: id})
	}
	ts := n.Store.SupplementTipTransaction(txn)
	d.Lines = append(d.Lines, fmt.Sprintf("txsupp %x", refl.Enc(ts)))
	bs := n.Store.SupplementTipBlock(types.Block{})
	d.Lines = append(d.Lines, fmt.Sprintf("blocksupp %x", refl.Enc(bs)))
	for h := uint64(0); h <= heights; h++ {
		ids := n.Store.ExpiringFileContractIDs(h)
		if len(ids) > 0 {
			d.Lines = append(d.Lines, fmt.Sprintf("expiring %d %v", h, ids))
		}
	}
	return d
}

// CheckAgainstLedger compares the store's element buckets and served
// supplements with the reference ledger of the tip absolutely (ids, values,
// leaf indices, proofs). Only meaningful while the tip is at or below the v2
// require height (the store freezes v1 element state above it).
func (n *Node) CheckAgainstLedger(l *refl.Ledger, ignoreExpirationOrder bool) error {
	if l.Height() > n.Tree.Network.HardforkV2.RequireHeight {
		return nil
	}
	n.Store.Flush()
	db := n.Backend.DB
	// siacoin elements
	got := map[string]string{}
	for _, kv := range kvm.Collect(db.Bucket([]byte("SiacoinElements"))) {
		got[string(kv.K)] = string(kv.V)
	}
	if len(got) != len(l.SCE) {
		return fmt.Errorf("store holds %d siacoin elements, reference ledger %d", len(got), len(l.SCE))
	}
	for id, e := range l.SCE {
		e.StateElement.MerkleProof = nil
		if got[string(id[:])] != string(refl.Enc(e)) {
			return fmt.Errorf("siacoin element %v differs from the reference (or is missing)", id)
		}
	}
	got = map[string]string{}
	for _, kv := range kvm.Collect(db.Bucket([]byte("SiafundElements"))) {
		got[string(kv.K)] = string(kv.V)
	}
	if len(got) != len(l.SFE) {
		return fmt.Errorf("store holds %d siafund elements, reference ledger %d", len(got), len(l.SFE))
	}
	for id, e := range l.SFE {
		e.StateElement.MerkleProof = nil
		if got[string(id[:])] != string(refl.Enc(e)) {
			return fmt.Errorf("siafund element %v differs from the reference (or is missing)", id)
		}
	}
	got = map[string]string{}
	exp := map[uint64][]types.FileContractID{}
	for _, kv := range kvm.Collect(db.Bucket([]byte("FileContracts"))) {
		if len(kv.K) == 8 {
			h := binary.BigEndian.Uint64(kv.K)
			for i := 0; i+32 <= len(kv.V); i += 32 {
				exp[h] = append(exp[h], types.FileContractID(kv.V[i:i+32]))
			}
			continue
		}
		got[string(kv.K)] = string(kv.V)
	}
	if len(got) != len(l.FCE) {
		return fmt.Errorf("store holds %d file contract elements, reference ledger %d", len(got), len(l.FCE))
	}
	for id, e := range l.FCE {
		e.StateElement.MerkleProof = nil
		if got[string(id[:])] != string(refl.Enc(e)) {
			return fmt.Errorf("file contract element %v differs from the reference (or is missing)", id)
		}
	}
	for h, ids := range exp {
		if len(ids) == 0 {
			continue
		}
		want := l.Expiring[h]
		if ignoreExpirationOrder {
			if !samePermutation(ids, want) {
				return fmt.Errorf("expiration list at height %d is %v, reference set %v", h, ids, want)
			}
		} else if fmt.Sprint(ids) != fmt.Sprint(want) {
			return fmt.Errorf("expiration list at height %d is %v, a node that saw only the best chain has %v", h, ids, want)
		}
	}
	for h, want := range l.Expiring {
		if len(want) > 0 && len(exp[h]) == 0 {
			return fmt.Errorf("expiration list at height %d is empty, reference has %v", h, want)
		}
	}
	// served proofs: the supplement of a transaction naming every live element
	var txn types.Transaction
	for _, id := range l.SortedSCIDs() {
		txn.SiacoinInputs = append(txn.SiacoinInputs, types.SiacoinInput{ParentID: id})
	}
	for _, id := range l.SortedSFIDs() {
		txn.SiafundInputs = append(txn.SiafundInputs, types.SiafundInput{ParentID: id})
	}
	for _, id := range l.SortedFCIDs() {
		txn.FileContractRevisions = append(txn.FileContractRevisions, types.FileContractRevision{ParentID: id})
		txn.StorageProofs = append(txn.StorageProofs, types.StorageProof{ParentID: id})
	}
	gotTS := n.Store.SupplementTipTransaction(txn)
	wantTS := l.SupplementForTxn(txn)
	if !bytes.Equal(refl.Enc(gotTS), refl.Enc(wantTS)) {
		return fmt.Errorf("SupplementTipTransaction (elements with Merkle proofs, storage-proof window ids) differs from the reference ledger at %v", l.Index())
	}
	if !ignoreExpirationOrder {
		gotBS := n.Store.SupplementTipBlock(types.Block{})
		wantBS := l.SupplementFor(types.Block{}, nil)
		if !bytes.Equal(refl.Enc(gotBS), refl.Enc(wantBS)) {
			return fmt.Errorf("SupplementTipBlock for an empty child differs from the reference ledger at %v", l.Index())
		}
	}
	return nil
}

// HistoryOf returns the ids a node at tn would report as its history (tip,
// its nine predecessors, then exponentially spaced ancestors, ending in
// genesis) - the shape documented for Manager.History; used to query
// BlocksForHistory the way a peer on that chain would.
func HistoryOf(tn *TNode) []types.BlockID {
	var path []*TNode
	for a := tn; a != nil; a = a.Parent {
		path = append(path, a) // path[k] = ancestor k blocks back
	}
	var out []types.BlockID
	off := 0
	step := 1
	for i := 0; off < len(path); i++ {
		out = append(out, path[off].ID)
		if i >= 9 {
			step *= 2
		}
		off += step
	}
	if out[len(out)-1] != path[len(path)-1].ID {
		out = append(out, path[len(path)-1].ID)
	}
	return out
}

// AuditQueries checks the chain-serving queries against the tree: History
// (tip and its predecessors first, only best-chain ids, non-increasing
// heights, reaching genesis), Headers (consecutive best-chain headers after an
// index, exact remaining count, error off the best chain) and
// BlocksForHistory (blocks after the first history entry that is on the best
// chain).
func (n *Node) AuditQueries(others []*TNode) error {
	tipN := n.TipNode()
	if tipN == nil {
		return fmt.Errorf("queries: tip unknown")
	}
	best := tipN.PathFromGenesis()
	best = append([]*TNode{n.Tree.Root}, best...) // best[h] = block at height h
	onBest := map[types.BlockID]uint64{}
	for h, b := range best {
		onBest[b.ID] = uint64(h)
	}
	// History
	hist, err := n.CM.History()
	if err != nil {
		return fmt.Errorf("queries: History failed: %v", err)
	}
	prev := uint64(len(best))
	sawGenesis := false
	for i, id := range hist {
		if id == (types.BlockID{}) {
			continue
		}
		h, ok := onBest[id]
		if !ok {
			return fmt.Errorf("queries: History[%d] = %v is not on the best chain", i, id)
		}
		if i < 10 && i < len(best) && h != uint64(len(best)-1-i) {
			return fmt.Errorf("queries: History[%d] is at height %d, expected the block %d below the tip", i, h, i)
		}
		if h > prev {
			return fmt.Errorf("queries: History heights increase at entry %d", i)
		}
		prev = h
		if h == 0 {
			sawGenesis = true
		}
	}
	if !sawGenesis {
		return fmt.Errorf("queries: History does not reach genesis")
	}
	// Headers
	for h := 0; h < len(best); h++ {
		for _, max := range []uint64{0, 1, 3, 1000} {
			hs, rem, err := n.CM.Headers(best[h].Index(), max)
			if err != nil {
				return fmt.Errorf("queries: Headers(%v, %d) failed: %v", best[h].Index(), max, err)
			}
			want := uint64(len(best) - 1 - h)
			if want > max {
				want = max
			}
			if uint64(len(hs)) != want || rem != uint64(len(best)-1-h)-want {
				return fmt.Errorf("queries: Headers(%v, %d) returned %d headers, %d remaining; expected %d and %d", best[h].Index(), max, len(hs), rem, want, uint64(len(best)-1-h)-want)
			}
			for k, bh := range hs {
				if bh.ID() != best[h+1+k].ID {
					return fmt.Errorf("queries: Headers(%v, %d)[%d] is %v, the best chain has %v there", best[h].Index(), max, k, bh.ID(), best[h+1+k].ID)
				}
			}
		}
	}
	for _, o := range others {
		if _, on := onBest[o.ID]; on || o.Ledger == nil {
			continue
		}
		if _, _, err := n.CM.Headers(o.Index(), 3); err == nil {
			return fmt.Errorf("queries: Headers(%v) succeeded for an index that is not on the best chain", o.Index())
		}
	}
	// BlocksForHistory from the point of view of peers on other chains
	views := append([]*TNode{tipN, n.Tree.Root}, others...)
	for _, v := range views {
		if v.Hdr.Index.ID != v.ID && v.Idx >= 0 && v.Ledger == nil && v.Parent == nil {
			continue
		}
		history := HistoryOf(v)
		attach := uint64(0)
		for _, id := range history {
			if _, known := n.CM.State(id); !known {
				continue
			}
			if h, ok := onBest[id]; ok {
				attach = h
				break
			}
		}
		for _, max := range []uint64{1, 4, 1000} {
			blocks, rem, err := n.CM.BlocksForHistory(history, max)
			if err != nil {
				return fmt.Errorf("queries: BlocksForHistory(history of %v, %d) failed: %v", v.Index(), max, err)
			}
			want := uint64(len(best)-1) - attach
			if want > max {
				want = max
			}
			if uint64(len(blocks)) != want || rem != uint64(len(best)-1)-attach-want {
				return fmt.Errorf("queries: BlocksForHistory(history of %v, %d) returned %d blocks, %d remaining; attach point is height %d, tip %d", v.Index(), max, len(blocks), rem, attach, len(best)-1)
			}
			for k, b := range blocks {
				if b.ID() != best[attach+1+uint64(k)].ID {
					return fmt.Errorf("queries: BlocksForHistory(history of %v)[%d] is not the best-chain block at height %d", v.Index(), k, attach+1+uint64(k))
				}
			}
		}
	}
	return nil
}
