package kit

import (
	"crypto/sha256"
	"encoding/hex"
	"encoding/json"
	"fmt"
	"os"
	"path/filepath"
	"runtime/debug"
	"sort"
	"strconv"
	"strings"
	"sync"
	"testing"
	"time"

	"pgregory.net/rapid"
)

// Stats is the per-process record of what a check actually explored. It is
// written to the file named by $VERIF_STATS when the test binary finishes and
// merged into evidence/<id>.json by the driver.
type Stats struct {
	mu sync.Mutex

	Property     string           `json:"property"`
	Rule         string           `json:"rule"`
	Assumptions  []string         `json:"assumptions,omitempty"`
	Evaluations  int              `json:"evaluations"`
	NonTrivial   []string         `json:"nontrivial_fps"`
	Classes      map[string]int   `json:"classes"`
	Excluded     map[string]int   `json:"excluded"`
	Inconclusive map[string]int   `json:"inconclusive"`
	Samples      []any            `json:"samples"`
	Failures     []string         `json:"failures"`
	Extra        map[string]int64 `json:"extra,omitempty"`
	Exhaustive   bool             `json:"exhaustive,omitempty"`
	WallS        float64          `json:"wall_s"`

	ntSet   map[string]bool
	start   time.Time
	maxSamp int
}

// NewStats creates a stats collector for one property.
func NewStats(property, rule string, assumptions ...string) *Stats {
	return &Stats{
		Property: property, Rule: rule, Assumptions: assumptions,
		Classes: map[string]int{}, Excluded: map[string]int{}, Inconclusive: map[string]int{},
		Extra: map[string]int64{}, ntSet: map[string]bool{}, start: time.Now(), maxSamp: 4,
	}
}

// CaseStats collects what one executed case reached.
type CaseStats struct {
	classes      []string
	excluded     []string
	inconclusive []string
	nontrivial   bool
	sample       any
	extra        map[string]int64
	mu           sync.Mutex // cases with several goroutines record from all of them
}

// Class counts the case under a named class.
func (c *CaseStats) Class(name string) {
	if c == nil {
		return
	}
	c.mu.Lock()
	defer c.mu.Unlock()
	for _, n := range c.classes {
		if n == name {
			return
		}
	}
	c.classes = append(c.classes, name)
}

// Classf is Class with formatting.
func (c *CaseStats) Classf(f string, a ...any) { c.Class(fmt.Sprintf(f, a...)) }

// NonTrivial marks the case non-trivial by the property's stated rule.
func (c *CaseStats) NonTrivial() {
	if c != nil {
		c.mu.Lock()
		c.nontrivial = true
		c.mu.Unlock()
	}
}

// IsNonTrivial reports whether NonTrivial was called.
func (c *CaseStats) IsNonTrivial() bool {
	if c == nil {
		return false
	}
	c.mu.Lock()
	defer c.mu.Unlock()
	return c.nontrivial
}

// Excluded records that part of the oracle was skipped for a named, by
// construction, reason (a known finding's shape).
func (c *CaseStats) Excluded(name string) {
	if c != nil {
		c.mu.Lock()
		c.excluded = append(c.excluded, name)
		c.mu.Unlock()
	}
}

// Inconclusive records that the case could not reach a verdict.
func (c *CaseStats) Inconclusive(name string) {
	if c != nil {
		c.mu.Lock()
		c.inconclusive = append(c.inconclusive, name)
		c.mu.Unlock()
	}
}

// Add adds to a free-form integer counter.
func (c *CaseStats) Add(name string, n int64) {
	if c == nil {
		return
	}
	c.mu.Lock()
	defer c.mu.Unlock()
	if c.extra == nil {
		c.extra = map[string]int64{}
	}
	c.extra[name] += n
}

// Sample overrides what is stored as the sample for this case (default: the
// case itself).
func (c *CaseStats) Sample(v any) {
	if c != nil {
		c.sample = v
	}
}

// Fingerprint is a short stable hash of a JSON-serialisable value.
func Fingerprint(v any) string {
	js, err := json.Marshal(v)
	if err != nil {
		panic(err)
	}
	h := sha256.Sum256(js)
	return hex.EncodeToString(h[:8])
}

func (s *Stats) record(c any, cs *CaseStats) {
	s.mu.Lock()
	defer s.mu.Unlock()
	s.Evaluations++
	for _, n := range cs.classes {
		s.Classes[n]++
	}
	for _, n := range cs.excluded {
		s.Excluded[n]++
	}
	for _, n := range cs.inconclusive {
		s.Inconclusive[n]++
	}
	for k, v := range cs.extra {
		s.Extra[k] += v
	}
	if cs.nontrivial {
		fp := Fingerprint(c)
		if !s.ntSet[fp] {
			s.ntSet[fp] = true
			if len(s.Samples) < s.maxSamp {
				smp := cs.sample
				if smp == nil {
					smp = c
				}
				s.Samples = append(s.Samples, map[string]any{"case": smp, "classes": cs.classes})
			}
		}
	}
}

// Write writes the stats file if $VERIF_STATS is set.
func (s *Stats) Write() {
	s.mu.Lock()
	defer s.mu.Unlock()
	path := os.Getenv("VERIF_STATS")
	if path == "" {
		return
	}
	s.NonTrivial = s.NonTrivial[:0]
	for fp := range s.ntSet {
		s.NonTrivial = append(s.NonTrivial, fp)
	}
	sort.Strings(s.NonTrivial)
	s.WallS = time.Since(s.start).Seconds()
	js, err := json.Marshal(s)
	if err != nil {
		panic(err)
	}
	if err := os.WriteFile(path, js, 0o644); err != nil {
		panic(err)
	}
}

// Tier returns "quick" or "thorough".
func Tier() string {
	if os.Getenv("VERIF_TIER") == "thorough" {
		return "thorough"
	}
	return "quick"
}

// Thorough reports whether the thorough tier is running.
func Thorough() bool { return Tier() == "thorough" }

// Prop is a property stated as: generator of pure-data cases + deterministic
// executor with an explicit oracle.
type Prop[C any] struct {
	ID   string
	Rule string
	// Assumptions are recorded in the evidence file.
	Assumptions []string
	// Gen draws a case; every random choice must come from t.
	Gen func(t *rapid.T) C
	// Run executes the case against the real code and returns a non-nil error
	// iff the oracle is violated. It must be a pure function of the case.
	Run func(c C, cs *CaseStats) error
}

// SafeRun executes Run converting panics to errors.
func (p Prop[C]) SafeRun(c C, cs *CaseStats) (err error) {
	defer func() {
		if r := recover(); r != nil {
			err = fmt.Errorf("panic: %v\n%s", r, trimStack(debug.Stack()))
		}
	}()
	return p.Run(c, cs)
}

func trimStack(b []byte) string {
	lines := strings.Split(string(b), "\n")
	if len(lines) > 40 {
		lines = lines[:40]
	}
	return strings.Join(lines, "\n")
}

type replayFile struct {
	Property string          `json:"property"`
	Error    string          `json:"error,omitempty"`
	Case     json.RawMessage `json:"case"`
}

func writeReplay(id string, c any, err error) string {
	dir := os.Getenv("VERIF_REPLAY_OUT")
	if dir == "" {
		return ""
	}
	js, jerr := json.Marshal(c)
	if jerr != nil {
		panic(jerr)
	}
	msg := ""
	if err != nil {
		msg = err.Error()
		if len(msg) > 4000 {
			msg = msg[:4000]
		}
	}
	out, _ := json.MarshalIndent(replayFile{Property: id, Error: msg, Case: js}, "", " ")
	path := filepath.Join(dir, id+"-last.json")
	if werr := os.WriteFile(path, out, 0o644); werr != nil {
		panic(werr)
	}
	return path
}

// LoadReplay decodes a replay file into a case.
func LoadReplay[C any](path string) (C, error) {
	var c C
	raw, err := os.ReadFile(path)
	if err != nil {
		return c, err
	}
	var rf replayFile
	if err := json.Unmarshal(raw, &rf); err != nil {
		return c, err
	}
	if len(rf.Case) == 0 {
		return c, fmt.Errorf("%s: no case", path)
	}
	err = json.Unmarshal(rf.Case, &c)
	return c, err
}

// Main runs the property: replay mode if $VERIF_REPLAY names files (colon
// separated), otherwise a rapid campaign (count and seed come from the
// -rapid.* flags the driver passes).
func (p Prop[C]) Main(t *testing.T) {
	st := NewStats(p.ID, p.Rule, p.Assumptions...)
	defer st.Write()
	if files := os.Getenv("VERIF_REPLAY"); files != "" {
		for _, f := range strings.Split(files, ":") {
			if f == "" {
				continue
			}
			c, err := LoadReplay[C](f)
			if err != nil {
				t.Fatalf("INFRA cannot load replay %s: %v", f, err)
			}
			cs := &CaseStats{}
			err = p.SafeRun(c, cs)
			st.record(c, cs)
			if err != nil {
				st.Failures = append(st.Failures, f+": "+err.Error())
				fmt.Printf("REPLAY-FAIL property=%s file=%s\n%v\n", p.ID, f, err)
				t.Errorf("replay %s failed: %v", f, err)
			} else {
				fmt.Printf("REPLAY-OK property=%s file=%s\n", p.ID, f)
			}
		}
		return
	}
	rapid.Check(t, func(rt *rapid.T) {
		c := p.Gen(rt)
		cs := &CaseStats{}
		err := p.SafeRun(c, cs)
		st.record(c, cs)
		if err != nil {
			writeReplay(p.ID, c, err)
			rt.Fatalf("%v", err)
		}
	})
}

// Direct runs a non-rapid enumeration: fn is called once and reports cases
// through the returned recorder. Used for exhaustive sweeps.
type Direct struct {
	ID string
	St *Stats
	T  *testing.T
}

// NewDirect creates a Direct recorder; call Done when finished.
func NewDirect(t *testing.T, id, rule string, assumptions ...string) *Direct {
	return &Direct{ID: id, St: NewStats(id, rule, assumptions...), T: t}
}

// Case records one enumerated case; on err it writes a replay and fails.
func (d *Direct) Case(c any, cs *CaseStats, err error) {
	d.St.record(c, cs)
	if err != nil {
		writeReplay(d.ID, c, err)
		d.St.Failures = append(d.St.Failures, err.Error())
		d.St.Write()
		d.T.Fatalf("%v", err)
	}
}

// Done writes the stats.
func (d *Direct) Done() { d.St.Write() }

// MyShard reports whether enumerated item i belongs to this process when a
// direct stage is split over several processes (VERIF_SHARD / VERIF_SHARDS).
func MyShard(i int) bool {
	n, _ := strconv.Atoi(os.Getenv("VERIF_SHARDS"))
	k, _ := strconv.Atoi(os.Getenv("VERIF_SHARD"))
	if n <= 1 {
		return true
	}
	return i%n == k
}
