package kit

import (
	"go.sia.tech/core/consensus"
	"go.sia.tech/core/types"
	"pgregory.net/rapid"
)

// SubmitStep hands the listed blocks (indices into TreeCase.Blocks) to the
// node in one call.
type SubmitStep struct {
	Batch []int `json:"batch"`
	// Validated asks for AddValidatedV2Blocks; it is honoured only when the
	// batch is inside that call's documented domain (a chain of valid v2 blocks
	// whose parent is known and at or above the require height), otherwise
	// AddBlocks is used.
	Validated bool `json:"validated,omitempty"`
	// Malleated: for blocks of the batch that have a same-id altered-body copy,
	// hand over that copy instead of the block itself.
	Malleated bool `json:"malleated,omitempty"`
}

// GenSchedule draws a submission schedule over n blocks: mostly sequential
// batches, with duplicates, re-submissions, orphan-first ranges and batches
// that mix branches; a final sweep submits everything in list order.
func GenSchedule(t *rapid.T, n int, maxSteps int) []SubmitStep {
	var steps []SubmitStep
	cursor := 0
	for len(steps) < maxSteps && cursor < n {
		ln := rapid.IntRange(1, 6).Draw(t, "batchlen")
		var start int
		switch k := Uniform(t, 20, "batchkind"); {
		case k < 13:
			start = cursor
			cursor += ln
		case k < 16 && cursor > 0: // duplicate / re-submission of something earlier
			start = rapid.IntRange(0, cursor-1).Draw(t, "dupstart")
		case k < 18: // orphans first: a later range, the cursor stays
			start = cursor + rapid.IntRange(1, 6).Draw(t, "skip")
		default: // jump back and continue from there
			if cursor > 0 {
				cursor = rapid.IntRange(0, cursor-1).Draw(t, "rewind")
			}
			start = cursor
			cursor += ln
		}
		var batch []int
		for i := start; i < start+ln && i < n; i++ {
			batch = append(batch, i)
		}
		if Chance(t, 10, "shuffle") && len(batch) > 1 {
			batch[0], batch[len(batch)-1] = batch[len(batch)-1], batch[0]
		}
		if len(batch) > 0 {
			steps = append(steps, SubmitStep{Batch: batch, Validated: Chance(t, 30, "validated"), Malleated: Chance(t, 35, "malleated")})
		}
	}
	// final sweep
	sweep := rapid.IntRange(1, 8).Draw(t, "sweeplen")
	for i := 0; i < n; i += sweep {
		var batch []int
		for j := i; j < i+sweep && j < n; j++ {
			batch = append(batch, j)
		}
		steps = append(steps, SubmitStep{Batch: batch})
	}
	return steps
}

// ResolveBatch turns a step into blocks, and decides whether the
// AddValidatedV2Blocks domain applies (returning the states if so).
func (t *Tree) ResolveBatch(st SubmitStep, known func(types.BlockID) bool) (nodes []*TNode, blocks []types.Block, states []consensus.State, validated bool) {
	for _, i := range st.Batch {
		if i < 0 || i >= len(t.Nodes) {
			continue
		}
		nodes = append(nodes, t.Nodes[i])
		if st.Malleated && t.Nodes[i].Malleated != nil {
			blocks = append(blocks, *t.Nodes[i].Malleated)
		} else {
			blocks = append(blocks, t.Nodes[i].Block)
		}
	}
	if st.Malleated {
		return nodes, blocks, nil, false
	}
	if !st.Validated || len(nodes) == 0 {
		return nodes, blocks, nil, false
	}
	first := nodes[0]
	if first.Parent == nil || !known(first.Parent.ID) || first.Parent.Height < t.Network.HardforkV2.RequireHeight {
		return nodes, blocks, nil, false
	}
	for k, n := range nodes {
		if n.Block.V2 == nil || (k > 0 && n.Parent != nodes[k-1]) {
			return nodes, blocks, nil, false
		}
		if n.Ledger != nil {
			states = append(states, n.Ledger.State)
			continue
		}
		// A block above a stored but never validated ancestor that is
		// invalid: the syncer (the call's real user) validates a downloaded
		// batch only against the state a peer's checkpoint yields, never
		// against the ancestors, so such a batch reaches the call whenever
		// each block passes consensus.ValidateBlock against the state before
		// it. The reorg then fails at the ancestor and must be rolled back.
		if n.Parent == nil || n.Parent.Ledger != nil || n.OwnInvalid || n.Block.ParentID != n.Parent.ID {
			return nodes, blocks, nil, false
		}
		if consensus.ValidateBlock(n.Parent.Hdr, n.Block, consensus.V1BlockSupplement{}) != nil {
			return nodes, blocks, nil, false
		}
		states = append(states, n.Hdr)
	}
	return nodes, blocks, states, true
}

// LCA returns the lowest common ancestor of two nodes.
func LCA(a, b *TNode) *TNode {
	for a != b {
		if a.Height >= b.Height {
			a = a.Parent
		} else {
			b = b.Parent
		}
		if a == nil || b == nil {
			return nil
		}
	}
	return a
}

// HasMalleated reports whether the step hands over at least one altered-body copy.
func (t *Tree) HasMalleated(st SubmitStep) bool {
	if !st.Malleated {
		return false
	}
	for _, i := range st.Batch {
		if i >= 0 && i < len(t.Nodes) && t.Nodes[i].Malleated != nil {
			return true
		}
	}
	return false
}
