package kit

import (
	"bytes"
	"fmt"
	"time"

	"go.sia.tech/core/consensus"
	"go.sia.tech/core/types"
	"pgregory.net/rapid"

	"verif/refl"
)

// Corruption alters one field of a block after it was built validly.
type Corruption struct {
	Kind string `json:"kind"`
	Arg  int    `json:"arg,omitempty"`
}

// CorruptionKinds lists the block-level corruptions.
var CorruptionKinds = []string{
	"pow", "timestamp-past", "payout", "unknown-parent", "v2height", "commitment",
	"txsig", "dup-txn", "overspend", "proof-flip", "leaf-index", "drop-txn-sig", "wrong-regime", "foreign-input",
}

// BlockSpec describes one block of a fork tree.
type BlockSpec struct {
	// Back: 0 = child of the previous block in the list; k = child of the
	// block k places before the previous one; past the start = child of genesis.
	Back    int         `json:"back,omitempty"`
	Dt      int         `json:"dt,omitempty"` // seconds after the parent's timestamp (>= 0)
	Miner   int         `json:"miner,omitempty"`
	Txs     []Intent    `json:"txs,omitempty"`
	Corrupt *Corruption `json:"corrupt,omitempty"`
	// Malleate > 0: besides the block itself, a copy with the same header (hence
	// the same id) but an altered body is prepared (only possible for v2 blocks,
	// whose id does not bind the body). Submission steps decide which of the two
	// is handed over. 1 payout address, 2 drop the last v2 transaction, 3 alter
	// an output value, 4 alter arbitrary data / append an empty-looking one.
	Malleate int `json:"malleate,omitempty"`
	// Reorder: if two or more v1 contracts expire in this block, the block is
	// applied with their order reversed, and every node of the case is built
	// with chain.WithExpiringContractOrder naming that order for this block id
	// (the option upstream uses to pin historical orders).
	Reorder bool `json:"reorder,omitempty"`
	// OnBad: build on the referenced parent even if that block carries a
	// corruption; otherwise the reference slides to the nearest ancestor
	// without one (keeps most of a tree valid; validity itself is always
	// decided by core, never by this flag).
	OnBad bool `json:"on_bad,omitempty"`
}

// TreeCase is the pure-data description of a fork tree.
type TreeCase struct {
	Net           NetSpec     `json:"net"`
	SharedWindows bool        `json:"shared_windows,omitempty"` // v1 contracts may share WindowEnd (C02 known-finding family)
	Blocks        []BlockSpec `json:"blocks"`
}

// TNode is a materialised tree node.
type TNode struct {
	Idx    int // index in TreeCase.Blocks; -1 for genesis
	Parent *TNode
	Block  types.Block
	ID     types.BlockID
	Height uint64
	// Ledger is non-nil iff this block and all its ancestors are valid
	// according to core (validated on the parent's ledger).
	Ledger *refl.Ledger
	// Err explains why Ledger is nil.
	Err error
	// Hdr is the header-only state after this block (what a node can compute
	// before validating transactions); used to build children.
	Hdr consensus.State
	// Kinds are the intent kinds that produced transactions in this block.
	Kinds   []string
	Skipped []string
	Corrupt string
	// OwnInvalid is true when the block itself (not an ancestor) is invalid.
	OwnInvalid bool
	// Malleated, if non-nil, is a copy of Block with the same id and an altered
	// body; core rejects it (commitment mismatch) wherever Block is valid.
	Malleated *types.Block
	// TS is the timestamp the block was built with before any corruption: a
	// child of a block dated far in the future carries an ordinary timestamp
	// (a refused future block must not become usable through its children).
	TS time.Time
}

// Index returns the chain index of the node.
func (n *TNode) Index() types.ChainIndex { return types.ChainIndex{Height: n.Height, ID: n.ID} }

// Valid reports whether the node can be part of a valid chain.
func (n *TNode) Valid() bool { return n.Ledger != nil }

// IsAncestorOf reports whether n is an ancestor of (or equal to) d.
func (n *TNode) IsAncestorOf(d *TNode) bool {
	for ; d != nil; d = d.Parent {
		if d == n {
			return true
		}
	}
	return false
}

// PathFromGenesis returns the nodes from height 1 to n.
func (n *TNode) PathFromGenesis() []*TNode {
	var out []*TNode
	for a := n; a != nil && a.Idx >= 0; a = a.Parent {
		out = append(out, a)
	}
	for i, j := 0, len(out)-1; i < j; i, j = i+1, j-1 {
		out[i], out[j] = out[j], out[i]
	}
	return out
}

// Tree is a materialised TreeCase.
type Tree struct {
	Case    TreeCase
	Network *consensus.Network
	Genesis types.Block
	Root    *TNode
	Nodes   []*TNode // parallel to Case.Blocks
	ByID    map[types.BlockID]*TNode
	// OrderOverride is handed to every manager of the case through
	// chain.WithExpiringContractOrder.
	OrderOverride map[types.BlockID][]types.FileContractID
}

// ParentOf resolves the relative parent reference of block i.
func (tc TreeCase) ParentOf(i int) int {
	p := i - 1 - clamp(tc.Blocks[i].Back, 0, 1<<30)
	if p < -1 {
		p = -1
	}
	if !tc.Blocks[i].OnBad {
		for p >= 0 && tc.Blocks[p].flaggedBad() {
			p = tc.ParentOf(p)
		}
	}
	return p
}

func (bs BlockSpec) flaggedBad() bool {
	if bs.Corrupt != nil {
		return true
	}
	for _, in := range bs.Txs {
		if in.Bad != 0 {
			return true
		}
	}
	return false
}

func hdrAncestorTimestamp(cs consensus.State, genesisTS time.Time) time.Time {
	if cs.Index.Height > cs.Network.HardforkOak.Height {
		return time.Time{}
	}
	return genesisTS
}

// BuildTree materialises the case: every block is built on its parent's
// reference ledger, then optionally corrupted; validity is decided by core.
func BuildTree(tc TreeCase) *Tree {
	n, genesis := tc.Net.Network()
	gl := refl.Genesis(n, genesis)
	root := &TNode{Idx: -1, Block: genesis, ID: genesis.ID(), Height: 0, Ledger: gl, Hdr: gl.State}
	t := &Tree{Case: tc, Network: n, Genesis: genesis, Root: root, ByID: map[types.BlockID]*TNode{root.ID: root}, OrderOverride: map[types.BlockID][]types.FileContractID{}}
	for i, spec := range tc.Blocks {
		parent := root
		if p := tc.ParentOf(i); p >= 0 {
			parent = t.Nodes[p]
		}
		node := t.buildNode(i, spec, parent)
		t.Nodes = append(t.Nodes, node)
		if _, dup := t.ByID[node.ID]; !dup {
			t.ByID[node.ID] = node
		}
	}
	return t
}

func (t *Tree) buildNode(i int, spec BlockSpec, parent *TNode) *TNode {
	node := &TNode{Idx: i, Parent: parent, Height: parent.Height + 1}
	cs := parent.Hdr
	base := parent.Block.Timestamp
	if parent.Corrupt == "timestamp-future" && !parent.TS.IsZero() {
		base = parent.TS
	}
	ts := base.Add(time.Duration(clamp(spec.Dt, 0, 3600)) * time.Second)
	node.TS = ts
	miner := Actors[mod(spec.Miner, NumActors)].Addr
	var txns, baseTxns []types.Transaction
	var v2txns, baseV2 []types.V2Transaction
	corrupt := spec.Corrupt
	if parent.Ledger != nil {
		bb := NewBlockBuilder(parent.Ledger)
		bb.UniqueWindows = !t.Case.SharedWindows
		if corrupt != nil && corrupt.Kind == "wrong-regime" {
			bb.IgnoreRegime = true
		}
		for _, in := range spec.Txs {
			bb.Add(in)
		}
		node.Kinds = append(append(node.Kinds, bb.TxnKinds...), bb.V2TxnKinds...)
		baseTxns, baseV2 = append([]types.Transaction(nil), bb.Txns...), append([]types.V2Transaction(nil), bb.V2Txns...)
		if corrupt != nil && corrupt.Kind == "foreign-input" && len(t.Nodes) > 0 {
			// a spend that is valid on some other node's ledger
			other := t.Nodes[mod(corrupt.Arg, len(t.Nodes))]
			if other.Ledger != nil {
				fb := NewBlockBuilder(other.Ledger)
				fb.Height = bb.Height
				kind := "v1pay"
				if bb.Height >= cs.Network.HardforkV2.RequireHeight {
					kind = "v2pay"
				}
				if fb.Add(Intent{Kind: kind, Who: corrupt.Arg, To: corrupt.Arg + 1, Pick: corrupt.Arg / 4}) {
					if kind == "v1pay" {
						txn := fb.Txns[0]
						signV1(cs, &txn, map[types.Hash256]int{types.Hash256(txn.SiacoinInputs[0].ParentID): mod(corrupt.Arg, NumActors)})
						bb.Txns = append(bb.Txns, txn)
					} else {
						txn := fb.V2Txns[0]
						SignV2(cs, &txn)
						bb.V2Txns = append(bb.V2Txns, txn)
					}
				}
			}
		}
		txns, v2txns = bb.Txns, bb.V2Txns
		node.Skipped = bb.Skipped
	}
	b := AssembleBlock(cs, ts, miner, txns, v2txns, uint64(i))
	if corrupt != nil {
		node.Corrupt = corrupt.Kind
		applyCorruption(cs, &b, *corrupt, t.Genesis.Timestamp)
	}
	// Domain: every block a node can be handed came off the wire (or from a
	// miner), so each generated block is passed through its own wire encoding:
	// what is kept is what a peer would actually receive (v2 Merkle proofs are
	// transmitted as one multiproof, so e.g. proofs taken from two different
	// accumulators come out altered). A corruption without any encoding is
	// dropped.
	if nb, ok := Normalize(b); ok {
		b = nb
	} else {
		b = AssembleBlock(cs, ts, miner, baseTxns, baseV2, uint64(i))
		node.Corrupt = ""
		if nb, ok := Normalize(b); ok {
			b = nb
		} else {
			panic(fmt.Sprintf("harness: uncorrupted block %d has no wire encoding", i))
		}
	}
	node.Block = b
	node.ID = b.ID()
	hcs := cs
	hcs.Index.ID = b.ParentID // (differs from the parent only for the unknown-parent corruption)
	hts := hdrAncestorTimestamp(cs, t.Genesis.Timestamp)
	if parent.Ledger != nil {
		hts = parent.Ledger.AncestorTimestamp()
	}
	node.Hdr = consensus.ApplyHeader(hcs, b.Header(), hts)
	if b.ParentID != parent.ID {
		node.Err = fmt.Errorf("unknown parent")
		node.OwnInvalid = true
		return node
	}
	if parent.Ledger == nil {
		node.Err = fmt.Errorf("ancestor invalid: %v", parent.Err)
		return node
	}
	if b.Timestamp.After(time.Date(2090, time.January, 1, 0, 0, 0, 0, time.UTC)) {
		node.Err = fmt.Errorf("timestamp too far in the future")
		node.OwnInvalid = true
		return node
	}
	var order []types.FileContractID
	if spec.Reorder && corrupt == nil && parent.Ledger.HasSupplement() {
		if ids := parent.Ledger.Expiring[node.Height]; len(ids) >= 2 {
			for k := len(ids) - 1; k >= 0; k-- {
				order = append(order, ids[k])
			}
		}
	}
	l, err := parent.Ledger.Apply(b, order)
	if err != nil {
		node.Err = err
		node.OwnInvalid = true
		return node
	}
	if order != nil {
		t.OrderOverride[node.ID] = order
	}
	node.Ledger = l
	node.Hdr = l.State
	if spec.Malleate > 0 && b.V2 != nil && corrupt == nil {
		if m, ok := malleate(b, spec.Malleate); ok && m.ID() == b.ID() {
			if _, merr := parent.Ledger.Apply(m, nil); merr != nil { // must be invalid, else it is just another valid body
				node.Malleated = &m
			}
		}
	}
	return node
}

// malleate alters the body of a v2 block without touching its header fields
// (parent, nonce, timestamp, commitment), so the id stays the same.
func malleate(b types.Block, kind int) (types.Block, bool) {
	m := b
	v2 := *b.V2
	v2.Transactions = make([]types.V2Transaction, len(b.V2.Transactions))
	for i := range b.V2.Transactions {
		v2.Transactions[i] = b.V2.Transactions[i].DeepCopy()
	}
	m.V2 = &v2
	m.MinerPayouts = append([]types.SiacoinOutput(nil), b.MinerPayouts...)
	switch mod(kind-1, 4) {
	case 0:
		m.MinerPayouts[0].Address[0] ^= 1
	case 1:
		if len(v2.Transactions) == 0 {
			m.MinerPayouts[0].Address[1] ^= 1
		} else if fee := v2.Transactions[len(v2.Transactions)-1].MinerFee; fee.IsZero() {
			v2.Transactions = v2.Transactions[:len(v2.Transactions)-1]
		} else {
			m.MinerPayouts[0].Address[2] ^= 1
		}
	case 2:
		done := false
		for i := range v2.Transactions {
			if len(v2.Transactions[i].SiacoinOutputs) > 0 {
				v2.Transactions[i].SiacoinOutputs[0].Address[3] ^= 1
				done = true
				break
			}
		}
		if !done {
			m.MinerPayouts[0].Address[3] ^= 1
		}
	default:
		v2.Transactions = append(v2.Transactions, types.V2Transaction{ArbitraryData: []byte("malleated")})
	}
	if nb, ok := Normalize(m); ok {
		return nb, true
	}
	return m, false
}

func applyCorruption(cs consensus.State, b *types.Block, c Corruption, genesisTS time.Time) {
	// work on private copies: the transactions are shared with the builder
	if b.V2 != nil {
		v2 := *b.V2
		v2.Transactions = make([]types.V2Transaction, len(b.V2.Transactions))
		for i := range b.V2.Transactions {
			v2.Transactions[i] = b.V2.Transactions[i].DeepCopy()
		}
		b.V2 = &v2
	}
	b.Transactions = copyV1Txns(b.Transactions)
	b.MinerPayouts = append([]types.SiacoinOutput(nil), b.MinerPayouts...)
	switch c.Kind {
	case "pow":
		Grind(cs, b, false)
	case "timestamp-past":
		b.Timestamp = genesisTS.Add(-time.Hour)
		Recommit(cs, b)
	case "timestamp-future":
		// far beyond any clock: the manager refuses it as a future block (a
		// rule of the node, not of core's validation)
		b.Timestamp = time.Date(2100, time.January, 1, 0, 0, mod(c.Arg, 60), 0, time.UTC)
		Recommit(cs, b)
	case "payout":
		b.MinerPayouts[0].Value = b.MinerPayouts[0].Value.Add(types.NewCurrency64(1 + uint64(mod(c.Arg, 3))))
		Recommit(cs, b)
	case "unknown-parent":
		b.ParentID = types.BlockID(types.HashBytes([]byte(fmt.Sprintf("nowhere-%d", c.Arg))))
		Grind(cs, b, true)
	case "v2height":
		if b.V2 != nil {
			b.V2.Height += 1 + uint64(mod(c.Arg, 2))
			Grind(cs, b, true)
		}
	case "commitment":
		if b.V2 != nil {
			b.V2.Commitment[mod(c.Arg, 32)] ^= 1
			Grind(cs, b, true)
		}
	case "txsig":
		if v2 := b.V2Transactions(); len(v2) > 0 && (len(b.Transactions) == 0 || c.Arg%2 == 0) {
			t := &b.V2.Transactions[mod(c.Arg/2, len(v2))]
			if len(t.SiacoinInputs) > 0 && len(t.SiacoinInputs[0].SatisfiedPolicy.Signatures) > 0 {
				t.SiacoinInputs[0].SatisfiedPolicy.Signatures[0][7] ^= 2
			} else if len(t.SiafundInputs) > 0 && len(t.SiafundInputs[0].SatisfiedPolicy.Signatures) > 0 {
				t.SiafundInputs[0].SatisfiedPolicy.Signatures[0][7] ^= 2
			}
		} else if len(b.Transactions) > 0 {
			t := &b.Transactions[mod(c.Arg/2, len(b.Transactions))]
			if len(t.Signatures) > 0 {
				sig := append([]byte(nil), t.Signatures[0].Signature...)
				sig[9] ^= 4
				t.Signatures = append([]types.TransactionSignature(nil), t.Signatures...)
				t.Signatures[0].Signature = sig
			}
		}
		Recommit(cs, b)
	case "drop-txn-sig":
		if len(b.Transactions) > 0 {
			t := &b.Transactions[mod(c.Arg, len(b.Transactions))]
			t.Signatures = nil
		} else if v2 := b.V2Transactions(); len(v2) > 0 {
			t := &b.V2.Transactions[mod(c.Arg, len(v2))]
			// (a v2 satisfied policy with a missing signature has no wire
			// encoding, so the signature is zeroed rather than removed)
			for i := range t.SiacoinInputs {
				for j := range t.SiacoinInputs[i].SatisfiedPolicy.Signatures {
					t.SiacoinInputs[i].SatisfiedPolicy.Signatures[j] = types.Signature{}
				}
			}
		}
		Recommit(cs, b)
	case "dup-txn":
		if len(b.Transactions) > 0 {
			b.Transactions = append(b.Transactions, b.Transactions[mod(c.Arg, len(b.Transactions))])
		} else if v2 := b.V2Transactions(); len(v2) > 0 {
			b.V2.Transactions = append(b.V2.Transactions, v2[mod(c.Arg, len(v2))].DeepCopy())
		}
		// keep the payout consistent with the duplicated fee so that only the
		// double spend is wrong
		b.MinerPayouts[0].Value = cs.BlockReward()
		for _, t := range b.Transactions {
			b.MinerPayouts[0].Value = b.MinerPayouts[0].Value.Add(t.TotalFees())
		}
		for _, t := range b.V2Transactions() {
			b.MinerPayouts[0].Value = b.MinerPayouts[0].Value.Add(t.MinerFee)
		}
		Recommit(cs, b)
	case "overspend":
		if v2 := b.V2Transactions(); len(v2) > 0 {
			t := &b.V2.Transactions[mod(c.Arg, len(v2))]
			if len(t.SiacoinOutputs) > 0 {
				t.SiacoinOutputs = append([]types.SiacoinOutput(nil), t.SiacoinOutputs...)
				t.SiacoinOutputs[0].Value = t.SiacoinOutputs[0].Value.Add(types.NewCurrency64(1))
				SignV2(cs, t)
			}
		} else if len(b.Transactions) > 0 {
			t := &b.Transactions[mod(c.Arg, len(b.Transactions))]
			if len(t.SiacoinOutputs) > 0 && len(t.SiacoinInputs) > 0 {
				t.SiacoinOutputs = append([]types.SiacoinOutput(nil), t.SiacoinOutputs...)
				t.SiacoinOutputs[0].Value = t.SiacoinOutputs[0].Value.Add(types.NewCurrency64(1))
				signers := map[types.Hash256]int{}
				for _, sci := range t.SiacoinInputs {
					signers[types.Hash256(sci.ParentID)] = ActorOf(sci.UnlockConditions.UnlockHash())
				}
				signV1(cs, t, signers)
			}
		}
		Recommit(cs, b)
	case "proof-flip", "leaf-index":
		for ti := range b.V2Transactions() {
			t := &b.V2.Transactions[ti]
			done := false
			for ii := range t.SiacoinInputs {
				se := &t.SiacoinInputs[ii].Parent.StateElement
				if se.LeafIndex == types.UnassignedLeafIndex {
					continue
				}
				if c.Kind == "leaf-index" {
					se.LeafIndex ^= 1 << uint(mod(c.Arg, 3))
					done = true
				} else if len(se.MerkleProof) > 0 {
					se.MerkleProof = append([]types.Hash256(nil), se.MerkleProof...)
					se.MerkleProof[mod(c.Arg, len(se.MerkleProof))][3] ^= 8
					done = true
				}
				if done {
					break
				}
			}
			if done {
				break
			}
		}
		Recommit(cs, b)
	case "wrong-regime", "foreign-input":
		// handled while building
	}
}

// ---------------------------------------------------------------- generators

// TreeGenConfig bounds the tree generator.
type TreeGenConfig struct {
	MaxBlocks        int
	MaxTxs           int
	CorruptPct       int // percentage of blocks that get a corruption
	Kinds            []string
	MaxAllow         int
	ForkPct          int
	SharedPct        int // percentage of cases using shared windows
	BadIntentPct     int
	MalleatePct      int      // percentage of blocks that get a same-id altered-body copy
	ExtraCorruptions []string // further corruption kinds to draw from (e.g. "timestamp-future")
	ReorderPct       int      // shared-window cases: percentage of blocks applied with a reversed expiration order (option WithExpiringContractOrder)
}

// DefaultTreeGen returns the generator bounds of the current tier.
func DefaultTreeGen() TreeGenConfig {
	c := TreeGenConfig{MaxBlocks: 24, MaxTxs: 3, CorruptPct: 6, Kinds: IntentKinds, MaxAllow: 10, ForkPct: 22, BadIntentPct: 3}
	if Thorough() {
		c.MaxBlocks = 60
		c.MaxAllow = 16
	}
	return c
}

// GenNet draws a network.
func GenNet(t *rapid.T, maxAllow int) NetSpec {
	ns := genNet(t, maxAllow)
	if Chance(t, 20, "hardroll") {
		ns.Hard = rapid.IntRange(1, 3).Draw(t, "hard")
	}
	// equilibrium difficulty estimator: timestamps (fast / slow branches) then
	// really change the per-block work, so length and work come apart
	ns.Calm = Chance(t, 45, "calm")
	if ns.Calm && Chance(t, 50, "earlycut") {
		ns.CutOff = Uniform(t, 3, "cutoff2")
		if ns.Allow > 3 && ns.Allow < 100 {
			ns.Allow = 1 + Uniform(t, 3, "allow2")
			ns.ReqOff = Uniform(t, 3, "reqoff2")
		}
	}
	return ns
}

func genNet(t *rapid.T, maxAllow int) NetSpec {
	switch Uniform(t, 10, "regime") {
	case 0: // v2 from the start
		return NetSpec{Maturity: rapid.IntRange(1, 3).Draw(t, "maturity"), Allow: 1, ReqOff: 0, CutOff: rapid.IntRange(0, 6).Draw(t, "cut")}
	case 1: // v1 only within the explored depth
		return NetSpec{Maturity: rapid.IntRange(1, 3).Draw(t, "maturity"), Allow: 500, ReqOff: 10, CutOff: 10}
	}
	return NetSpec{
		Maturity: rapid.IntRange(1, 3).Draw(t, "maturity"),
		Allow:    rapid.IntRange(2, maxAllow).Draw(t, "allow"),
		ReqOff:   rapid.IntRange(0, 8).Draw(t, "reqoff"),
		CutOff:   rapid.IntRange(0, 8).Draw(t, "cutoff"),
	}
}

// GenIntent draws one intent.
func GenIntent(t *rapid.T, kinds []string, badPct int) Intent {
	in := Intent{
		Kind: PickString(t, kinds, "kind"),
		Who:  rapid.IntRange(0, NumActors-1).Draw(t, "who"),
		To:   rapid.IntRange(0, NumActors-1).Draw(t, "to"),
		Pick: rapid.IntRange(0, 7).Draw(t, "pick"),
		Amt:  rapid.IntRange(0, 9).Draw(t, "amt"),
		A:    rapid.IntRange(0, 11).Draw(t, "a"),
		B:    rapid.IntRange(0, 5).Draw(t, "b"),
		Eph:  Chance(t, 25, "eph"),
		Fee:  Chance(t, 33, "fee"),
		V2:   rapid.Bool().Draw(t, "v2"),
	}
	if Chance(t, badPct, "badroll") {
		in.Bad = rapid.IntRange(1, 6).Draw(t, "bad")
	}
	return in
}

// GenTree draws a fork tree.
func GenTree(t *rapid.T, cfg TreeGenConfig) TreeCase {
	tc := TreeCase{Net: GenNet(t, cfg.MaxAllow)}
	if Chance(t, cfg.SharedPct, "shared") {
		tc.SharedWindows = true
	}
	n := min(6, cfg.MaxBlocks) + Uniform(t, cfg.MaxBlocks-min(6, cfg.MaxBlocks)+1, "nblocks")
	slow := Chance(t, 15, "slowstart")
	for i := 0; i < n; i++ {
		bs := BlockSpec{Dt: rapid.IntRange(0, 4).Draw(t, "dt"), Miner: rapid.IntRange(0, NumActors-1).Draw(t, "miner")}
		if slow {
			// a slow branch: late timestamps lower the difficulty, so that chain
			// length and accumulated work come apart
			bs.Dt = rapid.SampledFrom([]int{30, 600, 3600}).Draw(t, "slowdt")
		}
		if i > 0 && Chance(t, cfg.ForkPct, "forkroll") {
			// mostly short forks (so that chains grow deep), sometimes long ones
			if Chance(t, 25, "longfork") {
				bs.Back = rapid.IntRange(3, 12).Draw(t, "back")
			} else {
				bs.Back = rapid.IntRange(1, 2).Draw(t, "back")
			}
			slow = Chance(t, 25, "slowbranch")
			if slow {
				bs.Dt = rapid.SampledFrom([]int{30, 600, 3600}).Draw(t, "slowdt")
			}
		}
		ntx := rapid.IntRange(0, cfg.MaxTxs).Draw(t, "ntx")
		for j := 0; j < ntx; j++ {
			bs.Txs = append(bs.Txs, GenIntent(t, cfg.Kinds, cfg.BadIntentPct))
		}
		bs.OnBad = Chance(t, 25, "onbad")
		if tc.SharedWindows && Chance(t, cfg.ReorderPct, "reorderroll") {
			bs.Reorder = true
		}
		if Chance(t, cfg.MalleatePct, "malleateroll") {
			bs.Malleate = 1 + Uniform(t, 4, "malleate")
		}
		if Chance(t, cfg.CorruptPct, "corruptroll") {
			bs.Corrupt = &Corruption{Kind: PickString(t, append(append([]string(nil), CorruptionKinds...), cfg.ExtraCorruptions...), "ckind"), Arg: rapid.IntRange(0, 15).Draw(t, "carg")}
		}
		tc.Blocks = append(tc.Blocks, bs)
	}
	return tc
}

// Normalize passes a block through its wire encoding and returns what a
// receiver decodes; ok is false if the encoding does not decode or is not
// stable.
func Normalize(b types.Block) (types.Block, bool) {
	enc := func(b types.Block) []byte {
		var buf bytes.Buffer
		e := types.NewEncoder(&buf)
		types.V2Block(b).EncodeTo(e)
		e.Flush()
		return buf.Bytes()
	}
	dec := func(p []byte) (b2 types.Block, ok bool) {
		defer func() {
			if recover() != nil {
				ok = false
			}
		}()
		d := types.NewBufDecoder(p)
		(*types.V2Block)(&b2).DecodeFrom(d)
		return b2, d.Err() == nil
	}
	var e1 []byte
	func() {
		defer func() { recover() }()
		e1 = enc(b)
	}()
	if e1 == nil {
		return b, false
	}
	b2, ok := dec(e1)
	if !ok {
		return b, false
	}
	e2 := enc(b2)
	b3, ok := dec(e2)
	if !ok || !bytes.Equal(enc(b3), e2) {
		return b, false
	}
	return b2, true
}

// DebugHook is called with a block that fails the round-trip guard.
var DebugHook func(types.Block)

func copyV1Txns(txns []types.Transaction) []types.Transaction {
	out := make([]types.Transaction, len(txns))
	for i, t := range txns {
		var buf bytes.Buffer
		e := types.NewEncoder(&buf)
		t.EncodeTo(e)
		e.Flush()
		d := types.NewBufDecoder(buf.Bytes())
		out[i].DecodeFrom(d)
		if d.Err() != nil {
			panic(d.Err())
		}
	}
	return out
}

// AddDynamic registers a block that was not part of the case (for example one
// assembled by the repository's miner) as a tree node, validating it on its
// parent's reference ledger.
func (t *Tree) AddDynamic(b types.Block) *TNode {
	if n, ok := t.ByID[b.ID()]; ok {
		return n
	}
	parent := t.ByID[b.ParentID]
	node := &TNode{Idx: len(t.Nodes) + 1000000, Block: b, ID: b.ID(), Corrupt: ""}
	if parent == nil {
		node.Err = fmt.Errorf("unknown parent")
		node.OwnInvalid = true
		t.ByID[node.ID] = node
		return node
	}
	node.Parent, node.Height = parent, parent.Height+1
	if parent.Ledger == nil {
		node.Err = fmt.Errorf("ancestor invalid")
	} else if l, err := parent.Ledger.Apply(b, nil); err != nil {
		node.Err, node.OwnInvalid = err, true
	} else {
		node.Ledger, node.Hdr = l, l.State
	}
	t.ByID[node.ID] = node
	return node
}
