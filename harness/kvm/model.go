// Package kvm holds the reference key-value model (committed map + overlay)
// and factories for every chain.DB backend the repository ships.
package kvm

import (
	"bytes"
	"fmt"
	"os"
	"path/filepath"
	"sort"

	"go.etcd.io/bbolt"
	"go.sia.tech/coreutils"
	"go.sia.tech/coreutils/chain"
)

// KV is one key/value pair.
type KV struct{ K, V []byte }

// Model is the obviously-correct reference: a committed image plus the
// current (uncommitted) image. nil bucket = bucket does not exist.
type Model struct {
	Committed map[string]map[string][]byte
	Current   map[string]map[string][]byte
}

func cloneImage(m map[string]map[string][]byte) map[string]map[string][]byte {
	out := make(map[string]map[string][]byte, len(m))
	for b, kv := range m {
		c := make(map[string][]byte, len(kv))
		for k, v := range kv {
			c[k] = append([]byte{}, v...)
		}
		out[b] = c
	}
	return out
}

// NewModel returns an empty model.
func NewModel() *Model {
	return &Model{Committed: map[string]map[string][]byte{}, Current: map[string]map[string][]byte{}}
}

func (m *Model) HasBucket(b string) bool { return m.Current[b] != nil }
func (m *Model) Create(b string)         { m.Current[b] = map[string][]byte{} }
func (m *Model) Put(b, k string, v []byte) {
	m.Current[b][k] = append([]byte{}, v...) // present keys have non-nil values, also when empty
}
func (m *Model) Delete(b, k string)     { delete(m.Current[b], k) }
func (m *Model) Get(b, k string) []byte { return m.Current[b][k] }
func (m *Model) Flush()                 { m.Committed = cloneImage(m.Current) }
func (m *Model) Cancel()                { m.Current = cloneImage(m.Committed) }
func (m *Model) Iter(b string) []KV {
	var out []KV
	for k, v := range m.Current[b] {
		out = append(out, KV{[]byte(k), v})
	}
	SortKVs(out)
	return out
}

// SortKVs sorts by key, then value.
func SortKVs(kvs []KV) {
	sort.Slice(kvs, func(i, j int) bool {
		if c := bytes.Compare(kvs[i].K, kvs[j].K); c != 0 {
			return c < 0
		}
		return bytes.Compare(kvs[i].V, kvs[j].V) < 0
	})
}

// Collect drains a bucket's iterator into a sorted list (copies the slices).
func Collect(b chain.DBBucket) []KV {
	var out []KV
	for k, v := range b.Iter() {
		out = append(out, KV{append([]byte(nil), k...), append([]byte(nil), v...)})
	}
	SortKVs(out)
	return out
}

// EqualKVs compares two sorted lists.
func EqualKVs(a, b []KV) bool {
	if len(a) != len(b) {
		return false
	}
	for i := range a {
		if !bytes.Equal(a[i].K, b[i].K) || !bytes.Equal(a[i].V, b[i].V) {
			return false
		}
	}
	return true
}

// FormatKVs renders a list for error messages.
func FormatKVs(kvs []KV) string {
	s := "["
	for i, kv := range kvs {
		if i > 0 {
			s += " "
		}
		s += fmt.Sprintf("%q=%x", kv.K, kv.V)
	}
	return s + "]"
}

// Backend is a chain.DB under test together with its crash/reopen behaviour.
type Backend struct {
	Name string
	DB   chain.DB
	// Reopen simulates a process stop: everything not flushed is lost and the
	// database is opened again over whatever was durable.
	Reopen func() error
	Close  func()
}

// BackendNames lists the backends NewBackend understands.
var BackendNames = []string{"mem", "cache(mem)", "cache(cache(mem))", "bolt", "cache(bolt)"}

func scratchDir() string {
	if st, err := os.Stat("/dev/shm"); err == nil && st.IsDir() {
		return "/dev/shm"
	}
	return os.TempDir()
}

// NewBackend builds the named backend.
func NewBackend(name string) (*Backend, error) {
	switch name {
	case "mem":
		db := chain.NewMemDB()
		be := &Backend{Name: name, DB: db, Close: func() {}}
		be.Reopen = func() error { db.Cancel(); return nil }
		return be, nil
	case "cache(mem)", "cache(cache(mem))":
		inner := chain.NewMemDB()
		wrap := func() chain.DB {
			if name == "cache(mem)" {
				return chain.NewCacheDB(inner)
			}
			return chain.NewCacheDB(chain.NewCacheDB(inner))
		}
		be := &Backend{Name: name, DB: wrap(), Close: func() {}}
		be.Reopen = func() error {
			be.DB.Cancel()
			inner.Cancel()
			be.DB = wrap()
			return nil
		}
		return be, nil
	case "bolt", "cache(bolt)":
		dir, err := os.MkdirTemp(scratchDir(), "verif-bolt-")
		if err != nil {
			return nil, err
		}
		path := filepath.Join(dir, "chain.db")
		var bdb *bbolt.DB
		var bolt *coreutils.BoltChainDB
		be := &Backend{Name: name}
		open := func() error {
			var err error
			bdb, err = bbolt.Open(path, 0o600, &bbolt.Options{NoSync: true, NoFreelistSync: true})
			if err != nil {
				return err
			}
			bolt = coreutils.NewBoltChainDB(bdb)
			if name == "bolt" {
				be.DB = bolt
			} else {
				be.DB = chain.NewCacheDB(bolt)
			}
			return nil
		}
		if err := open(); err != nil {
			os.RemoveAll(dir)
			return nil, err
		}
		be.Reopen = func() error {
			be.DB.Cancel()
			bolt.Cancel()
			if err := bdb.Close(); err != nil {
				return err
			}
			return open()
		}
		be.Close = func() {
			be.DB.Cancel()
			bolt.Cancel()
			bdb.Close()
			os.RemoveAll(dir)
		}
		return be, nil
	}
	return nil, fmt.Errorf("unknown backend %q", name)
}
