package kvm

import (
	"go.sia.tech/coreutils/chain"
)

// Image is the committed content of a database at one commit point.
type Image map[string][]KV

// SnapDB wraps a chain.DB and takes an Image right after every completed
// Flush of the underlying database - i.e. at every durable commit point.
type SnapDB struct {
	Inner    chain.DB
	Buckets  []string
	OnCommit func(Image)
}

// Bucket implements chain.DB.
func (s *SnapDB) Bucket(name []byte) chain.DBBucket { return s.Inner.Bucket(name) }

// CreateBucket implements chain.DB.
func (s *SnapDB) CreateBucket(name []byte) (chain.DBBucket, error) { return s.Inner.CreateBucket(name) }

// Cancel implements chain.DB.
func (s *SnapDB) Cancel() { s.Inner.Cancel() }

// Flush implements chain.DB.
func (s *SnapDB) Flush() error {
	if err := s.Inner.Flush(); err != nil {
		return err
	}
	if s.OnCommit != nil {
		s.OnCommit(s.Snapshot())
	}
	return nil
}

// Snapshot reads everything the database holds (to be called when nothing is
// pending, i.e. right after a flush).
func (s *SnapDB) Snapshot() Image {
	img := Image{}
	for _, bn := range s.Buckets {
		if b := s.Inner.Bucket([]byte(bn)); b != nil {
			kvs := Collect(b)
			if kvs == nil {
				kvs = []KV{}
			}
			img[bn] = kvs
		}
	}
	return img
}

// Restore builds a fresh MemDB holding exactly the image.
func Restore(img Image) (*chain.MemDB, error) {
	db := chain.NewMemDB()
	for bn, kvs := range img {
		b, err := db.CreateBucket([]byte(bn))
		if err != nil {
			return nil, err
		}
		for _, kv := range kvs {
			if err := b.Put(append([]byte(nil), kv.K...), append([]byte(nil), kv.V...)); err != nil {
				return nil, err
			}
		}
	}
	return db, db.Flush()
}
