package p2px

import (
	"bytes"
	"context"
	"fmt"
	"strings"
	"sync"
	"time"

	"go.sia.tech/core/consensus"
	"go.sia.tech/core/gateway"
	"go.sia.tech/core/types"

	"verif/kit"
)

// Chain is a path of a fork tree that a scripted peer claims as its best
// chain. It may contain blocks core rejects.
type Chain struct {
	Tree *kit.Tree
	Path []*kit.TNode // Path[i] has height i+1
}

// ChainTo returns the chain ending in node n (nil = genesis only).
func ChainTo(tr *kit.Tree, n *kit.TNode) Chain {
	c := Chain{Tree: tr}
	if n != nil {
		c.Path = n.PathFromGenesis()
	}
	return c
}

// Height is the claimed tip height.
func (c Chain) Height() uint64 { return uint64(len(c.Path)) }

// At returns the node at height h (the root for 0).
func (c Chain) At(h uint64) *kit.TNode {
	if h == 0 {
		return c.Tree.Root
	}
	if h > uint64(len(c.Path)) {
		return nil
	}
	return c.Path[h-1]
}

// HeightOf finds a block id on the chain.
func (c Chain) HeightOf(id types.BlockID) (uint64, bool) {
	if id == c.Tree.Root.ID {
		return 0, true
	}
	for _, n := range c.Path {
		if n.ID == id {
			return n.Height, true
		}
	}
	return 0, false
}

// StateAt is the state after the block at height h: core's where the prefix is
// valid, the header-only state otherwise (all a liar can offer).
func (c Chain) StateAt(h uint64) consensus.State {
	n := c.At(h)
	if n.Ledger != nil {
		return n.Ledger.State
	}
	return n.Hdr
}

// Headers answers like Manager.Headers.
func (c Chain) Headers(index types.ChainIndex, max uint64) ([]types.BlockHeader, uint64, bool) {
	h, ok := c.HeightOf(index.ID)
	if !ok || h != index.Height {
		return nil, 0, false
	}
	n := min(max, c.Height()-h)
	out := make([]types.BlockHeader, 0, n)
	for i := uint64(1); i <= n; i++ {
		out = append(out, c.At(h+i).Block.Header())
	}
	return out, c.Height() - (h + n), true
}

// BlocksForHistory answers like Manager.BlocksForHistory.
func (c Chain) BlocksForHistory(history []types.BlockID, max uint64) ([]types.Block, uint64) {
	var attach uint64
	for _, id := range history {
		if h, ok := c.HeightOf(id); ok {
			attach = h
			break
		}
	}
	n := min(max, c.Height()-attach)
	out := make([]types.Block, 0, n)
	for i := uint64(1); i <= n; i++ {
		out = append(out, copyBlock(c.At(attach+i).Block))
	}
	return out, c.Height() - (attach + n)
}

func copyBlock(b types.Block) types.Block {
	var buf bytes.Buffer
	e := types.NewEncoder(&buf)
	types.V2Block(b).EncodeTo(e)
	e.Flush()
	var out types.Block
	d := types.NewBufDecoder(buf.Bytes())
	(*types.V2Block)(&out).DecodeFrom(d)
	return out
}

// Corruption is the one lie a Byzantine peer tells.
type Corruption struct {
	RPC  string `json:"rpc"`  // headers | blocks | checkpoint | txns | relay-header | relay-outline | relay-txset | none
	Kind string `json:"kind"` // see ByzKinds
	Arg  int    `json:"arg,omitempty"`
}

// ByzKinds lists the corruption kinds per RPC.
var ByzKinds = map[string][]string{
	"headers":    {"break-link", "low-work", "timestamp-past", "extra-remaining", "empty-with-remaining", "duplicate", "wrong-type", "garbage", "close"},
	"blocks":     {"other-branch", "body-swap", "drop-txns", "too-few", "too-many", "reorder", "wrong-type", "garbage", "close", "foreign-last", "body-swap+hangup", "drop-txns+hangup", "too-few-not-last", "empty-not-last", "hostile-body"},
	"checkpoint": {"non-v2", "wrong-id", "state-field", "state-work", "recommit", "wrong-type", "garbage", "close", "two-payouts", "payout-value", "v2-height", "no-payouts"},
	// hostile-*: announcements that attach to the receiver's tip, meet the
	// proof-of-work target where one applies, and carry extreme constants
	// (MaxCurrency fees and outputs, MaxUint64 heights / sizes / leaf indices,
	// out-of-range timestamps, over-long proofs) in the fields a handler computes
	// on before anything was validated; the variant is selected by Arg
	"relay-header":  {"low-work", "unknown-parent", "hostile-timestamp"},
	"relay-outline": {"low-work", "invalid-child", "wrong-missing", "no-missing", "txn-altered", "unknown-parent", "hostile-embedded", "hostile-missing", "hostile-field"},
	"relay-txset":   {"empty", "unknown-basis", "invalid", "hostile-txn", "hostile-basis"},
	// not an announcement but a request sent to the victim: extreme heights,
	// maxima and lists
	"relay-request": {"hostile-numbers"},
}

// ByzPeer is a scripted gateway peer that serves a claimed chain and applies
// one corruption.
type ByzPeer struct {
	*GWPeer
	Chain Chain
	Corr  Corruption
	// Alt is another branch of the tree (for "other-branch").
	Alt Chain

	mu       sync.Mutex
	extraV1  []types.Transaction   // transactions served by SendTransactions on top of the chain's
	extraV2  []types.V2Transaction // (the "missing" transactions of a hostile outline)
	seen     map[string]int        // RPCs the remote issued
	applied  map[string]int        // corrupted payloads actually delivered (differing from the honest answer)
	served   map[string]int        // honest payloads delivered
	offered  map[types.BlockID]bool
	relayErr []string
	sameIDAt time.Time // when the first same-id invalid body went out
}

// SameIDAt returns when the first block with another body under its id was
// handed over (zero if never).
func (b *ByzPeer) SameIDAt() time.Time {
	b.mu.Lock()
	defer b.mu.Unlock()
	return b.sameIDAt
}

// OfferTxns makes SendTransactions serve the given transactions whenever
// their hashes are asked for.
func (b *ByzPeer) OfferTxns(v1 []types.Transaction, v2 []types.V2Transaction) {
	b.mu.Lock()
	defer b.mu.Unlock()
	b.extraV1 = append(b.extraV1, v1...)
	b.extraV2 = append(b.extraV2, v2...)
}

// NewByzPeer creates the peer (not yet listening).
func NewByzPeer(gw *GWPeer, chain Chain, corr Corruption) *ByzPeer {
	return &ByzPeer{GWPeer: gw, Chain: chain, Corr: corr, seen: map[string]int{}, applied: map[string]int{}, served: map[string]int{}, offered: map[types.BlockID]bool{}}
}

func (b *ByzPeer) count(m map[string]int, k string) {
	b.mu.Lock()
	m[k]++
	b.mu.Unlock()
}

// Seen returns how often the remote issued the RPC.
func (b *ByzPeer) Seen(rpc string) int {
	b.mu.Lock()
	defer b.mu.Unlock()
	return b.seen[rpc]
}

// Applied returns how often a corrupted payload was delivered for the RPC.
func (b *ByzPeer) Applied(rpc string) int {
	b.mu.Lock()
	defer b.mu.Unlock()
	return b.applied[rpc]
}

// Offered returns the ids of blocks delivered unaltered.
func (b *ByzPeer) Offered() map[types.BlockID]bool {
	b.mu.Lock()
	defer b.mu.Unlock()
	out := map[types.BlockID]bool{}
	for k := range b.offered {
		out[k] = true
	}
	return out
}

func (b *ByzPeer) is(rpc string) bool { return b.Corr.RPC == rpc }

func modn(i, n int) int {
	if n <= 0 {
		return 0
	}
	return ((i % n) + n) % n
}

func writeWrongType(s *gateway.Stream, not string) {
	if not == "headers" {
		s.WriteResponse(&gateway.RPCSendV2Blocks{Blocks: []types.Block{{}}, Remaining: 7})
	} else {
		s.WriteResponse(&gateway.RPCSendHeaders{Headers: []types.BlockHeader{{Nonce: 1}}, Remaining: 7})
	}
}

func writeGarbage(s *gateway.Stream, arg int) {
	// a length prefix announcing far more than follows, then noise
	r := &gateway.RPCShareNodes{}
	for i := 0; i < 3+modn(arg, 5); i++ {
		r.Peers = append(r.Peers, string(bytes.Repeat([]byte{byte(0xF0 + i)}, 40+i)))
	}
	s.WriteResponse(r)
}

// Handle serves one inbound RPC stream.
func (b *ByzPeer) Handle(id types.Specifier, s *gateway.Stream) {
	defer s.Close()
	c := b.Chain
	switch r := gateway.ObjectForID(id).(type) {
	case *gateway.RPCShareNodes:
		s.WriteResponse(r)
	case *gateway.RPCDiscoverIP:
		r.IP = "127.0.0.1"
		s.WriteResponse(r)

	case *gateway.RPCSendHeaders:
		if s.ReadRequest(r) != nil {
			return
		}
		b.count(b.seen, "headers")
		hs, rem, ok := c.Headers(r.Index, r.Max)
		if !ok {
			return // like the real handler: error, stream closed
		}
		if !b.is("headers") || len(hs) == 0 && b.Corr.Kind != "empty-with-remaining" && b.Corr.Kind != "wrong-type" && b.Corr.Kind != "garbage" {
			r.Headers, r.Remaining = hs, rem
			b.count(b.served, "headers")
			s.WriteResponse(r)
			return
		}
		k := modn(b.Corr.Arg, max(1, len(hs)))
		switch b.Corr.Kind {
		case "break-link":
			hs[k].ParentID[5] ^= 0x20
		case "low-work":
			base, _ := c.HeightOf(r.Index.ID)
			blk := copyBlock(c.At(base + uint64(k) + 1).Block)
			kit.Grind(c.StateAt(base+uint64(k)), &blk, false)
			hs[k] = blk.Header()
		case "timestamp-past":
			hs[k].Timestamp = c.Tree.Genesis.Timestamp.Add(-time.Hour)
		case "extra-remaining":
			rem += 1000
		case "empty-with-remaining":
			hs, rem = nil, 5
		case "duplicate":
			hs = append(hs[:k+1:k+1], hs[k:]...)
		case "wrong-type":
			b.count(b.applied, "headers")
			writeWrongType(s, "headers")
			return
		case "garbage":
			b.count(b.applied, "headers")
			writeGarbage(s, b.Corr.Arg)
			return
		case "close":
			b.count(b.applied, "headers")
			return
		}
		b.count(b.applied, "headers")
		r.Headers, r.Remaining = hs, rem
		s.WriteResponse(r)

	case *gateway.RPCSendV2Blocks:
		if s.ReadRequest(r) != nil {
			return
		}
		b.count(b.seen, "blocks")
		blocks, rem := c.BlocksForHistory(r.History, r.Max)
		if !b.is("blocks") || len(blocks) == 0 {
			b.noteOffered(blocks)
			r.Blocks, r.Remaining = blocks, rem
			b.count(b.served, "blocks")
			s.WriteResponse(r)
			return
		}
		k := modn(b.Corr.Arg, len(blocks))
		if b.Corr.Kind == "hostile-body" {
			k = modn(b.Corr.Arg%16, len(blocks)) // Arg = position + 16*variant
		}
		applied := true
		kind, hangup := strings.CutSuffix(b.Corr.Kind, "+hangup")
		idBefore := blocks[k].ID()
		switch kind {
		case "other-branch":
			alt, _ := b.Alt.BlocksForHistory(r.History, r.Max)
			if len(alt) == 0 || (len(alt) == len(blocks) && alt[len(alt)-1].ID() == blocks[len(blocks)-1].ID()) {
				applied = false
			} else {
				blocks = alt
			}
		case "body-swap":
			// keep the header fields (for v2: the id) and give the block the
			// transactions of another block of the batch or none at all
			j := modn(k+1, len(blocks))
			src := blocks[j]
			before := blocks[k]
			if blocks[k].V2 != nil {
				var v2txns []types.V2Transaction
				if src.V2 != nil && j != k {
					v2txns = src.V2.Transactions
				}
				if len(v2txns) == 0 && len(before.V2.Transactions) == 0 {
					v2txns = []types.V2Transaction{{ArbitraryData: []byte("oops")}}
				}
				blocks[k].V2.Transactions = v2txns
			} else {
				blocks[k].Transactions = append(append([]types.Transaction(nil), blocks[k].Transactions...), types.Transaction{ArbitraryData: [][]byte{[]byte("oops")}})
			}
		case "hostile-body":
			// under the unchanged v2 id: a body of extreme constants (variant by
			// Arg/16: v2 transactions, then v1 transactions inside the v2 block)
			if blocks[k].V2 == nil {
				applied = false
				break
			}
			if v := modn(b.Corr.Arg/16, HostileV2Variants+HostileV1Variants); v < HostileV2Variants {
				blocks[k].V2.Transactions = []types.V2Transaction{HostileV2Txn(v, 63)}
			} else {
				blocks[k].Transactions = []types.Transaction{HostileV1Txn(v - HostileV2Variants)}
			}
		case "drop-txns":
			if blocks[k].V2 != nil && len(blocks[k].V2.Transactions) > 0 {
				blocks[k].V2.Transactions = nil
			} else if len(blocks[k].Transactions) > 0 {
				blocks[k].Transactions = nil
			} else {
				blocks[k].MinerPayouts = append(blocks[k].MinerPayouts, types.SiacoinOutput{Value: types.NewCurrency64(1)})
			}
		case "too-few":
			blocks = blocks[:len(blocks)-1]
		case "too-few-not-last", "empty-not-last":
			// a strict prefix of (or nothing from) a batch that is not the last of
			// the download: more blocks follow in later requests, which other
			// peers may answer
			if rem == 0 {
				applied = false
			} else if kind == "empty-not-last" {
				blocks = nil
			} else {
				blocks = blocks[:len(blocks)/2]
			}
		case "too-many":
			blocks = append(blocks, blocks[len(blocks)-1])
		case "reorder":
			if len(blocks) < 2 {
				applied = false
			} else {
				j := modn(k+1, len(blocks))
				blocks[k], blocks[j] = blocks[j], blocks[k]
			}
		case "foreign-last":
			// right count and right last id, something else in front
			if len(blocks) < 2 {
				applied = false
			} else {
				blocks[0] = copyBlock(c.Tree.Genesis)
			}
		case "wrong-type":
			b.count(b.applied, "blocks")
			writeWrongType(s, "blocks")
			return
		case "garbage":
			b.count(b.applied, "blocks")
			writeGarbage(s, b.Corr.Arg)
			return
		case "close":
			b.count(b.applied, "blocks")
			return
		}
		if applied {
			b.count(b.applied, "blocks")
			if (kind == "body-swap" || kind == "drop-txns" || kind == "hostile-body") && k < len(blocks) && blocks[k].ID() == idBefore {
				// another body under an unchanged (v2) id: passes every id check,
				// core rejects the block
				b.count(b.applied, "blocks:same-id-invalid-body")
				b.mu.Lock()
				if b.sameIDAt.IsZero() {
					b.sameIDAt = time.Now()
				}
				b.mu.Unlock()
			}
		} else {
			b.noteOffered(blocks)
			b.count(b.served, "blocks")
		}
		r.Blocks, r.Remaining = blocks, rem
		s.WriteResponse(r)
		if hangup && applied {
			// deliver, then hang up before the receiver gets round to judging it.
			// "Delivered" must be certain (a connection closed too early can
			// swallow the answer): the requester closes the stream once it has
			// read the response, which ends this read; only then the liar hangs up
			s.ReadRequest(&gateway.RPCSendV2Blocks{})
			b.CloseConns()
		}

	case *gateway.RPCSendCheckpoint:
		if s.ReadRequest(r) != nil {
			return
		}
		b.count(b.seen, "checkpoint")
		h, ok := c.HeightOf(r.Index.ID)
		if !ok || h == 0 {
			return
		}
		blk := copyBlock(c.At(h).Block)
		st := c.StateAt(h - 1)
		if !b.is("checkpoint") {
			r.Block, r.State = blk, st
			b.count(b.served, "checkpoint")
			s.WriteResponse(r)
			return
		}
		applied := true
		switch b.Corr.Kind {
		case "non-v2":
			blk.V2 = nil
		case "two-payouts":
			blk.MinerPayouts = append(blk.MinerPayouts, blk.MinerPayouts[0])
		case "no-payouts":
			// the genuine block without its miner payout: the v2 id does not
			// bind the payouts, so only the explicit shape check refuses it
			blk.MinerPayouts = nil
		case "payout-value":
			// genuine block and state, another payout value: neither the v2 id nor
			// the commitment covers it (even arg: one hasting more, odd: a million
			// siacoins more)
			if len(blk.MinerPayouts) == 0 {
				applied = false
			} else if modn(b.Corr.Arg, 2) == 0 {
				blk.MinerPayouts[0].Value = blk.MinerPayouts[0].Value.Add(types.NewCurrency64(1))
			} else {
				blk.MinerPayouts[0].Value = blk.MinerPayouts[0].Value.Add(types.Siacoins(1000000))
			}
		case "v2-height":
			// the height field of the v2 data is not covered by the id either
			if blk.V2 == nil {
				applied = false
			} else {
				blk.V2.Height += 1 + uint64(modn(b.Corr.Arg, 3))
			}
		case "wrong-id":
			other := c.At(uint64(1 + modn(b.Corr.Arg, int(c.Height()))))
			if other.ID == blk.ID() {
				other = c.At(1 + uint64(modn(b.Corr.Arg+1, int(c.Height()))))
			}
			if other.ID == blk.ID() {
				applied = false
			} else {
				blk = copyBlock(other.Block)
				st = c.StateAt(other.Height - 1)
			}
		case "state-field":
			switch modn(b.Corr.Arg, 4) {
			case 0:
				st.SiafundTaxRevenue = st.SiafundTaxRevenue.Add(types.NewCurrency64(1))
			case 1:
				st.Attestations++
			case 2:
				st.FoundationSubsidyAddress[3] ^= 1
			case 3:
				st.Elements.NumLeaves++
			}
		case "state-work":
			// claim far more accumulated work and an easier target
			st.TotalWork.UnmarshalText([]byte(st.TotalWork.String() + "000"))
			st.Difficulty.UnmarshalText([]byte("1"))
		case "recommit":
			// forged state, block re-committed to it and re-ground: self-consistent,
			// but no longer the requested block
			st.SiafundTaxRevenue = st.SiafundTaxRevenue.Add(types.NewCurrency64(7))
			if blk.V2 != nil && len(blk.MinerPayouts) == 1 {
				blk.V2.Commitment = st.Commitment(blk.MinerPayouts[0].Address, blk.Transactions, blk.V2Transactions())
				kit.Grind(c.StateAt(h-1), &blk, true)
			}
		case "wrong-type":
			b.count(b.applied, "checkpoint")
			writeWrongType(s, "checkpoint")
			return
		case "garbage":
			b.count(b.applied, "checkpoint")
			writeGarbage(s, b.Corr.Arg)
			return
		case "close":
			b.count(b.applied, "checkpoint")
			return
		}
		if applied {
			b.count(b.applied, "checkpoint")
		}
		r.Block, r.State = blk, st
		s.WriteResponse(r)

	case *gateway.RPCSendTransactions:
		if s.ReadRequest(r) != nil {
			return
		}
		b.count(b.seen, "txns")
		var blk types.Block
		if n := c.Tree.ByID[r.Index.ID]; n != nil {
			blk = n.Block
		}
		want := map[types.Hash256]bool{}
		for _, h := range r.Hashes {
			want[h] = true
		}
		for _, txn := range blk.Transactions {
			if want[txn.MerkleLeafHash()] {
				r.Transactions = append(r.Transactions, txn)
			}
		}
		for _, txn := range blk.V2Transactions() {
			if want[txn.MerkleLeafHash()] {
				r.V2Transactions = append(r.V2Transactions, txn)
			}
		}
		b.mu.Lock()
		ev1, ev2 := append([]types.Transaction(nil), b.extraV1...), append([]types.V2Transaction(nil), b.extraV2...)
		b.mu.Unlock()
		extra := false
		for _, txn := range ev1 {
			if h := txn.MerkleLeafHash(); want[h] {
				r.Transactions, extra = append(r.Transactions, txn), true
				delete(want, h)
			}
		}
		for _, txn := range ev2 {
			if h := txn.MerkleLeafHash(); want[h] {
				r.V2Transactions, extra = append(r.V2Transactions, txn), true
				delete(want, h)
			}
		}
		if extra {
			b.count(b.applied, "txns")
		}
		if b.Corr.RPC == "relay-outline" && b.Corr.Kind == "wrong-missing" {
			r.Transactions = nil
			r.V2Transactions = []types.V2Transaction{{ArbitraryData: []byte("not what you asked for")}}
			b.count(b.applied, "txns")
		} else if b.Corr.RPC == "relay-outline" && b.Corr.Kind == "no-missing" {
			r.Transactions, r.V2Transactions = nil, nil
			b.count(b.applied, "txns")
		}
		s.WriteResponse(r)

	case *gateway.RPCRelayV2Header:
		s.ReadRequest(r)
		b.count(b.seen, "relay-header")
	case *gateway.RPCRelayV2BlockOutline:
		s.ReadRequest(r)
		b.count(b.seen, "relay-outline")
	case *gateway.RPCRelayV2TransactionSet:
		s.ReadRequest(r)
		b.count(b.seen, "relay-txset")
	}
}

func (b *ByzPeer) noteOffered(blocks []types.Block) {
	b.mu.Lock()
	for _, blk := range blocks {
		b.offered[blk.ID()] = true
	}
	b.mu.Unlock()
}

// relay sends a fire-and-forget relay RPC (the syncer's relay handlers write no
// response).
func relay(conn *GWConn, r gateway.Object) error {
	s, err := conn.T.DialStream()
	if err != nil {
		return err
	}
	defer s.Close()
	s.SetDeadline(time.Now().Add(10 * time.Second))
	if err := s.WriteID(r); err != nil {
		return err
	}
	return s.WriteRequest(r)
}

// Request sends a request and reads (and drops) the answer, whatever it is.
func Request(conn *GWConn, r gateway.Object) error {
	s, err := conn.T.DialStream()
	if err != nil {
		return err
	}
	defer s.Close()
	s.SetDeadline(time.Now().Add(10 * time.Second))
	if err := s.WriteID(r); err != nil {
		return err
	} else if err := s.WriteRequest(r); err != nil {
		return err
	}
	s.ReadResponse(r)
	return nil
}

// RelayHeader relays a header.
func RelayHeader(conn *GWConn, bh types.BlockHeader) error {
	return relay(conn, &gateway.RPCRelayV2Header{Header: bh})
}

// RelayOutline relays a block outline.
func RelayOutline(conn *GWConn, o gateway.V2BlockOutline) error {
	return relay(conn, &gateway.RPCRelayV2BlockOutline{Block: o})
}

// RelayTxnSet relays a transaction set.
func RelayTxnSet(conn *GWConn, index types.ChainIndex, txns []types.V2Transaction) error {
	return relay(conn, &gateway.RPCRelayV2TransactionSet{Index: index, Transactions: txns})
}

// ConnectTo dials a syncer and serves the connection in the background.
func (b *ByzPeer) ConnectTo(addr string, timeout time.Duration) (*GWConn, error) {
	ctx, cancel := context.WithTimeout(context.Background(), timeout)
	defer cancel()
	conn, err := b.Dial(ctx, addr, timeout)
	if err != nil {
		return nil, err
	}
	go conn.Serve(b.Handle)
	return conn, nil
}

// ServeInbound accepts connections on the peer's listener until it is closed.
func (b *ByzPeer) ServeInbound(onConn func(*GWConn)) {
	for {
		conn, err := b.Accept(20 * time.Second)
		if err != nil {
			if b.L == nil || isNetClosed(err) {
				return
			}
			continue
		}
		if onConn != nil {
			onConn(conn)
		}
		go conn.Serve(b.Handle)
	}
}

func isNetClosed(err error) bool {
	return err != nil && bytes.Contains([]byte(err.Error()), []byte("use of closed network connection"))
}

var _ = fmt.Sprint
