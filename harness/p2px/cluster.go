package p2px

import (
	"context"
	"errors"
	"fmt"
	"net"
	"os"
	"sync"
	"time"

	"go.sia.tech/core/gateway"
	"go.sia.tech/core/types"
	"go.sia.tech/coreutils/syncer"
	"go.uber.org/zap"

	"verif/kit"
)

// SyncerNode is a real syncer.Syncer on a loopback address, over a kit.Node
// whose manager is wrapped in a RecCM, with a recording peer store.
type SyncerNode struct {
	// Stripped: Announce sends outlines without transaction bodies.
	Stripped bool
	Name     string
	IP       string
	Tree     *kit.Tree
	Node     *kit.Node
	CM       *RecCM
	Store    *RecPeerStore
	L        net.Listener
	S        *syncer.Syncer
	UID      gateway.UniqueID

	RunErr chan error // receives Run's result once

	reorgMu sync.Mutex
	reorgs  int
	stopOn  func()

	closeOnce sync.Once
	closeErr  error
}

// NodeConfig configures StartSyncer.
type NodeConfig struct {
	Name string
	IP   string // listen and source address (default 127.0.0.1)
	UID  gateway.UniqueID
	Opts []syncer.Option
	// NoRun skips go s.Run().
	NoRun bool
	// Gate, if set, is installed in the manager wrapper.
	Gate    *Gate
	KeysFor func(peer int) []string
}

// StartSyncer builds the node's syncer (dialing from its own address) and runs
// it.
func StartSyncer(node *kit.Node, cfg NodeConfig) (*SyncerNode, error) {
	if cfg.IP == "" {
		cfg.IP = "127.0.0.1"
	}
	l, err := ListenOn(cfg.IP)
	if err != nil {
		return nil, fmt.Errorf("INFRA: listen %s: %w", cfg.IP, err)
	}
	n := &SyncerNode{Name: cfg.Name, IP: cfg.IP, Tree: node.Tree, Node: node, CM: NewRecCM(node.CM), Store: NewRecPeerStore(), L: l, UID: cfg.UID, RunErr: make(chan error, 1)}
	n.CM.Gate, n.CM.KeysFor = cfg.Gate, cfg.KeysFor
	// tip work must never decrease: sample the tip at every reorg notification
	// (and after every submission, see RecCM)
	n.stopOn = node.CM.OnReorg(func(types.ChainIndex) {
		n.reorgMu.Lock()
		n.reorgs++
		n.reorgMu.Unlock()
		n.CM.SampleWork()
	})
	opts := append([]syncer.Option{syncer.WithDialer(SrcDialer{IP: cfg.IP})}, cfg.Opts...)
	if os.Getenv("VERIF_NET_LOG") != "" { // debugging aid
		if lg, err := zap.NewDevelopment(); err == nil {
			opts = append(opts, syncer.WithLogger(lg.Named(cfg.Name)))
		}
	}
	n.S = syncer.New(l, n.CM, n.Store, gateway.Header{GenesisID: node.Tree.Genesis.ID(), UniqueID: cfg.UID, NetAddress: l.Addr().String()}, opts...)
	if !cfg.NoRun {
		go func() { n.RunErr <- n.S.Run() }()
	}
	return n, nil
}

// Addr is the listen address.
func (n *SyncerNode) Addr() string { return n.L.Addr().String() }

// WorkDrop reports a recorded decrease of the tip's total work ("" if none).
func (n *SyncerNode) WorkDrop() string { return n.CM.WorkDrop() }

// Reorgs returns the number of reorg notifications seen.
func (n *SyncerNode) Reorgs() int {
	n.reorgMu.Lock()
	defer n.reorgMu.Unlock()
	return n.reorgs
}

// ErrCloseTimeout is returned by Close when the syncer did not shut down.
var ErrCloseTimeout = errors.New("syncer Close did not return")

// Close closes the syncer with a watchdog.
func (n *SyncerNode) Close(timeout time.Duration) error {
	n.closeOnce.Do(func() {
		done := make(chan struct{})
		go func() { n.S.Close(); close(done) }()
		select {
		case <-done:
		case <-time.After(timeout):
			n.closeErr = ErrCloseTimeout
		}
		if n.stopOn != nil {
			n.stopOn()
		}
	})
	return n.closeErr
}

// Connect connects n to m (outbound at n).
func (n *SyncerNode) Connect(m *SyncerNode, timeout time.Duration) error {
	ctx, cancel := context.WithTimeout(context.Background(), timeout)
	defer cancel()
	_, err := n.S.Connect(ctx, m.Addr())
	return err
}

// SyncSubmitted copies what the syncer handed to the manager into the
// kit.Node's bookkeeping so that kit's audits apply. Call only when the syncer
// is closed (no concurrent writers).
func (n *SyncerNode) SyncSubmitted() {
	sub, maxH := n.CM.Submitted()
	for id := range sub {
		n.Node.Submitted[id] = true
	}
	if maxH > n.Node.MaxHeight {
		n.Node.MaxHeight = maxH
	}
}

// MaskIP returns the CIDR key of ip under an IPv4 prefix length, computed
// independently of the syncer.
func MaskIP(ip string, bits int) string {
	p := net.ParseIP(ip).To4()
	if p == nil {
		return ""
	}
	m := net.CIDRMask(bits, 32)
	return fmt.Sprintf("%s/%d", p.Mask(m).String(), bits)
}
