package p2px

import (
	"encoding/binary"
	"fmt"
	"sync"
	"time"

	"go.sia.tech/core/consensus"
	"go.sia.tech/core/types"
	"go.sia.tech/coreutils/chain"
	"go.sia.tech/coreutils/syncer"
)

// ---------------------------------------------------------------- gate

// Gate observes how many calls are inside a guarded region at the same time,
// per key, and can hold them there until it is opened.
type Gate struct {
	mu      sync.Mutex
	open    bool
	cur     map[string]int
	max     map[string]int
	entered int
	exited  int
	changed chan struct{}
}

// NewGate returns a closed gate (callers block until Open).
func NewGate() *Gate {
	return &Gate{cur: map[string]int{}, max: map[string]int{}, changed: make(chan struct{})}
}

func (g *Gate) bump() {
	close(g.changed)
	g.changed = make(chan struct{})
}

// Enter registers a call under every key and blocks while the gate is closed.
func (g *Gate) Enter(keys ...string) {
	g.mu.Lock()
	g.entered++
	for _, k := range keys {
		g.cur[k]++
		if g.cur[k] > g.max[k] {
			g.max[k] = g.cur[k]
		}
	}
	g.bump()
	for !g.open {
		ch := g.changed
		g.mu.Unlock()
		<-ch
		g.mu.Lock()
	}
	g.mu.Unlock()
}

// Exit unregisters a call.
func (g *Gate) Exit(keys ...string) {
	g.mu.Lock()
	g.exited++
	for _, k := range keys {
		g.cur[k]--
	}
	g.bump()
	g.mu.Unlock()
}

// Open releases every blocked call and lets later ones pass.
func (g *Gate) Open() {
	g.mu.Lock()
	g.open = true
	g.bump()
	g.mu.Unlock()
}

// IsOpen reports whether the gate is open.
func (g *Gate) IsOpen() bool {
	g.mu.Lock()
	defer g.mu.Unlock()
	return g.open
}

// Shut makes later calls block again.
func (g *Gate) Shut() {
	g.mu.Lock()
	g.open = false
	g.bump()
	g.mu.Unlock()
}

// Snapshot is a consistent copy of the gate's counters.
type GateSnapshot struct {
	Cur, Max        map[string]int
	Entered, Exited int
}

// Inside returns the number of calls currently inside.
func (s GateSnapshot) Inside() int { return s.Entered - s.Exited }

// Snapshot copies the counters.
func (g *Gate) Snapshot() GateSnapshot {
	g.mu.Lock()
	defer g.mu.Unlock()
	s := GateSnapshot{Cur: map[string]int{}, Max: map[string]int{}, Entered: g.entered, Exited: g.exited}
	for k, v := range g.cur {
		s.Cur[k] = v
	}
	for k, v := range g.max {
		s.Max[k] = v
	}
	return s
}

// ResetMax forgets the per-key maxima (between bursts).
func (g *Gate) ResetMax() {
	g.mu.Lock()
	defer g.mu.Unlock()
	g.max = map[string]int{}
	for k, v := range g.cur {
		g.max[k] = v
	}
}

// WaitFor blocks until pred holds on a snapshot or the timeout expires; it
// reports whether pred held.
func (g *Gate) WaitFor(pred func(GateSnapshot) bool, timeout time.Duration) bool {
	deadline := time.NewTimer(timeout)
	defer deadline.Stop()
	for {
		g.mu.Lock()
		ch := g.changed
		g.mu.Unlock()
		if pred(g.Snapshot()) {
			return true
		}
		select {
		case <-ch:
		case <-deadline.C:
			return pred(g.Snapshot())
		}
	}
}

// ---------------------------------------------------------------- tags

var tagMagic = [4]byte{'T', 'A', 'G', '!'}

// TagID encodes (peer, seq) as a block id no chain contains.
func TagID(peer, seq int) types.BlockID {
	var id types.BlockID
	copy(id[:4], tagMagic[:])
	binary.BigEndian.PutUint16(id[4:], uint16(peer))
	binary.BigEndian.PutUint32(id[6:], uint32(seq))
	return id
}

// ParseTagID decodes a TagID.
func ParseTagID(id types.BlockID) (peer, seq int, ok bool) {
	if [4]byte(id[:4]) != tagMagic {
		return 0, 0, false
	}
	return int(binary.BigEndian.Uint16(id[4:])), int(binary.BigEndian.Uint32(id[6:])), true
}

// TagMax encodes (peer, seq) in the Max field of a SendHeaders request
// (1000..9999; the syncer clamps Max to 10000).
func TagMax(peer, seq int) uint64 { return uint64(1000 + peer*1000 + seq%1000) }

// ParseTagMax decodes a TagMax.
func ParseTagMax(m uint64) (peer, seq int, ok bool) {
	if m < 1000 || m > 9999 {
		return 0, 0, false
	}
	return int(m-1000) / 1000, int(m-1000) % 1000, true
}

// ---------------------------------------------------------------- manager wrapper

// RecCM wraps a chain.Manager as the syncer sees it: it records which blocks
// were handed in (for the chain audit), the tip work after every reorg, and -
// when a Gate is set - holds tagged serving calls inside the gate so that the
// number of concurrently running RPC handlers can be observed from outside.
type RecCM struct {
	partialAsked, partialShort int
	*chain.Manager

	Gate *Gate
	// HoldServe makes the gate hold every BlocksForHistory call (key "serve"),
	// tagged or not.
	HoldServe bool
	// KeysFor names the gate keys (peer, subnet) of a tagged request.
	KeysFor func(peer int) []string

	mu        sync.Mutex
	submitted map[types.BlockID]bool
	maxHeight uint64
	addCalls  int
	valCalls  int
	addErrs   int

	workMu   sync.Mutex
	lastWork consensus.State
	workDrop string
}

// NewRecCM wraps cm.
func NewRecCM(cm *chain.Manager) *RecCM {
	return &RecCM{Manager: cm, submitted: map[types.BlockID]bool{}, maxHeight: cm.Tip().Height, lastWork: cm.TipState()}
}

// SampleWork reads the tip state and compares its total work with the previous
// sample. Samples are totally ordered by the wrapper's own mutex, so if the
// manager's tip work never decreases over time, neither does this sequence -
// whatever the interleaving of the callers.
func (c *RecCM) SampleWork() {
	c.workMu.Lock()
	defer c.workMu.Unlock()
	st := c.Manager.TipState()
	if st.TotalWork.Cmp(c.lastWork.TotalWork) < 0 && c.workDrop == "" {
		c.workDrop = fmt.Sprintf("tip went from %v (total work %v) to %v (total work %v)", c.lastWork.Index, c.lastWork.TotalWork, st.Index, st.TotalWork)
	}
	c.lastWork = st
}

// WorkDrop reports a recorded decrease of the tip's total work ("" if none).
func (c *RecCM) WorkDrop() string {
	c.workMu.Lock()
	defer c.workMu.Unlock()
	return c.workDrop
}

func (c *RecCM) guard(peer int) func() {
	if c.Gate == nil {
		return func() {}
	}
	var keys []string
	if c.KeysFor != nil {
		keys = c.KeysFor(peer)
	}
	c.Gate.Enter(keys...)
	return func() { c.Gate.Exit(keys...) }
}

// BlocksForHistory implements syncer.ChainManager.
func (c *RecCM) BlocksForHistory(history []types.BlockID, max uint64) ([]types.Block, uint64, error) {
	if c.Gate != nil && c.HoldServe {
		// hold every block request (a node that is slow to serve)
		c.Gate.Enter("serve")
		defer c.Gate.Exit("serve")
	} else if c.Gate != nil {
		for _, id := range history {
			if peer, _, ok := ParseTagID(id); ok {
				defer c.guard(peer)()
				break
			}
		}
	}
	return c.Manager.BlocksForHistory(history, max)
}

// Block implements syncer.ChainManager.
func (c *RecCM) Block(id types.BlockID) (types.Block, bool) {
	if c.Gate != nil {
		if peer, _, ok := ParseTagID(id); ok {
			defer c.guard(peer)()
		}
	}
	return c.Manager.Block(id)
}

// TransactionsForPartialBlock implements syncer.ChainManager; calls that could
// not supply every transaction asked for are counted (the syncer then asks
// the announcing peer with SendTransactions).
func (c *RecCM) TransactionsForPartialBlock(missing []types.Hash256) ([]types.Transaction, []types.V2Transaction) {
	txns, v2txns := c.Manager.TransactionsForPartialBlock(missing)
	if len(missing) > 0 {
		c.mu.Lock()
		c.partialAsked++
		if len(txns)+len(v2txns) < len(missing) {
			c.partialShort++
		}
		c.mu.Unlock()
	}
	return txns, v2txns
}

// PartialBlocks returns how many incomplete outlines the node tried to complete
// from its pool, and how many of those the pool could not complete.
func (c *RecCM) PartialBlocks() (asked, short int) {
	c.mu.Lock()
	defer c.mu.Unlock()
	return c.partialAsked, c.partialShort
}

// Headers implements syncer.ChainManager.
func (c *RecCM) Headers(index types.ChainIndex, max uint64) ([]types.BlockHeader, uint64, error) {
	if c.Gate != nil {
		if peer, _, ok := ParseTagMax(max); ok {
			defer c.guard(peer)()
		}
	}
	return c.Manager.Headers(index, max)
}

func (c *RecCM) note(blocks []types.Block) {
	c.mu.Lock()
	for _, b := range blocks {
		c.submitted[b.ID()] = true
	}
	c.mu.Unlock()
}

func (c *RecCM) after(err error) {
	h := c.Manager.Tip().Height
	c.mu.Lock()
	if h > c.maxHeight {
		c.maxHeight = h
	}
	if err != nil {
		c.addErrs++
	}
	c.mu.Unlock()
	c.SampleWork()
}

// AddBlocks implements syncer.ChainManager.
func (c *RecCM) AddBlocks(blocks []types.Block) error {
	c.note(blocks)
	c.mu.Lock()
	c.addCalls++
	c.mu.Unlock()
	err := c.Manager.AddBlocks(blocks)
	c.after(err)
	return err
}

// AddValidatedV2Blocks implements syncer.ChainManager.
func (c *RecCM) AddValidatedV2Blocks(blocks []types.Block, states []consensus.State) error {
	c.note(blocks)
	c.mu.Lock()
	c.valCalls++
	c.mu.Unlock()
	err := c.Manager.AddValidatedV2Blocks(blocks, states)
	c.after(err)
	return err
}

// Submitted returns the set of block ids handed to the manager through the
// wrapper, and the greatest tip height seen after a call.
func (c *RecCM) Submitted() (map[types.BlockID]bool, uint64) {
	c.mu.Lock()
	defer c.mu.Unlock()
	out := make(map[types.BlockID]bool, len(c.submitted))
	for k := range c.submitted {
		out[k] = true
	}
	return out, c.maxHeight
}

// SubmittedCount returns the number of distinct blocks handed to the manager.
func (c *RecCM) SubmittedCount() int {
	c.mu.Lock()
	defer c.mu.Unlock()
	return len(c.submitted)
}

// Calls returns (AddBlocks calls, AddValidatedV2Blocks calls, failed calls).
func (c *RecCM) Calls() (add, validated, errs int) {
	c.mu.Lock()
	defer c.mu.Unlock()
	return c.addCalls, c.valCalls, c.addErrs
}

var _ syncer.ChainManager = (*RecCM)(nil)
