package p2px

import (
	"runtime"
	"strings"
	"time"
)

// AllStacks returns the stack of every goroutine, one string per goroutine.
func AllStacks() []string {
	buf := make([]byte, 1<<20)
	for {
		n := runtime.Stack(buf, true)
		if n < len(buf) {
			buf = buf[:n]
			break
		}
		buf = make([]byte, 2*len(buf))
	}
	return strings.Split(strings.TrimSpace(string(buf)), "\n\n")
}

// StacksWith returns the goroutines whose stack mentions any of the substrings.
func StacksWith(subs ...string) []string {
	var out []string
	for _, g := range AllStacks() {
		for _, s := range subs {
			if strings.Contains(g, s) {
				out = append(out, g)
				break
			}
		}
	}
	return out
}

// WaitNoStacks polls until no goroutine mentions any of the substrings, or the
// timeout expires; it returns the remaining ones.
func WaitNoStacks(timeout time.Duration, subs ...string) []string {
	deadline := time.Now().Add(timeout)
	wait := 200 * time.Microsecond
	for {
		rest := StacksWith(subs...)
		if len(rest) == 0 || time.Now().After(deadline) {
			return rest
		}
		time.Sleep(wait)
		if wait < 50*time.Millisecond {
			wait *= 2
		}
	}
}

// ClipStacks joins at most n stacks for an error message.
func ClipStacks(stacks []string, n int) string {
	if len(stacks) > n {
		stacks = append(append([]string(nil), stacks[:n]...), "…")
	}
	s := strings.Join(stacks, "\n\n")
	if len(s) > 6000 {
		s = s[:6000] + "…"
	}
	return s
}

// Pause waits roughly us microseconds (yielding for very short waits).
func Pause(us int) {
	if us <= 0 {
		return
	}
	if us < 30 {
		for i := 0; i < us; i++ {
			runtime.Gosched()
		}
		return
	}
	time.Sleep(time.Duration(us) * time.Microsecond)
}
