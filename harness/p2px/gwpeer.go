package p2px

import (
	"context"
	"crypto/sha256"
	"errors"
	"fmt"
	"net"
	"os"
	"sync"
	"time"

	"go.sia.tech/core/gateway"
	"go.sia.tech/core/types"
)

// SrcDialer dials from a fixed loopback source address, so that the remote
// side sees the connection coming from that address (and subnet).
type SrcDialer struct {
	IP string
}

// DialContext implements syncer.Dialer.
func (d SrcDialer) DialContext(ctx context.Context, network, address string) (net.Conn, error) {
	nd := net.Dialer{}
	if d.IP != "" {
		nd.LocalAddr = &net.TCPAddr{IP: net.ParseIP(d.IP)}
	}
	return nd.DialContext(ctx, network, address)
}

// ListenOn listens on an ephemeral port of a loopback address.
func ListenOn(ip string) (net.Listener, error) {
	if ip == "" {
		ip = "127.0.0.1"
	}
	return net.Listen("tcp", net.JoinHostPort(ip, "0"))
}

// DetUniqueID derives a gateway id deterministically.
func DetUniqueID(parts ...any) (id gateway.UniqueID) {
	h := sha256.Sum256([]byte(fmt.Sprint(parts...)))
	copy(id[:], h[:8])
	return
}

// GWPeer is a scripted gateway peer: it speaks the real handshake and mux
// through go.sia.tech/core/gateway, everything above is decided by the script.
type GWPeer struct {
	Genesis  types.BlockID
	UniqueID gateway.UniqueID
	IP       string // source and listen address
	// NetAddress is what the handshake advertises; Listen sets it.
	NetAddress string
	L          net.Listener

	mu    sync.Mutex
	conns []*GWConn
}

// Header returns the handshake header.
func (p *GWPeer) Header() gateway.Header {
	na := p.NetAddress
	if na == "" {
		na = net.JoinHostPort(p.IP, "1")
	}
	return gateway.Header{GenesisID: p.Genesis, UniqueID: p.UniqueID, NetAddress: na}
}

// Listen opens the peer's listener.
func (p *GWPeer) Listen() error {
	l, err := ListenOn(p.IP)
	if err != nil {
		return err
	}
	p.L = l
	p.NetAddress = l.Addr().String()
	return nil
}

// GWConn is one established gateway connection of a scripted peer.
type GWConn struct {
	T      *gateway.Transport
	Conn   net.Conn
	Peer   *GWPeer
	closed sync.Once
}

func (p *GWPeer) track(c *GWConn) *GWConn {
	p.mu.Lock()
	p.conns = append(p.conns, c)
	p.mu.Unlock()
	return c
}

// Dial connects to a syncer and performs the handshake.
func (p *GWPeer) Dial(ctx context.Context, addr string, handshakeTimeout time.Duration) (*GWConn, error) {
	conn, err := SrcDialer{IP: p.IP}.DialContext(ctx, "tcp", addr)
	if err != nil {
		return nil, err
	}
	conn.SetDeadline(time.Now().Add(handshakeTimeout))
	t, err := gateway.Dial(conn, p.Header())
	if err != nil {
		conn.Close()
		return nil, err
	}
	conn.SetDeadline(time.Time{})
	return p.track(&GWConn{T: t, Conn: conn, Peer: p}), nil
}

// Accept waits for one inbound connection and performs the handshake.
func (p *GWPeer) Accept(handshakeTimeout time.Duration) (*GWConn, error) {
	if p.L == nil {
		return nil, errors.New("not listening")
	}
	conn, err := p.L.Accept()
	if err != nil {
		return nil, err
	}
	conn.SetDeadline(time.Now().Add(handshakeTimeout))
	t, err := gateway.Accept(conn, p.Header())
	if err != nil {
		conn.Close()
		return nil, err
	}
	conn.SetDeadline(time.Time{})
	return p.track(&GWConn{T: t, Conn: conn, Peer: p}), nil
}

// CloseConns hangs up every established connection (the listener stays).
func (p *GWPeer) CloseConns() {
	p.mu.Lock()
	conns := append([]*GWConn(nil), p.conns...)
	p.mu.Unlock()
	for _, c := range conns {
		c.Close()
	}
}

// Close closes the listener and every connection.
func (p *GWPeer) Close() {
	if p.L != nil {
		p.L.Close()
	}
	p.mu.Lock()
	conns := append([]*GWConn(nil), p.conns...)
	p.mu.Unlock()
	for _, c := range conns {
		c.Close()
	}
}

// Close closes the connection.
func (c *GWConn) Close() {
	c.closed.Do(func() {
		c.T.Close()
		c.Conn.Close()
	})
}

// Call performs one RPC as the syncer's own client code does.
func (c *GWConn) Call(r gateway.Object, timeout time.Duration) error {
	s, err := c.T.DialStream()
	if err != nil {
		return fmt.Errorf("couldn't open stream: %w", err)
	}
	defer s.Close()
	s.SetDeadline(time.Now().Add(timeout))
	if err := s.WriteID(r); err != nil {
		return fmt.Errorf("couldn't write RPC ID: %w", err)
	} else if err := s.WriteRequest(r); err != nil {
		return fmt.Errorf("couldn't write request: %w", err)
	} else if err := s.ReadResponse(r); err != nil {
		return fmt.Errorf("couldn't read response: %w", err)
	}
	return nil
}

// Serve accepts streams until the connection fails and hands each to h in its
// own goroutine. h must close the stream.
func (c *GWConn) Serve(h func(id types.Specifier, s *gateway.Stream)) error {
	for {
		s, err := c.T.AcceptStream()
		if err != nil {
			return err
		}
		go func() {
			s.SetDeadline(time.Now().Add(30 * time.Second))
			id, err := s.ReadID()
			if err != nil {
				s.Close()
				return
			}
			h(id, s)
		}()
	}
}

// ListenIP returns the k-th loopback address this process listens on. The
// address space 127.128.0.0/9 is partitioned by process id, so that test
// processes running side by side (shards, other checks) never reuse each
// other's (address, port) pairs - a port freed by a closed listener cannot be
// taken over by a foreign listener that would answer in its place.
func ListenIP(k int) string {
	pid := os.Getpid()
	return fmt.Sprintf("127.%d.%d.%d", 128+(pid>>8)%120, pid&255, 1+modn(k, 250))
}
