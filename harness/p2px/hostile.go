package p2px

import (
	"math"
	"time"

	"go.sia.tech/core/consensus"
	"go.sia.tech/core/gateway"
	"go.sia.tech/core/types"

	"verif/kit"
)

// Hostile constants: announcements a peer can put on the wire at no cost that
// carry extreme numbers in the places a receiving handler computes on before
// (or while) validating. Nothing here is signed or spendable: the point is what
// the receiver does with the numbers, not whether the transaction is valid.

const (
	HostileV2Variants = 6
	HostileV1Variants = 3
)

func hostileProof(n int) []types.Hash256 {
	p := make([]types.Hash256, n)
	for i := range p {
		p[i][0], p[i][31] = byte(i+1), 0xee
	}
	return p
}

func hostileContract() types.V2FileContract {
	max := types.MaxCurrency
	return types.V2FileContract{
		Capacity: math.MaxUint64, Filesize: math.MaxUint64, ProofHeight: math.MaxUint64, ExpirationHeight: math.MaxUint64,
		RenterOutput: types.SiacoinOutput{Address: kit.Actors[1].Addr, Value: max}, HostOutput: types.SiacoinOutput{Address: kit.Actors[2].Addr, Value: max},
		MissedHostValue: max, TotalCollateral: max, RenterPublicKey: kit.Actors[1].PK, HostPublicKey: kit.Actors[2].PK, RevisionNumber: math.MaxUint64,
	}
}

// HostileV2Txn: proofLen is the length of the Merkle proofs of referenced
// elements (63 keeps a multiproof encoding self-consistent; above 64 only fits
// the plain encoding of a transaction set).
func HostileV2Txn(variant, proofLen int) types.V2Transaction {
	max := types.MaxCurrency
	a := kit.Actors[0].Addr
	switch ((variant % HostileV2Variants) + HostileV2Variants) % HostileV2Variants {
	case 0: // the fee alone overflows block reward + fees
		return types.V2Transaction{MinerFee: max}
	case 1: // every sum overflows
		return types.V2Transaction{
			SiacoinOutputs: []types.SiacoinOutput{{Address: a, Value: max}, {Address: a, Value: max}},
			SiafundOutputs: []types.SiafundOutput{{Address: a, Value: math.MaxUint64}, {Address: a, Value: math.MaxUint64}},
			MinerFee:       max,
		}
	case 2: // a contract of extreme sizes, heights and values
		return types.V2Transaction{FileContracts: []types.V2FileContract{hostileContract(), hostileContract()}}
	case 3: // inputs: the same far-away leaf twice, extreme value and maturity, a threshold nobody can meet
		in := types.V2SiacoinInput{
			Parent: types.SiacoinElement{ID: types.SiacoinOutputID{1, 2, 3}, StateElement: types.StateElement{LeafIndex: 5, MerkleProof: hostileProof(proofLen)},
				SiacoinOutput: types.SiacoinOutput{Address: a, Value: max}, MaturityHeight: math.MaxUint64},
			SatisfiedPolicy: types.SatisfiedPolicy{Policy: types.PolicyThreshold(255, nil)},
		}
		sf := types.V2SiafundInput{
			Parent:          types.SiafundElement{ID: types.SiafundOutputID{4, 5}, StateElement: types.StateElement{LeafIndex: 1 << 40, MerkleProof: hostileProof(proofLen)}, SiafundOutput: types.SiafundOutput{Address: a, Value: math.MaxUint64}, ClaimStart: max},
			ClaimAddress:    a,
			SatisfiedPolicy: types.SatisfiedPolicy{Policy: types.PolicyAbove(math.MaxUint64)},
		}
		return types.V2Transaction{SiacoinInputs: []types.V2SiacoinInput{in, in}, SiafundInputs: []types.V2SiafundInput{sf, sf}, SiacoinOutputs: []types.SiacoinOutput{{Address: a, Value: max}}}
	case 4: // revisions and resolutions of a contract that does not exist
		parent := types.V2FileContractElement{ID: types.FileContractID{7, 7}, StateElement: types.StateElement{LeafIndex: 9, MerkleProof: hostileProof(proofLen)}, V2FileContract: hostileContract()}
		return types.V2Transaction{
			FileContractRevisions: []types.V2FileContractRevision{{Parent: parent, Revision: hostileContract()}},
			FileContractResolutions: []types.V2FileContractResolution{
				{Parent: parent, Resolution: &types.V2FileContractRenewal{FinalRenterOutput: types.SiacoinOutput{Address: a, Value: max}, FinalHostOutput: types.SiacoinOutput{Address: a, Value: max}, RenterRollover: max, HostRollover: max, NewContract: hostileContract()}},
				{Parent: parent, Resolution: &types.V2StorageProof{ProofIndex: types.ChainIndexElement{ID: types.BlockID{8}, StateElement: types.StateElement{LeafIndex: 1 << 41, MerkleProof: hostileProof(proofLen)}, ChainIndex: types.ChainIndex{Height: math.MaxUint64, ID: types.BlockID{8}}}, Proof: hostileProof(70)}},
				{Parent: parent, Resolution: &types.V2FileContractExpiration{}},
			},
		}
	default: // bulk
		key := make([]byte, 4096)
		for i := range key {
			key[i] = 'k'
		}
		return types.V2Transaction{
			Attestations:         []types.Attestation{{PublicKey: kit.Actors[3].PK, Key: string(key), Value: make([]byte, 100_000)}},
			ArbitraryData:        make([]byte, 200_000),
			NewFoundationAddress: &a,
			MinerFee:             max.Sub(types.NewCurrency64(1)),
		}
	}
}

func HostileV1Txn(variant int) types.Transaction {
	max := types.MaxCurrency
	a := kit.Actors[0].Addr
	switch ((variant % HostileV1Variants) + HostileV1Variants) % HostileV1Variants {
	case 0:
		return types.Transaction{MinerFees: []types.Currency{max}}
	case 1: // the fees overflow among themselves
		return types.Transaction{MinerFees: []types.Currency{max, max}}
	default:
		outs := []types.SiacoinOutput{{Address: a, Value: max}, {Address: a, Value: max}}
		return types.Transaction{
			SiacoinOutputs: outs,
			FileContracts:  []types.FileContract{{Filesize: math.MaxUint64, WindowStart: math.MaxUint64, WindowEnd: 0, Payout: max, ValidProofOutputs: outs, MissedProofOutputs: outs, RevisionNumber: math.MaxUint64}},
			SiafundOutputs: []types.SiafundOutput{{Address: a, Value: math.MaxUint64}, {Address: a, Value: math.MaxUint64}},
			MinerFees:      []types.Currency{max},
		}
	}
}

// HostileTime: timestamps at the ends of the wire range.
func HostileTime(variant int) time.Time {
	if variant%2 == 0 {
		return time.Unix(math.MaxInt64, 0)
	}
	return time.Unix(-1, 0) // 0xffff…ff on the wire
}

// GrindOutline sets the outline's nonce so that its id (over the parent state
// pst) meets pst's target.
func GrindOutline(pst consensus.State, o *gateway.V2BlockOutline) bool {
	f := pst.NonceFactor()
	o.Nonce = 0
	for i := 0; i < 1<<22; i++ {
		if o.ID(pst).CmpWork(pst.PoWTarget()) >= 0 {
			return true
		}
		o.Nonce += f
	}
	return false
}

func GrindHeader(pst consensus.State, h *types.BlockHeader) bool {
	f := pst.NonceFactor()
	h.Nonce = 0
	for i := 0; i < 1<<22; i++ {
		if h.ID().CmpWork(pst.PoWTarget()) >= 0 {
			return true
		}
		h.Nonce += f
	}
	return false
}

// HostileOutline builds the outline of a child of the block whose state is
// pst: kind "hostile-embedded" (the transaction travels inside), "hostile-missing"
// (only its hash does; v1 / v2 are what the sender has to serve when asked) or
// "hostile-field" (extreme height / timestamp).
func HostileOutline(pst consensus.State, parentTime time.Time, kind string, arg int) (o gateway.V2BlockOutline, v1 []types.Transaction, v2 []types.V2Transaction, ok bool) {
	o = gateway.V2BlockOutline{Height: pst.Index.Height + 1, ParentID: pst.Index.ID, Timestamp: parentTime.Add(time.Second), MinerAddress: kit.Actors[0].Addr}
	if arg < 0 {
		arg = -arg
	}
	switch kind {
	case "hostile-embedded":
		if k := arg % (HostileV2Variants + HostileV1Variants); k < HostileV2Variants {
			txn := HostileV2Txn(k, 63)
			o.Transactions = []gateway.OutlineTransaction{{Hash: txn.MerkleLeafHash(), V2Transaction: &txn}}
		} else {
			txn := HostileV1Txn(k - HostileV2Variants)
			o.Transactions = []gateway.OutlineTransaction{{Hash: txn.MerkleLeafHash(), Transaction: &txn}}
		}
	case "hostile-missing":
		switch arg % 4 {
		case 0:
			v2 = []types.V2Transaction{HostileV2Txn(0, 63)}
		case 1:
			v1 = []types.Transaction{HostileV1Txn(1)}
		case 2:
			v2 = []types.V2Transaction{HostileV2Txn(3, 70)}
		default:
			v2 = []types.V2Transaction{HostileV2Txn(4, 70), HostileV2Txn(1, 63)}
		}
		for _, t := range v1 {
			o.Transactions = append(o.Transactions, gateway.OutlineTransaction{Hash: t.MerkleLeafHash()})
		}
		for _, t := range v2 {
			o.Transactions = append(o.Transactions, gateway.OutlineTransaction{Hash: t.MerkleLeafHash()})
		}
	case "hostile-field":
		switch arg % 6 {
		case 5:
			// more missing transactions than a SendTransactions request may name
			for i := 0; i < 150; i++ {
				o.Transactions = append(o.Transactions, gateway.OutlineTransaction{Hash: types.Hash256{0xcc, byte(i)}})
			}
		case 0:
			o.Height = math.MaxUint64
		case 1:
			o.Height = 0
		case 2, 3:
			o.Timestamp = HostileTime(arg % 6)
		default:
			// the extreme height travels on in the victim's own SendTransactions request
			o.Height = math.MaxUint64
			o.Transactions = []gateway.OutlineTransaction{{Hash: types.Hash256{0xaa, 0xbb}}}
		}
	default:
		return o, nil, nil, false
	}
	return o, v1, v2, GrindOutline(pst, &o)
}

// HostileRequest is a request of the given variant with extreme numbers, to be
// sent to a node whose tip is tip (genesis: the id of the genesis block).
func HostileRequest(variant int, tip types.ChainIndex, genesis types.BlockID) gateway.Object {
	switch ((variant % 6) + 6) % 6 {
	case 0: // a block the node has, under an extreme height, as many headers as can be named
		return &gateway.RPCSendHeaders{Index: types.ChainIndex{Height: math.MaxUint64, ID: tip.ID}, Max: math.MaxUint64}
	case 1:
		return &gateway.RPCSendHeaders{Index: types.ChainIndex{Height: 0, ID: genesis}, Max: math.MaxUint64}
	case 2: // a long history of unknown ids, then genesis; every block there is
		h := make([]types.BlockID, 0, 33)
		for i := 0; i < 31; i++ {
			h = append(h, types.BlockID{0xdd, byte(i)})
		}
		return &gateway.RPCSendV2Blocks{History: append(h, genesis), Max: math.MaxUint64}
	case 3:
		return &gateway.RPCSendV2Blocks{History: nil, Max: 0}
	case 4:
		return &gateway.RPCSendCheckpoint{Index: types.ChainIndex{Height: math.MaxUint64, ID: types.BlockID{0xee}}}
	default: // the same hash a hundred times, of a block under a wrong height
		hs := make([]types.Hash256, 100)
		return &gateway.RPCSendTransactions{Index: types.ChainIndex{Height: math.MaxUint64, ID: tip.ID}, Hashes: hs}
	}
}
