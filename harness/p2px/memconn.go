package p2px

import (
	"context"
	"errors"
	"io"
	"net"
	"os"
	"sync"
	"time"

	"go.sia.tech/core/types"
)

// halfPipe is one direction of a buffered in-memory connection.
type halfPipe struct {
	mu     sync.Mutex
	cond   *sync.Cond
	buf    []byte
	closed bool // writer closed: reads drain then EOF
	broken bool // reader closed: writes fail
}

func newHalf() *halfPipe {
	h := &halfPipe{}
	h.cond = sync.NewCond(&h.mu)
	return h
}

// MemConn is a buffered, deadline-aware in-memory net.Conn (unlike net.Pipe a
// Write never waits for the peer to read).
type MemConn struct {
	r, w   *halfPipe
	mu     sync.Mutex
	rd, wd time.Time
	once   sync.Once
}

// MemPipe returns the two ends of a buffered duplex connection.
func MemPipe() (*MemConn, *MemConn) {
	a, b := newHalf(), newHalf()
	return &MemConn{r: a, w: b}, &MemConn{r: b, w: a}
}

type memAddr struct{}

func (memAddr) Network() string { return "mem" }
func (memAddr) String() string  { return "mem" }

// Read implements net.Conn.
func (c *MemConn) Read(p []byte) (int, error) {
	c.mu.Lock()
	dl := c.rd
	c.mu.Unlock()
	h := c.r
	h.mu.Lock()
	defer h.mu.Unlock()
	if !dl.IsZero() {
		t := time.AfterFunc(time.Until(dl), func() { h.mu.Lock(); h.cond.Broadcast(); h.mu.Unlock() })
		defer t.Stop()
	}
	for len(h.buf) == 0 {
		if h.broken {
			return 0, io.ErrClosedPipe
		}
		if h.closed {
			return 0, io.EOF
		}
		if !dl.IsZero() && !time.Now().Before(dl) {
			return 0, os.ErrDeadlineExceeded
		}
		h.cond.Wait()
	}
	n := copy(p, h.buf)
	h.buf = h.buf[n:]
	return n, nil
}

// Write implements net.Conn.
func (c *MemConn) Write(p []byte) (int, error) {
	h := c.w
	h.mu.Lock()
	defer h.mu.Unlock()
	if h.closed || h.broken {
		return 0, io.ErrClosedPipe
	}
	h.buf = append(h.buf, p...)
	h.cond.Broadcast()
	return len(p), nil
}

// Close implements net.Conn.
func (c *MemConn) Close() error {
	c.once.Do(func() {
		c.w.mu.Lock()
		c.w.closed = true
		c.w.cond.Broadcast()
		c.w.mu.Unlock()
		c.r.mu.Lock()
		c.r.broken = true
		c.r.cond.Broadcast()
		c.r.mu.Unlock()
	})
	return nil
}

func (c *MemConn) LocalAddr() net.Addr  { return memAddr{} }
func (c *MemConn) RemoteAddr() net.Addr { return memAddr{} }

// SetDeadline implements net.Conn.
func (c *MemConn) SetDeadline(t time.Time) error {
	c.mu.Lock()
	c.rd, c.wd = t, t
	c.mu.Unlock()
	return nil
}

// SetReadDeadline implements net.Conn.
func (c *MemConn) SetReadDeadline(t time.Time) error {
	c.mu.Lock()
	c.rd = t
	c.mu.Unlock()
	return nil
}

// SetWriteDeadline implements net.Conn.
func (c *MemConn) SetWriteDeadline(t time.Time) error {
	c.mu.Lock()
	c.wd = t
	c.mu.Unlock()
	return nil
}

// MemMux is an in-memory stream multiplexer: DialStream on the client side
// makes AcceptStream on the server side return the other end.
type MemMux struct {
	ch     chan net.Conn
	closed chan struct{}
	once   sync.Once
	Key    types.PublicKey
}

// NewMemMux returns a mux.
func NewMemMux(peerKey types.PublicKey) *MemMux {
	return &MemMux{ch: make(chan net.Conn, 1024), closed: make(chan struct{}), Key: peerKey}
}

// AcceptStream implements the RHP4 server's TransportMux.
func (m *MemMux) AcceptStream() (net.Conn, error) {
	select {
	case c := <-m.ch:
		return c, nil
	case <-m.closed:
		return nil, net.ErrClosed
	}
}

// Close implements TransportMux / TransportClient.
func (m *MemMux) Close() error {
	m.once.Do(func() { close(m.closed) })
	return nil
}

// DialStream implements the RHP4 client's TransportClient.
func (m *MemMux) DialStream(ctx context.Context) (net.Conn, error) {
	a, b := MemPipe()
	select {
	case <-m.closed:
		return nil, errors.New("mux closed")
	case <-ctx.Done():
		return nil, ctx.Err()
	case m.ch <- b:
		return a, nil
	}
}

// FrameSize implements TransportClient.
func (m *MemMux) FrameSize() int { return 1440 }

// PeerKey implements TransportClient.
func (m *MemMux) PeerKey() types.PublicKey { return m.Key }
