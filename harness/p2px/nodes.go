package p2px

import (
	"bytes"
	"fmt"

	"go.sia.tech/core/consensus"
	"go.sia.tech/core/gateway"
	"go.sia.tech/core/types"
	"go.sia.tech/coreutils/chain"

	"verif/kit"
	"verif/kvm"
	"verif/refl"
)

// NewChainNode returns a fresh full node that holds the chain ending in tip
// (nil = genesis only), fed one AddBlocks call per `batch` blocks.
func NewChainNode(tr *kit.Tree, tip *kit.TNode, batch int) (*kit.Node, error) {
	n, err := kit.NewNode(tr, "mem")
	if err != nil {
		return nil, err
	}
	if tip == nil {
		return n, nil
	}
	if batch < 1 {
		batch = 1 << 30
	}
	var blocks []types.Block
	for _, p := range tip.PathFromGenesis() {
		blocks = append(blocks, p.Block)
	}
	for len(blocks) > 0 {
		k := min(batch, len(blocks))
		if err := n.Submit(blocks[:k]); err != nil {
			n.Close()
			return nil, fmt.Errorf("preloading a chain the reference accepts failed: %w", err)
		}
		blocks = blocks[k:]
	}
	if n.CM.Tip() != tip.Index() {
		n.Close()
		return nil, fmt.Errorf("preloaded node is at %v, want %v", n.CM.Tip(), tip.Index())
	}
	return n, nil
}

// NewCheckpointNode returns a node bootstrapped at checkpoint cp (a valid v2
// block whose parent is valid) that then holds the chain up to tip, which must
// descend from cp.
func NewCheckpointNode(tr *kit.Tree, cp, tip *kit.TNode) (*kit.Node, error) {
	if cp == nil || cp.Parent == nil || cp.Ledger == nil || cp.Block.V2 == nil || !cp.IsAncestorOf(tip) {
		return nil, fmt.Errorf("inadmissible checkpoint")
	}
	be, err := kvm.NewBackend("mem")
	if err != nil {
		return nil, err
	}
	store, tipState, err := chain.NewDBStoreAtCheckpoint(be.DB, cp.Parent.Ledger.State, cp.Block, nil)
	if err != nil {
		return nil, err
	}
	hs := &kit.HookStore{DBStore: store}
	n := &kit.Node{Tree: tr, Backend: be, Store: store, Hooked: hs, CM: chain.NewManager(hs, tipState), Submitted: map[types.BlockID]bool{cp.ID: true}, MaxHeight: cp.Height}
	var blocks []types.Block
	for _, p := range tip.PathFromGenesis() {
		if p.Height > cp.Height {
			blocks = append(blocks, p.Block)
		}
	}
	if len(blocks) > 0 {
		if err := n.Submit(blocks); err != nil {
			n.Close()
			return nil, fmt.Errorf("preloading above the checkpoint failed: %w", err)
		}
	}
	if n.CM.Tip() != tip.Index() {
		n.Close()
		return nil, fmt.Errorf("checkpoint node is at %v, want %v", n.CM.Tip(), tip.Index())
	}
	return n, nil
}

// AuditNode is the chain audit of kit.Node for nodes that may have been
// bootstrapped at a checkpoint: floor is the checkpoint height (0 = full node,
// for which kit's own Audit and FullReplayAudit run). Below the floor a
// checkpoint node holds nothing by construction; from the floor up the same
// facts are checked: the tip is a block core accepts on its parent chain, the
// best-chain index is parent linked, every stored state on it equals the
// reference ledger's byte for byte, and replaying the blocks the node itself
// serves from the floor reproduces its tip state.
func AuditNode(n *kit.Node, floor uint64) error {
	if floor == 0 {
		if err := n.Audit(); err != nil {
			return err
		}
		return n.FullReplayAudit()
	}
	tip := n.CM.Tip()
	ts := n.CM.TipState()
	if ts.Index != tip {
		return fmt.Errorf("audit: TipState().Index %v != Tip() %v", ts.Index, tip)
	}
	tn := n.Tree.ByID[tip.ID]
	if tn == nil {
		return fmt.Errorf("audit: tip %v is not a block of the tree", tip)
	}
	if tn.Ledger == nil {
		return fmt.Errorf("audit: tip %v (tree block %d, corruption %q) is INVALID according to core: %v", tip, tn.Idx, tn.Corrupt, tn.Err)
	}
	if tn.Height != tip.Height || tip.Height < floor {
		return fmt.Errorf("audit: tip height %d, tree says %d (checkpoint at %d)", tip.Height, tn.Height, floor)
	}
	if !bytes.Equal(refl.StateBytes(ts), refl.StateBytes(tn.Ledger.State)) {
		return fmt.Errorf("audit: TipState differs from the reference state of %v", tip)
	}
	cur := tn
	for h := tip.Height; h >= floor; h-- {
		idx, ok := n.CM.BestIndex(h)
		if !ok {
			return fmt.Errorf("audit: BestIndex(%d) missing below tip %v", h, tip)
		}
		if idx != cur.Index() {
			return fmt.Errorf("audit: BestIndex(%d) = %v but the tip's ancestor at that height is %v", h, idx, cur.Index())
		}
		if !n.Submitted[cur.ID] {
			return fmt.Errorf("audit: best chain contains block %v that was never handed to the node", idx)
		}
		st, ok := n.CM.State(cur.ID)
		if !ok {
			return fmt.Errorf("audit: State(%v) missing on best chain", idx)
		}
		if !bytes.Equal(refl.StateBytes(st), refl.StateBytes(cur.Ledger.State)) {
			return fmt.Errorf("audit: stored state of best-chain block %v differs from the reference", idx)
		}
		if hdr, ok := n.Store.Header(cur.ID); !ok {
			return fmt.Errorf("audit: Header(%v) missing on best chain", idx)
		} else if hdr.ID() != cur.ID || hdr.ParentID != cur.Parent.ID {
			return fmt.Errorf("audit: header of %v is not parent linked", idx)
		}
		cur = cur.Parent
	}
	for h := tip.Height + 1; h <= n.MaxHeight+2; h++ {
		if idx, ok := n.CM.BestIndex(h); ok {
			return fmt.Errorf("audit: BestIndex(%d) = %v above the tip %v", h, idx, tip)
		}
	}
	// replay what the node serves, starting from the reference ledger of the
	// checkpoint
	var base *kit.TNode
	for a := tn; a != nil; a = a.Parent {
		if a.Height == floor {
			base = a
		}
	}
	if base == nil || base.Ledger == nil {
		return fmt.Errorf("audit: no valid tree block at the checkpoint height %d below %v", floor, tip)
	}
	// the checkpoint block itself: a v2 id does not bind every field (miner
	// payout value, v2 height), so what the node holds under that id must be the
	// chain's block byte for byte and valid on its parent state
	if cb, ok := n.CM.Block(base.ID); !ok {
		return fmt.Errorf("audit: the checkpoint block %v is not served", base.Index())
	} else if !bytes.Equal(refl.Enc(types.V2Block(cb)), refl.Enc(types.V2Block(base.Block))) {
		verdict := consensus.ValidateBlock(base.Parent.Ledger.State, cb, consensus.V1BlockSupplement{Transactions: make([]consensus.V1TransactionSupplement, len(cb.Transactions))})
		return fmt.Errorf("audit: the node's checkpoint block %v differs from the chain's block with that id (payouts %v vs %v); consensus.ValidateBlock on its parent state: %v", base.Index(), cb.MinerPayouts, base.Block.MinerPayouts, verdict)
	}
	l := base.Ledger
	for h := floor + 1; h <= tip.Height; h++ {
		idx, _ := n.CM.BestIndex(h)
		b, ok := n.CM.Block(idx.ID)
		if !ok {
			return fmt.Errorf("replay: Block(%v) missing", idx)
		}
		if b.ID() != idx.ID {
			return fmt.Errorf("replay: Block(%v) returned a block with id %v", idx, b.ID())
		}
		var err error
		if l, err = l.Apply(b, nil); err != nil {
			return fmt.Errorf("replay: best-chain block %v is invalid on its parent: %w", idx, err)
		}
	}
	if !bytes.Equal(refl.StateBytes(l.State), refl.StateBytes(ts)) {
		return fmt.Errorf("replay: TipState differs from a replay of the served chain above the checkpoint")
	}
	return nil
}

// Announce broadcasts the node's tip the way a miner (and the repository's own
// `synced` test helper) does: the block outline when the tip is a v2 block -
// preceded by the bare header when both is set - and the bare header for a v1
// tip (there is no other announcement for v1 blocks; a header that attaches to
// the receiver's tip is relayed on but triggers no download).
func (n *SyncerNode) Announce(both bool) {
	tip := n.Node.CM.Tip()
	b, ok := n.Node.CM.Block(tip.ID)
	if !ok {
		return
	}
	if b.V2 == nil || both {
		n.S.BroadcastV2Header(b.Header())
	}
	if b.V2 != nil {
		if n.Stripped {
			// as a miner does whose pool held every transaction of its block: only
			// the hashes travel, a receiver that lacks a transaction asks for it
			n.S.BroadcastV2BlockOutline(gateway.OutlineBlock(b, b.Transactions, b.V2Transactions()))
			return
		}
		n.S.BroadcastV2BlockOutline(gateway.OutlineBlock(b, n.Node.CM.PoolTransactions(), n.Node.CM.V2PoolTransactions()))
	}
}

// PeerState summarises the node's view of its peers.
func (n *SyncerNode) PeerState() (peers int, allSynced bool) {
	allSynced = true
	for _, p := range n.S.Peers() {
		peers++
		if !p.Synced() {
			allSynced = false
		}
	}
	return
}

// HasPeer reports whether the node currently lists a peer with that dial-back
// address.
func (n *SyncerNode) HasPeer(addr string) bool {
	for _, p := range n.S.Peers() {
		if p.Addr() == addr && p.Err() == nil {
			return true
		}
	}
	return false
}
