// Package p2px is the peer-to-peer kit of the harness: a recording peer store,
// a recording / blocking ChainManager wrapper, scripted gateway peers (honest
// clients and Byzantine servers) and a loopback cluster of real syncers whose
// source addresses are spread over 127.0.0.0/8 so that subnets differ.
package p2px

import (
	"net"
	"sort"
	"strings"
	"sync"
	"time"

	"go.sia.tech/coreutils/syncer"
)

// BanRecord is one PeerStore.Ban call.
type BanRecord struct {
	Addr   string
	Reason string
}

// RecPeerStore is an in-memory syncer.PeerStore that records every Ban call.
// Like the repository's own EphemeralPeerStore it does not enforce bans unless
// Enforce is set.
type RecPeerStore struct {
	mu      sync.Mutex
	peers   map[string]syncer.PeerInfo
	bans    []BanRecord
	Enforce bool
}

// NewRecPeerStore returns an empty store.
func NewRecPeerStore() *RecPeerStore {
	return &RecPeerStore{peers: map[string]syncer.PeerInfo{}}
}

// AddPeer implements syncer.PeerStore.
func (ps *RecPeerStore) AddPeer(addr string) error {
	ps.mu.Lock()
	defer ps.mu.Unlock()
	if _, ok := ps.peers[addr]; !ok {
		ps.peers[addr] = syncer.PeerInfo{Address: addr, FirstSeen: time.Now()}
	}
	return nil
}

// Peers implements syncer.PeerStore.
func (ps *RecPeerStore) Peers() ([]syncer.PeerInfo, error) {
	ps.mu.Lock()
	defer ps.mu.Unlock()
	out := make([]syncer.PeerInfo, 0, len(ps.peers))
	for _, p := range ps.peers {
		out = append(out, p)
	}
	sort.Slice(out, func(i, j int) bool { return out[i].Address < out[j].Address })
	return out, nil
}

// PeerInfo implements syncer.PeerStore.
func (ps *RecPeerStore) PeerInfo(addr string) (syncer.PeerInfo, error) {
	ps.mu.Lock()
	defer ps.mu.Unlock()
	p, ok := ps.peers[addr]
	if !ok {
		return syncer.PeerInfo{}, syncer.ErrPeerNotFound
	}
	return p, nil
}

// UpdatePeerInfo implements syncer.PeerStore.
func (ps *RecPeerStore) UpdatePeerInfo(addr string, fn func(*syncer.PeerInfo)) error {
	ps.mu.Lock()
	defer ps.mu.Unlock()
	p, ok := ps.peers[addr]
	if !ok {
		return syncer.ErrPeerNotFound
	}
	fn(&p)
	ps.peers[addr] = p
	return nil
}

// Ban implements syncer.PeerStore; the call is recorded.
func (ps *RecPeerStore) Ban(addr string, _ time.Duration, reason string) error {
	ps.mu.Lock()
	defer ps.mu.Unlock()
	ps.bans = append(ps.bans, BanRecord{Addr: addr, Reason: reason})
	return nil
}

// Banned implements syncer.PeerStore.
func (ps *RecPeerStore) Banned(addr string) (bool, error) {
	if !ps.Enforce {
		return false, nil
	}
	ps.mu.Lock()
	defer ps.mu.Unlock()
	host := addr
	if h, _, err := net.SplitHostPort(addr); err == nil {
		host = h
	}
	ip := net.ParseIP(host)
	for _, b := range ps.bans {
		if strings.Contains(b.Addr, "/") {
			if _, n, err := net.ParseCIDR(b.Addr); err == nil && ip != nil && n.Contains(ip) {
				return true, nil
			}
			continue
		}
		bh := b.Addr
		if h, _, err := net.SplitHostPort(b.Addr); err == nil {
			bh = h
		}
		if bh == host {
			return true, nil
		}
	}
	return false, nil
}

// Bans returns a copy of the recorded Ban calls.
func (ps *RecPeerStore) Bans() []BanRecord {
	ps.mu.Lock()
	defer ps.mu.Unlock()
	return append([]BanRecord(nil), ps.bans...)
}

// BannedHost reports whether a Ban call named the exact host (with any port).
func (ps *RecPeerStore) BannedHost(host string) (string, bool) {
	for _, b := range ps.Bans() {
		if strings.Contains(b.Addr, "/") {
			continue
		}
		bh := b.Addr
		if h, _, err := net.SplitHostPort(b.Addr); err == nil {
			bh = h
		}
		if bh == host {
			return b.Reason, true
		}
	}
	return "", false
}

var _ syncer.PeerStore = (*RecPeerStore)(nil)
