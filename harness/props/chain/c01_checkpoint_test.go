package pchain

import (
	"bytes"
	"fmt"
	"testing"

	"go.sia.tech/core/types"
	"go.sia.tech/coreutils/chain"
	"pgregory.net/rapid"

	"verif/kit"
	"verif/refl"
)

// C01CkptCase: a v2-only fork tree; one valid block at or above the require
// height is the checkpoint. The subject's store is created with
// chain.NewDBStoreAtCheckpoint (state before the checkpoint + the checkpoint
// block, as instant sync does); a twin synced from genesis up to the
// checkpoint receives exactly the same submissions afterwards. Both must
// agree on tip and tip state after every step - the best chain of a
// checkpoint-initialised manager is judged like any other.
type C01CkptCase struct {
	Tree kit.TreeCase `json:"tree"`
	Ckpt int          `json:"ckpt"` // selector among eligible nodes
	// Steps: 0 = the checkpoint block again (a duplicate any peer may send),
	// k > 0 = the next k not yet delivered descendants of the checkpoint in
	// one AddBlocks call (tree order: parents before children)
	Steps []int `json:"steps"`
}

func genC01Ckpt(t *rapid.T) C01CkptCase {
	cfg := kit.DefaultTreeGen()
	cfg.CorruptPct = 0
	cfg.BadIntentPct = 0
	cfg.ForkPct = 35
	// nothing that needs elements a checkpoint store does not hold (v1
	// contracts); v2 transactions carry their own proofs
	cfg.Kinds = []string{"pay", "pay", "sf", "attest", "arb"}
	tc := kit.GenTree(t, cfg)
	tc.SharedWindows = false
	tc.Net = kit.NetSpec{Maturity: 1 + kit.Uniform(t, 3, "maturity"), Allow: 1, ReqOff: 0, CutOff: kit.Uniform(t, 4, "cut"), Hard: tc.Net.Hard, Calm: tc.Net.Calm}
	c := C01CkptCase{Tree: tc, Ckpt: rapid.IntRange(0, 40).Draw(t, "ckpt")}
	n := rapid.IntRange(1, 30).Draw(t, "nsteps")
	for i := 0; i < n; i++ {
		if kit.Chance(t, 25, "dup") {
			c.Steps = append(c.Steps, 0)
		} else {
			c.Steps = append(c.Steps, 1+kit.Uniform(t, 4, "batch"))
		}
	}
	return c
}

func runC01Ckpt(c C01CkptCase, cs *kit.CaseStats) (err error) {
	tr := kit.BuildTree(c.Tree)
	req := tr.Network.HardforkV2.RequireHeight
	var eligible []*kit.TNode
	for _, n := range tr.Nodes {
		if n.Ledger != nil && n.Block.V2 != nil && n.Height >= req && n.Height >= 2 && n.Parent != nil && n.Parent.Ledger != nil {
			eligible = append(eligible, n)
		}
	}
	if len(eligible) == 0 {
		cs.Class("ckpt:no-eligible-block")
		return nil
	}
	ck := eligible[c.Ckpt%len(eligible)]
	var desc []*kit.TNode
	isDesc := map[*kit.TNode]bool{ck: true}
	for _, n := range tr.Nodes {
		if n != ck && n.Parent != nil && isDesc[n.Parent] && n.Ledger != nil {
			isDesc[n] = true
			desc = append(desc, n)
		}
	}
	store, tipState, serr := chain.NewDBStoreAtCheckpoint(chain.NewMemDB(), ck.Parent.Ledger.State, ck.Block, nil)
	if serr != nil {
		return fmt.Errorf("NewDBStoreAtCheckpoint(state at %v, block %v) failed: %v", ck.Parent.Index(), ck.Index(), serr)
	}
	subject := chain.NewManager(store, tipState)
	if subject.Tip() != ck.Index() || !bytes.Equal(refl.StateBytes(subject.TipState()), refl.StateBytes(ck.Ledger.State)) {
		return fmt.Errorf("a manager on a store initialised at checkpoint %v reports tip %v / a tip state different from the replay", ck.Index(), subject.Tip())
	}
	twin, terr := linearTwin(tr, ck)
	if terr != nil {
		return fmt.Errorf("INFRA: %v", terr)
	}
	defer twin.Close()
	defer func() {
		if r := recover(); r != nil {
			err = fmt.Errorf("panic in a checkpoint-initialised manager (checkpoint %v): %v", ck.Index(), r)
		}
	}()
	next, dups, forks := 0, 0, false
	for si, st := range c.Steps {
		var batch []types.Block
		what := ""
		if st == 0 {
			batch = []types.Block{ck.Block}
			what = "the checkpoint block again"
			dups++
		} else {
			for k := 0; k < st && next < len(desc); k++ {
				batch = append(batch, desc[next].Block)
				if desc[next].Parent != ck && next > 0 && desc[next].Parent != desc[next-1] {
					forks = true
				}
				next++
			}
			if len(batch) == 0 {
				continue
			}
			what = fmt.Sprintf("%d descendant(s) up to %v", len(batch), desc[next-1].Index())
		}
		// batches may hold blocks of several branches; AddBlocks wants a chain,
		// so hand them over one by one when they do not link
		var es, et error
		for _, b := range batch {
			e1 := subject.AddBlocks([]types.Block{b})
			e2 := twin.CM.AddBlocks([]types.Block{b})
			if es == nil {
				es = e1
			}
			if et == nil {
				et = e2
			}
		}
		where := fmt.Sprintf("checkpoint %v, step %d (%s)", ck.Index(), si, what)
		if (es == nil) != (et == nil) {
			return fmt.Errorf("%s: the checkpoint-initialised manager answered %v, a manager synced from genesis %v", where, es, et)
		}
		if subject.Tip() != twin.CM.Tip() {
			return fmt.Errorf("%s: tip %v, a manager synced from genesis that received the same blocks is at %v (work %v)", where, subject.Tip(), twin.CM.Tip(), twin.CM.TipState().TotalWork)
		}
		if !bytes.Equal(refl.StateBytes(subject.TipState()), refl.StateBytes(twin.CM.TipState())) {
			return fmt.Errorf("%s: tip state differs from that of a manager synced from genesis", where)
		}
		if got, ok := subject.State(ck.ID); !ok || !bytes.Equal(refl.StateBytes(got), refl.StateBytes(ck.Ledger.State)) {
			return fmt.Errorf("%s: the stored state of the checkpoint block changed (present=%v)", where, ok)
		}
	}
	cs.Class("ckpt:store-initialised-at-checkpoint")
	if dups > 0 {
		cs.Class("ckpt:checkpoint-block-resubmitted")
	}
	if twin.CM.Tip() != ck.Index() && dups > 0 {
		cs.NonTrivial()
	}
	if forks {
		cs.Class("ckpt:fork-among-the-descendants")
	}
	return nil
}

var c01CkptProp = kit.Prop[C01CkptCase]{
	ID:   "C01",
	Rule: "checkpoint family: v2-only fork trees (payments, siafund moves, attestations, arbitrary data); a drawn valid block at or above the require height is the checkpoint; the subject's store is created with NewDBStoreAtCheckpoint(state before it, block), a twin manager is synced from genesis to the same block; both then receive the same drawn sequence of submissions (the checkpoint block again; the next 1..4 descendants of the checkpoint in tree order, forks included). After every step: same error/no error, same tip, byte-equal tip state, stored state of the checkpoint block unchanged; no panic. Non-trivial = the checkpoint was resubmitted and the tip moved past it.",
	Assumptions: []string{
		"only descendants of the checkpoint are submitted (a checkpoint store has no history to reorg into) and the trees hold no v1 contracts (their elements are not part of a checkpoint)",
	},
	Gen: genC01Ckpt,
	Run: runC01Ckpt,
}

func TestC01Checkpoint(t *testing.T) { c01CkptProp.Main(t) }
