package pchain

import (
	"fmt"
	"testing"

	"verif/kit"
)

// TestC01PreOak: long chains on networks whose Oak difficulty hardfork lies at
// height 500 / 1000 / 1500. Below that height the target is re-computed every
// 500 blocks from the timestamp of the ancestor 1000 blocks back (genesis for
// shorter chains), which the store supplies through AncestorTimestamp - also
// for blocks on side branches. A trunk with a drawn block-time regime per
// 500-block window is followed by two competing branches that cross the
// adjustment height and the hardfork height with different block times; the
// case is then judged exactly like a TestC01 case (audit, full replay against
// the reference ledger, tip rules, all-valid submissions must succeed).
func TestC01PreOak(t *testing.T) {
	d := kit.NewDirect(t, "C01", "pre-Oak family: networks with the Oak hardfork at 500 / 1000 / 1500; trunk to shortly below an adjustment height with per-window block times in {1,2,3} s (so the true adjustment is not clamped), two branches of 4..9 blocks crossing the adjustment height / the hardfork height with different block times, submitted trunk-first then branch by branch then everything again; same oracle as TestC01")
	defer d.Done()
	type shape struct {
		oak, forkAt, lenA, lenB int
		dts                     [3]int
		dtA, dtB                int
		hard                    int
	}
	var shapes []shape
	for _, oak := range []int{500, 1000, 1500} {
		for vi, v := range []struct {
			dts      [3]int
			dtA, dtB int
		}{{[3]int{1, 2, 1}, 1, 3}, {[3]int{2, 1, 3}, 3, 1}, {[3]int{3, 3, 2}, 2, 2}} {
			if !kit.Thorough() && (oak == 1500 && vi > 0 || oak == 1000 && vi > 0 || vi > 1) {
				continue
			}
			// fork a few blocks below the hardfork height (itself an adjustment height)
			shapes = append(shapes, shape{oak: oak, forkAt: oak - 3 - vi, lenA: 6 + vi, lenB: 8 + vi, dts: v.dts, dtA: v.dtA, dtB: v.dtB, hard: 1 + vi%2})
		}
		if kit.Thorough() || oak == 1000 {
			// and across the adjustment height below the hardfork height
			shapes = append(shapes, shape{oak: oak + 200, forkAt: oak - 2, lenA: 5, lenB: 7, dts: [3]int{2, 1, 2}, dtA: 1, dtB: 3, hard: 1})
		}
	}
	for _, sh := range shapes {
		tc := kit.TreeCase{Net: kit.NetSpec{Maturity: 2, Allow: sh.oak + 400, ReqOff: 10, CutOff: 10, Hard: sh.hard, Oak: sh.oak}}
		for i := 0; i < sh.forkAt; i++ {
			bs := kit.BlockSpec{Dt: sh.dts[min(i/500, 2)], Miner: i % 4}
			if i%97 == 5 {
				bs.Txs = []kit.Intent{{Kind: "pay", Who: i % 4, To: (i + 1) % 4, Pick: i, Amt: 3}}
			}
			tc.Blocks = append(tc.Blocks, bs)
		}
		trunk := len(tc.Blocks)
		for i := 0; i < sh.lenA; i++ {
			tc.Blocks = append(tc.Blocks, kit.BlockSpec{Dt: sh.dtA, Miner: 1})
		}
		for i := 0; i < sh.lenB; i++ {
			bs := kit.BlockSpec{Dt: sh.dtB, Miner: 2}
			if i == 0 {
				bs.Back = sh.lenA
			}
			tc.Blocks = append(tc.Blocks, bs)
		}
		seq := func(a, b int) []int {
			var out []int
			for i := a; i < b; i++ {
				out = append(out, i)
			}
			return out
		}
		c := C01Case{Tree: tc, Backend: sh.oak / 500 % 3}
		c.Steps = append(c.Steps, kit.SubmitStep{Batch: seq(0, trunk)})
		c.Steps = append(c.Steps, kit.SubmitStep{Batch: seq(trunk, trunk+sh.lenA)})
		// the competing branch block by block (side-chain ancestors are walked), then at once
		for i := 0; i < 3 && i < sh.lenB; i++ {
			c.Steps = append(c.Steps, kit.SubmitStep{Batch: []int{trunk + sh.lenA + i}})
		}
		c.Steps = append(c.Steps, kit.SubmitStep{Batch: seq(trunk+sh.lenA, len(tc.Blocks))})
		c.Steps = append(c.Steps, kit.SubmitStep{Batch: seq(trunk-2, len(tc.Blocks))})
		cs := &kit.CaseStats{}
		err := runC01(c, cs)
		cs.Classf("pre-oak:oak=%d", sh.oak)
		cs.NonTrivial()
		if err != nil {
			err = fmt.Errorf("pre-Oak family (Oak hardfork at %d, fork at height %d, branches %d/%d blocks, block times %v/%d/%d s): %w", sh.oak, sh.forkAt, sh.lenA, sh.lenB, sh.dts, sh.dtA, sh.dtB, err)
		}
		d.Case(c, cs, err)
	}
}
