package pchain

import (
	"fmt"
	"testing"

	"verif/kit"
)

// TestC01PreOak: long chains on networks whose Oak difficulty hardfork lies at
// height 500 / 1000 / 1500. Below that height the target is re-computed every
// 500 blocks from the timestamp of the ancestor 1000 blocks back (genesis for
// shorter chains), which the store supplies through AncestorTimestamp - also
// for blocks on side branches. A trunk with a drawn block-time regime per
// 500-block window is followed by two competing branches that cross the
// adjustment height and the hardfork height with different block times; the
// case is then judged exactly like a TestC01 case (audit, full replay against
// the reference ledger, tip rules, all-valid submissions must succeed).
func TestC01PreOak(t *testing.T) {
	d := kit.NewDirect(t, "C01", "pre-Oak family: networks with the Oak hardfork at 500 / 1000 / 1500; trunk to shortly below an adjustment height with per-window block times in {1,2,3} s (so the true adjustment is not clamped), two branches of 4..9 blocks crossing the adjustment height / the hardfork height with different block times, submitted trunk-first then branch by branch then everything again; same oracle as TestC01")
	defer d.Done()
	type shape struct {
		oak, forkAt, lenA, lenB int
		dts                     [3]int
		dtA, dtB                int
		hard                    int
	}
	var shapes []shape
	for _, oak := range []int{500, 1000, 1500} {
		for vi, v := range []struct {
			dts      [3]int
			dtA, dtB int
		}{{[3]int{1, 2, 1}, 1, 3}, {[3]int{2, 1, 3}, 3, 1}, {[3]int{3, 3, 2}, 2, 2}} {
			if !kit.Thorough() && (oak == 1500 && vi > 0 || oak == 1000 && vi > 0 || vi > 1) {
				continue
			}
			// fork a few blocks below the hardfork height (itself an adjustment height)
			shapes = append(shapes, shape{oak: oak, forkAt: oak - 3 - vi, lenA: 6 + vi, lenB: 8 + vi, dts: v.dts, dtA: v.dtA, dtB: v.dtB, hard: 1 + vi%2})
		}
		if kit.Thorough() || oak == 1000 {
			// and across the adjustment height below the hardfork height
			shapes = append(shapes, shape{oak: oak + 200, forkAt: oak - 2, lenA: 5, lenB: 7, dts: [3]int{2, 1, 2}, dtA: 1, dtB: 3, hard: 1})
		}
	}
	for si, sh := range shapes {
		if !kit.MyShard(si) {
			continue
		}
		tc, trunk := preOakTree(sh.oak, sh.forkAt, sh.lenA, sh.lenB, sh.dts, sh.dtA, sh.dtB, sh.hard)
		c := C01Case{Tree: tc, Backend: sh.oak / 500 % 3}
		seq := seqInts
		c.Steps = append(c.Steps, kit.SubmitStep{Batch: seq(0, trunk)})
		c.Steps = append(c.Steps, kit.SubmitStep{Batch: seq(trunk, trunk+sh.lenA)})
		// the competing branch block by block (side-chain ancestors are walked), then at once
		for i := 0; i < 3 && i < sh.lenB; i++ {
			c.Steps = append(c.Steps, kit.SubmitStep{Batch: []int{trunk + sh.lenA + i}})
		}
		c.Steps = append(c.Steps, kit.SubmitStep{Batch: seq(trunk+sh.lenA, len(tc.Blocks))})
		c.Steps = append(c.Steps, kit.SubmitStep{Batch: seq(trunk-2, len(tc.Blocks))})
		cs := &kit.CaseStats{}
		err := runC01(c, cs)
		cs.Classf("pre-oak:oak=%d", sh.oak)
		cs.NonTrivial()
		if err != nil {
			err = fmt.Errorf("pre-Oak family (Oak hardfork at %d, fork at height %d, branches %d/%d blocks, block times %v/%d/%d s): %w", sh.oak, sh.forkAt, sh.lenA, sh.lenB, sh.dts, sh.dtA, sh.dtB, err)
		}
		d.Case(c, cs, err)
	}
}

func seqInts(a, b int) []int {
	var out []int
	for i := a; i < b; i++ {
		out = append(out, i)
	}
	return out
}

// preOakTree: trunk of forkAt blocks (block time per 500-block window from
// dts, a payment now and then), then branch A (lenA blocks, block time dtA)
// and branch B (lenB blocks, dtB) on top of the trunk.
func preOakTree(oak, forkAt, lenA, lenB int, dts [3]int, dtA, dtB, hard int) (kit.TreeCase, int) {
	tc := kit.TreeCase{Net: kit.NetSpec{Maturity: 2, Allow: oak + 400, ReqOff: 10, CutOff: 10, Hard: hard, Oak: oak}}
	for i := 0; i < forkAt; i++ {
		bs := kit.BlockSpec{Dt: dts[min(i/500, 2)], Miner: i % 4}
		if i%97 == 5 {
			bs.Txs = []kit.Intent{{Kind: "pay", Who: i % 4, To: (i + 1) % 4, Pick: i, Amt: 3}}
		}
		tc.Blocks = append(tc.Blocks, bs)
	}
	trunk := len(tc.Blocks)
	for i := 0; i < lenA; i++ {
		tc.Blocks = append(tc.Blocks, kit.BlockSpec{Dt: dtA, Miner: 1})
	}
	for i := 0; i < lenB; i++ {
		bs := kit.BlockSpec{Dt: dtB, Miner: 2}
		if i == 0 {
			bs.Back = lenA
		}
		tc.Blocks = append(tc.Blocks, bs)
	}
	return tc, trunk
}

// TestC04PreOak: subscribers (from nothing, and joining on the first branch)
// poll across the pre-Oak adjustment height and the reorg between the two
// branches; every update's state and diffs are folded and compared with the
// reference ledger as in TestC04 (UpdatesSince re-applies blocks with the
// store's ancestor timestamps).
func TestC04PreOak(t *testing.T) {
	d := kit.NewDirect(t, "C04", "pre-Oak family: Oak hardfork at 500 (branches crossing it), at 1700 (branches crossing the adjustment height 1500, the first whose 1000-block window does not start at genesis) and, in the thorough tier, at 1200 (adjustment height 1000); one subscriber from nothing polling in chunks of 7 / 1000, one joining on the first branch and left behind across the reorg; same oracle as TestC04")
	defer d.Done()
	for si, sh := range []struct{ oak, forkAt int }{{500, 497}, {1700, 1498}, {1200, 998}} {
		if sh.oak == 1200 && !kit.Thorough() {
			continue
		}
		if !kit.MyShard(si) {
			continue
		}
		// (1700, 1498): the adjustment at height 1500 is the first whose window
		// does not start at genesis - the ancestor timestamp handed to the
		// re-application decides the target the update's state carries
		tc, trunk := preOakTree(sh.oak, sh.forkAt, 5, 7, [3]int{2, 1, 2}, 1, 3, 1)
		sub := func(b []int) *kit.SubmitStep { return &kit.SubmitStep{Batch: b} }
		c := C04Case{Tree: tc, Subs: 1}
		c.Steps = append(c.Steps, C04Step{Submit: sub(seqInts(0, trunk))})
		c.Steps = append(c.Steps, C04Step{Poll: &PollStep{Sub: 0, Max: 1000}})
		c.Steps = append(c.Steps, C04Step{Submit: sub(seqInts(trunk, trunk+5))})
		c.Steps = append(c.Steps, C04Step{Join: true})
		c.Steps = append(c.Steps, C04Step{Poll: &PollStep{Sub: 0, Max: 3}})
		c.Steps = append(c.Steps, C04Step{Submit: sub(seqInts(trunk+5, len(tc.Blocks)))})
		for k := 0; k < 4; k++ {
			c.Steps = append(c.Steps, C04Step{Poll: &PollStep{Sub: k % 2, Max: 7}})
		}
		cs := &kit.CaseStats{}
		err := runC04(c, cs)
		cs.Classf("pre-oak:oak=%d", sh.oak)
		cs.NonTrivial()
		if err != nil {
			err = fmt.Errorf("pre-Oak family (Oak hardfork at %d, fork at height %d): %w", sh.oak, sh.forkAt, err)
		}
		d.Case(c, cs, err)
	}
}

// TestC03PreOak: durable commit points of a history that crosses the pre-Oak
// adjustment / hardfork height on two branches (flushes injected inside the
// reorg), reopened and caught up as in TestC03.
func TestC03PreOak(t *testing.T) {
	d := kit.NewDirect(t, "C03", "pre-Oak family: Oak hardfork at 500, two branches crossing it, flushes injected after store operations inside the reorg; same oracle as TestC03")
	defer d.Done()
	for _, inner := range []int{0, 1} {
		tc, trunk := preOakTree(500, 496, 5, 8, [3]int{1, 2, 1}, 3, 1, 1)
		c := C03Case{Tree: tc, Inner: inner}
		c.Steps = append(c.Steps, kit.SubmitStep{Batch: seqInts(0, trunk)})
		c.Steps = append(c.Steps, kit.SubmitStep{Batch: seqInts(trunk, trunk+5)})
		c.Steps = append(c.Steps, kit.SubmitStep{Batch: seqInts(trunk+5, len(tc.Blocks))})
		for k := 0; k < 6; k++ {
			c.FlushAt = append(c.FlushAt, trunk+5+2*k+inner)
		}
		cs := &kit.CaseStats{}
		err := runC03(c, cs)
		cs.Class("pre-oak:oak=500")
		if err != nil {
			err = fmt.Errorf("pre-Oak family (Oak hardfork at 500, fork at height 496, inner backend %d): %w", inner, err)
		}
		d.Case(c, cs, err)
	}
}

// TestC01NearTie: equal-length v2 branches on a calm network with a real
// difficulty (about 4096): the fork blocks' timestamps differ, so the two
// branches carry slightly different work - more than the other, but not
// "sufficiently" more (the rule demands a margin of a fifth of the tip's
// difficulty). The second branch to arrive must not move the tip, whichever
// call delivers it; a branch one block longer must.
func TestC01NearTie(t *testing.T) {
	d := kit.NewDirect(t, "C01", "near-tie family: calm v2-only network with difficulty ~4096, trunk of 14 blocks, two branches of equal length 2..4 whose first blocks come 1..9 s after the trunk tip (work differs by less than the required margin), optionally a third block on the later branch; delivered in both orders through AddBlocks and through AddValidatedV2Blocks; same oracle as TestC01 (the tip moves only to a sufficiently heavier chain, and does move to one)")
	defer d.Done()
	ci := 0
	for _, ln := range []int{2, 3, 4} {
		for _, dts := range [][2]int{{1, 9}, {9, 1}, {1, 3}, {5, 2}} {
			for _, validated := range []bool{false, true} {
				for _, extra := range []int{0, 1} {
					ci++
					if !kit.MyShard(ci) || (!kit.Thorough() && ln == 4) {
						continue
					}
					tc := kit.TreeCase{Net: kit.NetSpec{Maturity: 1, Allow: 1, ReqOff: 0, CutOff: 400, Hard: 3, Calm: true}}
					for i := 0; i < 14; i++ {
						tc.Blocks = append(tc.Blocks, kit.BlockSpec{Dt: 1, Miner: i % 4})
					}
					trunk := len(tc.Blocks)
					for i := 0; i < ln; i++ {
						bs := kit.BlockSpec{Dt: 1, Miner: 1}
						if i == 0 {
							bs.Dt = dts[0]
						}
						tc.Blocks = append(tc.Blocks, bs)
					}
					for i := 0; i < ln+extra; i++ {
						bs := kit.BlockSpec{Dt: 1, Miner: 2}
						if i == 0 {
							bs.Dt, bs.Back = dts[1], ln
						}
						tc.Blocks = append(tc.Blocks, bs)
					}
					c := C01Case{Tree: tc}
					c.Steps = append(c.Steps, kit.SubmitStep{Batch: seqInts(0, trunk)})
					c.Steps = append(c.Steps, kit.SubmitStep{Batch: seqInts(trunk, trunk+ln), Validated: validated})
					c.Steps = append(c.Steps, kit.SubmitStep{Batch: seqInts(trunk+ln, trunk+2*ln), Validated: validated})
					if extra > 0 {
						c.Steps = append(c.Steps, kit.SubmitStep{Batch: seqInts(trunk+2*ln, len(tc.Blocks)), Validated: validated})
					}
					c.Steps = append(c.Steps, kit.SubmitStep{Batch: seqInts(trunk, len(tc.Blocks))})
					cs := &kit.CaseStats{}
					err := runC01(c, cs)
					// how close were the two branches?
					tr := kit.BuildTree(tc)
					a, b := tr.Nodes[trunk+ln-1], tr.Nodes[trunk+2*ln-1]
					if a.Ledger != nil && b.Ledger != nil {
						sa, sb := a.Ledger.State, b.Ledger.State
						switch {
						case sa.TotalWork.Cmp(sb.TotalWork) == 0:
							cs.Class("near-tie:equal-work")
						case !sa.SufficientlyHeavierThan(sb) && !sb.SufficientlyHeavierThan(sa):
							cs.Class("near-tie:different-work-within-the-margin")
							cs.NonTrivial()
						default:
							cs.Class("near-tie:one-branch-sufficiently-heavier")
						}
					}
					if err != nil {
						err = fmt.Errorf("near-tie family (branches of %d blocks, first blocks %d s / %d s after the trunk tip, validated=%v, extra=%d): %w", ln, dts[0], dts[1], validated, extra, err)
					}
					d.Case(c, cs, err)
				}
			}
		}
	}
}
