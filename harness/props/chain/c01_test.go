package pchain

import (
	"bytes"
	"fmt"
	"testing"

	"go.sia.tech/core/consensus"
	"go.sia.tech/core/types"
	"pgregory.net/rapid"

	"verif/kit"
	"verif/kvm"
	"verif/refl"
)

// C01Case: a fork tree (with corruptions) and a submission schedule.
type C01Case struct {
	Tree    kit.TreeCase     `json:"tree"`
	Steps   []kit.SubmitStep `json:"steps"`
	Backend int              `json:"backend,omitempty"`
}

func genC01(t *rapid.T) C01Case {
	cfg := kit.DefaultTreeGen()
	cfg.CorruptPct = 7
	cfg.MalleatePct = 10
	cfg.ExtraCorruptions = []string{"timestamp-future"}
	tc := kit.GenTree(t, cfg)
	return C01Case{Tree: tc, Steps: kit.GenSchedule(t, len(tc.Blocks), 30), Backend: rapid.IntRange(0, 2).Draw(t, "backend")}
}

// chainSnapshot is what must be unchanged by a failed submission.
type chainSnapshot struct {
	tip    types.ChainIndex
	state  []byte
	best   []types.ChainIndex
	dump   kit.Dump
	served kit.Dump
}

func takeSnapshot(n *kit.Node, maxH uint64) chainSnapshot {
	s := chainSnapshot{tip: n.CM.Tip(), state: refl.StateBytes(n.CM.TipState())}
	for h := uint64(0); h <= maxH+2; h++ {
		idx, ok := n.CM.BestIndex(h)
		if !ok {
			idx = types.ChainIndex{}
		}
		s.best = append(s.best, idx)
	}
	s.dump = n.Dump(kit.DumpOpts{ElementsOnly: true})
	if tn := n.TipNode(); tn != nil && tn.Ledger != nil {
		s.served = n.ServedView(tn.Ledger, maxH+8)
	}
	return s
}

func (a chainSnapshot) diff(b chainSnapshot) string {
	if a.tip != b.tip {
		return fmt.Sprintf("tip %v -> %v", a.tip, b.tip)
	}
	if !bytes.Equal(a.state, b.state) {
		return "tip state changed"
	}
	for i := range a.best {
		if a.best[i] != b.best[i] {
			return fmt.Sprintf("BestIndex(%d) %v -> %v", i, a.best[i], b.best[i])
		}
	}
	if !a.dump.Equal(b.dump) {
		return "store contents (index / elements / expirations) changed:\n" + a.dump.Diff(b.dump)
	}
	if !a.served.Equal(b.served) {
		return "served supplements / proofs changed:\n" + a.served.Diff(b.served)
	}
	return ""
}

func treeMaxHeight(tr *kit.Tree) uint64 {
	var m uint64
	for _, n := range tr.Nodes {
		if n.Height > m {
			m = n.Height
		}
	}
	return m
}

func runC01(c C01Case, cs *kit.CaseStats) error {
	tr := kit.BuildTree(c.Tree)
	backend := kvm.BackendNames[((c.Backend%3)+3)%3]
	node, err := kit.NewNode(tr, backend)
	if err != nil {
		return fmt.Errorf("INFRA: %v", err)
	}
	defer node.Close()
	maxH := treeMaxHeight(tr)
	req := tr.Network.HardforkV2.RequireHeight
	allow := tr.Network.HardforkV2.AllowHeight
	known := func(id types.BlockID) bool { _, ok := node.CM.State(id); return ok }

	for si, st := range c.Steps {
		nodes, blocks, states, validated := tr.ResolveBatch(st, node.ValidatedParent)
		if len(blocks) == 0 {
			continue
		}
		oldTip := node.TipNode()
		oldState := node.CM.TipState()
		pre := takeSnapshot(node, maxH)
		allKnownBefore := true
		for _, n := range nodes {
			if !known(n.ID) {
				allKnownBefore = false
			}
		}
		// a submission made only of valid blocks whose parents are at hand, on
		// top of ancestors whose genuine bodies the node holds, must not fail
		mustSucceed := !tr.HasMalleated(st)
		inBatch := map[types.BlockID]bool{}
		for _, n := range nodes {
			if n.Ledger == nil || n.Parent == nil || !(inBatch[n.Parent.ID] || known(n.Parent.ID)) {
				mustSucceed = false
			}
			inBatch[n.ID] = true
		}
		if mustSucceed {
			for a := nodes[len(nodes)-1]; a != nil && a.Idx >= 0 && mustSucceed; a = a.Parent {
				if inBatch[a.ID] {
					continue
				}
				held, ok := node.CM.Block(a.ID)
				if !ok || !bytes.Equal(refl.Enc(types.V2Block(held)), refl.Enc(types.V2Block(a.Block))) {
					mustSucceed = false // the node holds another body under this id (or none)
				}
			}
		}
		if p := nodes[0].Parent; p != nil && p.Corrupt == "timestamp-future" && !inBatch[p.ID] && node.Submitted[p.ID] {
			cs.Class("child-of-a-refused-future-block-submitted-alone")
		}
		var err error
		if validated {
			cs.Class("call=AddValidatedV2Blocks")
			if nodes[len(nodes)-1].Ledger == nil {
				cs.Class("validated-batch-above-invalid-ancestor")
				if nodes[len(nodes)-1].Hdr.SufficientlyHeavierThan(oldState) {
					cs.Class("validated-batch-above-invalid-ancestor-heavier")
					cs.NonTrivial()
				}
			}
			for _, n := range nodes {
				node.Submitted[n.ID] = true
			}
			err = node.CM.AddValidatedV2Blocks(blocks, states)
			if h := node.CM.Tip().Height; h > node.MaxHeight {
				node.MaxHeight = h
			}
		} else {
			err = node.Submit(blocks)
		}
		where := fmt.Sprintf("step %d (batch %v, validated=%v, err=%v)", si, st.Batch, validated, err)

		// (1) audit
		if aerr := node.Audit(); aerr != nil {
			return fmt.Errorf("%s: %w", where, aerr)
		}
		if si%4 == 3 {
			if qerr := node.AuditQueries(knownNodes(tr, node)); qerr != nil {
				return fmt.Errorf("%s: %w", where, qerr)
			}
		}
		newTip := node.TipNode()
		newState := node.CM.TipState()
		// (2) work never decreases
		if newState.TotalWork.Cmp(oldState.TotalWork) < 0 {
			return fmt.Errorf("%s: tip total work decreased (%v -> %v)", where, oldState.TotalWork, newState.TotalWork)
		}
		if err != nil && mustSucceed {
			return fmt.Errorf("%s: a submission consisting only of valid blocks, with all parents and genuine ancestor bodies at hand, failed", where)
		}
		last := nodes[len(nodes)-1]
		malleated := tr.HasMalleated(st)
		if malleated {
			cs.Class("same-id-altered-body-submitted")
			for _, n := range nodes {
				if n.Malleated != nil && !allKnownBefore {
					cs.Class("altered-body-before-genuine")
				}
			}
		}
		if err != nil {
			cs.Class("submission-error")
			// (6) a failed submission leaves everything as before
			post := takeSnapshot(node, maxH)
			if d := pre.diff(post); d != "" {
				return fmt.Errorf("%s: failed submission changed the chain: %s", where, d)
			}
			// classify: a reorg that had applied >= 1 block before the invalid one
			if last.Ledger == nil && oldTip != nil {
				if lca := kit.LCA(oldTip, last); lca != nil {
					applied := 0
					for _, p := range last.PathFromGenesis() {
						if p.Height <= lca.Height {
							continue
						}
						if p.Ledger == nil {
							break
						}
						applied++
					}
					if applied >= 1 && last.Hdr.SufficientlyHeavierThan(oldState) {
						cs.Class("failed-reorg-after-partial-apply")
						cs.NonTrivial()
						if oldTip.Height > lca.Height {
							cs.Class("failed-reorg-with-reverts")
						}
					}
				}
			}
			continue
		}
		// (3) soundness of moves
		if newTip != oldTip {
			if !newState.SufficientlyHeavierThan(oldState) {
				return fmt.Errorf("%s: tip moved %v -> %v although the new chain is not sufficiently heavier", where, oldState.Index, newState.Index)
			}
			lca := kit.LCA(oldTip, newTip)
			depth := oldTip.Height - lca.Height
			cs.Classf("reorg-depth=%d", min(depth, 5))
			if depth >= 2 {
				cs.NonTrivial()
			}
			if depth >= 1 {
				lo, hi := lca.Height, max(oldTip.Height, newTip.Height)
				if lo < allow && hi >= allow {
					cs.Class("reorg-crosses-allow")
				}
				if lo < req && hi >= req {
					cs.Class("reorg-crosses-require")
				}
			}
		}
		// (4) completeness / (5) invalid chains must be refused with an error
		// (not judged for calls that handed over an altered body under a valid
		// block's id: whether such a call errs depends on which body the node
		// already holds; the audit and later genuine submissions decide)
		lastKnown := known(last.ID)
		if lastKnown && !malleated {
			cand := last.Hdr
			if heavier := cand.SufficientlyHeavierThan(oldState); heavier && cand.Index.Height <= oldState.Index.Height {
				cs.Class("candidate-heavier-but-not-longer")
			} else if !heavier && cand.Index.Height > oldState.Index.Height {
				cs.Class("candidate-longer-but-not-heavier")
			}
			if cand.SufficientlyHeavierThan(oldState) {
				if last.Ledger == nil {
					return fmt.Errorf("%s: the batch's last block %v heads a sufficiently heavier chain that contains an invalid block (%v), yet the call returned nil", where, last.Index(), last.Err)
				}
				if last.Ledger.State.SufficientlyHeavierThan(newState) {
					return fmt.Errorf("%s: valid chain ending in %v is sufficiently heavier than the old tip %v but the tip is still %v", where, last.Index(), oldState.Index, newState.Index)
				}
			}
		}
		if allKnownBefore {
			cs.Class("duplicate-batch")
		}
	}
	// final: full replay from genesis through core without the per-node cache
	if err := node.FullReplayAudit(); err != nil {
		return err
	}
	if err := node.AuditQueries(knownNodes(tr, node)); err != nil {
		return err
	}
	if tn := node.TipNode(); tn != nil && tn.Ledger != nil {
		if err := node.CheckAgainstLedger(tn.Ledger, c.Tree.SharedWindows); err != nil {
			return fmt.Errorf("final: %w", err)
		}
	}
	for _, n := range tr.Nodes {
		if n.Corrupt != "" {
			cs.Class("corrupt=" + n.Corrupt)
		}
	}
	cs.Class("backend=" + backend)
	return nil
}

var _ = consensus.State{}

var c01Prop = kit.Prop[C01Case]{
	ID:   "C01",
	Rule: "rapid fork trees (6..24 blocks quick / ..60 thorough, all three hardfork regimes, generic transaction intents resolved on the parent's reference ledger, 5-7% single-field block corruptions and intent-level corruptions whose validity is decided by core) × submission schedules (sequential batches, duplicates, re-submissions, orphan-first ranges, mixed-branch batches, AddValidatedV2Blocks inside its documented domain, final sweep). After every call: chain audit against the reference ledger, work monotonicity, move soundness (sufficiently heavier), completeness for the batch's last block, error ⇒ snapshot unchanged; at the end a full replay through core of the chain the node serves. Non-trivial = the case contains a reorg of depth >= 2 or a failed reorg that had applied >= 1 block before the invalid one; distinct by hash of the case.",
	Assumptions: []string{
		"go.sia.tech/core decides block validity (reference ledger built on core only)",
		"AddValidatedV2Blocks is only called inside its documented domain: a chain of valid v2 blocks with harness-computed states whose parent is known and at or above the require height",
		"block timestamps are anchored in 2020, so the wall-clock future-timestamp check never triggers",
	},
	Gen: genC01,
	Run: runC01,
}

func TestC01(t *testing.T) { c01Prop.Main(t) }

// knownNodes lists up to eight tree nodes the manager knows (for queries from
// the point of view of peers on other branches).
func knownNodes(tr *kit.Tree, node *kit.Node) []*kit.TNode {
	var out []*kit.TNode
	for i := len(tr.Nodes) - 1; i >= 0 && len(out) < 8; i-- {
		if _, ok := node.CM.State(tr.Nodes[i].ID); ok {
			out = append(out, tr.Nodes[i])
		}
	}
	return out
}
