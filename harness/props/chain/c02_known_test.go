package pchain

import (
	"fmt"
	"testing"

	"go.sia.tech/core/types"

	"verif/kit"
)

// f02Case is the fixed minimal history of known finding F-C02-1: three v1
// contracts expiring at one height, a block that resolves one of them by
// storage proof, and a heavier sibling fork that reverts that block.
func f02Case() kit.TreeCase {
	form := func(pick int) kit.Intent {
		return kit.Intent{Kind: "v1form", Who: 0, To: 1, Pick: pick, A: 1}
	}
	tc := kit.TreeCase{Net: kit.NetSpec{Maturity: 1, Allow: 500, ReqOff: 10, CutOff: 10}, SharedWindows: true}
	tc.Blocks = []kit.BlockSpec{
		{Dt: 1}, {Dt: 1},
		{Dt: 1, Txs: []kit.Intent{form(0), form(1), form(2)}}, // height 3: A, B, C with window end 9
		{Dt: 1}, {Dt: 1}, {Dt: 1},
		{Dt: 1, Txs: []kit.Intent{{Kind: "v1proof", Pick: 1}}}, // height 7: proof for one of them
		{Dt: 1, Back: 1}, // height 7 sibling
		{Dt: 1},          // height 8: makes the sibling branch heavier
	}
	return tc
}

// TestC02KnownF1 decides whether known finding F-C02-1 still reproduces.
func TestC02KnownF1(t *testing.T) {
	tr := kit.BuildTree(f02Case())
	for i, n := range tr.Nodes {
		if !n.Valid() {
			t.Fatalf("INFRA demonstrator block %d invalid: %v", i, n.Err)
		}
	}
	if k := tr.Nodes[6].Kinds; len(k) != 1 || k[0] != "v1proof" {
		t.Fatalf("INFRA demonstrator did not build the storage proof: %v %v", k, tr.Nodes[6].Skipped)
	}
	node, err := kit.NewNode(tr, "mem")
	if err != nil {
		t.Fatal(err)
	}
	defer node.Close()
	for _, n := range tr.Nodes {
		if err := node.Submit([]types.Block{n.Block}); err != nil {
			t.Fatalf("INFRA demonstrator submission failed: %v", err)
		}
	}
	tip := tr.Nodes[8]
	if node.CM.Tip() != tip.Index() {
		t.Fatalf("INFRA demonstrator did not reorg: tip %v", node.CM.Tip())
	}
	got := node.Store.ExpiringFileContractIDs(9)
	want := tip.Ledger.Expiring[9]
	if len(got) != 3 || len(want) != 3 {
		t.Fatalf("INFRA demonstrator lists: %v %v", got, want)
	}
	if fmt.Sprint(got) != fmt.Sprint(want) {
		fmt.Printf("KNOWN-REPRODUCED F-C02-1: after reverting a storage proof the expiration list at height 9 is %v, a node that saw only the best chain has %v\n", got, want)
	} else {
		fmt.Println("KNOWN-GONE F-C02-1")
	}
}

// f02bCase is the fixed minimal history of known finding F-C02-2: two v1
// contracts expiring at height 9, the block at height 9 applied with the
// reversed expiration order through chain.WithExpiringContractOrder (the
// option upstream uses to pin historical orders), and a heavier sibling fork
// that reverts that block.
func f02bCase() kit.TreeCase {
	form := func(pick int) kit.Intent {
		return kit.Intent{Kind: "v1form", Who: 0, To: 1, Pick: pick, A: 1}
	}
	tc := kit.TreeCase{Net: kit.NetSpec{Maturity: 1, Allow: 500, ReqOff: 10, CutOff: 10}, SharedWindows: true}
	tc.Blocks = []kit.BlockSpec{
		{Dt: 1}, {Dt: 1},
		{Dt: 1, Txs: []kit.Intent{form(0), form(1)}}, // height 3: A, D with window end 9
		{Dt: 1}, {Dt: 1}, {Dt: 1}, {Dt: 1}, {Dt: 1},
		{Dt: 1, Reorder: true}, // height 9: X, applied in the overridden order [D, A]
		{Dt: 1, Back: 1},       // height 9: sibling Y (no override entry)
		{Dt: 1},                // height 10: makes Y's branch heavier
	}
	return tc
}

// TestC02KnownF2 decides whether known finding F-C02-2 still reproduces.
func TestC02KnownF2(t *testing.T) {
	tr := kit.BuildTree(f02bCase())
	for i, n := range tr.Nodes {
		if !n.Valid() {
			t.Fatalf("INFRA demonstrator block %d invalid: %v", i, n.Err)
		}
	}
	x := tr.Nodes[8]
	if len(tr.OrderOverride[x.ID]) != 2 {
		t.Fatalf("INFRA demonstrator built no order override for the block at height 9: %v", tr.OrderOverride)
	}
	node, err := kit.NewNode(tr, "mem")
	if err != nil {
		t.Fatal(err)
	}
	defer node.Close()
	for _, n := range tr.Nodes[:9] {
		if err := node.Submit([]types.Block{n.Block}); err != nil {
			t.Fatalf("INFRA demonstrator submission failed: %v", err)
		}
	}
	if node.CM.Tip() != x.Index() {
		t.Fatalf("INFRA demonstrator: tip %v, want the overridden block", node.CM.Tip())
	}
	for _, n := range tr.Nodes[9:] {
		if err := node.Submit([]types.Block{n.Block}); err != nil {
			t.Fatalf("INFRA demonstrator submission failed: %v", err)
		}
	}
	tip := tr.Nodes[10]
	if node.CM.Tip() != tip.Index() {
		t.Fatalf("INFRA demonstrator did not reorg: tip %v", node.CM.Tip())
	}
	if got, want := node.CM.TipState().Elements, tip.Ledger.State.Elements; got != want {
		fmt.Printf("KNOWN-REPRODUCED F-C02-2: after reverting a block applied in an overridden expiration order the sibling block expired the contracts in that order too: element accumulator differs from that of a node that saw only the best chain\n")
	} else {
		fmt.Println("KNOWN-GONE F-C02-2")
	}
}
