package pchain

import (
	"fmt"
	"testing"

	"go.sia.tech/core/types"

	"verif/kit"
)

// f02Case is the fixed minimal history of known finding F-C02-1: three v1
// contracts expiring at one height, a block that resolves one of them by
// storage proof, and a heavier sibling fork that reverts that block.
func f02Case() kit.TreeCase {
	form := func(pick int) kit.Intent {
		return kit.Intent{Kind: "v1form", Who: 0, To: 1, Pick: pick, A: 1}
	}
	tc := kit.TreeCase{Net: kit.NetSpec{Maturity: 1, Allow: 500, ReqOff: 10, CutOff: 10}, SharedWindows: true}
	tc.Blocks = []kit.BlockSpec{
		{Dt: 1}, {Dt: 1},
		{Dt: 1, Txs: []kit.Intent{form(0), form(1), form(2)}}, // height 3: A, B, C with window end 9
		{Dt: 1}, {Dt: 1}, {Dt: 1},
		{Dt: 1, Txs: []kit.Intent{{Kind: "v1proof", Pick: 1}}}, // height 7: proof for one of them
		{Dt: 1, Back: 1}, // height 7 sibling
		{Dt: 1},          // height 8: makes the sibling branch heavier
	}
	return tc
}

// TestC02KnownF1 decides whether known finding F-C02-1 still reproduces.
func TestC02KnownF1(t *testing.T) {
	tr := kit.BuildTree(f02Case())
	for i, n := range tr.Nodes {
		if !n.Valid() {
			t.Fatalf("INFRA demonstrator block %d invalid: %v", i, n.Err)
		}
	}
	if k := tr.Nodes[6].Kinds; len(k) != 1 || k[0] != "v1proof" {
		t.Fatalf("INFRA demonstrator did not build the storage proof: %v %v", k, tr.Nodes[6].Skipped)
	}
	node, err := kit.NewNode(tr, "mem")
	if err != nil {
		t.Fatal(err)
	}
	defer node.Close()
	for _, n := range tr.Nodes {
		if err := node.Submit([]types.Block{n.Block}); err != nil {
			t.Fatalf("INFRA demonstrator submission failed: %v", err)
		}
	}
	tip := tr.Nodes[8]
	if node.CM.Tip() != tip.Index() {
		t.Fatalf("INFRA demonstrator did not reorg: tip %v", node.CM.Tip())
	}
	got := node.Store.ExpiringFileContractIDs(9)
	want := tip.Ledger.Expiring[9]
	if len(got) != 3 || len(want) != 3 {
		t.Fatalf("INFRA demonstrator lists: %v %v", got, want)
	}
	if fmt.Sprint(got) != fmt.Sprint(want) {
		fmt.Printf("KNOWN-REPRODUCED F-C02-1: after reverting a storage proof the expiration list at height 9 is %v, a node that saw only the best chain has %v\n", got, want)
	} else {
		fmt.Println("KNOWN-GONE F-C02-1")
	}
}
