package pchain

import (
	"bytes"
	"fmt"
	"testing"

	"go.sia.tech/core/types"
	"go.sia.tech/coreutils/chain"
	"pgregory.net/rapid"

	"verif/kit"
	"verif/kvm"
	"verif/refl"
)

// C02Case: fork tree whose blocks carry element-changing transactions, a
// submission schedule, a backend and (optionally) a checkpoint boot.
type C02Case struct {
	Tree       kit.TreeCase     `json:"tree"`
	Steps      []kit.SubmitStep `json:"steps"`
	Backend    int              `json:"backend,omitempty"`
	Checkpoint int              `json:"checkpoint,omitempty"` // >0: boot a second node from a checkpoint (selector)
}

func genC02(t *rapid.T) C02Case {
	cfg := kit.DefaultTreeGen()
	cfg.CorruptPct = 3
	cfg.ExtraCorruptions = []string{"timestamp-future"}
	cfg.BadIntentPct = 2
	cfg.SharedPct = 30
	cfg.ForkPct = 25
	cfg.Kinds = []string{"pay", "sf", "sfchain", "form", "form", "formprove", "fcop", "fcop", "fcop", "fcop", "attest", "foundation", "arb"}
	tc := kit.GenTree(t, cfg)
	c := C02Case{Tree: tc, Steps: kit.GenSchedule(t, len(tc.Blocks), 30), Backend: kit.Uniform(t, 10, "backend")}
	if kit.Chance(t, 35, "cp") {
		c.Checkpoint = rapid.IntRange(1, 8).Draw(t, "cpsel")
	}
	return c
}

func c02Backend(sel int) string {
	if kit.Thorough() {
		return kvm.BackendNames[((sel%5)+5)%5]
	}
	// quick: bolt only rarely
	switch sel := ((sel % 10) + 10) % 10; {
	case sel < 4:
		return "mem"
	case sel < 7:
		return "cache(mem)"
	case sel < 9:
		return "cache(cache(mem))"
	default:
		return "cache(bolt)"
	}
}

// linearTwin feeds exactly the path to tn, one block per call, to a fresh node.
func linearTwin(tr *kit.Tree, tn *kit.TNode) (*kit.Node, error) {
	twin, err := kit.NewNode(tr, "mem")
	if err != nil {
		return nil, err
	}
	for _, p := range tn.PathFromGenesis() {
		if err := twin.Submit([]types.Block{p.Block}); err != nil {
			twin.Close()
			return nil, fmt.Errorf("linear twin rejected best-chain block %v: %w", p.Index(), err)
		}
	}
	if twin.CM.Tip() != tn.Index() {
		twin.Close()
		return nil, fmt.Errorf("linear twin ended on %v, want %v", twin.CM.Tip(), tn.Index())
	}
	return twin, nil
}

// reorgClasses records which element-changing kinds sit in reverted blocks.
func reorgClasses(cs *kit.CaseStats, oldTip, newTip *kit.TNode) (reverted int) {
	lca := kit.LCA(oldTip, newTip)
	if lca == nil {
		return 0
	}
	for n := oldTip; n != lca; n = n.Parent {
		reverted++
		for _, k := range n.Kinds {
			cs.Class("reverted:" + k)
			switch k {
			case "v1form", "v1rev", "v1rev-eph", "v1proof", "v2form", "v2rev", "v2renew", "v2proof", "v2expire", "v1sf", "v1sf-eph", "v2sf":
				cs.NonTrivial()
			}
		}
		if n.Ledger != nil && n.Parent != nil && n.Parent.Ledger != nil && len(n.Parent.Ledger.Expiring[n.Height]) > 0 {
			cs.Class("reverted:v1-natural-expiry")
			cs.NonTrivial()
		}
	}
	return reverted
}

func runC02(c C02Case, cs *kit.CaseStats) error {
	tr := kit.BuildTree(c.Tree)
	backend := c02Backend(c.Backend)
	node, err := kit.NewNode(tr, backend)
	if err != nil {
		return fmt.Errorf("INFRA: %v", err)
	}
	defer node.Close()
	cs.Class("backend=" + backend)
	if c.Tree.SharedWindows {
		cs.Class("mode=shared-windows")
	} else {
		cs.Class("mode=unique-windows")
	}
	rec := &kit.OpRecorder{}
	rec.Attach(node, nil)
	disc := kit.NewDiscipline()
	done := 0
	req := tr.Network.HardforkV2.RequireHeight
	allow := tr.Network.HardforkV2.AllowHeight
	_ = allow
	maxH := treeMaxHeight(tr)
	checkedTips := map[types.BlockID]bool{}

	for si, st := range c.Steps {
		_, blocks, states, validated := tr.ResolveBatch(st, node.ValidatedParent)
		if len(blocks) == 0 {
			continue
		}
		oldTip := node.TipNode()
		opsBefore := len(rec.Ops)
		var serr error
		if validated {
			serr = node.CM.AddValidatedV2Blocks(blocks, states)
			for _, b := range blocks {
				node.Submitted[b.ID()] = true
			}
		} else {
			serr = node.Submit(blocks)
		}
		where := fmt.Sprintf("step %d (batch %v, err=%v)", si, st.Batch, serr)
		// drive the list-discipline model with what the store actually did; at
		// every intermediate tip compare it with the linear order
		for ; done < len(rec.Ops); done++ {
			op := rec.Ops[done]
			if err := disc.Step(tr, op); err != nil {
				return fmt.Errorf("%s: %w", where, err)
			}
			at := tr.ByID[op.ID]
			if !op.Apply {
				at = at.Parent
			}
			if at == nil || at.Ledger == nil || at.Height > req {
				continue
			}
			if h, ok := disc.EqualLists(at.Ledger.Expiring); !ok {
				// known finding F-C02-1: the documented discipline itself is
				// history dependent; everything after this point is tainted
				cs.Excluded("F-C02-1 expiring-order-history-dependent")
				cs.Classf("known-shape-at-list-len=%d", len(at.Ledger.Expiring[h]))
				if !c.Tree.SharedWindows {
					return fmt.Errorf("%s: expiration order differs from the linear order although every v1 contract has a unique window end (height %d: %v vs %v)", where, h, disc.Lists[h], at.Ledger.Expiring[h])
				}
				return nil
			}
		}
		if err := node.Audit(); err != nil {
			return fmt.Errorf("%s: %w", where, err)
		}
		newTip := node.TipNode()
		if newTip != oldTip {
			if rv := reorgClasses(cs, oldTip, newTip); rv > 0 {
				lca := kit.LCA(oldTip, newTip)
				if lca.Height < allow && newTip.Height >= allow {
					cs.Class("reorg-crosses-allow")
				}
				if lca.Height < req && newTip.Height >= req {
					cs.Class("reorg-crosses-require")
				}
			}
		} else if serr != nil && len(rec.Ops) > opsBefore {
			cs.Class("failed-reorg")
		}
		L := newTip.Ledger
		// the node's expiration lists must follow the documented discipline
		if L.Height() <= req {
			nodeLists := map[uint64][]types.FileContractID{}
			for h := uint64(0); h <= maxH+12; h++ {
				if ids := node.Store.ExpiringFileContractIDs(h); len(ids) > 0 {
					nodeLists[h] = ids
				}
			}
			if h, ok := disc.EqualLists(nodeLists); !ok {
				return fmt.Errorf("%s: expiration list at height %d is %v; append-on-apply / swap-remove / prepend-on-revert over the store's own history gives %v", where, h, nodeLists[h], disc.Lists[h])
			}
		}
		if newTip == oldTip && serr == nil {
			continue
		}
		// absolute comparison with the reference ledger of the best chain
		if err := node.CheckAgainstLedger(L, false); err != nil {
			return fmt.Errorf("%s: %w", where, err)
		}
		// differential against a node that only ever saw the best chain
		if !checkedTips[newTip.ID] || serr != nil {
			checkedTips[newTip.ID] = true
			twin, err := linearTwin(tr, newTip)
			if err != nil {
				return fmt.Errorf("%s: %w", where, err)
			}
			a, b := node.Dump(kit.DumpOpts{}), twin.Dump(kit.DumpOpts{})
			var sa, sb kit.Dump
			if L.Height() <= req {
				sa, sb = node.ServedView(L, maxH+12), twin.ServedView(L, maxH+12)
			}
			twin.Close()
			if !a.Equal(b) {
				return fmt.Errorf("%s: store contents differ from a node that saw only the best chain (- node, + linear twin):\n%s", where, a.Diff(b))
			}
			if !sa.Equal(sb) {
				return fmt.Errorf("%s: served supplements differ from a node that saw only the best chain:\n%s", where, sa.Diff(sb))
			}
		}
	}
	if err := node.FullReplayAudit(); err != nil {
		return err
	}
	if c.Checkpoint > 0 {
		if err := checkpointFamily(tr, node, c.Checkpoint, cs); err != nil {
			return err
		}
	}
	return nil
}

// checkpointFamily boots a node with NewDBStoreAtCheckpoint at a v2 block of
// the final best chain above the require height, feeds it the rest, and
// compares everything served for heights >= checkpoint with the main node.
func checkpointFamily(tr *kit.Tree, node *kit.Node, sel int, cs *kit.CaseStats) error {
	tip := node.TipNode()
	req := tr.Network.HardforkV2.RequireHeight
	var cands []*kit.TNode
	for _, p := range tip.PathFromGenesis() {
		if p.Parent != nil && p.Parent.Height >= req && p.Block.V2 != nil && p.Parent.Ledger != nil {
			cands = append(cands, p)
		}
	}
	if len(cands) == 0 {
		cs.Class("checkpoint:none-available")
		return nil
	}
	cp := cands[sel%len(cands)]
	be, err := kvm.NewBackend("mem")
	if err != nil {
		return fmt.Errorf("INFRA: %v", err)
	}
	defer be.Close()
	store, tipState, err := chain.NewDBStoreAtCheckpoint(be.DB, cp.Parent.Ledger.State, cp.Block, nil)
	if err != nil {
		return fmt.Errorf("NewDBStoreAtCheckpoint at %v failed: %v", cp.Index(), err)
	}
	if !bytes.Equal(refl.StateBytes(tipState), refl.StateBytes(cp.Ledger.State)) {
		return fmt.Errorf("checkpoint boot at %v returned a state different from the reference", cp.Index())
	}
	cm := chain.NewManager(store, tipState)
	var rest []types.Block
	for _, p := range tip.PathFromGenesis() {
		if p.Height > cp.Height {
			rest = append(rest, p.Block)
		}
	}
	// one block per call, like a node following the chain
	for _, b := range rest {
		if err := cm.AddBlocks([]types.Block{b}); err != nil {
			return fmt.Errorf("checkpoint node (booted at %v) rejected best-chain block %v: %v", cp.Index(), b.ID(), err)
		}
	}
	if cm.Tip() != node.CM.Tip() {
		return fmt.Errorf("checkpoint node ended on %v, main node on %v", cm.Tip(), node.CM.Tip())
	}
	if !bytes.Equal(refl.StateBytes(cm.TipState()), refl.StateBytes(node.CM.TipState())) {
		return fmt.Errorf("checkpoint node's tip state differs from the from-genesis node's")
	}
	for h := cp.Height; h <= tip.Height; h++ {
		a, aok := cm.BestIndex(h)
		b, bok := node.CM.BestIndex(h)
		if a != b || aok != bok {
			return fmt.Errorf("checkpoint node BestIndex(%d) = %v,%v; from-genesis node %v,%v", h, a, aok, b, bok)
		}
		sa, _ := cm.State(a.ID)
		sb, _ := node.CM.State(b.ID)
		if !bytes.Equal(refl.StateBytes(sa), refl.StateBytes(sb)) {
			return fmt.Errorf("checkpoint node State(%v) differs", a)
		}
		ba, aok := cm.Block(a.ID)
		bb, bok := node.CM.Block(b.ID)
		if aok != bok || ba.ID() != bb.ID() {
			return fmt.Errorf("checkpoint node Block(%v) differs", a)
		}
	}
	cs.Class("checkpoint:booted")
	cs.Classf("checkpoint:followed=%d", min(len(rest), 5))

	// second part: a checkpoint node and a from-genesis node that both stand at
	// the checkpoint are fed every descendant of the checkpoint block (forks
	// above it included) in list order; they must take the same decisions.
	be2, err := kvm.NewBackend("mem")
	if err != nil {
		return fmt.Errorf("INFRA: %v", err)
	}
	defer be2.Close()
	store2, tipState2, err := chain.NewDBStoreAtCheckpoint(be2.DB, cp.Parent.Ledger.State, cp.Block, nil)
	if err != nil {
		return fmt.Errorf("NewDBStoreAtCheckpoint at %v failed: %v", cp.Index(), err)
	}
	cm2 := chain.NewManager(store2, tipState2)
	twin, err := linearTwin(tr, cp)
	if err != nil {
		return err
	}
	defer twin.Close()
	forks := 0
	fed := 0
	dupCP := func(when string) error {
		// the checkpoint block itself arrives again (a peer sending a branch from
		// the attach point, any duplicate delivery): nothing may change, and
		// what is served for it stays the reference state
		before := cm2.Tip()
		if err := cm2.AddBlocks([]types.Block{cp.Block}); err != nil {
			return fmt.Errorf("%s: the checkpoint node refused a duplicate of its own checkpoint block %v: %v", when, cp.Index(), err)
		}
		if cm2.Tip() != before {
			return fmt.Errorf("%s: a duplicate of the checkpoint block moved the checkpoint node's tip %v -> %v", when, before, cm2.Tip())
		}
		if st, ok := cm2.State(cp.ID); !ok || !bytes.Equal(refl.StateBytes(st), refl.StateBytes(cp.Ledger.State)) {
			return fmt.Errorf("%s: after a duplicate of the checkpoint block the state served for it differs from the reference", when)
		}
		cs.Class("checkpoint:checkpoint-block-delivered-again")
		return nil
	}
	if sel%2 == 0 {
		if err := dupCP("before anything else"); err != nil {
			return err
		}
	}
	for _, n := range tr.Nodes {
		if n == cp || !cp.IsAncestorOf(n) {
			continue
		}
		fed++
		if fed == 2 && sel%2 == 1 {
			if err := dupCP("after the first descendant"); err != nil {
				return err
			}
		}
		e1 := cm2.AddBlocks([]types.Block{n.Block})
		e2 := twin.CM.AddBlocks([]types.Block{n.Block})
		if (e1 == nil) != (e2 == nil) {
			return fmt.Errorf("checkpoint node and from-genesis node disagree on block %v above the checkpoint %v: %v vs %v", n.Index(), cp.Index(), e1, e2)
		}
		if cm2.Tip() != twin.CM.Tip() || !bytes.Equal(refl.StateBytes(cm2.TipState()), refl.StateBytes(twin.CM.TipState())) {
			return fmt.Errorf("after block %v: checkpoint node is on %v, from-genesis node on %v", n.Index(), cm2.Tip(), twin.CM.Tip())
		}
		for h := cp.Height; h <= cm2.Tip().Height+1; h++ {
			a, aok := cm2.BestIndex(h)
			b, bok := twin.CM.BestIndex(h)
			if a != b || aok != bok {
				return fmt.Errorf("after block %v: checkpoint node BestIndex(%d) = %v,%v; from-genesis node %v,%v", n.Index(), h, a, aok, b, bok)
			}
		}
		if n.Parent != nil && tr.ByID[twin.CM.Tip().ID] != n {
			forks++
		}
	}
	if forks > 0 {
		cs.Class("checkpoint:forks-above-checkpoint")
	}
	return nil
}

var c02Prop = kit.Prop[C02Case]{
	ID:   "C02",
	Rule: "rapid fork trees biased to element-changing transactions (v1/v2 spends, ephemeral outputs, siafund claims, v1 contract formation / revision with and without window change / storage proof / natural expiry, v2 formation / revision / renewal / storage proof / expiration, attestations, foundation updates) × submission schedules × backend; 70% of cases give every v1 contract a unique window end, 30% share windows on purpose. After every tip change (and every failed submission): chain audit; element buckets, expiration lists and served supplements/proofs compared absolutely with the reference ledger of the best chain; full store dump and served view compared with a linear twin (fresh node fed exactly the best chain, one block per call); expiration lists compared with the documented list discipline driven by the store's own apply/revert history. A third of the cases also boot a node from a v2 checkpoint above the require height, deliver the checkpoint block to it again, and compare everything it serves and decides from there on (forks above the checkpoint included) with a from-genesis node. Non-trivial = a reverted block contains a contract operation, a siafund spend or a natural v1 expiry; distinct by hash of the case.",
	Assumptions: []string{
		"go.sia.tech/core decides validity and defines apply/revert diffs; the reference ledger keeps v1 expiration lists in the order a linear node would (append, swap-remove)",
		"known finding F-C02-1 (expiration order is history dependent when a block removes a strict subset of a multi-entry list and is reverted): the case is cut at the first step where the documented list discipline itself differs from the linear order; such cases are counted under excluded_by_construction and everything order-insensitive is still checked",
		"the raw accumulator node bucket is compared only through served proofs (nodes no live element's proof passes through are unobservable)",
	},
	Gen: genC02,
	Run: runC02,
}

func TestC02(t *testing.T) { c02Prop.Main(t) }
