package pchain

import (
	"bytes"
	"fmt"
	"sort"
	"testing"

	"go.sia.tech/core/consensus"
	"go.sia.tech/core/types"
	"go.sia.tech/coreutils/chain"
	"pgregory.net/rapid"

	"verif/kit"
	"verif/kvm"
	"verif/refl"
)

// C03Case: a history as in C02 plus a flush schedule: the store operations
// (single applies / reverts, numbered from 0) after which the size/time based
// flush fires.
type C03Case struct {
	Tree    kit.TreeCase     `json:"tree"`
	Steps   []kit.SubmitStep `json:"steps"`
	FlushAt []int            `json:"flush_at"`
	Inner   int              `json:"inner,omitempty"` // 0 mem, 1 cache(mem), 2 bolt, 3 cache(bolt)
	// CrashAt > 0: a second run of the same schedule is abandoned inside its
	// CrashAt-th store operation, the live database discards what was not
	// committed (Cancel) and is reopened in place.
	CrashAt int `json:"crash_at,omitempty"`
	// ReopenBefore: steps before which the node is shut down cleanly (flush)
	// and started again on the same database (a restarted store has no record
	// of its last flush, so its time-based flush is due at once).
	ReopenBefore []int `json:"reopen_before,omitempty"`
}

func genC03(t *rapid.T) C03Case {
	cfg := kit.DefaultTreeGen()
	cfg.CorruptPct = 4
	cfg.ExtraCorruptions = []string{"timestamp-future"}
	cfg.BadIntentPct = 2
	cfg.ForkPct = 28
	cfg.Kinds = []string{"pay", "sf", "sfchain", "form", "formprove", "fcop", "fcop", "attest", "arb"}
	if !kit.Thorough() {
		cfg.MaxBlocks = 18
	}
	linearShared := kit.Chance(t, 15, "linear-shared")
	if linearShared {
		// no forks (so the history-dependent expiration order, known finding
		// F-C02-1, cannot arise), v1 contracts sharing window ends: expiration
		// lists with several entries are edited inside one commit window
		cfg.ForkPct, cfg.CorruptPct, cfg.BadIntentPct = 0, 0, 0
		cfg.SharedPct = 100
		cfg.Kinds = []string{"form", "form", "form", "fcop", "fcop", "pay"}
		cfg.MaxAllow = 500
	}
	tc := kit.GenTree(t, cfg)
	if tc.SharedWindows {
		tc.Net.Allow, tc.Net.ReqOff = 500, 10 // v1 regime throughout
	}
	c := C03Case{Tree: tc, Steps: kit.GenSchedule(t, len(tc.Blocks), 20), Inner: kit.Uniform(t, 2, "inner")}
	if tc.SharedWindows {
		for i := range c.Steps {
			c.Steps[i].Malleated, c.Steps[i].Validated = false, false
		}
	}
	if kit.Chance(t, 30, "reopenroll") {
		for k := 0; k < 1+kit.Uniform(t, 2, "nreopen"); k++ {
			r := 1 + kit.Uniform(t, max(1, len(c.Steps)-1), "reopenat")
			c.ReopenBefore = append(c.ReopenBefore, r)
			if r < len(c.Steps) && !tc.SharedWindows {
				// the first delivery after the restart prefers the pre-validated
				// call (honoured only inside its documented domain)
				c.Steps[r].Validated, c.Steps[r].Malleated = true, false
			}
		}
	}
	if kit.Chance(t, 60, "crashroll") {
		c.CrashAt = 1 + kit.Uniform(t, 2*len(tc.Blocks)+2, "crashat")
	}
	if kit.Thorough() || kit.Chance(t, 8, "bolt") {
		c.Inner = kit.Uniform(t, 4, "inner4") // thorough (and a few quick cases): also Bolt and CacheDB(Bolt)
	}
	n := rapid.IntRange(0, 10).Draw(t, "nflush")
	for i := 0; i < n; i++ {
		c.FlushAt = append(c.FlushAt, kit.Uniform(t, 3*len(tc.Blocks)+4, "flushat"))
	}
	return c
}

type commitPoint struct {
	img      kvm.Image
	opIndex  int  // number of store operations performed when the commit happened
	midReorg bool // taken strictly inside a multi-operation reorg
	failed   bool // inside a reorg that later failed and was rolled back
	step     int
}

func openFromImage(tr *kit.Tree, img kvm.Image) (n *kit.Node, err error) {
	defer func() {
		if r := recover(); r != nil {
			err = fmt.Errorf("panic while reopening: %v", r)
		}
	}()
	db, err := kvm.Restore(img)
	if err != nil {
		return nil, fmt.Errorf("INFRA restore: %v", err)
	}
	be := &kvm.Backend{Name: "restored", DB: db, Reopen: func() error { return nil }, Close: func() {}}
	return kit.OpenNode(tr, be)
}

func submitAll(tr *kit.Tree, node *kit.Node, steps []kit.SubmitStep, audit bool, plain ...bool) error {
	for si, st := range steps {
		_, blocks, states, validated := tr.ResolveBatch(st, node.ValidatedParent)
		if len(blocks) == 0 {
			continue
		}
		if len(plain) > 0 && plain[0] {
			validated = false // catch up through AddBlocks only
		}
		if validated {
			for _, b := range blocks {
				node.Submitted[b.ID()] = true
			}
			node.CM.AddValidatedV2Blocks(blocks, states)
		} else {
			node.Submit(blocks)
		}
		if audit {
			if err := node.Audit(); err != nil {
				return fmt.Errorf("step %d: %w", si, err)
			}
		}
	}
	return nil
}

func runC03(c C03Case, cs *kit.CaseStats) error {
	tr := kit.BuildTree(c.Tree)
	innerName := []string{"mem", "cache(mem)", "bolt", "cache(bolt)"}[((c.Inner%4)+4)%4]
	inner, snap, top, err := layeredBackend(innerName)
	if err != nil {
		return fmt.Errorf("INFRA: %v", err)
	}
	defer inner.Close()
	var commits []commitPoint
	opCount, stepNo := 0, 0
	inReorgOps := 0 // store operations since the current submission call started
	snap.OnCommit = func(img kvm.Image) {
		commits = append(commits, commitPoint{img: img, opIndex: opCount, midReorg: inReorgOps > 0, step: stepNo})
	}
	be := &kvm.Backend{Name: "recorded(" + innerName + ")", DB: top, Reopen: func() error { return nil }, Close: func() {}}
	node, err := kit.OpenNode(tr, be)
	if err != nil {
		return fmt.Errorf("INFRA: %v", err)
	}
	flushAt := map[int]bool{}
	for _, f := range c.FlushAt {
		flushAt[f] = true
	}
	// every tip the node ever had, recorded after every single apply / revert
	tipsSeen := map[types.ChainIndex]bool{node.CM.Tip(): true}
	hook := func(cs consensus.State) bool {
		tipsSeen[cs.Index] = true
		doFlush := flushAt[opCount]
		opCount++
		inReorgOps++
		return doFlush
	}
	node.Hooked.AfterApply = hook
	node.Hooked.AfterRevert = hook

	reopenBefore := map[int]bool{}
	for _, r := range c.ReopenBefore {
		reopenBefore[r] = true
	}
	for si, st := range c.Steps {
		if reopenBefore[si] {
			// clean restart on the same database
			node.Store.Flush()
			n2, rerr := kit.OpenNode(tr, be)
			if rerr != nil {
				return fmt.Errorf("step %d: restarting the node on its own database failed: %v", si, rerr)
			}
			if n2.CM.Tip() != node.CM.Tip() {
				return fmt.Errorf("step %d: after a clean restart the node is on %v, before it was on %v", si, n2.CM.Tip(), node.CM.Tip())
			}
			for id := range node.Submitted {
				n2.Submitted[id] = true
			}
			n2.MaxHeight = node.MaxHeight
			node = n2
			node.Hooked.AfterApply = hook
			node.Hooked.AfterRevert = hook
			cs.Class("clean-restart-mid-run")
		}
		_, blocks, states, validated := tr.ResolveBatch(st, node.ValidatedParent)
		if len(blocks) == 0 {
			continue
		}
		stepNo, inReorgOps = si, 0
		firstCommit := len(commits)
		var serr error
		if validated {
			for _, b := range blocks {
				node.Submitted[b.ID()] = true
			}
			serr = node.CM.AddValidatedV2Blocks(blocks, states)
		} else {
			serr = node.Submit(blocks)
		}
		total := inReorgOps
		inReorgOps = 0
		for i := firstCommit; i < len(commits); i++ {
			// a commit is strictly inside the reorg if operations followed it
			// within the same call
			opsBefore := commits[i].opIndex - (opCount - total)
			commits[i].midReorg = opsBefore > 0 && opsBefore < total
			commits[i].failed = serr != nil && total > 0
		}
		if err := node.Audit(); err != nil {
			return fmt.Errorf("uninterrupted run, step %d: %w", si, err)
		}
	}
	node.Store.Flush()
	finalTip := node.TipNode()
	finalState := node.CM.TipState()
	finalDump := node.Dump(kit.DumpOpts{})

	// does the final tip dominate every other valid submitted block?
	dominates := true
	for _, n := range tr.Nodes {
		if n.Ledger == nil || !node.Submitted[n.ID] || n.IsAncestorOf(finalTip) {
			continue
		}
		if !finalState.SufficientlyHeavierThan(n.Ledger.State) {
			dominates = false
		}
	}
	if dominates {
		cs.Class("final-tip-dominates")
	} else {
		cs.Class("final-tip-near-tie")
	}

	// choose which images to examine: all mid-reorg ones first
	order := make([]int, len(commits))
	for i := range order {
		order[i] = i
	}
	sort.SliceStable(order, func(a, b int) bool {
		ca, cb := commits[order[a]], commits[order[b]]
		if ca.midReorg != cb.midReorg {
			return ca.midReorg
		}
		return false
	})
	limit := 10
	if kit.Thorough() {
		limit = 24
	}
	seenImg := map[string]bool{}
	examined := 0
	for _, ci := range order {
		cp := commits[ci]
		if examined >= limit {
			break
		}
		key := kit.Fingerprint(imageKey(cp.img))
		if seenImg[key] {
			continue
		}
		seenImg[key] = true
		examined++
		where := fmt.Sprintf("commit point #%d (after %d store operations, during step %d, mid-reorg=%v)", ci, cp.opIndex, cp.step, cp.midReorg)
		rn, err := openFromImage(tr, cp.img)
		if err != nil {
			return fmt.Errorf("%s: reopening failed: %v", where, err)
		}
		rtip := rn.CM.Tip()
		if !tipsSeen[rtip] {
			return fmt.Errorf("%s: reopened to tip %v which the node never had", where, rtip)
		}
		for id := range node.Submitted {
			rn.Submitted[id] = true
		}
		if err := rn.Audit(); err != nil {
			return fmt.Errorf("%s: reopened node: %w", where, err)
		}
		rtn := rn.TipNode()
		if err := rn.CheckAgainstLedger(rtn.Ledger, false); err != nil {
			return fmt.Errorf("%s: reopened node: %w", where, err)
		}
		twin, err := linearTwin(tr, rtn)
		if err != nil {
			return fmt.Errorf("%s: %w", where, err)
		}
		a, b := rn.Dump(kit.DumpOpts{}), twin.Dump(kit.DumpOpts{})
		twin.Close()
		if !a.Equal(b) {
			return fmt.Errorf("%s: reopened store differs from a node that saw only the chain to %v (- reopened, + linear):\n%s", where, rtip, a.Diff(b))
		}
		if cp.midReorg {
			cs.Class("image-mid-reorg")
			cs.NonTrivial()
		}
		if cp.failed && cp.midReorg {
			cs.Class("image-inside-failed-reorg")
		}
		// catch up: the whole schedule again, in its original order
		// (every other image catches up through AddBlocks alone: the blocks may
		// reach a restarted node by any path)
		plainCatchUp := examined%2 == 0
		if plainCatchUp {
			where += ", catch-up through AddBlocks only"
		}
		if err := submitAll(tr, rn, c.Steps, true, plainCatchUp); err != nil {
			return fmt.Errorf("%s: catch-up: %w", where, err)
		}
		rs := rn.CM.TipState()
		if dominates {
			if rn.CM.Tip() != finalTip.Index() {
				return fmt.Errorf("%s: after re-submitting every block the reopened node is on %v, the uninterrupted run ended on %v", where, rn.CM.Tip(), finalTip.Index())
			}
			if !bytes.Equal(refl.StateBytes(rs), refl.StateBytes(finalState)) {
				return fmt.Errorf("%s: catch-up reached the same tip with a different state", where)
			}
			if d := rn.Dump(kit.DumpOpts{}); !d.Equal(finalDump) {
				return fmt.Errorf("%s: catch-up reached the same tip with different store contents (- reopened, + uninterrupted):\n%s", where, d.Diff(finalDump))
			}
		} else if finalState.SufficientlyHeavierThan(rs) {
			return fmt.Errorf("%s: after catch-up the reopened node's tip %v is sufficiently lighter than the uninterrupted run's %v", where, rn.CM.Tip(), finalTip.Index())
		}
		rn.Close()
	}
	if c.CrashAt > 0 {
		if err := crashInPlace(tr, c, innerName, cs); err != nil {
			return err
		}
	}
	if c.Tree.SharedWindows {
		cs.Class("mode=linear-shared-windows")
	}
	cs.Classf("images=%d", min(len(commits)/5*5, 40))
	cs.Class("inner=" + innerName)
	cs.Add("images_examined", int64(examined))
	cs.Add("commit_points", int64(len(commits)))
	return nil
}

func imageKey(img kvm.Image) map[string][]string {
	out := map[string][]string{}
	for b, kvs := range img {
		for _, kv := range kvs {
			out[b] = append(out[b], string(kv.K)+"="+string(kv.V))
		}
	}
	return out
}

var c03Prop = kit.Prop[C03Case]{
	ID:   "C03",
	Rule: "histories as in C02 (unique v1 windows) × a flush schedule (store operations after which the size/time flush fires) over a database wrapper that records the committed image after every completed flush (natural end-of-reorg flushes and injected ones). For up to 10 (quick) / 24 (thorough) distinct images per case, mid-reorg images first: reopen (NewDBStore + NewManager) must succeed, the recovered tip must be one the node had after some single apply/revert, audit + absolute element/proof comparison + linear-twin dump equality must hold, and re-submitting the whole schedule must reach the uninterrupted run's tip, state and store contents (when that tip dominates all other valid submitted blocks; otherwise only 'not sufficiently lighter'). Non-trivial = an image taken strictly inside a multi-operation reorg; distinct by hash of the case.",
	Assumptions: []string{
		"crash model: exactly the unflushed window is lost; torn writes inside a backend commit are the backend's contract",
		"the store's flush rule (5 s / 100 MB) may fire after any single apply or revert; it is reproduced by calling the exported DBStore.Flush from a Store wrapper at drawn points",
		"images are restored into a fresh MemDB (contents, not the file format, are what is reopened)",
	},
	Gen: genC03,
	Run: runC03,
}

func TestC03(t *testing.T) { c03Prop.Main(t) }

type crashSentinel struct{}

// crashInPlace runs the schedule again on a fresh database, abandons it inside
// its CrashAt-th store operation, lets the database discard what was not
// committed (Cancel - what a process stop leaves behind) and reopens it in
// place. The result must be exactly the store restored from the image recorded
// at the last commit: nothing done after a commit may change committed data.
func crashInPlace(tr *kit.Tree, c C03Case, innerName string, cs *kit.CaseStats) error {
	inner, snap, top, err := layeredBackend(innerName)
	if err != nil {
		return fmt.Errorf("INFRA: %v", err)
	}
	defer inner.Close()
	var lastImg kvm.Image
	have := false
	snap.OnCommit = func(img kvm.Image) { lastImg, have = img, true }
	be := &kvm.Backend{Name: "recorded(" + innerName + ")", DB: top, Reopen: func() error { return nil }, Close: func() {}}
	node, err := kit.OpenNode(tr, be)
	if err != nil {
		return fmt.Errorf("INFRA: %v", err)
	}
	flushAt := map[int]bool{}
	for _, f := range c.FlushAt {
		flushAt[f] = true
	}
	ops, sinceCommit := 0, 0
	onCommitOps := 0
	prev := snap.OnCommit
	snap.OnCommit = func(img kvm.Image) { prev(img); onCommitOps = ops }
	hook := func(consensus.State) bool {
		ops++
		if ops == c.CrashAt {
			panic(crashSentinel{})
		}
		return flushAt[ops-1]
	}
	node.Hooked.AfterApply = hook
	node.Hooked.AfterRevert = hook
	crashed := false
	for _, st := range c.Steps {
		_, blocks, states, validated := tr.ResolveBatch(st, node.ValidatedParent)
		if len(blocks) == 0 {
			continue
		}
		func() {
			defer func() {
				if r := recover(); r != nil {
					if _, ok := r.(crashSentinel); !ok {
						panic(r)
					}
					crashed = true
				}
			}()
			if validated {
				node.CM.AddValidatedV2Blocks(blocks, states)
			} else {
				node.CM.AddBlocks(blocks)
			}
		}()
		if crashed {
			break
		}
	}
	if !crashed || !have {
		cs.Class("crash-in-place:not-reached")
		return nil
	}
	sinceCommit = ops - onCommitOps
	where := fmt.Sprintf("second run abandoned inside store operation %d (%d operation(s) after the last commit), uncommitted writes discarded, database reopened in place", c.CrashAt, sinceCommit)
	snap.OnCommit = nil
	top.Cancel()
	snap.Cancel()
	live, err := func() (n *kit.Node, err error) {
		defer func() {
			if r := recover(); r != nil {
				err = fmt.Errorf("panic while reopening: %v", r)
			}
		}()
		return kit.OpenNode(tr, &kvm.Backend{Name: "live(" + innerName + ")", DB: inner.DB, Reopen: func() error { return nil }, Close: func() {}})
	}()
	if err != nil {
		return fmt.Errorf("%s: reopening failed: %v", where, err)
	}
	img, err := openFromImage(tr, lastImg)
	if err != nil {
		return fmt.Errorf("%s: reopening the recorded image failed: %v", where, err)
	}
	defer img.Close()
	a, b := live.Dump(kit.DumpOpts{}), img.Dump(kit.DumpOpts{})
	if !a.Equal(b) {
		return fmt.Errorf("%s: the database does not hold what was committed (- live database after discarding uncommitted writes, + image recorded at the last commit):\n%s", where, a.Diff(b))
	}
	if sinceCommit > 0 {
		cs.Class("crash-in-place:operations-after-last-commit")
		cs.NonTrivial()
	} else {
		cs.Class("crash-in-place:right-after-a-commit")
	}
	return nil
}

// layeredBackend builds the database a C03 node runs on. The commit recorder
// sits directly on the bottom store (MemDB or Bolt), below the write-caching
// wrapper where there is one, so that every durable commit of the bottom store
// is seen - also one that a wrapper issues in the middle of its own flush.
func layeredBackend(innerName string) (base *kvm.Backend, snap *kvm.SnapDB, top chain.DB, err error) {
	baseName := map[string]string{"mem": "mem", "cache(mem)": "mem", "bolt": "bolt", "cache(bolt)": "bolt"}[innerName]
	base, err = kvm.NewBackend(baseName)
	if err != nil {
		return nil, nil, nil, err
	}
	snap = &kvm.SnapDB{Inner: base.DB, Buckets: []string{"Version", "Network", "MainChain", "States", "Blocks", "FileContracts", "SiacoinElements", "SiafundElements", "Tree"}}
	top = snap
	if innerName != baseName {
		top = chain.NewCacheDB(snap)
	}
	return base, snap, top, nil
}
