package pchain

import (
	"fmt"
	"sync"
	"testing"

	"go.sia.tech/core/types"

	"verif/kit"
)

// runC04Concurrent: the same history with pollers in their own goroutines
// against one submitting goroutine. Only schedule-independent facts are
// asserted: every poll result is a contiguous path of at most max updates, the
// shadow ledger folded from it equals the reference ledger of the index
// reached, the number of reorg notifications equals the number of tip changes
// (single submitter) and the last one names the final tip, and afterwards
// every subscriber reaches the tip by polling.
func runC04Concurrent(c C04Case, cs *kit.CaseStats) error {
	tr := kit.BuildTree(c.Tree)
	node, err := kit.NewNode(tr, "mem")
	if err != nil {
		return fmt.Errorf("INFRA: %v", err)
	}
	defer node.Close()
	var cbMu sync.Mutex
	var callbacks []types.ChainIndex
	cancel := node.CM.OnReorg(func(ci types.ChainIndex) {
		cbMu.Lock()
		callbacks = append(callbacks, ci)
		cbMu.Unlock()
	})
	defer cancel()

	pollOnce := func(s *shadow, maxN int) error {
		from := s.index
		rus, aus, err := node.CM.UpdatesSince(from, maxN)
		where := fmt.Sprintf("concurrent UpdatesSince(%v, %d) -> %d reverts, %d applies, err=%v", from, maxN, len(rus), len(aus), err)
		if err != nil {
			return fmt.Errorf("%s", where)
		}
		if len(rus)+len(aus) > maxN {
			return fmt.Errorf("%s: more updates than requested", where)
		}
		cur := from
		for i, ru := range rus {
			if ru.Block.ID() != cur.ID || ru.State.Index.ID != ru.Block.ParentID || ru.State.Index.Height+1 != cur.Height {
				return fmt.Errorf("%s: revert %d is not the subscriber's current block / does not lead to its parent", where, i)
			}
			s.revert(ru)
			cur = ru.State.Index
		}
		for i, au := range aus {
			if cur != (types.ChainIndex{}) && (au.Block.ParentID != cur.ID || au.State.Index.Height != cur.Height+1) {
				return fmt.Errorf("%s: apply %d does not continue from %v", where, i, cur)
			}
			s.apply(au)
			cur = au.State.Index
		}
		if tn := tr.ByID[cur.ID]; cur != (types.ChainIndex{}) {
			if tn == nil || tn.Ledger == nil {
				return fmt.Errorf("%s: reached %v, not a valid block", where, cur)
			}
			if cerr := s.compare(tn.Ledger); cerr != nil {
				return fmt.Errorf("%s: %w", where, cerr)
			}
		}
		if len(rus) > 0 && len(aus) > 0 {
			cs.Class("concurrent-poll-with-reverts-and-applies")
			cs.NonTrivial()
		}
		return nil
	}

	nsubs := max(2, c.Subs+1)
	subs := make([]*shadow, nsubs)
	errs := make([]error, nsubs)
	stop := make(chan struct{})
	var wg sync.WaitGroup
	for i := range subs {
		subs[i] = newShadow()
		wg.Add(1)
		go func(i int) {
			defer wg.Done()
			chunk := c04Chunks[i%len(c04Chunks)]
			for n := 0; ; n++ {
				select {
				case <-stop:
					return
				default:
				}
				if err := pollOnce(subs[i], chunk); err != nil {
					errs[i] = err
					return
				}
			}
		}(i)
	}
	tipChanges := 0
	known := func(id types.BlockID) bool { _, ok := node.CM.State(id); return ok }
	for _, st := range c.Steps {
		if st.Submit == nil {
			continue
		}
		_, blocks, _, _ := tr.ResolveBatch(*st.Submit, known)
		if len(blocks) == 0 {
			continue
		}
		before := node.CM.Tip()
		node.Submit(blocks)
		if node.CM.Tip() != before {
			tipChanges++
		}
	}
	close(stop)
	wg.Wait()
	for _, e := range errs {
		if e != nil {
			return e
		}
	}
	cbMu.Lock()
	got := append([]types.ChainIndex(nil), callbacks...)
	cbMu.Unlock()
	if len(got) != tipChanges {
		return fmt.Errorf("%d reorg notifications for %d tip changes", len(got), tipChanges)
	}
	if tipChanges > 0 && got[len(got)-1] != node.CM.Tip() {
		return fmt.Errorf("last reorg notification names %v, the tip is %v", got[len(got)-1], node.CM.Tip())
	}
	for i, s := range subs {
		for n := 0; s.index != node.CM.Tip(); n++ {
			if n > 400 {
				return fmt.Errorf("subscriber %d does not reach the tip", i)
			}
			if err := pollOnce(s, 3); err != nil {
				return err
			}
		}
	}
	if err := node.Audit(); err != nil {
		return err
	}
	cs.Classf("tip-changes>=%d", min(tipChanges/3*3, 9))
	return nil
}

var c04ConcProp = kit.Prop[C04Case]{
	ID:          "C04",
	Rule:        "concurrent family: the C04 history with 2..4 pollers in their own goroutines (chunk sizes 1, 1, 2, 3) against one submitting goroutine; schedule-independent assertions only (contiguous path of at most max updates, shadow ledger equal to the reference ledger of the index reached, notification count = tip changes, last notification = final tip, every subscriber reaches the tip afterwards); run under the race detector in the thorough tier.",
	Assumptions: []string{"interleavings are whatever the Go runtime produces; rapid controls the history, not the schedule"},
	Gen:         genC04,
	Run:         runC04Concurrent,
}

func TestC04Concurrent(t *testing.T) { c04ConcProp.Main(t) }

// TestC04LongConcurrent: subscribers that are far behind (more than a hundred
// blocks) poll with a large chunk size while another goroutine keeps
// reorganising the chain below their position (two branches from a low fork
// point that overtake each other). Whatever the interleaving, every single
// answer must be one contiguous path from the subscriber's index (reverts
// first, each to its parent, then applies), of at most max updates, ending in
// a ledger equal to the reference ledger of the index reached.
func TestC04LongConcurrent(t *testing.T) {
	d := kit.NewDirect(t, "C04", "long concurrent family: trunk of 20 blocks, two branches of 120+ blocks from it that overtake each other 8 times (every submission reorganises 120+ blocks), 3 goroutines that poll again and again from the same index at height 10 with chunk sizes 1000 / 150 / MaxInt while the submissions run; each answer must be one contiguous path from the subscriber's index with a final ledger equal to the reference; schedule-independent assertions only")
	defer d.Done()
	type lcase struct {
		Round int `json:"round"`
	}
	rounds := 2
	if kit.Thorough() {
		rounds = 6
	}
	for round := 0; round < rounds; round++ {
		lc := lcase{round}
		cs := &kit.CaseStats{}
		cs.NonTrivial()
		err := func() error {
			tc := kit.TreeCase{Net: kit.NetSpec{Maturity: 1, Allow: 1, ReqOff: 0, CutOff: 600}}
			for i := 0; i < 20; i++ {
				bs := kit.BlockSpec{Dt: 1, Miner: i % 4}
				if i%3 == 1 {
					bs.Txs = []kit.Intent{{Kind: "pay", V2: true, Who: i % 4, To: (i + 1) % 4, Pick: i, Amt: 2}}
				}
				tc.Blocks = append(tc.Blocks, bs)
			}
			trunk := len(tc.Blocks)
			// branch A: 120 + 2*8 blocks, branch B: 121 + 2*8 blocks, interleaved in the list
			lenA, lenB := 120+16, 121+16
			for i := 0; i < lenA; i++ {
				bs := kit.BlockSpec{Dt: 1, Miner: 1}
				if i%11 == 3 {
					bs.Txs = []kit.Intent{{Kind: "pay", V2: true, Who: 1, To: 2, Pick: i, Amt: 3}}
				}
				tc.Blocks = append(tc.Blocks, bs)
			}
			for i := 0; i < lenB; i++ {
				bs := kit.BlockSpec{Dt: 1, Miner: 2}
				if i == 0 {
					bs.Back = lenA
				}
				if i%13 == 5 {
					bs.Txs = []kit.Intent{{Kind: "pay", V2: true, Who: 2, To: 3, Pick: i, Amt: 1}}
				}
				tc.Blocks = append(tc.Blocks, bs)
			}
			tr := kit.BuildTree(tc)
			for i, n := range tr.Nodes {
				if n.Ledger == nil {
					return fmt.Errorf("INFRA: block %d invalid: %v", i, n.Err)
				}
			}
			node, err := kit.NewNode(tr, "mem")
			if err != nil {
				return fmt.Errorf("INFRA: %v", err)
			}
			defer node.Close()
			for _, n := range tr.Nodes[:trunk] {
				if err := node.Submit([]types.Block{n.Block}); err != nil {
					return fmt.Errorf("INFRA: %v", err)
				}
			}
			start := tr.Nodes[9] // height 10, on the trunk: an index every subscriber "previously reached"
			chunks := []int{1000, 150, int(^uint(0) >> 1)}
			stop := make(chan struct{})
			errs := make([]error, len(chunks))
			polls := make([]int, len(chunks))
			var wg sync.WaitGroup
			for w := range chunks {
				wg.Add(1)
				go func(w int) {
					defer wg.Done()
					defer func() {
						if r := recover(); r != nil {
							errs[w] = fmt.Errorf("poller %d panicked: %v", w, r)
						}
					}()
					for {
						select {
						case <-stop:
							return
						default:
						}
						s := shadowFromLedger(start.Ledger)
						rus, aus, err := node.CM.UpdatesSince(s.index, chunks[w])
						polls[w]++
						where := fmt.Sprintf("concurrent UpdatesSince(%v, %d) while the chain is being reorganised -> %d reverts, %d applies, err=%v", s.index, chunks[w], len(rus), len(aus), err)
						if err != nil {
							errs[w] = fmt.Errorf("%s", where)
							return
						}
						if len(rus)+len(aus) > chunks[w] {
							errs[w] = fmt.Errorf("%s: more updates than requested", where)
							return
						}
						cur := s.index
						for i, ru := range rus {
							if ru.Block.ID() != cur.ID || ru.State.Index.ID != ru.Block.ParentID || ru.State.Index.Height+1 != cur.Height {
								errs[w] = fmt.Errorf("%s: revert %d undoes %v (height %d), the subscriber is at %v: the answer is not one contiguous path", where, i, ru.Block.ID(), ru.State.Index.Height+1, cur)
								return
							}
							s.revert(ru)
							cur = ru.State.Index
						}
						for i, au := range aus {
							if au.Block.ParentID != cur.ID || au.State.Index.Height != cur.Height+1 {
								errs[w] = fmt.Errorf("%s: apply %d (%v) does not continue from %v: the answer is not one contiguous path", where, i, au.State.Index, cur)
								return
							}
							s.apply(au)
							cur = au.State.Index
						}
						tn := tr.ByID[cur.ID]
						if tn == nil || tn.Ledger == nil {
							errs[w] = fmt.Errorf("%s: reached %v, not a block of the tree", where, cur)
							return
						}
						if cerr := s.compare(tn.Ledger); cerr != nil {
							errs[w] = fmt.Errorf("%s: %w", where, cerr)
							return
						}
					}
				}(w)
			}
			// the submitter: A(120), B(121), A+2, B+2, ... each overtaking the other
			a0, b0 := trunk, trunk+lenA
			na, nb := 0, 0
			for k := 0; k <= 8; k++ {
				ta := 120 + 2*k
				var batch []types.Block
				for ; na < ta; na++ {
					batch = append(batch, tr.Nodes[a0+na].Block)
				}
				if err := node.Submit(batch); err != nil {
					close(stop)
					wg.Wait()
					return fmt.Errorf("INFRA: branch A refused: %v", err)
				}
				tb := 121 + 2*k
				batch = nil
				for ; nb < tb; nb++ {
					batch = append(batch, tr.Nodes[b0+nb].Block)
				}
				if err := node.Submit(batch); err != nil {
					close(stop)
					wg.Wait()
					return fmt.Errorf("INFRA: branch B refused: %v", err)
				}
			}
			close(stop)
			wg.Wait()
			total := 0
			for w, e := range errs {
				if e != nil {
					return e
				}
				total += polls[w]
			}
			cs.Add("long_polls", int64(total))
			if total < 6 {
				cs.Inconclusive("too-few-polls-overlapped")
			}
			if node.CM.Tip() != tr.Nodes[len(tr.Nodes)-1].Index() {
				return fmt.Errorf("INFRA: the submitter did not end on branch B's tip")
			}
			return node.Audit()
		}()
		d.Case(lc, cs, err)
	}
}
