package pchain

import (
	"fmt"
	"sync"
	"testing"

	"go.sia.tech/core/types"

	"verif/kit"
)

// runC04Concurrent: the same history with pollers in their own goroutines
// against one submitting goroutine. Only schedule-independent facts are
// asserted: every poll result is a contiguous path of at most max updates, the
// shadow ledger folded from it equals the reference ledger of the index
// reached, the number of reorg notifications equals the number of tip changes
// (single submitter) and the last one names the final tip, and afterwards
// every subscriber reaches the tip by polling.
func runC04Concurrent(c C04Case, cs *kit.CaseStats) error {
	tr := kit.BuildTree(c.Tree)
	node, err := kit.NewNode(tr, "mem")
	if err != nil {
		return fmt.Errorf("INFRA: %v", err)
	}
	defer node.Close()
	var cbMu sync.Mutex
	var callbacks []types.ChainIndex
	cancel := node.CM.OnReorg(func(ci types.ChainIndex) {
		cbMu.Lock()
		callbacks = append(callbacks, ci)
		cbMu.Unlock()
	})
	defer cancel()

	pollOnce := func(s *shadow, maxN int) error {
		from := s.index
		rus, aus, err := node.CM.UpdatesSince(from, maxN)
		where := fmt.Sprintf("concurrent UpdatesSince(%v, %d) -> %d reverts, %d applies, err=%v", from, maxN, len(rus), len(aus), err)
		if err != nil {
			return fmt.Errorf("%s", where)
		}
		if len(rus)+len(aus) > maxN {
			return fmt.Errorf("%s: more updates than requested", where)
		}
		cur := from
		for i, ru := range rus {
			if ru.Block.ID() != cur.ID || ru.State.Index.ID != ru.Block.ParentID || ru.State.Index.Height+1 != cur.Height {
				return fmt.Errorf("%s: revert %d is not the subscriber's current block / does not lead to its parent", where, i)
			}
			s.revert(ru)
			cur = ru.State.Index
		}
		for i, au := range aus {
			if cur != (types.ChainIndex{}) && (au.Block.ParentID != cur.ID || au.State.Index.Height != cur.Height+1) {
				return fmt.Errorf("%s: apply %d does not continue from %v", where, i, cur)
			}
			s.apply(au)
			cur = au.State.Index
		}
		if tn := tr.ByID[cur.ID]; cur != (types.ChainIndex{}) {
			if tn == nil || tn.Ledger == nil {
				return fmt.Errorf("%s: reached %v, not a valid block", where, cur)
			}
			if cerr := s.compare(tn.Ledger); cerr != nil {
				return fmt.Errorf("%s: %w", where, cerr)
			}
		}
		if len(rus) > 0 && len(aus) > 0 {
			cs.Class("concurrent-poll-with-reverts-and-applies")
			cs.NonTrivial()
		}
		return nil
	}

	nsubs := max(2, c.Subs+1)
	subs := make([]*shadow, nsubs)
	errs := make([]error, nsubs)
	stop := make(chan struct{})
	var wg sync.WaitGroup
	for i := range subs {
		subs[i] = newShadow()
		wg.Add(1)
		go func(i int) {
			defer wg.Done()
			chunk := c04Chunks[i%len(c04Chunks)]
			for n := 0; ; n++ {
				select {
				case <-stop:
					return
				default:
				}
				if err := pollOnce(subs[i], chunk); err != nil {
					errs[i] = err
					return
				}
			}
		}(i)
	}
	tipChanges := 0
	known := func(id types.BlockID) bool { _, ok := node.CM.State(id); return ok }
	for _, st := range c.Steps {
		if st.Submit == nil {
			continue
		}
		_, blocks, _, _ := tr.ResolveBatch(*st.Submit, known)
		if len(blocks) == 0 {
			continue
		}
		before := node.CM.Tip()
		node.Submit(blocks)
		if node.CM.Tip() != before {
			tipChanges++
		}
	}
	close(stop)
	wg.Wait()
	for _, e := range errs {
		if e != nil {
			return e
		}
	}
	cbMu.Lock()
	got := append([]types.ChainIndex(nil), callbacks...)
	cbMu.Unlock()
	if len(got) != tipChanges {
		return fmt.Errorf("%d reorg notifications for %d tip changes", len(got), tipChanges)
	}
	if tipChanges > 0 && got[len(got)-1] != node.CM.Tip() {
		return fmt.Errorf("last reorg notification names %v, the tip is %v", got[len(got)-1], node.CM.Tip())
	}
	for i, s := range subs {
		for n := 0; s.index != node.CM.Tip(); n++ {
			if n > 400 {
				return fmt.Errorf("subscriber %d does not reach the tip", i)
			}
			if err := pollOnce(s, 3); err != nil {
				return err
			}
		}
	}
	if err := node.Audit(); err != nil {
		return err
	}
	cs.Classf("tip-changes>=%d", min(tipChanges/3*3, 9))
	return nil
}

var c04ConcProp = kit.Prop[C04Case]{
	ID:          "C04",
	Rule:        "concurrent family: the C04 history with 2..4 pollers in their own goroutines (chunk sizes 1, 1, 2, 3) against one submitting goroutine; schedule-independent assertions only (contiguous path of at most max updates, shadow ledger equal to the reference ledger of the index reached, notification count = tip changes, last notification = final tip, every subscriber reaches the tip afterwards); run under the race detector in the thorough tier.",
	Assumptions: []string{"interleavings are whatever the Go runtime produces; rapid controls the history, not the schedule"},
	Gen:         genC04,
	Run:         runC04Concurrent,
}

func TestC04Concurrent(t *testing.T) { c04ConcProp.Main(t) }
