package pchain

import (
	"fmt"
	"sort"
	"sync"
	"testing"
	"time"

	"go.sia.tech/core/consensus"
	"go.sia.tech/core/types"

	"verif/kit"
)

// TestC04Notify: "reorg notifications are delivered whenever, and only when,
// the tip has changed" where a notification round overlaps the next tip
// change: a listener that submits the next block from inside its callback
// (listeners run with the manager's lock released, so this is allowed), and a
// slow listener while another goroutine delivers the next block. Asserted
// after everything has returned (schedule independent): every listener was
// called exactly once for every tip the chain went through, and a subscriber
// that polls once per notification has reached the manager's tip.
func TestC04Notify(t *testing.T) {
	d := kit.NewDirect(t, "C04", "overlapping notification rounds: a linear v2 chain of 6..12 blocks delivered (a) by a listener that submits the next block from inside its reorg callback, (b) by two goroutines where the second delivers the next block while the first delivery's slow listener (5 ms) is still running; through AddBlocks and through AddValidatedV2Blocks; 1..3 listeners. After all calls have returned every listener must have been called exactly once per tip change with that tip, and a subscriber polling once per notification must be at the manager's tip; schedule-independent assertions only")
	defer d.Done()
	type ncase struct {
		Family    string `json:"family"`
		Validated bool   `json:"validated"`
		Listeners int    `json:"listeners"`
		Len       int    `json:"len"`
	}
	idx := 0
	for _, fam := range []string{"reentrant", "overlap"} {
		for _, validated := range []bool{false, true} {
			for _, nl := range []int{1, 3} {
				idx++
				if !kit.MyShard(idx) {
					continue
				}
				nc := ncase{fam, validated, nl, 6 + 2*idx%7}
				cs := &kit.CaseStats{}
				cs.NonTrivial()
				cs.Class("notify:" + fam)
				err := func() error {
					tc := kit.TreeCase{Net: kit.NetSpec{Maturity: 1, Allow: 1, ReqOff: 0, CutOff: 600}}
					for i := 0; i < nc.Len; i++ {
						bs := kit.BlockSpec{Dt: 1, Miner: i % 4}
						if i%3 == 1 {
							bs.Txs = []kit.Intent{{Kind: "pay", V2: true, Who: i % 4, To: (i + 1) % 4, Pick: i, Amt: 2}}
						}
						tc.Blocks = append(tc.Blocks, bs)
					}
					tr := kit.BuildTree(tc)
					for i, tn := range tr.Nodes {
						if tn.Ledger == nil {
							return fmt.Errorf("INFRA: block %d invalid: %v", i, tn.Err)
						}
					}
					node, err := kit.NewNode(tr, "mem")
					if err != nil {
						return fmt.Errorf("INFRA: %v", err)
					}
					defer node.Close()
					submit := func(i int) error {
						tn := tr.Nodes[i]
						if nc.Validated {
							return node.CM.AddValidatedV2Blocks([]types.Block{tn.Block}, []consensus.State{tn.Ledger.State})
						}
						return node.CM.AddBlocks([]types.Block{tn.Block})
					}
					var mu sync.Mutex
					got := make([][]types.ChainIndex, nc.Listeners)
					var firstErr error
					fail := func(e error) {
						mu.Lock()
						if firstErr == nil {
							firstErr = e
						}
						mu.Unlock()
					}
					// subscriber: polls once per notification of listener 0
					subIndex := types.ChainIndex{}
					pollOnce := func() {
						mu.Lock()
						from := subIndex
						mu.Unlock()
						_, aus, err := node.CM.UpdatesSince(from, 1000)
						if err != nil {
							fail(fmt.Errorf("UpdatesSince(%v) failed: %v", from, err))
							return
						}
						if len(aus) > 0 {
							mu.Lock()
							if last := aus[len(aus)-1].State.Index; last.Height > subIndex.Height {
								subIndex = last
							}
							mu.Unlock()
						}
					}
					for l := 0; l < nc.Listeners; l++ {
						l := l
						node.CM.OnReorg(func(ci types.ChainIndex) {
							mu.Lock()
							got[l] = append(got[l], ci)
							mu.Unlock()
							if l != 0 {
								return
							}
							pollOnce()
							switch nc.Family {
							case "reentrant":
								// deliver the next block from inside the callback
								if next := int(ci.Height); next < len(tr.Nodes) && tr.Nodes[next].Height == ci.Height+1 {
									if err := submit(next); err != nil {
										fail(fmt.Errorf("delivering block %d from inside the reorg callback for %v failed: %v", next, ci, err))
									}
								}
							case "overlap":
								time.Sleep(5 * time.Millisecond)
							}
						})
					}
					overlapDeliver := func() {
						// two deliverers; each waits until the tip is the parent of its
						// block, so the second delivery starts while the first one's
						// (slow) notification round is still running
						var wg sync.WaitGroup
						for g := 0; g < 2; g++ {
							g := g
							wg.Add(1)
							go func() {
								defer wg.Done()
								for i := g; i < len(tr.Nodes); i += 2 {
									deadline := time.Now().Add(20 * time.Second)
									for node.CM.Tip().ID != tr.Nodes[i].Block.ParentID {
										if time.Now().After(deadline) {
											fail(fmt.Errorf("INFRA: block %d's parent never became the tip", i))
											return
										}
										time.Sleep(200 * time.Microsecond)
									}
									if err := submit(i); err != nil {
										fail(fmt.Errorf("delivery of valid block %d extending the tip failed: %v", i, err))
										return
									}
								}
							}()
						}
						wg.Wait()
					}
					// the deliveries run under a watchdog: a listener that calls back
					// into the manager must not block it (listeners run with the
					// manager's lock released); 30 s against deliveries that take
					// milliseconds
					delivered := make(chan error, 1)
					go func() {
						delivered <- func() error {
							switch nc.Family {
							case "reentrant":
								if err := submit(0); err != nil {
									return fmt.Errorf("first delivery failed: %v", err)
								}
							case "overlap":
								overlapDeliver()
							}
							return nil
						}()
					}()
					select {
					case derr := <-delivered:
						if derr != nil {
							return derr
						}
					case <-time.After(30 * time.Second):
						mu.Lock()
						n := len(got[0])
						mu.Unlock()
						return fmt.Errorf("the deliveries did not return within 30 s (%s, listener 0 was called %d time(s) so far and polls UpdatesSince from inside its callback): a notification round blocks the manager", map[bool]string{false: "AddBlocks", true: "AddValidatedV2Blocks"}[nc.Validated], n)
					}
					if firstErr != nil {
						return firstErr
					}
					last := tr.Nodes[len(tr.Nodes)-1]
					if node.CM.Tip() != last.Index() {
						return fmt.Errorf("after all deliveries returned the tip is %v, not %v", node.CM.Tip(), last.Index())
					}
					var want []string
					for _, tn := range tr.Nodes {
						want = append(want, tn.Index().String())
					}
					sort.Strings(want)
					mu.Lock()
					defer mu.Unlock()
					for l := range got {
						var have []string
						for _, ci := range got[l] {
							have = append(have, ci.String())
						}
						sort.Strings(have)
						if fmt.Sprint(have) != fmt.Sprint(want) {
							return fmt.Errorf("the tip changed %d times (one block at a time, %s), but listener %d of %d was called %d time(s): %v", len(want), map[bool]string{false: "AddBlocks", true: "AddValidatedV2Blocks"}[nc.Validated], l, nc.Listeners, len(have), got[l])
						}
					}
					if subIndex != last.Index() {
						return fmt.Errorf("a subscriber that polls once per notification is at %v after everything returned, the manager's tip is %v", subIndex, last.Index())
					}
					return nil
				}()
				if err != nil {
					err = fmt.Errorf("%+v: %w", nc, err)
				}
				d.Case(nc, cs, err)
			}
		}
	}
}
