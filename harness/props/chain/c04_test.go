package pchain

import (
	"bytes"
	"fmt"
	"math"
	"testing"

	"go.sia.tech/core/types"
	"go.sia.tech/coreutils/chain"
	"pgregory.net/rapid"

	"verif/kit"
	"verif/refl"
)

// PollStep makes one subscriber ask for the updates since its index.
type PollStep struct {
	Sub int `json:"sub"`
	Max int `json:"max"`
}

// C04Step is a block submission or a subscriber poll.
type C04Step struct {
	Submit *kit.SubmitStep `json:"submit,omitempty"`
	Poll   *PollStep       `json:"poll,omitempty"`
	// Join: a new subscriber starts at the current tip (an index it "previously
	// reached" with the ledger of that tip).
	Join bool `json:"join,omitempty"`
	// Listen: k>0 registers another OnReorg listener; k<0 cancels the live
	// listener selected by -k (subscribers come and go while the node runs).
	Listen int `json:"listen,omitempty"`
	// Pool: a payment valid at the tip is handed to the transaction pool (v1 or
	// v2 entry point); the tip does not change, so nobody may be notified.
	Pool *PoolSub `json:"pool,omitempty"`
}

// PoolSub is one pool submission of a C04 case.
type PoolSub struct {
	Who  int  `json:"who"`
	Pick int  `json:"pick"`
	V2   bool `json:"v2,omitempty"`
}

// C04Case: history + subscribers.
type C04Case struct {
	Tree  kit.TreeCase `json:"tree"`
	Subs  int          `json:"subs"` // subscribers starting from nothing
	Steps []C04Step    `json:"steps"`
}

var c04Chunks = []int{1, 1, 2, 3, 7, 1000, 1 << 40, math.MaxInt} // "in chunks of any size": the upper end of the domain too

func genC04(t *rapid.T) C04Case {
	cfg := kit.DefaultTreeGen()
	cfg.CorruptPct = 5
	cfg.ExtraCorruptions = []string{"timestamp-future"}
	cfg.BadIntentPct = 2
	cfg.ForkPct = 28
	cfg.Kinds = []string{"pay", "sf", "form", "fcop", "fcop", "attest", "arb"}
	if kit.Chance(t, 15, "linear-shared") {
		// linear family: no forks (so the history-dependent expiration order,
		// known finding F-C02-1, cannot arise), shared v1 windows, some expiry
		// blocks applied in an overridden order (WithExpiringContractOrder)
		cfg.ForkPct, cfg.CorruptPct, cfg.BadIntentPct = 0, 0, 0
		cfg.SharedPct, cfg.ReorderPct = 100, 60
		cfg.Kinds = []string{"form", "form", "form", "pay", "fcop"}
		cfg.MaxAllow = 500
	}
	tc := kit.GenTree(t, cfg)
	if tc.SharedWindows {
		tc.Net.Allow, tc.Net.ReqOff = 500, 10 // v1 regime throughout
	}
	sub := kit.GenSchedule(t, len(tc.Blocks), 24)
	if tc.SharedWindows {
		for i := range sub {
			sub[i].Malleated, sub[i].Validated = false, false
		}
	}
	c := C04Case{Tree: tc, Subs: rapid.IntRange(1, 3).Draw(t, "subs")}
	for i := range sub {
		st := sub[i]
		c.Steps = append(c.Steps, C04Step{Submit: &st})
		for kit.Chance(t, 40, "pollroll") {
			c.Steps = append(c.Steps, C04Step{Poll: &PollStep{Sub: rapid.IntRange(0, 5).Draw(t, "sub"), Max: c04Chunks[kit.Uniform(t, len(c04Chunks), "chunk")]}})
		}
		if kit.Chance(t, 8, "joinroll") {
			c.Steps = append(c.Steps, C04Step{Join: true})
		}
		if kit.Chance(t, 15, "poolroll") {
			c.Steps = append(c.Steps, C04Step{Pool: &PoolSub{Who: kit.Uniform(t, kit.NumActors, "who"), Pick: rapid.IntRange(0, 5).Draw(t, "pick"), V2: kit.Chance(t, 50, "v2")}})
		}
		if kit.Chance(t, 18, "listenroll") {
			if kit.Chance(t, 60, "listen") {
				c.Steps = append(c.Steps, C04Step{Listen: 1})
			} else {
				c.Steps = append(c.Steps, C04Step{Listen: -rapid.IntRange(1, 12).Draw(t, "which")})
			}
		}
	}
	return c
}

// shadow is a subscriber's ledger, folded only from the updates it was given.
type shadow struct {
	index types.ChainIndex
	sce   map[types.SiacoinOutputID]types.SiacoinElement
	sfe   map[types.SiafundOutputID]types.SiafundElement
	fce   map[types.FileContractID]types.FileContractElement
	v2fce map[types.FileContractID]types.V2FileContractElement
	// classification
	staleDepth int
}

func newShadow() *shadow {
	return &shadow{sce: map[types.SiacoinOutputID]types.SiacoinElement{}, sfe: map[types.SiafundOutputID]types.SiafundElement{},
		fce: map[types.FileContractID]types.FileContractElement{}, v2fce: map[types.FileContractID]types.V2FileContractElement{}}
}

func shadowFromLedger(l *refl.Ledger) *shadow {
	s := newShadow()
	s.index = l.Index()
	for id, e := range l.SCE {
		s.sce[id] = e.Copy()
	}
	for id, e := range l.SFE {
		s.sfe[id] = e.Copy()
	}
	for id, e := range l.FCE {
		s.fce[id] = e.Copy()
	}
	for id, e := range l.V2FCE {
		s.v2fce[id] = e.Copy()
	}
	return s
}

type proofUpdater interface {
	UpdateElementProof(e *types.StateElement)
}

func (s *shadow) updateProofs(u proofUpdater) {
	for id, e := range s.sce {
		e = e.Copy()
		u.UpdateElementProof(&e.StateElement)
		s.sce[id] = e
	}
	for id, e := range s.sfe {
		e = e.Copy()
		u.UpdateElementProof(&e.StateElement)
		s.sfe[id] = e
	}
	for id, e := range s.fce {
		e = e.Copy()
		u.UpdateElementProof(&e.StateElement)
		s.fce[id] = e
	}
	for id, e := range s.v2fce {
		e = e.Copy()
		u.UpdateElementProof(&e.StateElement)
		s.v2fce[id] = e
	}
}

// the canonical subscriber fold (as the repository's own wallet does it):
// apply = move existing proofs, then add created / drop spent elements
func (s *shadow) apply(au chain.ApplyUpdate) {
	s.updateProofs(au)
	for _, d := range au.SiacoinElementDiffs() {
		switch {
		case d.Created && d.Spent:
		case d.Spent:
			delete(s.sce, d.SiacoinElement.ID)
		default:
			s.sce[d.SiacoinElement.ID] = d.SiacoinElement.Copy()
		}
	}
	for _, d := range au.SiafundElementDiffs() {
		switch {
		case d.Created && d.Spent:
		case d.Spent:
			delete(s.sfe, d.SiafundElement.ID)
		default:
			s.sfe[d.SiafundElement.ID] = d.SiafundElement.Copy()
		}
	}
	for _, d := range au.FileContractElementDiffs() {
		fce := d.FileContractElement
		switch {
		case d.Created && d.Resolved:
		case d.Resolved:
			delete(s.fce, fce.ID)
		case d.Revision != nil:
			e := fce.Copy()
			e.FileContract = *d.Revision
			s.fce[fce.ID] = e
		default:
			s.fce[fce.ID] = fce.Copy()
		}
	}
	for _, d := range au.V2FileContractElementDiffs() {
		fce := d.V2FileContractElement
		switch {
		case d.Created && d.Resolution != nil:
		case d.Resolution != nil:
			delete(s.v2fce, fce.ID)
		case d.Revision != nil:
			e := fce.Copy()
			e.V2FileContract = *d.Revision
			s.v2fce[fce.ID] = e
		default:
			s.v2fce[fce.ID] = fce.Copy()
		}
	}
	s.index = au.State.Index
}

// revert = drop created / restore spent elements, then move all proofs back
func (s *shadow) revert(ru chain.RevertUpdate) {
	for _, d := range ru.SiacoinElementDiffs() {
		switch {
		case d.Created && d.Spent:
		case d.Spent:
			s.sce[d.SiacoinElement.ID] = d.SiacoinElement.Copy()
		default:
			delete(s.sce, d.SiacoinElement.ID)
		}
	}
	for _, d := range ru.SiafundElementDiffs() {
		switch {
		case d.Created && d.Spent:
		case d.Spent:
			s.sfe[d.SiafundElement.ID] = d.SiafundElement.Copy()
		default:
			delete(s.sfe, d.SiafundElement.ID)
		}
	}
	for _, d := range ru.FileContractElementDiffs() {
		fce := d.FileContractElement
		switch {
		case d.Created && d.Resolved:
		case d.Created:
			delete(s.fce, fce.ID)
		default: // resolved or revised: the element as it was before the block
			s.fce[fce.ID] = fce.Copy()
		}
	}
	for _, d := range ru.V2FileContractElementDiffs() {
		fce := d.V2FileContractElement
		switch {
		case d.Created && d.Resolution != nil:
		case d.Created:
			delete(s.v2fce, fce.ID)
		default:
			s.v2fce[fce.ID] = fce.Copy()
		}
	}
	s.updateProofs(ru)
	s.index = ru.State.Index
}

func (s *shadow) compare(l *refl.Ledger) error {
	if len(s.sce) != len(l.SCE) || len(s.sfe) != len(l.SFE) || len(s.v2fce) != len(l.V2FCE) {
		return fmt.Errorf("subscriber ledger at %v holds %d siacoin / %d siafund / %d v2 contract elements, the chain's ledger %d / %d / %d", s.index, len(s.sce), len(s.sfe), len(s.v2fce), len(l.SCE), len(l.SFE), len(l.V2FCE))
	}
	for id, e := range l.SCE {
		if g, ok := s.sce[id]; !ok || !bytes.Equal(refl.Enc(g), refl.Enc(e)) {
			return fmt.Errorf("subscriber ledger at %v: siacoin element %v missing or different (value, maturity, leaf index or Merkle proof)", s.index, id)
		}
	}
	for id, e := range l.SFE {
		if g, ok := s.sfe[id]; !ok || !bytes.Equal(refl.Enc(g), refl.Enc(e)) {
			return fmt.Errorf("subscriber ledger at %v: siafund element %v missing or different", s.index, id)
		}
	}
	for id, e := range l.V2FCE {
		if g, ok := s.v2fce[id]; !ok || !bytes.Equal(refl.Enc(g), refl.Enc(e)) {
			return fmt.Errorf("subscriber ledger at %v: v2 contract element %v missing or different", s.index, id)
		}
	}
	if l.Height() <= l.State.Network.HardforkV2.RequireHeight {
		if len(s.fce) != len(l.FCE) {
			return fmt.Errorf("subscriber ledger at %v holds %d v1 contracts, the chain's ledger %d", s.index, len(s.fce), len(l.FCE))
		}
		for id, e := range l.FCE {
			if g, ok := s.fce[id]; !ok || !bytes.Equal(refl.Enc(g), refl.Enc(e)) {
				return fmt.Errorf("subscriber ledger at %v: v1 contract %v missing or different", s.index, id)
			}
		}
	}
	return nil
}

func runC04(c C04Case, cs *kit.CaseStats) error {
	tr := kit.BuildTree(c.Tree)
	node, err := kit.NewNode(tr, "mem")
	if err != nil {
		return fmt.Errorf("INFRA: %v", err)
	}
	defer node.Close()
	if len(tr.OrderOverride) > 0 {
		cs.Class("expiration-order-overridden-by-option")
	}
	var subs []*shadow
	for i := 0; i < max(1, c.Subs); i++ {
		subs = append(subs, newShadow())
	}
	var callbacks []types.ChainIndex
	cancel := node.CM.OnReorg(func(ci types.ChainIndex) { callbacks = append(callbacks, ci) })
	defer cancel()
	// further listeners that are registered and cancelled during the case
	type listener struct {
		serial    int
		cancel    func()
		got       []types.ChainIndex
		cancelled bool
	}
	var listeners []*listener
	defer func() {
		for _, l := range listeners {
			if !l.cancelled {
				l.cancel()
			}
		}
	}()

	poll := func(si int, s *shadow, maxN int) error {
		from := s.index
		rus, aus, err := node.CM.UpdatesSince(from, maxN)
		where := fmt.Sprintf("step %d: UpdatesSince(%v, %d) with tip %v -> %d reverts, %d applies, err=%v", si, from, maxN, node.CM.Tip(), len(rus), len(aus), err)
		if err != nil {
			return fmt.Errorf("%s: a subscriber at an index it was given earlier must be able to follow", where)
		}
		if len(rus)+len(aus) > maxN {
			return fmt.Errorf("%s: more updates than requested", where)
		}
		cur := from
		for i, ru := range rus {
			if ru.Block.ID() != cur.ID {
				return fmt.Errorf("%s: revert %d undoes block %v, the subscriber is at %v", where, i, ru.Block.ID(), cur)
			}
			if bi, ok := node.CM.BestIndex(cur.Height); ok && bi == cur {
				return fmt.Errorf("%s: revert %d undoes %v, which is on the best chain", where, i, cur)
			}
			if ru.State.Index.ID != ru.Block.ParentID || ru.State.Index.Height+1 != cur.Height {
				return fmt.Errorf("%s: revert %d leaves the subscriber at %v, not at the parent of %v", where, i, ru.State.Index, cur)
			}
			s.revert(ru)
			cur = ru.State.Index
			if tn := tr.ByID[cur.ID]; tn != nil && tn.Ledger != nil {
				if cerr := s.compare(tn.Ledger); cerr != nil {
					return fmt.Errorf("%s: after revert %d: %w", where, i, cerr)
				}
			}
		}
		for i, au := range aus {
			if cur != (types.ChainIndex{}) && (au.Block.ParentID != cur.ID || au.State.Index.Height != cur.Height+1) {
				return fmt.Errorf("%s: apply %d (%v, parent %v) does not continue from %v", where, i, au.State.Index, au.Block.ParentID, cur)
			}
			if cur == (types.ChainIndex{}) && au.State.Index.Height != 0 {
				return fmt.Errorf("%s: a subscriber starting from nothing got %v first, not genesis", where, au.State.Index)
			}
			if au.Block.ID() != au.State.Index.ID {
				return fmt.Errorf("%s: apply %d: block id and state index disagree", where, i)
			}
			if bi, ok := node.CM.BestIndex(au.State.Index.Height); !ok || bi != au.State.Index {
				return fmt.Errorf("%s: apply %d (%v) is not on the best chain (%v there)", where, i, au.State.Index, bi)
			}
			s.apply(au)
			cur = au.State.Index
			tn := tr.ByID[cur.ID]
			if tn == nil || tn.Ledger == nil {
				return fmt.Errorf("%s: apply %d is not a valid block of the tree", where, i)
			}
			if !bytes.Equal(refl.StateBytes(au.State), refl.StateBytes(tn.Ledger.State)) {
				return fmt.Errorf("%s: apply %d carries a state different from the reference", where, i)
			}
			if cerr := s.compare(tn.Ledger); cerr != nil {
				return fmt.Errorf("%s: after apply %d: %w", where, i, cerr)
			}
		}
		if len(rus) > 0 && len(aus) > 0 {
			cs.Class("poll-with-reverts-and-applies")
			cs.NonTrivial()
		}
		if len(rus) >= 2 {
			cs.Class("poll-from-stale-branch-depth>=2")
			cs.NonTrivial()
		}
		if len(rus)+len(aus) == maxN && cur != node.CM.Tip() {
			cs.Class("chunk-boundary-inside-path")
			if len(rus) > 0 || node.CM.Tip().Height > cur.Height && func() bool { bi, _ := node.CM.BestIndex(cur.Height); return bi != cur }() {
				cs.Class("chunk-boundary-inside-reorg")
				cs.NonTrivial()
			}
		}
		if len(rus)+len(aus) < maxN && cur != node.CM.Tip() {
			return fmt.Errorf("%s: fewer updates than requested although the subscriber (now %v) has not reached the tip", where, cur)
		}
		return nil
	}

	for si, st := range c.Steps {
		switch {
		case st.Submit != nil:
			_, blocks, states, validated := tr.ResolveBatch(*st.Submit, node.ValidatedParent)
			if len(blocks) == 0 {
				continue
			}
			before := node.CM.Tip()
			ncb := len(callbacks)
			lgot := make([]int, len(listeners))
			for i, l := range listeners {
				lgot[i] = len(l.got)
			}
			var serr error
			if validated {
				for _, b := range blocks {
					node.Submitted[b.ID()] = true
				}
				serr = node.CM.AddValidatedV2Blocks(blocks, states)
				cs.Class("call=AddValidatedV2Blocks")
				if serr != nil {
					cs.Class("call=AddValidatedV2Blocks:failed")
				}
			} else {
				serr = node.Submit(blocks)
			}
			after := node.CM.Tip()
			got := callbacks[ncb:]
			where := fmt.Sprintf("step %d (batch %v validated=%v err=%v): tip %v -> %v, reorg notifications %v", si, st.Submit.Batch, validated, serr, before, after, got)
			if after != before {
				if len(got) != 1 || got[0] != after {
					return fmt.Errorf("%s: exactly one notification with the new tip was expected", where)
				}
				cs.Class("notified")
			} else if len(got) != 0 {
				return fmt.Errorf("%s: notified although the tip did not change", where)
			}
			for i, l := range listeners {
				lg := l.got[lgot[i]:]
				switch {
				case l.cancelled && len(lg) != 0:
					return fmt.Errorf("%s: listener #%d was notified (%v) after it had been cancelled", where, l.serial, lg)
				case !l.cancelled && after != before && (len(lg) != 1 || lg[0] != after):
					return fmt.Errorf("%s: listener #%d (registered while the node was running, still subscribed; %d listeners were registered so far) got %v instead of exactly one notification with the new tip", where, l.serial, len(listeners), lg)
				case !l.cancelled && after == before && len(lg) != 0:
					return fmt.Errorf("%s: listener #%d notified although the tip did not change", where, l.serial)
				}
			}
			if aerr := node.Audit(); aerr != nil {
				return fmt.Errorf("%s: %w", where, aerr)
			}
		case st.Poll != nil:
			s := subs[st.Poll.Sub%len(subs)]
			if err := poll(si, s, max(1, st.Poll.Max)); err != nil {
				return err
			}
		case st.Listen > 0:
			if len(listeners) < 12 {
				l := &listener{serial: len(listeners) + 1}
				l.cancel = node.CM.OnReorg(func(ci types.ChainIndex) { l.got = append(l.got, ci) })
				listeners = append(listeners, l)
				cs.Class("listener-registered-mid-run")
			}
		case st.Listen < 0:
			var live []*listener
			for _, l := range listeners {
				if !l.cancelled {
					live = append(live, l)
				}
			}
			if len(live) > 0 {
				l := live[(-st.Listen)%len(live)]
				l.cancel()
				l.cancelled = true
				cs.Class("listener-cancelled-mid-run")
				if l != live[len(live)-1] {
					cs.Class("listener-cancelled-that-is-not-the-newest")
				}
			}
		case st.Pool != nil:
			tn := node.TipNode()
			if tn == nil || tn.Ledger == nil {
				continue
			}
			child := tn.Height + 1
			v2 := st.Pool.V2
			if child < tr.Network.HardforkV2.AllowHeight {
				v2 = false
			} else if child >= tr.Network.HardforkV2.RequireHeight {
				v2 = true
			}
			bb := kit.NewBlockBuilder(tn.Ledger)
			bb.Absorb(node.CM.PoolTransactions(), node.CM.V2PoolTransactions())
			bb.DropEphemeral()
			w := st.Pool.Who % kit.NumActors
			if !bb.Add(kit.Intent{Kind: "pay", V2: v2, Who: w, To: (w + 1) % kit.NumActors, Pick: st.Pool.Pick, Amt: 3, Fee: true}) {
				continue
			}
			before := node.CM.Tip()
			ncb := len(callbacks)
			lgot := make([]int, len(listeners))
			for i, l := range listeners {
				lgot[i] = len(l.got)
			}
			var perr error
			var entry string
			if v2 && len(bb.V2Txns) > 0 {
				entry = "AddV2PoolTransactions"
				_, perr = node.CM.AddV2PoolTransactions(tn.Index(), bb.V2Txns)
			} else if !v2 && len(bb.Txns) > 0 {
				entry = "AddPoolTransactions"
				_, perr = node.CM.AddPoolTransactions(bb.Txns)
			} else {
				continue
			}
			where := fmt.Sprintf("step %d (%s of a payment valid at the tip, err=%v)", si, entry, perr)
			if after := node.CM.Tip(); after != before {
				return fmt.Errorf("%s: the tip moved %v -> %v", where, before, after)
			}
			if got := callbacks[ncb:]; len(got) != 0 {
				return fmt.Errorf("%s: reorg notification(s) %v although the tip did not change", where, got)
			}
			for i, l := range listeners {
				if lg := l.got[lgot[i]:]; len(lg) != 0 {
					return fmt.Errorf("%s: listener #%d got reorg notification(s) %v although the tip did not change", where, l.serial, lg)
				}
			}
			if perr == nil {
				cs.Class("pool-submission-accepted=" + entry)
			}
		case st.Join:
			if tn := node.TipNode(); tn != nil && tn.Ledger != nil && len(subs) < 6 {
				subs = append(subs, shadowFromLedger(tn.Ledger))
				cs.Class("subscriber-joined-at-tip")
			}
		}
	}
	// without further submissions, repeated polling reaches the tip
	for i, s := range subs {
		chunk := c04Chunks[(i+len(c.Steps))%len(c04Chunks)]
		for n := 0; s.index != node.CM.Tip(); n++ {
			if n > 400 {
				return fmt.Errorf("subscriber %d does not reach the tip %v by polling in chunks of %d (stuck at %v)", i, node.CM.Tip(), chunk, s.index)
			}
			if err := poll(len(c.Steps), s, chunk); err != nil {
				return err
			}
		}
		if tn := node.TipNode(); tn != nil && tn.Ledger != nil {
			if err := s.compare(tn.Ledger); err != nil {
				return fmt.Errorf("final: %w", err)
			}
		}
	}
	return nil
}

var c04Prop = kit.Prop[C04Case]{
	ID:   "C04",
	Rule: "histories as in C02 interleaved with polls of 1..6 subscribers (starting from nothing, or joining at a tip they 'previously reached') with chunk sizes 1, 2, 3, 7, 1000, 2^40 and MaxInt, some left behind on stale branches for many steps. Every poll result is checked as a path (reverts start at the subscriber's index, undo only off-chain blocks, each leads to the parent; applies continue from there along the best chain; never more than requested, never fewer unless the tip is reached) and as content: a shadow ledger folded only from the returned diffs and proof updates (the canonical apply/revert fold) must equal the reference ledger of the index reached after every single update - element sets, values, leaf indices and Merkle proof bytes. OnReorg must fire exactly once with the new tip per call that moved the tip and never otherwise - for the listener registered at the start and for up to 12 more that are registered and cancelled (any of them, not only the newest) while the history runs; a cancelled listener is never called again; pool submissions (v1 and v2 entry points, payments valid at the tip) interleaved with the history never notify anybody. At the end every subscriber must reach the tip by polling. Non-trivial = a poll result with reverts and applies, a chunk boundary inside a reorg path, or a subscriber >= 2 blocks deep on a stale branch.",
	Assumptions: []string{
		"subscriber start indices are the zero index or indices that subscriber reached earlier (never-applied fork blocks carry no supplement and are legitimately refused)",
		"sequential mode: one goroutine submits and polls; callbacks are therefore ordered",
		"go.sia.tech/core defines the diffs' meaning (apply: move proofs then add/drop; revert: drop/restore then move proofs)",
	},
	Gen: genC04,
	Run: runC04,
}

func TestC04(t *testing.T) { c04Prop.Main(t) }
