package pchain

import (
	"fmt"
	"testing"
	"time"

	"go.sia.tech/core/types"
	"go.sia.tech/coreutils"

	"verif/kit"
)

// heavyTxn builds a v2 payment of actor `who` padded with arbitrary data so
// that its weight is exactly `weight` (0 if impossible).
func heavyTxn(n *kit.TNode, who, pick int, weight uint64, fee types.Currency) (types.V2Transaction, bool) {
	bb := kit.NewBlockBuilder(n.Ledger)
	if !bb.Add(kit.Intent{Kind: "v2pay", Who: who, To: who, Pick: pick, Amt: 11}) {
		return types.V2Transaction{}, false
	}
	txn := bb.V2Txns[0].DeepCopy()
	if !fee.IsZero() {
		txn.SiacoinOutputs[0].Value = txn.SiacoinOutputs[0].Value.Sub(fee)
		txn.MinerFee = fee
	}
	cs := n.Ledger.State
	base := cs.V2TransactionWeight(txn)
	if weight < base {
		return types.V2Transaction{}, false
	}
	txn.ArbitraryData = make([]byte, weight-base)
	for cs.V2TransactionWeight(txn) > weight && len(txn.ArbitraryData) > 0 {
		txn.ArbitraryData = txn.ArbitraryData[:len(txn.ArbitraryData)-1]
	}
	kit.SignV2(cs, &txn)
	return txn, cs.V2TransactionWeight(txn) == weight
}

// TestC05Heavy: pools whose weight lands within a few bytes of the block
// weight limit, and pools beyond the ten-block pool limit; the block the
// repository's miner assembles must be valid and accepted.
func TestC05Heavy(t *testing.T) {
	d := kit.NewDirect(t, "C05", "heavy family: for k = 0..40 a pool holding one v2 transaction of weight MaxBlockWeight-k (and, in a second sweep, two transactions summing to MaxBlockWeight-k); plus pools holding more than one block weight in which the transaction that no longer fits has a small dependant behind it, a pool at nine of ten block weights and a rejected set whose valid members would have filled it (v1 and v2; nothing may be evicted), resubmission of an evicted transaction (must not be 'known'), a pool of six v1 and six v2 transactions of 0.9 block weights each with interleaved fees (whatever is evicted must pay no more per weight than anything kept; the pool is then mined down block by block inside the hardfork window, every block valid and accepted), and pools of 11 and 13 near-block-size transactions with distinct fees (beyond the ten-block pool limit). After each: the reported pool validates on the tip, the block MineBlock assembles is valid under core and accepted by AddBlocks, and so is the next one built from the remainder.")
	defer d.Done()
	tc := kit.TreeCase{Net: kit.NetSpec{Maturity: 1, Allow: 1, ReqOff: 0, CutOff: 50}}
	for i := 0; i < 3; i++ {
		tc.Blocks = append(tc.Blocks, kit.BlockSpec{Dt: 1, Miner: i})
	}
	var runSets func(hc hcase, build func(tip *kit.TNode) [][]types.V2Transaction)
	run := func(hc hcase, build func(tip *kit.TNode) []types.V2Transaction) {
		runSets(hc, func(tip *kit.TNode) (sets [][]types.V2Transaction) {
			for _, txn := range build(tip) {
				sets = append(sets, []types.V2Transaction{txn})
			}
			return
		})
	}
	runSets = func(hc hcase, build func(tip *kit.TNode) [][]types.V2Transaction) {
		tr := kit.BuildTree(tc)
		node, err := kit.NewNode(tr, "mem")
		if err != nil {
			t.Fatal(err)
		}
		defer node.Close()
		for _, n := range tr.Nodes {
			if err := node.Submit([]types.Block{n.Block}); err != nil {
				t.Fatalf("INFRA: %v", err)
			}
		}
		tip := tr.Nodes[len(tr.Nodes)-1]
		cs := &kit.CaseStats{}
		cs.NonTrivial()
		cs.Class("heavy:" + hc.Family)
		var cerr error
		submitted := build(tip)
		for _, set := range submitted {
			if _, err := node.CM.AddV2PoolTransactions(tip.Index(), set); err != nil {
				cerr = fmt.Errorf("%+v: a valid set of %d transaction(s) (first of weight %d) was rejected: %v", hc, len(set), tip.Ledger.State.V2TransactionWeight(set[0]), err)
				break
			}
		}
		if cerr == nil {
			if _, _, perr := checkPoolValid(node, tip.Ledger, 777); perr != nil {
				cerr = fmt.Errorf("%+v: %w", hc, perr)
			}
		}
		if cerr == nil {
			// a transaction the full pool evicted is not pooled: handing it in
			// again must not be answered with "known"
			for _, set := range submitted {
				if len(set) != 1 {
					continue
				}
				if _, ok := node.CM.V2PoolTransaction(set[0].ID()); ok {
					continue
				}
				known, err := node.CM.AddV2PoolTransactions(tip.Index(), []types.V2Transaction{set[0].DeepCopy()})
				if err == nil && known {
					cerr = fmt.Errorf("%+v: transaction %v was evicted from the full pool (lookup reports it absent); resubmitting it returns known=true and does not add it", hc, set[0].ID())
				}
				cs.Class("heavy:evicted-transaction-resubmitted")
				break
			}
		}
		if cerr == nil {
			b, found := coreutils.MineBlock(node.CM, kit.Actors[1].Addr, 10*time.Second)
			if !found {
				cs.Inconclusive("miner-timeout")
			} else {
				mn := tr.AddDynamic(b)
				var w uint64
				for _, x := range b.V2Transactions() {
					w += tip.Ledger.State.V2TransactionWeight(x)
				}
				if mn.Ledger == nil {
					cerr = fmt.Errorf("%+v: the block MineBlock assembled (%d v2 transactions, weight %d, limit %d) is invalid: %v", hc, len(b.V2Transactions()), w, tip.Ledger.State.MaxBlockWeight(), mn.Err)
				} else if err := node.CM.AddBlocks([]types.Block{b}); err != nil {
					cerr = fmt.Errorf("%+v: the block MineBlock assembled was rejected: %v", hc, err)
				} else if len(node.CM.V2PoolTransactions()) > 0 {
					// what did not fit is mined next
					cs.Class("heavy:second-block-from-the-remainder")
					if _, _, perr := checkPoolValid(node, mn.Ledger, 779); perr != nil {
						cerr = fmt.Errorf("%+v: after the first mined block: %w", hc, perr)
					} else if b2, found := coreutils.MineBlock(node.CM, kit.Actors[2].Addr, 10*time.Second); found {
						if mn2 := tr.AddDynamic(b2); mn2.Ledger == nil {
							cerr = fmt.Errorf("%+v: the second block MineBlock assembled (%d v2 transactions) is invalid: %v", hc, len(b2.V2Transactions()), mn2.Err)
						} else if err := node.CM.AddBlocks([]types.Block{b2}); err != nil {
							cerr = fmt.Errorf("%+v: the second block MineBlock assembled was rejected: %v", hc, err)
						}
					}
				}
			}
		}
		d.Case(hc, cs, cerr)
	}
	maxW := uint64(0)
	{
		tr := kit.BuildTree(tc)
		maxW = tr.Nodes[len(tr.Nodes)-1].Ledger.State.MaxBlockWeight()
	}
	for k := 0; k <= 40; k++ {
		k := k
		run(hcase{"one-transaction-near-limit", k}, func(tip *kit.TNode) []types.V2Transaction {
			txn, ok := heavyTxn(tip, 0, 0, maxW-uint64(k), types.Siacoins(1))
			if !ok {
				t.Fatalf("INFRA: cannot size transaction")
			}
			return []types.V2Transaction{txn}
		})
	}
	for k := 0; k <= 40; k += 4 {
		k := k
		run(hcase{"two-transactions-near-limit", k}, func(tip *kit.TNode) []types.V2Transaction {
			a, ok1 := heavyTxn(tip, 0, 0, maxW/2, types.Siacoins(1))
			b, ok2 := heavyTxn(tip, 1, 0, maxW-maxW/2-uint64(k), types.Siacoins(2))
			if !ok1 || !ok2 {
				t.Fatalf("INFRA: cannot size transactions")
			}
			return []types.V2Transaction{a, b}
		})
	}
	// re-broadcasting sets that contain an already pooled heavy parent must not
	// make the pool believe it is full: everything accepted stays retrievable
	for _, nchild := range []int{8, 16, 30} {
		nchild := nchild
		run2 := func() {
			hc := hcase{"rebroadcast-known-heavy-parent", nchild}
			tr := kit.BuildTree(tc)
			node, err := kit.NewNode(tr, "mem")
			if err != nil {
				t.Fatal(err)
			}
			defer node.Close()
			for _, n := range tr.Nodes {
				if err := node.Submit([]types.Block{n.Block}); err != nil {
					t.Fatalf("INFRA: %v", err)
				}
			}
			tip := tr.Nodes[len(tr.Nodes)-1]
			cs := &kit.CaseStats{}
			cs.NonTrivial()
			cs.Class("heavy:" + hc.Family)
			parent, ok := heavyTxn(tip, 0, 0, maxW*3/4, types.Siacoins(1))
			if !ok {
				t.Fatalf("INFRA: cannot size parent")
			}
			var cerr error
			var ids []types.TransactionID
			var children []types.V2Transaction
			ids = append(ids, parent.ID())
			for i := 0; i < nchild && cerr == nil; i++ {
				bb := kit.NewBlockBuilder(tip.Ledger)
				bb.Absorb(nil, append([]types.V2Transaction{parent}, children...))
				bb.DropEphemeral()
				if !bb.Add(kit.Intent{Kind: "v2pay", Who: 1 + i%3, To: 0, Pick: i / 3, Amt: i % 9, Fee: true, A: i}) {
					break
				}
				child := bb.V2Txns[0]
				children = append(children, child)
				if _, err := node.CM.AddV2PoolTransactions(tip.Index(), []types.V2Transaction{parent, child}); err != nil {
					cerr = fmt.Errorf("%+v: set [known heavy parent, fresh child %d] rejected: %v", hc, i, err)
					break
				}
				ids = append(ids, child.ID())
				for _, id := range ids {
					if _, ok := node.CM.V2PoolTransaction(id); !ok {
						cerr = fmt.Errorf("%+v: after %d re-broadcasts of a set with an already pooled parent, accepted transaction %v is gone although the pool holds about %d%% of its capacity", hc, i+1, id, 100*int(maxW*3/4+uint64(len(ids))*1000)/int(10*maxW))
						break
					}
				}
			}
			if cerr == nil {
				if _, _, perr := checkPoolValid(node, tip.Ledger, 778); perr != nil {
					cerr = fmt.Errorf("%+v: %w", hc, perr)
				}
			}
			d.Case(hc, cs, cerr)
		}
		run2()
	}
	// more than one block weight in the pool, and the transaction that does not
	// fit any more has a small dependant behind it
	for _, sh := range [][2]uint64{{75, 30}, {60, 45}, {90, 15}, {50, 51}} {
		sh := sh
		runSets(hcase{"overfull-pool-with-dependant", int(sh[0]*100 + sh[1])}, func(tip *kit.TNode) [][]types.V2Transaction {
			a, ok1 := heavyTxn(tip, 0, 0, maxW*sh[0]/100, types.Siacoins(3))
			p, ok2 := heavyTxn(tip, 1, 0, maxW*sh[1]/100, types.Siacoins(2))
			if !ok1 || !ok2 {
				t.Fatalf("INFRA: cannot size transactions")
			}
			bb := kit.NewBlockBuilder(tip.Ledger)
			bb.Absorb(nil, []types.V2Transaction{a, p})
			if !bb.Add(kit.Intent{Kind: "v2pay", Who: 1, To: 2, Eph: true, Pick: 0, Amt: 5, Fee: true, A: 1}) {
				t.Fatalf("INFRA: cannot build the dependant")
			}
			c := bb.V2Txns[len(bb.V2Txns)-1]
			spendsP := false
			for _, in := range c.SiacoinInputs {
				if in.Parent.StateElement.LeafIndex == types.UnassignedLeafIndex {
					spendsP = true
				}
			}
			if !spendsP {
				t.Fatalf("INFRA: the dependant does not spend an unconfirmed output")
			}
			return [][]types.V2Transaction{{a}, {p, c}}
		})
	}
	rejectedHeavySetFamily(t, d, maxW)
	// a pool holding both kinds beyond the ten-block limit: what is evicted must
	// be what pays least per weight, whichever kind it is and wherever it sits
	for _, variant := range []int{0, 1} {
		variant := variant
		func() {
			hc := hcase{"mixed-pool-beyond-ten-blocks", variant}
			mtc := kit.TreeCase{Net: kit.NetSpec{Maturity: 1, Allow: 1, ReqOff: 300, CutOff: 50}}
			for i := 0; i < 3; i++ {
				mtc.Blocks = append(mtc.Blocks, kit.BlockSpec{Dt: 1, Miner: i})
			}
			tr := kit.BuildTree(mtc)
			node, err := kit.NewNode(tr, "mem")
			if err != nil {
				t.Fatal(err)
			}
			defer node.Close()
			for _, n := range tr.Nodes {
				if err := node.Submit([]types.Block{n.Block}); err != nil {
					t.Fatalf("INFRA: %v", err)
				}
			}
			tip := tr.Nodes[len(tr.Nodes)-1]
			st := tip.Ledger.State
			cs := &kit.CaseStats{}
			cs.NonTrivial()
			cs.Class("heavy:" + hc.Family)
			type entry struct {
				id     types.TransactionID
				fee    types.Currency
				weight uint64
				v2     bool
			}
			var all []entry
			var cerr error
			// v1 transactions of actors 0 and 1, v2 transactions of actors 2 and 3;
			// fees interleaved so that cheap and dear ones share positions across kinds
			for i := 0; i < 6 && cerr == nil; i++ {
				who := i % 2
				var own []types.SiacoinElement
				for _, e := range tip.Ledger.SCE {
					if kit.ActorOf(e.SiacoinOutput.Address) == who && e.MaturityHeight <= tip.Height {
						own = append(own, e.Copy())
					}
				}
				for a := range own {
					for b := a + 1; b < len(own); b++ {
						if own[b].ID.String() < own[a].ID.String() {
							own[a], own[b] = own[b], own[a]
						}
					}
				}
				if len(own) < 3 {
					t.Fatalf("INFRA: actor %d has %d outputs", who, len(own))
				}
				fee := types.Siacoins(uint32(100 + 10*i))
				if variant == 1 {
					fee = types.Siacoins(uint32(1 + i))
				}
				txn := kit.V1SpendPadded(st, own[i/2], who, who, fee, int(maxW*9/10), i)
				if _, err := node.CM.AddPoolTransactions([]types.Transaction{txn}); err != nil {
					cerr = fmt.Errorf("%+v: a valid v1 transaction of weight %d was rejected: %v", hc, st.TransactionWeight(txn), err)
					break
				}
				all = append(all, entry{txn.ID(), fee, st.TransactionWeight(txn), false})
			}
			for i := 0; i < 6 && cerr == nil; i++ {
				fee := types.Siacoins(uint32(1 + i))
				if variant == 1 {
					fee = types.Siacoins(uint32(100 + 10*i))
				}
				txn, ok := heavyTxn(tip, 2+i%2, i/2, maxW*9/10, fee)
				if !ok {
					t.Fatalf("INFRA: cannot size v2 transaction %d", i)
				}
				if _, err := node.CM.AddV2PoolTransactions(tip.Index(), []types.V2Transaction{txn}); err != nil {
					cerr = fmt.Errorf("%+v: a valid v2 transaction of weight %d was rejected: %v", hc, st.V2TransactionWeight(txn), err)
					break
				}
				all = append(all, entry{txn.ID(), fee, st.V2TransactionWeight(txn), true})
			}
			if cerr == nil {
				v1, v2, perr := checkPoolValid(node, tip.Ledger, 780)
				if perr != nil {
					cerr = fmt.Errorf("%+v: %w", hc, perr)
				} else {
					in := map[types.TransactionID]bool{}
					for _, x := range v1 {
						in[x.ID()] = true
					}
					for _, x := range v2 {
						in[x.ID()] = true
					}
					var kept, gone []entry
					for _, e := range all {
						if in[e.id] {
							kept = append(kept, e)
						} else {
							gone = append(gone, e)
						}
					}
					cs.Classf("heavy:mixed-evicted=%d", len(gone))
					if len(gone) == 0 {
						cerr = fmt.Errorf("%+v: twelve transactions of 0.9 block weights each are all still pooled: the ten-block limit was not applied", hc)
					}
					for _, g := range gone {
						for _, k := range kept {
							if g.fee.Div64(g.weight).Cmp(k.fee.Div64(k.weight)) > 0 && cerr == nil {
								cerr = fmt.Errorf("%+v: the pool is full and evicted %v (v2=%v, fee %v for weight %d) although it keeps %v (v2=%v, fee %v for weight %d), which pays less per weight", hc, g.id, g.v2, g.fee, g.weight, k.id, k.v2, k.fee, k.weight)
							}
						}
					}
				}
			}
			// mine the mixed pool down: inside the hardfork window every block the
			// miner assembles (v1 and v2 transactions together, the v1 part cut to
			// what fits) must be valid and accepted, until the pool is empty
			cur := tip
			for round := 0; cerr == nil && round < 14; round++ {
				p1, p2 := node.CM.PoolTransactions(), node.CM.V2PoolTransactions()
				if len(p1)+len(p2) == 0 {
					cs.Classf("heavy:mixed-pool-mined-down-in=%d", round)
					break
				}
				b, found := coreutils.MineBlock(node.CM, kit.Actors[1].Addr, 10*time.Second)
				if !found {
					cs.Inconclusive("miner-timeout")
					break
				}
				mn := tr.AddDynamic(b)
				if mn.Ledger == nil {
					cerr = fmt.Errorf("%+v: block %d MineBlock assembled from the mixed pool (%d of %d v1 and %d of %d v2 transactions taken) is invalid: %v", hc, round+1, len(b.Transactions), len(p1), len(b.V2Transactions()), len(p2), mn.Err)
				} else if err := node.CM.AddBlocks([]types.Block{b}); err != nil {
					cerr = fmt.Errorf("%+v: block %d MineBlock assembled from the mixed pool was rejected: %v", hc, round+1, err)
				} else {
					if len(b.Transactions) >= 1 && len(b.Transactions) < len(p1) {
						cs.Class("heavy:v1-pool-cut-to-fit-inside-hardfork-window")
					}
					cur = mn
					if _, _, perr := checkPoolValid(node, cur.Ledger, uint64(782+round)); perr != nil {
						cerr = fmt.Errorf("%+v: after mined block %d: %w", hc, round+1, perr)
					}
				}
			}
			d.Case(hc, cs, cerr)
		}()
	}
	for _, n := range []int{11, 13} {
		n := n
		run(hcase{"pool-beyond-ten-blocks", n}, func(tip *kit.TNode) []types.V2Transaction {
			var out []types.V2Transaction
			for i := 0; i < n; i++ {
				txn, ok := heavyTxn(tip, i%4, i/4, maxW-1000, types.Siacoins(uint32(1+(i*7)%11)))
				if !ok {
					t.Fatalf("INFRA: cannot size transaction %d", i)
				}
				out = append(out, txn)
			}
			return out
		})
	}
}

// hcase names one enumerated heavy-pool case.
type hcase struct {
	Family string `json:"family"`
	K      int    `json:"k"`
}

// rejectedHeavySetFamily: shared by C05 (the pool stays what it was) and C14
// (a rejected set adds nothing and leaves the pool as it was).
func rejectedHeavySetFamily(t *testing.T, d *kit.Direct, maxW uint64) {
	// a heavy pool (nine of ten block weights) and a rejected set whose valid
	// members would have filled it: a rejection changes nothing, so nothing may
	// be evicted afterwards
	for _, v2 := range []bool{false, true} {
		v2 := v2
		func() {
			hc := hcase{"rejected-heavy-set-must-not-evict", map[bool]int{false: 1, true: 2}[v2]}
			rtc := kit.TreeCase{Net: kit.NetSpec{Maturity: 1, Allow: 1, ReqOff: 300, CutOff: 50}}
			for i := 0; i < 3; i++ {
				rtc.Blocks = append(rtc.Blocks, kit.BlockSpec{Dt: 1, Miner: i})
			}
			tr := kit.BuildTree(rtc)
			node, err := kit.NewNode(tr, "mem")
			if err != nil {
				t.Fatal(err)
			}
			defer node.Close()
			for _, n := range tr.Nodes {
				if err := node.Submit([]types.Block{n.Block}); err != nil {
					t.Fatalf("INFRA: %v", err)
				}
			}
			tip := tr.Nodes[len(tr.Nodes)-1]
			st := tip.Ledger.State
			cs := &kit.CaseStats{}
			cs.NonTrivial()
			cs.Class("heavy:" + hc.Family)
			var own [4][]types.SiacoinElement
			for _, e := range tip.Ledger.SCE {
				if a := kit.ActorOf(e.SiacoinOutput.Address); a >= 0 && e.MaturityHeight <= tip.Height {
					own[a] = append(own[a], e.Copy())
				}
			}
			for a := range own {
				for x := range own[a] {
					for y := x + 1; y < len(own[a]); y++ {
						if own[a][y].ID.String() < own[a][x].ID.String() {
							own[a][x], own[a][y] = own[a][y], own[a][x]
						}
					}
				}
			}
			next := [4]int{}
			take := func(a int) (types.SiacoinElement, bool) {
				if next[a] >= len(own[a]) {
					return types.SiacoinElement{}, false
				}
				next[a]++
				return own[a][next[a]-1], true
			}
			var ids []types.TransactionID
			var first types.SiacoinElement
			var cerr error
			half := int(maxW / 2)
			mk := func(e types.SiacoinElement, who int, fee types.Currency, pad int, tag int) (types.Transaction, types.V2Transaction) {
				if v2 {
					txn := types.V2Transaction{SiacoinInputs: []types.V2SiacoinInput{{Parent: e.Copy()}}, SiacoinOutputs: []types.SiacoinOutput{{Address: kit.Actors[who].Addr, Value: e.SiacoinOutput.Value.Sub(fee)}}, MinerFee: fee, ArbitraryData: make([]byte, pad)}
					copy(txn.ArbitraryData, []byte(fmt.Sprintf("pad-%d", tag)))
					kit.SignV2(st, &txn)
					return types.Transaction{}, txn
				}
				return kit.V1SpendPadded(st, e, who, who, fee, pad, tag), types.V2Transaction{}
			}
			submit := func(t1 []types.Transaction, t2 []types.V2Transaction) error {
				if v2 {
					_, err := node.CM.AddV2PoolTransactions(tip.Index(), t2)
					return err
				}
				_, err := node.CM.AddPoolTransactions(t1)
				return err
			}
			for i := 0; i < 18 && cerr == nil; i++ {
				a := i % 4
				e, ok := take(a)
				if !ok {
					t.Fatalf("INFRA: actor %d has no output left", a)
				}
				if i == 0 {
					first = e
				}
				t1, t2 := mk(e, a, types.Siacoins(uint32(2+i)), half-600, i)
				if err := submit([]types.Transaction{t1}, []types.V2Transaction{t2}); err != nil {
					cerr = fmt.Errorf("%+v: a valid transaction of half a block weight was rejected with the pool at %d of 20 half-blocks: %v", hc, i, err)
				}
				if v2 {
					ids = append(ids, t2.ID())
				} else {
					ids = append(ids, t1.ID())
				}
			}
			if cerr == nil {
				// the set: two fresh heavy members, then a double spend of the
				// first pooled transaction's input
				var s1 []types.Transaction
				var s2 []types.V2Transaction
				for k := 0; k < 2; k++ {
					e, ok := take(k + 1)
					if !ok {
						t.Fatalf("INFRA: no output left for the set")
					}
					t1, t2 := mk(e, k+1, types.Siacoins(50), int(maxW*6/10), 100+k)
					s1, s2 = append(s1, t1), append(s2, t2)
				}
				t1, t2 := mk(first, 0, types.Siacoins(60), 100, 200)
				s1, s2 = append(s1, t1), append(s2, t2)
				if err := submit(s1, s2); err == nil {
					cerr = fmt.Errorf("%+v: a set whose last member double-spends a pooled input was accepted", hc)
				}
			}
			if cerr == nil {
				lookup := func(id types.TransactionID) bool {
					if v2 {
						_, ok := node.CM.V2PoolTransaction(id)
						return ok
					}
					_, ok := node.CM.PoolTransaction(id)
					return ok
				}
				_ = node.CM.PoolTransactions()
				_ = node.CM.V2PoolTransactions()
				gone := 0
				for _, id := range ids {
					if !lookup(id) {
						gone++
					}
				}
				if gone > 0 {
					cerr = fmt.Errorf("%+v: after a set was REJECTED (its last member conflicts with the pool), %d of the 18 transactions accepted before are no longer in the pool, which holds nine of its ten block weights", hc, gone)
				}
			}
			if cerr == nil {
				if _, _, perr := checkPoolValid(node, tip.Ledger, 781); perr != nil {
					cerr = fmt.Errorf("%+v: %w", hc, perr)
				}
			}
			d.Case(hc, cs, cerr)
		}()
	}
}

// TestC14HeavyReject: "submitting a set either adds all of its not-yet-known
// transactions or none of them" next to the pool's weight limit: a refused set
// whose earlier members were heavy must leave every pooled transaction where
// it was (look-ups by id included).
func TestC14HeavyReject(t *testing.T) {
	d := kit.NewDirect(t, "C14", "heavy rejection: a pool of 18 transactions of half a block weight each (nine of the ten block weights the pool keeps), then a set of two fresh members of 0.6 block weights and a last member that double-spends a pooled input (v1 and v2 entry points): the set must be refused as a whole and afterwards every one of the 18 must still be found by id and listed - a rejected set adds nothing, so there is nothing to make room for.")
	defer d.Done()
	tc := kit.TreeCase{Net: kit.NetSpec{Maturity: 1, Allow: 1, ReqOff: 0, CutOff: 50}}
	for i := 0; i < 3; i++ {
		tc.Blocks = append(tc.Blocks, kit.BlockSpec{Dt: 1, Miner: i})
	}
	tr := kit.BuildTree(tc)
	rejectedHeavySetFamily(t, d, tr.Nodes[len(tr.Nodes)-1].Ledger.State.MaxBlockWeight())
}
