package pchain

import (
	"fmt"
	"testing"
	"time"

	"go.sia.tech/core/types"
	"go.sia.tech/coreutils"

	"verif/kit"
	"verif/refl"
)

// TestC05PooledProofs: a v2 storage proof (or a revision / renewal of a v2
// contract) sits in the pool while blocks that do not confirm it arrive. Those
// transactions carry element proofs besides their siacoin inputs - the
// contract element and, for a storage proof, the chain-index element of the
// proof height - and every one of them has to follow the accumulator. Nothing
// confirms the transaction, spends or reverts an input of it or fills the
// pool, so it must stay retrievable for as long as core still accepts an
// equivalent transaction on the tip, and what the pool reports must stay
// valid and minable.
func TestC05PooledProofs(t *testing.T) {
	d := kit.NewDirect(t, "C05", "pooled contract operations: on a v2 chain a contract is formed, the chain reaches its proof height, then a storage proof / a revision / a renewal of it is accepted into the pool and 1..3 further blocks arrive that do not confirm it but add 0, 1 or 3 payments (so the Merkle paths of the contract element and of the proof's chain-index element change); with and without a pool query between the blocks. After every block the reported pool must validate on the tip; the pooled operation must still be there while core accepts that very transaction (element proofs taken from the reference ledger of the tip); at the end the block MineBlock assembles is valid and accepted.")
	defer d.Done()
	type pcase struct {
		Op     string `json:"op"`
		Pays   int    `json:"pays"`
		Blocks int    `json:"blocks"`
		Quiet  bool   `json:"quiet"`
	}
	idx := 0
	for _, op := range []string{"v2proof", "v2rev", "v2renew"} {
		for _, pays := range []int{0, 1, 3} {
			for _, quiet := range []bool{false, true} {
				idx++
				if !kit.MyShard(idx) {
					continue
				}
				pc := pcase{op, pays, 3, quiet}
				cs := &kit.CaseStats{}
				cs.NonTrivial()
				cs.Class("pooled-op:" + op)
				err := func() error {
					tc := kit.TreeCase{Net: kit.NetSpec{Maturity: 1, Allow: 1, ReqOff: 0, CutOff: 300}, Blocks: []kit.BlockSpec{{Dt: 1, Miner: 0}, {Dt: 1, Miner: 1}, {Dt: 1, Miner: 2}, {Dt: 1, Miner: 3}}}
					tr := kit.BuildTree(tc)
					node, err := kit.NewNode(tr, "mem")
					if err != nil {
						return fmt.Errorf("INFRA: %v", err)
					}
					defer node.Close()
					for _, n := range tr.Nodes {
						if err := node.Submit([]types.Block{n.Block}); err != nil {
							return fmt.Errorf("INFRA: %v", err)
						}
					}
					L := tr.Nodes[len(tr.Nodes)-1].Ledger
					salt := uint64(4000 + idx*100)
					mine := func(v2 []types.V2Transaction) error {
						salt++
						b := kit.AssembleBlock(L.State, L.Block.Timestamp.Add(time.Second), kit.Actors[3].Addr, nil, v2, salt)
						nl, err := L.Apply(b, nil)
						if err != nil {
							return fmt.Errorf("INFRA: reference rejects a harness block: %v", err)
						}
						if err := node.CM.AddBlocks([]types.Block{b}); err != nil {
							return fmt.Errorf("a valid block was rejected: %v", err)
						}
						L = nl
						return nil
					}
					// form: proof height = formation height + 1, expiration 3 blocks later
					fb := kit.NewBlockBuilder(L)
					if !fb.Add(kit.Intent{Kind: "v2form", V2: true, Who: 0, To: 1, Pick: 1, Amt: 2, A: 0, B: 2, Fee: true}) {
						return fmt.Errorf("INFRA: cannot form: %v", fb.Skipped)
					}
					fcid := fb.V2Txns[0].V2FileContractID(fb.V2Txns[0].ID(), 0)
					if err := mine(fb.V2Txns); err != nil {
						return err
					}
					// reach the proof height (a revision / renewal is built one block earlier)
					if op == "v2proof" {
						if err := mine(nil); err != nil {
							return err
						}
					}
					build := func(l *refl.Ledger) ([]types.V2Transaction, bool) {
						bb := kit.NewBlockBuilder(l)
						bb.Absorb(nil, nil)
						ok := bb.Add(kit.Intent{Kind: op, V2: true, Who: 0, To: 1, Pick: 0, Amt: 1, A: 0, B: 1, Fee: true})
						if !ok || len(bb.V2Txns) == 0 {
							return nil, false
						}
						// the reference must accept it in a block on l
						b := kit.AssembleBlock(l.State, l.Block.Timestamp.Add(time.Second), kit.Actors[2].Addr, nil, bb.V2Txns, 777)
						if _, err := l.Apply(b, nil); err != nil {
							return nil, false
						}
						return bb.V2Txns, true
					}
					set, ok := build(L)
					if !ok {
						return fmt.Errorf("INFRA: cannot build %s at height %d", op, L.Height())
					}
					opTxn := set[len(set)-1]
					touches := false
					for _, r := range opTxn.FileContractRevisions {
						touches = touches || r.Parent.ID == fcid
					}
					for _, r := range opTxn.FileContractResolutions {
						touches = touches || r.Parent.ID == fcid
					}
					if !touches {
						return fmt.Errorf("INFRA: the built %s does not touch the contract", op)
					}
					if _, err := node.CM.AddV2PoolTransactions(L.Index(), set); err != nil {
						return fmt.Errorf("a valid %s was rejected by the pool: %v", op, err)
					}
					opID := opTxn.ID()
					for k := 1; k <= pc.Blocks; k++ {
						// unrelated payments by actors 2 and 3 (new leaves, moved paths)
						pb := kit.NewBlockBuilder(L)
						pb.Absorb(nil, node.CM.V2PoolTransactions())
						pb.DropEphemeral()
						for j := 0; j < pays; j++ {
							pb.Add(kit.Intent{Kind: "pay", V2: true, Who: 2 + j%2, To: 3 - j%2, Pick: k*7 + j, Amt: 1 + j, Fee: true})
						}
						if err := mine(pb.V2Txns); err != nil {
							return err
						}
						where := fmt.Sprintf("after %d block(s) that do not confirm the pooled %s (each with %d payment(s))", k, op, len(pb.V2Txns))
						if quiet && k < pc.Blocks {
							continue
						}
						if _, _, perr := checkPoolValid(node, L, salt+50); perr != nil {
							return fmt.Errorf("%s: %w", where, perr)
						}
						// the very same transaction, its element proofs taken from the
						// reference ledger of the tip: does core still accept it?
						cand := kit.AssembleBlock(L.State, L.Block.Timestamp.Add(time.Second), kit.Actors[2].Addr, nil, []types.V2Transaction{refreshV2(opTxn, L)}, 778)
						_, aerr := L.Apply(cand, nil)
						still := aerr == nil
						_, pooled := node.CM.V2PoolTransaction(opID)
						if still && !pooled {
							return fmt.Errorf("%s: the pooled transaction %v is gone although nothing confirmed it, spent or reverted an input of it or filled the pool, and core still accepts this very %s (with the tip's element proofs) on the tip %v", where, opID, op, L.Index())
						}
						if still {
							cs.Classf("pooled-op-still-admissible-after-blocks=%d", k)
						}
					}
					b, found := coreutils.MineBlock(node.CM, kit.Actors[1].Addr, 5*time.Second)
					if !found {
						cs.Inconclusive("miner-timeout")
						return nil
					}
					if _, err := L.Apply(b, nil); err != nil {
						return fmt.Errorf("the block MineBlock assembled from the pool is invalid according to core: %v", err)
					}
					if err := node.CM.AddBlocks([]types.Block{b}); err != nil {
						return fmt.Errorf("the block MineBlock assembled from the pool was rejected: %v", err)
					}
					return nil
				}()
				if err != nil {
					err = fmt.Errorf("%+v: %w", pc, err)
				}
				d.Case(pc, cs, err)
			}
		}
	}
}
