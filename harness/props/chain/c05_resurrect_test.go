package pchain

import (
	"fmt"
	"testing"
	"time"

	"go.sia.tech/core/types"
	"go.sia.tech/coreutils"

	"verif/kit"
	"verif/refl"
)

// TestC05Resurrect: the pool remembers the fee-paying transactions of the block
// a reorg reverted last and offers them to itself again at every revalidation.
// Such a leftover (Y) can be invalid right after the reorg (its parent P sat in
// an earlier reverted block) and become valid again later, when P is confirmed
// once more. A transaction X that was accepted in the meantime and spends an
// input of Y must not lose its place to the resurrected leftover: nothing
// confirmed X, spent its inputs on the chain or filled the pool.
//
//	B0 <- B1[P] <- B2[Y]            Y spends P's output and the old output G
//	B0 <- F1 <- F2 <- F3            heavier: reverts B2, B1
//	submit X (spends G)             accepted
//	... <- F3 <- F4[P]              P confirmed again, X not in the block
func TestC05Resurrect(t *testing.T) {
	d := kit.NewDirect(t, "C05", "resurrection family: B0<-B1[P]<-B2[Y] (Y spends P's output and an old output G, pays a fee), a heavier empty fork of 3 blocks from B0, X spending G accepted into the pool, then a block on the fork confirming P again without X; v1 and v2 variants, fork lengths 3 and 4, with and without a pool query between the steps. After every step the reported pool must be valid and minable, and X must still be retrievable at the end.")
	defer d.Done()
	type rcase struct {
		V2    bool `json:"v2"`
		Fork  int  `json:"fork"`
		Quiet bool `json:"quiet"`
	}
	for _, rc := range []rcase{{false, 3, false}, {false, 3, true}, {false, 4, true}, {true, 3, false}, {true, 3, true}, {true, 4, false}} {
		cs := &kit.CaseStats{}
		cs.NonTrivial()
		err := func() error {
			net := kit.NetSpec{Maturity: 1, Allow: 500, ReqOff: 10, CutOff: 10}
			if rc.V2 {
				net = kit.NetSpec{Maturity: 1, Allow: 1, ReqOff: 0, CutOff: 300}
			}
			tc := kit.TreeCase{Net: net, Blocks: []kit.BlockSpec{{Dt: 1, Miner: 0}, {Dt: 1, Miner: 3}}}
			tr := kit.BuildTree(tc)
			node, err := kit.NewNode(tr, "mem")
			if err != nil {
				return fmt.Errorf("INFRA: %v", err)
			}
			defer node.Close()
			for _, n := range tr.Nodes {
				if err := node.Submit([]types.Block{n.Block}); err != nil {
					return fmt.Errorf("INFRA: %v", err)
				}
			}
			L0 := tr.Nodes[len(tr.Nodes)-1].Ledger
			// two old outputs of actor 1
			var own []types.SiacoinElement
			for _, e := range L0.SCE {
				if kit.ActorOf(e.SiacoinOutput.Address) == 1 && e.MaturityHeight <= L0.Height() {
					own = append(own, e.Copy())
				}
			}
			if len(own) < 2 {
				return fmt.Errorf("INFRA: actor 1 has %d outputs", len(own))
			}
			// deterministic choice
			for i := range own {
				for j := i + 1; j < len(own); j++ {
					if own[j].ID.String() < own[i].ID.String() {
						own[i], own[j] = own[j], own[i]
					}
				}
			}
			g1, g := own[0], own[1]
			salt := uint64(9000)
			mineOn := func(l *refl.Ledger, v1 []types.Transaction, v2 []types.V2Transaction, dt int) (types.Block, *refl.Ledger, error) {
				salt++
				b := kit.AssembleBlock(l.State, l.Block.Timestamp.Add(time.Duration(dt)*time.Second), kit.Actors[2].Addr, v1, v2, salt)
				nl, err := l.Apply(b, nil)
				return b, nl, err
			}
			fee := types.Siacoins(1)
			var p1, y1, x1 types.Transaction
			var p2, y2, x2 types.V2Transaction
			var pv1 []types.Transaction
			var pv2 []types.V2Transaction
			if rc.V2 {
				p2 = kit.V2SpendMany(L0.State, []types.SiacoinElement{g1}, 1, fee, 1)
				pv2 = []types.V2Transaction{p2}
			} else {
				p1 = kit.V1SpendMany(L0.State, []types.SiacoinElement{g1}, 1, 1, fee, 1)
				pv1 = []types.Transaction{p1}
			}
			b1, L1, err := mineOn(L0, pv1, pv2, 1)
			if err != nil {
				return fmt.Errorf("INFRA: B1: %v", err)
			}
			var o1 types.SiacoinElement
			if rc.V2 {
				o1 = L1.SCE[p2.SiacoinOutputID(p2.ID(), 0)].Copy()
			} else {
				o1 = L1.SCE[p1.SiacoinOutputID(0)].Copy()
			}
			gAt1 := L1.SCE[g.ID].Copy()
			var yv1 []types.Transaction
			var yv2 []types.V2Transaction
			if rc.V2 {
				y2 = kit.V2SpendMany(L1.State, []types.SiacoinElement{o1, gAt1}, 1, fee, 2)
				yv2 = []types.V2Transaction{y2}
			} else {
				y1 = kit.V1SpendMany(L1.State, []types.SiacoinElement{o1, gAt1}, 1, 1, fee, 2)
				yv1 = []types.Transaction{y1}
			}
			b2, _, err := mineOn(L1, yv1, yv2, 1)
			if err != nil {
				return fmt.Errorf("INFRA: B2: %v", err)
			}
			if err := node.CM.AddBlocks([]types.Block{b1, b2}); err != nil {
				return fmt.Errorf("INFRA: B1,B2 rejected: %v", err)
			}
			// the heavier empty fork
			lf := L0
			var fork []types.Block
			for i := 0; i < rc.Fork; i++ {
				b, nl, err := mineOn(lf, nil, nil, 1)
				if err != nil {
					return fmt.Errorf("INFRA: fork: %v", err)
				}
				fork, lf = append(fork, b), nl
			}
			if err := node.CM.AddBlocks(fork); err != nil {
				return fmt.Errorf("INFRA: fork rejected: %v", err)
			}
			if node.CM.Tip() != lf.Index() {
				return fmt.Errorf("INFRA: no reorg to the fork")
			}
			audit := func(where string, l *refl.Ledger) error {
				salt++
				if _, _, perr := checkPoolValid(node, l, salt); perr != nil {
					return fmt.Errorf("%s: %w", where, perr)
				}
				return nil
			}
			if !rc.Quiet {
				if err := audit("after the reorg", lf); err != nil {
					return err
				}
			}
			// X spends G and is accepted
			gAtF := lf.SCE[g.ID].Copy()
			var xid types.TransactionID
			if rc.V2 {
				x2 = kit.V2SpendMany(lf.State, []types.SiacoinElement{gAtF}, 2, types.Siacoins(5), 3)
				xid = x2.ID()
				if _, err := node.CM.AddV2PoolTransactions(lf.Index(), []types.V2Transaction{x2.DeepCopy()}); err != nil {
					return fmt.Errorf("X, spending an output that is unspent on the new chain, was rejected: %v", err)
				}
			} else {
				x1 = kit.V1SpendMany(lf.State, []types.SiacoinElement{gAtF}, 1, 2, types.Siacoins(5), 3)
				xid = x1.ID()
				if _, err := node.CM.AddPoolTransactions([]types.Transaction{x1}); err != nil {
					return fmt.Errorf("X, spending an output that is unspent on the new chain, was rejected: %v", err)
				}
			}
			inPool := func() bool {
				if rc.V2 {
					_, ok := node.CM.V2PoolTransaction(xid)
					return ok
				}
				_, ok := node.CM.PoolTransaction(xid)
				return ok
			}
			if !rc.Quiet {
				if !inPool() {
					return fmt.Errorf("X is not retrievable right after it was accepted")
				}
				if err := audit("after X was accepted", lf); err != nil {
					return err
				}
			}
			// P is confirmed again on the fork, X is not in that block
			var f4 types.Block
			var l4 *refl.Ledger
			if rc.V2 {
				f4, l4, err = mineOn(lf, nil, []types.V2Transaction{refreshV2(p2, lf)}, 1)
			} else {
				f4, l4, err = mineOn(lf, []types.Transaction{p1}, nil, 1)
			}
			if err != nil {
				return fmt.Errorf("INFRA: F4: %v", err)
			}
			if err := node.CM.AddBlocks([]types.Block{f4}); err != nil {
				return fmt.Errorf("a valid block confirming P again was rejected: %v", err)
			}
			if !inPool() {
				return fmt.Errorf("X (%v) was accepted and afterwards neither confirmed nor deprived of an input on the chain, and the pool is nearly empty, but it is no longer in the pool (a block confirmed the parent of a transaction the last reorg had reverted)", xid)
			}
			if err := audit("after P was confirmed again", l4); err != nil {
				return err
			}
			// what the pool reports is minable
			b, found := coreutils.MineBlock(node.CM, kit.Actors[1].Addr, 5*time.Second)
			if !found {
				cs.Inconclusive("miner-timeout")
				return nil
			}
			if _, err := l4.Apply(b, nil); err != nil {
				return fmt.Errorf("the block MineBlock assembled from the pool is invalid according to core: %v", err)
			}
			if err := node.CM.AddBlocks([]types.Block{b}); err != nil {
				return fmt.Errorf("the block MineBlock assembled from the pool was rejected: %v", err)
			}
			return nil
		}()
		cs.Classf("resurrect:v2=%v", rc.V2)
		if err != nil {
			err = fmt.Errorf("%+v: %w", rc, err)
		}
		d.Case(rc, cs, err)
	}
}
