package pchain

import (
	"bytes"
	"fmt"
	"os"
	"testing"
	"time"

	"go.sia.tech/core/consensus"
	"go.sia.tech/core/types"
	"go.sia.tech/coreutils"
	"pgregory.net/rapid"

	"verif/kit"
	"verif/refl"
)

// PoolStep submits a transaction set built on the reference ledger of some
// node of the tree.
type PoolStep struct {
	At      int          `json:"at,omitempty"`       // 0: the current tip; k>0: the k-th other valid node (stale / foreign basis)
	V2      bool         `json:"v2,omitempty"`       // v2 set (with basis) or v1 set
	UseNext bool         `json:"use_next,omitempty"` // start with the transactions of a child block of the basis node
	Blind   bool         `json:"blind,omitempty"`    // do not avoid inputs the pool already spends (conflicting sets)
	Intents []kit.Intent `json:"intents,omitempty"`
}

// C05Step is a submission of blocks, a pool submission, or mining from the pool.
type C05Step struct {
	Submit *kit.SubmitStep `json:"submit,omitempty"`
	Pool   *PoolStep       `json:"pool,omitempty"`
	Mine   bool            `json:"mine,omitempty"`
	// Quiet: nothing is asked of the pool after this step (no listing, no
	// audit); the next step meets whatever lazily maintained state it left.
	Quiet bool `json:"quiet,omitempty"`
}

// C05Case: fork tree + interleaved steps.
type C05Case struct {
	Tree  kit.TreeCase `json:"tree"`
	Steps []C05Step    `json:"steps"`
}

func genC05(t *rapid.T) C05Case {
	cfg := kit.DefaultTreeGen()
	cfg.CorruptPct = 2
	cfg.BadIntentPct = 1
	cfg.ForkPct = 28
	cfg.MaxAllow = 8
	cfg.Kinds = []string{"pay", "pay", "sf", "form", "fcop", "fcop", "attest", "arb"}
	if !kit.Thorough() {
		cfg.MaxBlocks = 20
	}
	tc := kit.GenTree(t, cfg)
	sub := kit.GenSchedule(t, len(tc.Blocks), 20)
	c := C05Case{Tree: tc}
	for i := range sub {
		st := sub[i]
		st.Malleated = false
		c.Steps = append(c.Steps, C05Step{Submit: &st, Quiet: kit.Chance(t, 30, "quiet")})
		for kit.Chance(t, 45, "poolroll") {
			ps := &PoolStep{V2: kit.Chance(t, 65, "v2"), UseNext: kit.Chance(t, 35, "usenext"), Blind: kit.Chance(t, 30, "blind")}
			if kit.Chance(t, 30, "stale") {
				ps.At = rapid.IntRange(1, 12).Draw(t, "at")
			}
			n := rapid.IntRange(1, 4).Draw(t, "nintents")
			for j := 0; j < n; j++ {
				in := kit.GenIntent(t, []string{"pay", "pay", "pay", "sf", "form", "fcop", "arb", "v2merge"}, 0)
				in.V2 = ps.V2
				in.Eph = kit.Chance(t, 50, "eph")
				ps.Intents = append(ps.Intents, in)
			}
			c.Steps = append(c.Steps, C05Step{Pool: ps, Quiet: kit.Chance(t, 20, "quiet")})
		}
		if kit.Chance(t, 12, "mineroll") {
			c.Steps = append(c.Steps, C05Step{Mine: true})
		}
	}
	return c
}

type trackedTxn struct {
	id      types.TransactionID
	v1      *types.Transaction
	v2      *types.V2Transaction
	inputs  []types.Hash256    // non-ephemeral inputs (element ids)
	proofAt []types.ChainIndex // chain index elements storage proofs refer to (they are inputs too)
	parents []types.TransactionID
	// for classification
	crossedReorg bool
	wasEphemeral bool
}

func v2InputIDs(t types.V2Transaction) (ids []types.Hash256, eph []types.Hash256) {
	add := func(id types.Hash256, se types.StateElement) {
		if se.LeafIndex == types.UnassignedLeafIndex {
			eph = append(eph, id)
		} else {
			ids = append(ids, id)
		}
	}
	for _, i := range t.SiacoinInputs {
		add(types.Hash256(i.Parent.ID), i.Parent.StateElement)
	}
	for _, i := range t.SiafundInputs {
		add(types.Hash256(i.Parent.ID), i.Parent.StateElement)
	}
	for _, r := range t.FileContractRevisions {
		add(types.Hash256(r.Parent.ID), r.Parent.StateElement)
	}
	for _, r := range t.FileContractResolutions {
		add(types.Hash256(r.Parent.ID), r.Parent.StateElement)
	}
	return
}

func v1InputIDs(t types.Transaction) (ids []types.Hash256) {
	for _, i := range t.SiacoinInputs {
		ids = append(ids, types.Hash256(i.ParentID))
	}
	for _, i := range t.SiafundInputs {
		ids = append(ids, types.Hash256(i.ParentID))
	}
	for _, r := range t.FileContractRevisions {
		ids = append(ids, types.Hash256(r.ParentID))
	}
	for _, r := range t.StorageProofs {
		ids = append(ids, types.Hash256(r.ParentID))
	}
	return
}

func liveIn(l *refl.Ledger, id types.Hash256) bool {
	if _, ok := l.SCE[types.SiacoinOutputID(id)]; ok {
		return true
	}
	if _, ok := l.SFE[types.SiafundOutputID(id)]; ok {
		return true
	}
	if _, ok := l.FCE[types.FileContractID(id)]; ok {
		return true
	}
	if _, ok := l.V2FCE[types.FileContractID(id)]; ok {
		return true
	}
	return false
}

// checkPoolValid: the reported pool (v1 then v2, in order) validates
// sequentially on the tip through core, with supplements from the reference
// ledger; confirmed v2 inputs carry the ledger's state elements; and a block
// assembled from it is valid.
func checkPoolValid(node *kit.Node, L *refl.Ledger, salt uint64) (v1 []types.Transaction, v2 []types.V2Transaction, err error) {
	// a reader owns what the v2 listing hands out (the manager deep-copies it):
	// one that rewrites proofs, signatures and values in its copy must not
	// show in what the pool reports next
	scratch := node.CM.V2PoolTransactions()
	for i := range scratch {
		mutateV2(&scratch[i], i)
	}
	v1 = node.CM.PoolTransactions()
	v2 = node.CM.V2PoolTransactions()
	ms := consensus.NewMidState(L.State)
	for i, t := range v1 {
		ts := L.SupplementForTxn(t)
		if verr := consensus.ValidateTransaction(ms, t, ts); verr != nil {
			return v1, v2, fmt.Errorf("pool v1 transaction %d (%v) is not valid after its predecessors on tip %v: %v", i, t.ID(), L.Index(), verr)
		}
		ms.ApplyTransaction(t, ts)
	}
	for i, t := range v2 {
		if verr := consensus.ValidateV2Transaction(ms, t); verr != nil {
			return v1, v2, fmt.Errorf("pool v2 transaction %d (%v) is not valid after its predecessors on tip %v: %v", i, t.ID(), L.Index(), verr)
		}
		ms.ApplyV2Transaction(t)
		ids, _ := v2InputIDs(t)
		_ = ids
		var serr error
		chk := func(id types.Hash256, se types.StateElement) {
			if se.LeafIndex == types.UnassignedLeafIndex || serr != nil {
				return
			}
			if want, ok := expectElement(L, id); ok && seBytes(se) != seBytes(want) {
				serr = fmt.Errorf("pool v2 transaction %d (%v): input %v carries a state element different from the tip ledger's", i, t.ID(), id)
			}
		}
		for _, in := range t.SiacoinInputs {
			chk(types.Hash256(in.Parent.ID), in.Parent.StateElement)
		}
		for _, in := range t.SiafundInputs {
			chk(types.Hash256(in.Parent.ID), in.Parent.StateElement)
		}
		for _, r := range t.FileContractRevisions {
			chk(types.Hash256(r.Parent.ID), r.Parent.StateElement)
		}
		for _, r := range t.FileContractResolutions {
			chk(types.Hash256(r.Parent.ID), r.Parent.StateElement)
		}
		if serr != nil {
			return v1, v2, serr
		}
	}
	// "stays retrievable": what is listed is found by id
	for _, t := range v1 {
		if g, ok := node.CM.PoolTransaction(t.ID()); !ok || g.ID() != t.ID() {
			return v1, v2, fmt.Errorf("pool lists v1 transaction %v but the lookup by id does not return it", t.ID())
		}
	}
	for _, t := range v2 {
		if g, ok := node.CM.V2PoolTransaction(t.ID()); !ok || g.ID() != t.ID() {
			return v1, v2, fmt.Errorf("pool lists v2 transaction %v but the lookup by id does not return it", t.ID())
		}
	}
	// a block assembled from the reported contents on top of the tip
	useV1, useV2 := v1, v2
	if L.Height()+1 < L.State.Network.HardforkV2.AllowHeight {
		useV2 = nil
	}
	var weight uint64
	cut1, cut2 := len(useV1), len(useV2)
	for i, t := range useV1 {
		if weight += L.State.TransactionWeight(t); weight > L.State.MaxBlockWeight() {
			cut1, cut2 = i, 0
			break
		}
	}
	if cut1 == len(useV1) {
		for i, t := range useV2 {
			if weight += L.State.V2TransactionWeight(t); weight > L.State.MaxBlockWeight() {
				cut2 = i
				break
			}
		}
	}
	b := kit.AssembleBlock(L.State, L.Block.Timestamp.Add(time.Second), kit.Actors[0].Addr, useV1[:cut1], useV2[:cut2], salt)
	if _, aerr := L.Apply(b, nil); aerr != nil {
		return v1, v2, fmt.Errorf("a block assembled from the reported pool (%d v1, %d v2) on tip %v is invalid: %v", cut1, cut2, L.Index(), aerr)
	}
	return v1, v2, nil
}

func runC05(c C05Case, cs *kit.CaseStats) error {
	tr := kit.BuildTree(c.Tree)
	node, err := kit.NewNode(tr, "mem")
	if err != nil {
		return fmt.Errorf("INFRA: %v", err)
	}
	defer node.Close()
	rec := &kit.OpRecorder{}
	rec.Attach(node, nil)
	done := 0
	var tracked []*trackedTxn
	var lastReported []types.TransactionID // ids of what the pool listed at the previous non-quiet step
	trackedByID := map[types.TransactionID]*trackedTxn{}
	allow := tr.Network.HardforkV2.AllowHeight
	req := tr.Network.HardforkV2.RequireHeight
	known := func(id types.BlockID) bool { _, ok := node.CM.State(id); return ok }
	salt := uint64(5000)

	for si, st := range c.Steps {
		tip := node.TipNode()
		if tip == nil || tip.Ledger == nil {
			return fmt.Errorf("step %d: tip is not a valid tree node", si)
		}
		L := tip.Ledger
		where := fmt.Sprintf("step %d", si)
		switch {
		case st.Submit != nil:
			_, blocks, states, validated := tr.ResolveBatch(*st.Submit, node.ValidatedParent)
			if len(blocks) == 0 {
				continue
			}
			var serr error
			if validated {
				cs.Class("call=AddValidatedV2Blocks")
				for _, b := range blocks {
					node.Submitted[b.ID()] = true
				}
				serr = node.CM.AddValidatedV2Blocks(blocks, states)
				if h := node.CM.Tip().Height; h > node.MaxHeight {
					node.MaxHeight = h
				}
			} else {
				serr = node.Submit(blocks)
			}
			where = fmt.Sprintf("step %d (blocks %v, err=%v)", si, st.Submit.Batch, serr)

		case st.Pool != nil:
			ps := st.Pool
			base := tip
			if ps.At > 0 {
				var others []*kit.TNode
				for _, n := range append([]*kit.TNode{tr.Root}, tr.Nodes...) {
					if n.Ledger != nil && n != tip && known(n.ID) {
						others = append(others, n)
					}
				}
				if len(others) > 0 {
					base = others[ps.At%len(others)]
				}
			}
			h := base.Height + 1
			if ps.V2 && h < allow || !ps.V2 && h >= req {
				continue
			}
			bb := kit.NewBlockBuilder(base.Ledger)
			if !ps.Blind && base == tip {
				bb.Absorb(node.CM.PoolTransactions(), node.CM.V2PoolTransactions())
				bb.DropEphemeral()
			}
			var set1 []types.Transaction
			var set2 []types.V2Transaction
			if ps.UseNext {
				for _, n := range tr.Nodes {
					if n.Parent == base && n.Ledger != nil && (ps.V2 && len(n.Block.V2Transactions()) > 0 || !ps.V2 && len(n.Block.Transactions) > 0) {
						if ps.V2 {
							for _, t := range n.Block.V2Transactions() {
								set2 = append(set2, t.DeepCopy())
							}
						} else {
							set1 = append(set1, n.Block.Transactions...)
						}
						bb.Absorb(n.Block.Transactions, n.Block.V2Transactions())
						cs.Class("pool-set-from-a-future-block")
						break
					}
				}
			}
			for _, in := range ps.Intents {
				in.V2 = ps.V2
				if !ps.V2 && (in.Kind == "arb" || in.Kind == "v2merge") {
					in.Kind = "pay"
				}
				bb.Add(in)
			}
			var aerr error
			if ps.V2 {
				set2 = append(set2, bb.V2Txns...)
				if len(set2) == 0 {
					continue
				}
				_, aerr = node.CM.AddV2PoolTransactions(base.Index(), set2)
			} else {
				set1 = append(set1, bb.Txns...)
				if len(set1) == 0 {
					continue
				}
				if base != tip {
					continue // v1 sets have no basis; build them on the tip only
				}
				_, aerr = node.CM.AddPoolTransactions(set1)
			}
			where = fmt.Sprintf("step %d (pool v2=%v basis %v tip %v, %d txns, err=%v)", si, ps.V2, base.Index(), tip.Index(), len(set1)+len(set2), aerr)
			if aerr == nil {
				cs.Class("pool-accepted")
				if base != tip {
					cs.Class("pool-accepted-with-stale-basis")
				}
				// accepted means all of it: every member that is not already on
				// the best chain is in the pool now (nothing is dropped silently)
				onBest := map[types.TransactionID]bool{}
				for _, pn := range tip.PathFromGenesis() {
					for _, t := range pn.Block.Transactions {
						onBest[t.ID()] = true
					}
					for _, t := range pn.Block.V2Transactions() {
						onBest[t.ID()] = true
					}
				}
				for i := range set2 {
					if id := set2[i].ID(); !onBest[id] {
						if _, ok := node.CM.V2PoolTransaction(id); !ok {
							return fmt.Errorf("%s: the set was accepted, but its member %d (%v), which is not on the best chain, is not in the pool", where, i, id)
						}
					}
				}
				for i := range set1 {
					if id := set1[i].ID(); !onBest[id] {
						if _, ok := node.CM.PoolTransaction(id); !ok {
							return fmt.Errorf("%s: the set was accepted, but its member %d (%v), which is not on the best chain, is not in the pool", where, i, id)
						}
					}
				}
				// track what the pool now reports for these ids (proofs at tip)
				for i := range set1 {
					id := set1[i].ID()
					if onBest[id] {
						continue // already confirmed when it was submitted: never pooled, nothing promised
					}
					if trackedByID[id] == nil {
						t := set1[i]
						tt := &trackedTxn{id: id, v1: &t, inputs: v1InputIDs(t)}
						tracked = append(tracked, tt)
						trackedByID[id] = tt
					}
				}
				for i := range set2 {
					id := set2[i].ID()
					if onBest[id] {
						continue
					}
					if trackedByID[id] == nil {
						t := set2[i].DeepCopy()
						ids, eph := v2InputIDs(t)
						tt := &trackedTxn{id: id, v2: &t, inputs: ids, wasEphemeral: len(eph) > 0}
						for _, r := range t.FileContractResolutions {
							if sp, ok := r.Resolution.(*types.V2StorageProof); ok {
								tt.proofAt = append(tt.proofAt, sp.ProofIndex.ChainIndex)
							}
						}
						tracked = append(tracked, tt)
						trackedByID[id] = tt
					}
				}
			} else {
				cs.Class("pool-rejected")
			}
			// the submitter goes on using its own memory (template reuse, fee
			// bumps): nothing of it may be shared with the pool
			for i := range set2 {
				mutateV2(&set2[i], si)
			}

		case st.Mine:
			b, found := coreutils.MineBlock(node.CM, kit.Actors[1].Addr, 5*time.Second)
			if !found {
				cs.Inconclusive("miner-timeout")
				continue
			}
			mn := tr.AddDynamic(b)
			merr := node.Submit([]types.Block{b})
			where = fmt.Sprintf("step %d (MineBlock on %v -> %v, err=%v)", si, tip.Index(), mn.Index(), merr)
			if mn.Ledger == nil {
				return fmt.Errorf("%s: the block MineBlock assembled from the pool is invalid according to core: %v", where, mn.Err)
			}
			if merr != nil {
				return fmt.Errorf("%s: the block MineBlock assembled from the pool was rejected", where)
			}
			cs.Class("mined-from-pool")
			if len(b.Transactions)+len(b.V2Transactions()) > 1 {
				cs.Class("mined-block-with-pool-transactions")
			}
		}

		if os.Getenv("VERIF_DEBUG") != "" {
			fmt.Printf("DBG %s ops:", where)
			for _, op := range rec.Ops[done:] {
				n := tr.ByID[op.ID]
				fmt.Printf(" %v:%d@%d", op.Apply, n.Idx, n.Height)
			}
			fmt.Printf("\n   pool2:")
			for _, t := range node.CM.V2PoolTransactions() {
				_, eph := v2InputIDs(t)
				fmt.Printf(" %s(eph=%d)", t.ID().String()[:6], len(eph))
			}
			fmt.Printf("\n   tracked:")
			for _, tt := range tracked {
				fmt.Printf(" %s", tt.id.String()[:6])
			}
			fmt.Println()
		}
		// ---- process what the store did: confirmations and transient input loss
		reverts := 0
		for ; done < len(rec.Ops); done++ {
			op := rec.Ops[done]
			n := tr.ByID[op.ID]
			if n == nil {
				return fmt.Errorf("%s: store applied unknown block %v", where, op.ID)
			}
			at := n
			if !op.Apply {
				at = n.Parent
				reverts++
			}
			confirmedNow := map[types.TransactionID]bool{}
			if op.Apply {
				for _, t := range n.Block.Transactions {
					confirmedNow[t.ID()] = true
				}
				for _, t := range n.Block.V2Transactions() {
					confirmedNow[t.ID()] = true
				}
			}
			keep := tracked[:0]
			for _, tt := range tracked {
				drop := confirmedNow[tt.id]
				if !drop && at != nil && at.Ledger != nil {
					for _, id := range tt.inputs {
						if !liveIn(at.Ledger, id) {
							drop = true // spent or reverted on the chain (possibly transiently)
						}
					}
					for _, ci := range tt.proofAt {
						if e, ok := at.Ledger.CIE[ci.Height]; !ok || e.ChainIndex != ci {
							drop = true // the block the storage proof is anchored in was reverted
						}
					}
				}
				if drop {
					delete(trackedByID, tt.id)
					continue
				}
				if reverts > 0 {
					tt.crossedReorg = true
				}
				keep = append(keep, tt)
			}
			tracked = keep
		}

		if st.Quiet && si < len(c.Steps)-1 {
			cs.Class("quiet-step")
			continue
		}
		// ---- oracle (i)+(ii): validity and minability of what the pool reports
		tip = node.TipNode()
		if tip == nil || tip.Ledger == nil {
			if aerr := node.Audit(); aerr != nil {
				return fmt.Errorf("%s: %w", where, aerr)
			}
			return fmt.Errorf("%s: tip unknown", where)
		}
		L = tip.Ledger
		salt++
		// every other step the first pool access is a look-up by id of what the
		// pool reported last time: whatever it still hands out must be part of
		// the (validated) listing taken next
		var hits []types.TransactionID
		if si%2 == 1 {
			for _, id := range lastReported {
				if _, ok := node.CM.V2PoolTransaction(id); ok {
					hits = append(hits, id)
				} else if _, ok := node.CM.PoolTransaction(id); ok {
					hits = append(hits, id)
				}
			}
			if len(lastReported) > 0 {
				cs.Class("lookup-by-id-before-the-listing")
			}
		}
		p1, p2, perr := checkPoolValid(node, L, salt)
		if perr != nil {
			return fmt.Errorf("%s: %w", where, perr)
		}
		lastReported = lastReported[:0]
		for _, t := range p1 {
			lastReported = append(lastReported, t.ID())
		}
		for _, t := range p2 {
			lastReported = append(lastReported, t.ID())
		}
		for _, id := range hits {
			found := false
			for _, x := range lastReported {
				found = found || x == id
			}
			if !found {
				return fmt.Errorf("%s: the pool still handed out %v by id (first pool access after the step), but the pool it lists right afterwards does not contain it", where, id)
			}
		}
		inPool := map[types.TransactionID]bool{}
		for _, t := range p1 {
			inPool[t.ID()] = true
		}
		for _, t := range p2 {
			inPool[t.ID()] = true
		}
		// ---- oracle (iii): retention. A tracked transaction must still be
		// pooled if core accepts it on the current tip after the other survivors.
		ms := consensus.NewMidState(L.State)
		gone := map[types.TransactionID]bool{}
		keep := tracked[:0]
		for pass := 0; pass < 2; pass++ { // v1 first, then v2 (the pool's order)
			for _, tt := range tracked {
				if (pass == 0) != (tt.v1 != nil) {
					continue
				}
				var verr error
				if tt.v1 != nil {
					ts := L.SupplementForTxn(*tt.v1)
					if verr = consensus.ValidateTransaction(ms, *tt.v1, ts); verr == nil {
						ms.ApplyTransaction(*tt.v1, ts)
					}
				} else {
					// take the pool's own copy if present (proofs are the pool's job,
					// checked above); otherwise refresh our copy from the ledger
					cur, ok := node.CM.V2PoolTransaction(tt.id)
					if !ok {
						cur = refreshV2(*tt.v2, L)
					}
					if verr = consensus.ValidateV2Transaction(ms, cur); verr == nil {
						ms.ApplyV2Transaction(cur)
					}
				}
				if verr != nil {
					gone[tt.id] = true // no longer valid on this tip (height, parent gone, conflict confirmed)
					continue
				}
				if !inPool[tt.id] {
					kind := "v2"
					if tt.v1 != nil {
						kind = "v1"
					}
					return fmt.Errorf("%s: accepted %s transaction %v is no longer in the pool although it was not confirmed, none of its inputs was spent or reverted at any tip in between, the pool is far from full, and core still accepts it on tip %v", where, kind, tt.id, L.Index())
				}
				if tt.crossedReorg && tt.v2 != nil {
					cs.Class("pooled-v2-survived-reorg")
				}
			}
		}
		for _, tt := range tracked {
			if gone[tt.id] {
				delete(trackedByID, tt.id)
				continue
			}
			keep = append(keep, tt)
		}
		tracked = keep
		if reverts >= 2 && len(p2) > 0 {
			cs.Class("v2-pool-moved-across-reorg-depth>=2")
			cs.NonTrivial()
		}
		for _, t := range p2 {
			if tt := trackedByID[t.ID()]; tt != nil && tt.wasEphemeral {
				_, eph := v2InputIDs(t)
				if len(eph) == 0 {
					cs.Class("ephemeral-parent-became-confirmed")
					cs.NonTrivial()
				}
			}
		}
		if len(p1) > 0 && len(p2) > 0 {
			cs.Class("pool-holds-both-kinds")
		}
		if aerr := node.Audit(); aerr != nil {
			return fmt.Errorf("%s: %w", where, aerr)
		}
	}
	return nil
}

// refreshV2 returns a copy of t whose confirmed inputs carry the ledger's
// current state elements (and whose formerly ephemeral inputs that are now
// confirmed are filled in).
func refreshV2(t types.V2Transaction, l *refl.Ledger) types.V2Transaction {
	c := t.DeepCopy()
	fix := func(id types.Hash256, se *types.StateElement) {
		if want, ok := expectElement(l, id); ok {
			*se = want.Copy()
		}
	}
	for i := range c.SiacoinInputs {
		fix(types.Hash256(c.SiacoinInputs[i].Parent.ID), &c.SiacoinInputs[i].Parent.StateElement)
	}
	for i := range c.SiafundInputs {
		fix(types.Hash256(c.SiafundInputs[i].Parent.ID), &c.SiafundInputs[i].Parent.StateElement)
	}
	for i := range c.FileContractRevisions {
		fix(types.Hash256(c.FileContractRevisions[i].Parent.ID), &c.FileContractRevisions[i].Parent.StateElement)
	}
	for i := range c.FileContractResolutions {
		fix(types.Hash256(c.FileContractResolutions[i].Parent.ID), &c.FileContractResolutions[i].Parent.StateElement)
		if sp, ok := c.FileContractResolutions[i].Resolution.(*types.V2StorageProof); ok {
			if cie, ok := l.CIE[sp.ProofIndex.ChainIndex.Height]; ok && cie.ChainIndex == sp.ProofIndex.ChainIndex {
				nsp := *sp
				nsp.ProofIndex = cie.Copy()
				c.FileContractResolutions[i].Resolution = &nsp
			}
		}
	}
	return c
}

var _ = bytes.Equal

var c05Prop = kit.Prop[C05Case]{
	ID:   "C05",
	Rule: "histories as in C02 interleaved with pool submissions (v1 and v2 sets built on the tip's or another node's reference ledger: fresh, parent/child and two-input chains through ephemeral outputs, the transactions of a not yet submitted child block plus children of them, sets blind to what the pool already spends, stale or foreign-branch basis) and with MineBlock + AddBlocks steps. After every step: the reported pool (v1 then v2) validates sequentially through core on the tip with reference supplements, every confirmed v2 input carries the reference ledger's leaf index and proof, a block assembled from the reported contents is valid under core, MineBlock's block is valid and accepted; retention: every accepted transaction that was not confirmed, whose non-ephemeral inputs were live at every tip the store passed through (single applies/reverts recorded from the store), and that core still accepts on the current tip after the other survivors, must still be reported. Non-trivial = a v2 pool carried across a reorg of depth >= 2, or a pooled child whose ephemeral parent became confirmed.",
	Assumptions: []string{
		"go.sia.tech/core decides transaction and block validity; supplements for v1 come from the reference ledger",
		"pools stay far below the 10-block weight limit in this family (the weight limit is the heavy family, TestC05Heavy)",
		"extra pool members (re-offered transactions of reverted blocks) are allowed",
		"MineBlock stamps blocks with the wall clock and random arbitrary data; verdicts do not depend on either",
	},
	Gen: genC05,
	Run: runC05,
}

func TestC05(t *testing.T) { c05Prop.Main(t) }
