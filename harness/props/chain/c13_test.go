package pchain

import (
	"bytes"
	"fmt"
	"testing"

	"go.sia.tech/core/consensus"
	"go.sia.tech/core/types"
	"pgregory.net/rapid"

	"verif/kit"
	"verif/refl"
)

// C13Case: a fork tree, a (from, to) pair and a transaction set valid at from.
type C13Case struct {
	Tree    kit.TreeCase `json:"tree"`
	From    int          `json:"from"` // node selector (mod #eligible)
	To      int          `json:"to"`
	UseNext bool         `json:"use_next,omitempty"` // start the set with the v2 transactions of a child block of from
	// ChildrenOnly (with UseNext): the block's transactions are only used as
	// unconfirmed parents; the set handed over holds just the children built on
	// top of them (a renter transaction rebased alone, a relayed child)
	ChildrenOnly bool `json:"children_only,omitempty"`
	// DropChildren (with UseNext): transactions of the block that spend outputs
	// of earlier transactions of the same block are left out of the set
	DropChildren bool         `json:"drop_children,omitempty"`
	Extra        []kit.Intent `json:"extra,omitempty"` // further transactions built on top
	// Corrupt: 0 none, 1 flip a proof hash, 2 change a leaf index, 3 unknown basis id, 4..9 basis naming a known block at a height it does not have (+3, +1, -1, the target's height, 0, MaxUint64)
	Corrupt int `json:"corrupt,omitempty"`
	// Pool family: also pool the set on the tip and ask for broadcastable sets
	Pool bool `json:"pool,omitempty"`
}

func genC13(t *rapid.T) C13Case {
	cfg := kit.DefaultTreeGen()
	cfg.CorruptPct = 0
	cfg.BadIntentPct = 0
	cfg.ForkPct = 25
	cfg.MaxAllow = 6
	cfg.Kinds = []string{"pay", "pay", "sf", "form", "fcop", "fcop", "attest", "arb"}
	tc := kit.GenTree(t, cfg)
	if tc.Net.Allow > 40 { // v1-only regime has nothing to rebase
		tc.Net = kit.NetSpec{Maturity: tc.Net.Maturity, Allow: 2, ReqOff: 3, CutOff: 3, Hard: tc.Net.Hard}
	}
	c := C13Case{Tree: tc, From: rapid.IntRange(0, 40).Draw(t, "from"), To: rapid.IntRange(0, 40).Draw(t, "to"), UseNext: kit.Chance(t, 50, "usenext")}
	n := rapid.IntRange(1, 4).Draw(t, "nextra")
	for i := 0; i < n; i++ {
		in := kit.GenIntent(t, []string{"v2pay", "v2pay", "v2merge", "v2sf", "v2form", "fcop", "v2arb"}, 0)
		in.Eph = kit.Chance(t, 60, "eph2")
		c.Extra = append(c.Extra, in)
	}
	if kit.Chance(t, 15, "corruptroll") {
		c.Corrupt = 1 + kit.Uniform(t, 9, "corrupt")
	}
	c.Pool = kit.Chance(t, 35, "pool")
	if c.UseNext && kit.Chance(t, 40, "childrenonly") {
		c.ChildrenOnly = true
		c.Pool = false
		for i := range c.Extra {
			c.Extra[i].Eph = true
		}
	}
	if c.Pool {
		// pool family: favour dependency chains and diamonds among the members
		for i := range c.Extra {
			if kit.Chance(t, 70, "diamond") {
				c.Extra[i].Kind = []string{"v2pay", "v2merge", "v2merge"}[kit.Uniform(t, 3, "dk")]
				c.Extra[i].Eph = true
				c.Extra[i].Who = c.Extra[0].Who
				c.Extra[i].To = c.Extra[0].Who
			}
		}
		if len(c.Extra) > 0 {
			c.Extra[0].To = c.Extra[0].Who
		}
	}
	if c.UseNext && kit.Chance(t, 35, "dropchildren") {
		c.DropChildren = true
		// more blocks whose later transactions spend outputs of their earlier ones
		for b := range c.Tree.Blocks {
			for j := 1; j < len(c.Tree.Blocks[b].Txs); j++ {
				if kit.Chance(t, 60, "blockeph") {
					c.Tree.Blocks[b].Txs[j].Eph = true
					c.Tree.Blocks[b].Txs[j].Who = c.Tree.Blocks[b].Txs[j-1].To
				}
			}
		}
		for i := range c.Extra {
			if kit.Chance(t, 70, "dropeph") {
				c.Extra[i].Eph = true
			}
		}
	}
	return c
}

func encV2(t types.V2Transaction) []byte {
	var buf bytes.Buffer
	e := types.NewEncoder(&buf)
	t.EncodeTo(e)
	e.Flush()
	return buf.Bytes()
}

func seBytes(se types.StateElement) string {
	return fmt.Sprintf("%d:%x", se.LeafIndex, se.MerkleProof)
}

// expectElement returns the ledger's state element for an id, if the element
// is live at l.
func expectElement(l *refl.Ledger, id types.Hash256) (types.StateElement, bool) {
	if e, ok := l.SCE[types.SiacoinOutputID(id)]; ok {
		return e.StateElement, true
	}
	if e, ok := l.SFE[types.SiafundOutputID(id)]; ok {
		return e.StateElement, true
	}
	if e, ok := l.V2FCE[types.FileContractID(id)]; ok {
		return e.StateElement, true
	}
	return types.StateElement{}, false
}

func timeless(kind string) bool {
	switch kind {
	case "v2pay", "v2merge", "v2sf", "v2arb", "v2attest":
		return true
	}
	return false
}

func runC13(c C13Case, cs *kit.CaseStats) (err error) {
	tr := kit.BuildTree(c.Tree)
	node, err := kit.NewNode(tr, "mem")
	if err != nil {
		return fmt.Errorf("INFRA: %v", err)
	}
	defer node.Close()
	rec := &kit.OpRecorder{}
	rec.Attach(node, nil)
	for _, n := range tr.Nodes {
		node.Submit([]types.Block{n.Block})
	}
	applied := map[types.BlockID]bool{tr.Root.ID: true}
	for _, op := range rec.Ops {
		if op.Apply {
			applied[op.ID] = true
		}
	}
	allow := tr.Network.HardforkV2.AllowHeight
	// eligible bases: valid nodes whose child height allows v2 transactions
	var froms, tos []*kit.TNode
	all := append([]*kit.TNode{tr.Root}, tr.Nodes...)
	for _, n := range all {
		if n.Ledger == nil {
			continue
		}
		tos = append(tos, n)
		if n.Height+1 >= allow {
			froms = append(froms, n)
		}
	}
	if len(froms) == 0 {
		cs.Class("no-v2-basis")
		return nil
	}
	from := froms[c.From%len(froms)]
	to := tos[c.To%len(tos)]

	// ---- build a set valid at from --------------------------------------
	bb := kit.NewBlockBuilder(from.Ledger)
	var set []types.V2Transaction
	var kinds []string
	if c.UseNext {
		for _, n := range tr.Nodes {
			if n.Parent == from && n.Ledger != nil && len(n.Block.V2Transactions()) > 0 {
				var keptTxns []types.V2Transaction
				for i, t := range n.Block.V2Transactions() {
					if c.DropChildren {
						// leave out the block's own children of its transactions:
						// the set's members then compete with them for the
						// parents' outputs, which the block creates and spends
						child := false
						for k := range t.SiacoinInputs {
							child = child || t.SiacoinInputs[k].Parent.StateElement.LeafIndex == types.UnassignedLeafIndex
						}
						for k := range t.SiafundInputs {
							child = child || t.SiafundInputs[k].Parent.StateElement.LeafIndex == types.UnassignedLeafIndex
						}
						for k := range t.FileContractRevisions {
							child = child || t.FileContractRevisions[k].Parent.StateElement.LeafIndex == types.UnassignedLeafIndex
						}
						for k := range t.FileContractResolutions {
							child = child || t.FileContractResolutions[k].Parent.StateElement.LeafIndex == types.UnassignedLeafIndex
						}
						if child {
							cs.Class("block-children-left-out-of-the-set")
							continue
						}
					}
					keptTxns = append(keptTxns, t)
					set = append(set, t.DeepCopy())
					k := "block"
					if len(n.Block.Transactions) == 0 && i < len(n.Kinds) {
						k = n.Kinds[i]
					}
					kinds = append(kinds, k)
				}
				bb.Absorb(n.Block.Transactions, keptTxns)
				cs.Class("set-starts-with-a-block's-transactions")
				break
			}
		}
	}
	for _, in := range c.Extra {
		bb.Add(in)
	}
	var outside []types.V2Transaction // unconfirmed parents that are not handed over
	if c.ChildrenOnly && len(set) > 0 {
		outside, set, kinds = set, nil, nil
		cs.Class("children-only-set(parents-outside)")
	}
	set = append(set, bb.V2Txns...)
	kinds = append(kinds, bb.V2TxnKinds...)
	if len(set) == 0 {
		cs.Class("empty-set")
		return nil
	}
	// sanity: the set really is valid at from (core decides)
	ms := consensus.NewMidState(from.Ledger.State)
	for _, t := range outside {
		if verr := consensus.ValidateV2Transaction(ms, t); verr != nil {
			return fmt.Errorf("INFRA: outside parent invalid at its basis: %v", verr)
		}
		ms.ApplyV2Transaction(t)
	}
	for i, t := range set {
		if verr := consensus.ValidateV2Transaction(ms, t); verr != nil {
			return fmt.Errorf("INFRA: generated set member %d (%s) is not valid at its basis: %v", i, kinds[i], verr)
		}
		ms.ApplyV2Transaction(t)
	}
	inputEnc := make([][]byte, len(set))
	for i := range set {
		inputEnc[i] = encV2(set[i])
	}

	// ---- path and expectations -------------------------------------------
	lca := kit.LCA(from, to)
	var reverted, appliedPath []*kit.TNode
	for n := from; n != lca; n = n.Parent {
		reverted = append(reverted, n)
	}
	for n := to; n != lca; n = n.Parent {
		appliedPath = append([]*kit.TNode{n}, appliedPath...)
	}
	dist := len(reverted) + len(appliedPath)
	confirmed := map[types.TransactionID]bool{}
	for _, n := range appliedPath {
		for _, t := range n.Block.V2Transactions() {
			confirmed[t.ID()] = true
		}
	}
	bothApplied := true
	for _, n := range append(append([]*kit.TNode{}, reverted...), appliedPath...) {
		if !applied[n.ID] {
			bothApplied = false
		}
	}
	if !applied[from.ID] || !applied[to.ID] {
		bothApplied = false
	}

	basis := from.Index()
	work := make([]types.V2Transaction, len(set))
	for i := range set {
		work[i] = set[i].DeepCopy()
	}
	switch c.Corrupt {
	case 1, 2:
		done := false
		for i := range work {
			for j := range work[i].SiacoinInputs {
				se := &work[i].SiacoinInputs[j].Parent.StateElement
				if se.LeafIndex == types.UnassignedLeafIndex || done {
					continue
				}
				if c.Corrupt == 1 && len(se.MerkleProof) > 0 {
					se.MerkleProof[0][0] ^= 1
					done = true
				} else if c.Corrupt == 2 {
					se.LeafIndex ^= 1
					done = true
				}
			}
		}
		if !done {
			c.Corrupt = 0
		}
	case 3:
		basis.ID = types.BlockID(types.HashBytes([]byte("no such block")))
	case 4, 5, 6, 7, 8, 9:
		real := basis.Height
		switch c.Corrupt {
		case 4:
			basis.Height += 3
		case 5:
			basis.Height++
		case 6:
			basis.Height--
		case 7:
			basis.Height = to.Height
		case 8:
			basis.Height = 0
		case 9:
			basis.Height = ^uint64(0)
		}
		if basis.Height == real {
			c.Corrupt = 0
		} else {
			c.Corrupt = 4
		}
	}
	where := fmt.Sprintf("UpdateV2TransactionSet(%d txns %v, from %v, to %v; -%d +%d, corrupt=%d)", len(work), kinds, basis, to.Index(), len(reverted), len(appliedPath), c.Corrupt)

	out, uerr := node.CM.UpdateV2TransactionSet(work, basis, to.Index())
	cs.Classf("corrupt=%d", c.Corrupt)
	if c.Corrupt != 0 {
		if c.Corrupt == 4 {
			if uerr == nil {
				return fmt.Errorf("%s: a basis naming a known block at a height it does not have was accepted", where)
			}
			return nil
		}
		if uerr == nil && basis != to.Index() {
			return fmt.Errorf("%s: a corrupted proof / unknown basis was accepted", where)
		}
		return nil
	}
	if !bothApplied {
		cs.Class("path-through-never-applied-blocks")
		if uerr != nil {
			return nil // such blocks carry no supplement and are legitimately refused
		}
		// not refused: then the result is held to the same standard as any other
		cs.Class("path-through-never-applied-blocks:accepted")
	}
	if len(reverted) > 0 && len(appliedPath) > 0 {
		cs.Class("path:revert+apply")
		cs.NonTrivial()
	} else if len(reverted) > 0 {
		cs.Class("path:revert-only")
	} else if len(appliedPath) > 0 {
		cs.Class("path:apply-only")
	} else {
		cs.Class("path:empty")
	}
	if dist > 144 {
		if uerr == nil {
			return fmt.Errorf("%s: path of %d blocks accepted, the supported distance is 144", where, dist)
		}
		return nil
	}
	// expected survivors
	var wantIdx []int
	for i, t := range set {
		if !confirmed[t.ID()] {
			wantIdx = append(wantIdx, i)
		}
	}
	// an input that was created on the reverted side does not exist at `to`:
	// the call may (must) fail then; likewise inputs spent on the path make
	// the result unusable, which the API reports or not - not asserted
	missing := false
	createdInSet := map[types.Hash256]bool{}
	for _, i := range wantIdx {
		t := set[i]
		txid := t.ID()
		for k := range t.SiacoinOutputs {
			createdInSet[types.Hash256(t.SiacoinOutputID(txid, k))] = true
		}
		for k := range t.SiafundOutputs {
			createdInSet[types.Hash256(t.SiafundOutputID(txid, k))] = true
		}
		for k := range t.FileContracts {
			createdInSet[types.Hash256(t.V2FileContractID(txid, k))] = true
		}
	}
	eachInput := func(t *types.V2Transaction, fn func(id types.Hash256, se *types.StateElement)) {
		for k := range t.SiacoinInputs {
			fn(types.Hash256(t.SiacoinInputs[k].Parent.ID), &t.SiacoinInputs[k].Parent.StateElement)
		}
		for k := range t.SiafundInputs {
			fn(types.Hash256(t.SiafundInputs[k].Parent.ID), &t.SiafundInputs[k].Parent.StateElement)
		}
		for k := range t.FileContractRevisions {
			fn(types.Hash256(t.FileContractRevisions[k].Parent.ID), &t.FileContractRevisions[k].Parent.StateElement)
		}
		for k := range t.FileContractResolutions {
			fn(types.Hash256(t.FileContractResolutions[k].Parent.ID), &t.FileContractResolutions[k].Parent.StateElement)
		}
	}
	everLive := func(id types.Hash256) bool { // live at some ledger between lca and to
		for n := to; n != nil; n = n.Parent {
			if _, ok := expectElement(n.Ledger, id); ok {
				return true
			}
			if n == lca {
				break
			}
		}
		return false
	}
	for _, i := range wantIdx {
		t := set[i]
		eachInput(&t, func(id types.Hash256, se *types.StateElement) {
			if _, ok := expectElement(to.Ledger, id); !ok && !createdInSet[id] && !everLive(id) {
				missing = true
			}
			// created on the reverted side (even if a block of the applied side
			// creates the same id again): the element does not survive the revert
			if se.LeafIndex != types.UnassignedLeafIndex && len(reverted) > 0 && se.LeafIndex >= lca.Ledger.State.Elements.NumLeaves {
				missing = true
			}
		})
	}
	for _, i := range wantIdx {
		for _, r := range set[i].FileContractResolutions {
			if sp, ok := r.Resolution.(*types.V2StorageProof); ok {
				if e, ok := to.Ledger.CIE[sp.ProofIndex.ChainIndex.Height]; !ok || e.ID != sp.ProofIndex.ID {
					missing = true // the proof's chain index does not exist on the target chain
				}
			}
		}
	}
	if missing {
		cs.Class("input-does-not-exist-on-target-chain")
		if uerr == nil {
			// proofs of nonexistent elements cannot be right and are not
			// examined; but whatever is returned without an error must still be
			// the input minus the members confirmed on the path, in order - a
			// member that cannot be carried over is an error, never a silent drop
			if len(out) != len(wantIdx) {
				return fmt.Errorf("%s: returned %d transactions without an error, expected the %d that are not confirmed on the path (a member whose input does not exist on the target chain was dropped silently)", where, len(out), len(wantIdx))
			}
			for k, i := range wantIdx {
				if out[k].ID() != set[i].ID() {
					return fmt.Errorf("%s: result[%d] is %v, expected input[%d] = %v", where, k, out[k].ID(), i, set[i].ID())
				}
			}
			cs.Class("input-does-not-exist-on-target-chain:accepted")
			return nil
		}
		cs.Class("input-does-not-exist-on-target-chain:refused")
		return nil
	}
	if uerr != nil {
		return fmt.Errorf("%s: failed: %v", where, uerr)
	}
	if len(out) != len(wantIdx) {
		return fmt.Errorf("%s: returned %d transactions, expected the %d that are not confirmed on the path", where, len(out), len(wantIdx))
	}
	ephConfirmed, spentAtTarget := false, false
	for k, i := range wantIdx {
		if out[k].ID() != set[i].ID() {
			return fmt.Errorf("%s: result[%d] is %v, expected input[%d] = %v (order must be kept)", where, k, out[k].ID(), i, set[i].ID())
		}
		var ierr error
		orig := set[i]
		pos := 0
		var origSE []types.StateElement
		eachInput(&orig, func(id types.Hash256, se *types.StateElement) { origSE = append(origSE, *se) })
		eachInput(&out[k], func(id types.Hash256, se *types.StateElement) {
			defer func() { pos++ }()
			want, live := expectElement(to.Ledger, id)
			if createdInSet[id] {
				return
			}
			if !live {
				// spent on the target chain by another transaction: the leaf is
				// still in the accumulator (spent flag set) and the statement
				// speaks of every input, so the returned element must name it
				sp, ok := to.Ledger.Spent[id]
				if !ok {
					return
				}
				want = sp
				spentAtTarget = true
				if origSE[pos].LeafIndex == types.UnassignedLeafIndex {
					cs.Class("ephemeral-input-confirmed-and-spent-by-another-transaction-on-path")
				}
			}
			if origSE[pos].LeafIndex == types.UnassignedLeafIndex {
				ephConfirmed = true
			}
			if seBytes(*se) != seBytes(want) && ierr == nil {
				ierr = fmt.Errorf("input %v of result[%d]: state element (leaf %d, %d proof hashes) differs from the ledger's at the target (leaf %d, %d hashes)", id, k, se.LeafIndex, len(se.MerkleProof), want.LeafIndex, len(want.MerkleProof))
			}
		})
		if ierr != nil {
			return fmt.Errorf("%s: %w", where, ierr)
		}
		// storage proof chain index elements
		for r := range out[k].FileContractResolutions {
			if sp, ok := out[k].FileContractResolutions[r].Resolution.(*types.V2StorageProof); ok {
				if want, ok := to.Ledger.CIE[sp.ProofIndex.ChainIndex.Height]; ok && want.ID == sp.ProofIndex.ID {
					if seBytes(sp.ProofIndex.StateElement) != seBytes(want.StateElement) {
						return fmt.Errorf("%s: storage proof index element of result[%d] differs from the ledger's", where, k)
					}
				}
			}
		}
	}
	if ephConfirmed {
		cs.Class("ephemeral-input-confirmed-on-path")
		cs.NonTrivial()
	}
	if spentAtTarget {
		cs.Class("input-spent-by-another-transaction-at-target:proof-compared")
		cs.NonTrivial()
	}
	if len(wantIdx) < len(set) {
		cs.Class("members-confirmed-on-path")
	}
	// full validity where nothing height-dependent is involved and nothing on
	// the path touched the inputs
	allTimeless, untouched := true, true
	for _, i := range wantIdx {
		if !timeless(kinds[i]) {
			allTimeless = false
		}
		t := set[i]
		eachInput(&t, func(id types.Hash256, se *types.StateElement) {
			if _, ok := expectElement(to.Ledger, id); !ok && !createdInSet[id] {
				untouched = false
			}
		})
		// height dependence: maturity of the inputs, and contracts whose content
		// differs at the target (revised on the path)
		for _, sci := range t.SiacoinInputs {
			if sci.Parent.MaturityHeight > to.Height+1 {
				untouched = false
			}
		}
		for _, r := range t.FileContractRevisions {
			if e, ok := to.Ledger.V2FCE[r.Parent.ID]; ok && !bytes.Equal(refl.Enc(e.V2FileContract), refl.Enc(r.Parent.V2FileContract)) {
				untouched = false
			}
		}
		for _, r := range t.FileContractResolutions {
			if e, ok := to.Ledger.V2FCE[r.Parent.ID]; ok && !bytes.Equal(refl.Enc(e.V2FileContract), refl.Enc(r.Parent.V2FileContract)) {
				untouched = false
			}
		}
	}
	if untouched {
		// every input is live at the target: the whole result must verify
		// against the target accumulator
		for k := range out {
			if verr := to.Ledger.State.Elements.ValidateTransactionElements(out[k]); verr != nil {
				return fmt.Errorf("%s: result[%d] does not verify against the target accumulator: %v", where, k, verr)
			}
		}
	}
	// (an ephemeral siafund input carries a claim start taken from the basis;
	// core does not verify it below the ephemeral-output hardfork height and
	// computing the claim against a target with less revenue underflows - such
	// sets are height dependent and left out of this clause)
	claimOK := true
	for k := range out {
		for _, sfi := range out[k].SiafundInputs {
			if sfi.Parent.ClaimStart.Cmp(to.Ledger.State.SiafundTaxRevenue) > 0 {
				claimOK = false
			}
		}
	}
	if allTimeless && untouched && claimOK && to.Height+1 >= allow {
		ms := consensus.NewMidState(to.Ledger.State)
		for k := range out {
			if verr := consensus.ValidateV2Transaction(ms, out[k]); verr != nil {
				return fmt.Errorf("%s: result[%d] (%s) is not valid at the target although nothing on the path spent its inputs: %v", where, k, kinds[wantIdx[k]], verr)
			}
			ms.ApplyV2Transaction(out[k])
		}
		cs.Class("result-validated-at-target")
	}

	// ---- pool family ---------------------------------------------------------
	if c.Pool {
		tip := node.TipNode()
		if tip == nil || tip.Ledger == nil || !applied[from.ID] {
			return nil
		}
		callerSet := make([]types.V2Transaction, len(set))
		for i := range set {
			callerSet[i] = set[i].DeepCopy()
		}
		_, perr := node.CM.AddV2PoolTransactions(from.Index(), callerSet)
		for i := range callerSet {
			if !bytes.Equal(encV2(callerSet[i]), inputEnc[i]) {
				return fmt.Errorf("AddV2PoolTransactions(basis %v) modified the caller's transaction %d", from.Index(), i)
			}
		}
		if perr != nil {
			cs.Class("pool:rejected")
			return nil
		}
		cs.Class("pool:accepted")
		pool := node.CM.V2PoolTransactions()
		if len(pool) == 0 {
			return nil
		}
		poolIDs := map[types.TransactionID]int{}
		for i, t := range pool {
			poolIDs[t.ID()] = i
		}
		// ask for the broadcastable set of every pooled transaction - with the
		// pool's copy and basis = tip, and (where the caller still has it) with
		// the caller's original copy and its original basis
		origByID := map[types.TransactionID]types.V2Transaction{}
		for i := range set {
			origByID[set[i].ID()] = set[i]
		}
		type ask struct {
			basis types.ChainIndex
			txn   types.V2Transaction
		}
		var asks []ask
		for _, target := range pool {
			asks = append(asks, ask{tip.Index(), target})
			if o, ok := origByID[target.ID()]; ok && from.Index() != tip.Index() && dist <= 144 {
				asks = append(asks, ask{from.Index(), o})
			}
		}
		type keptSet struct {
			target types.TransactionID
			basis  types.ChainIndex
			set    []types.V2Transaction
			enc    [][]byte
		}
		var kept []keptSet
		for _, a := range asks {
			target := a.txn
			arg := target.DeepCopy()
			argEnc := encV2(arg)
			if a.basis != tip.Index() {
				cs.Class("broadcast-set-asked-with-stale-basis")
			}
			gotBasis, got, serr := node.CM.V2TransactionSet(a.basis, arg)
			if !bytes.Equal(encV2(arg), argEnc) {
				return fmt.Errorf("V2TransactionSet modified the caller's transaction")
			}
			if serr != nil {
				return fmt.Errorf("V2TransactionSet(basis %v, pooled %v) with tip %v failed: %v", a.basis, target.ID(), tip.Index(), serr)
			}
			if gotBasis != tip.Index() {
				return fmt.Errorf("V2TransactionSet returned basis %v, tip is %v", gotBasis, tip.Index())
			}
			if len(got) == 0 || got[len(got)-1].ID() != target.ID() {
				return fmt.Errorf("V2TransactionSet: the last element is not the requested transaction")
			}
			// the same request with one proof of the caller's transaction broken
			// (a hash flipped, or the leaf index moved to the sibling): invalid
			// proofs are rejected with an error, whatever the basis - also when
			// it is the tip itself and there is no path to walk
			for variant := 1; variant <= 2; variant++ {
				bad := target.DeepCopy()
				done := false
				for j := range bad.SiacoinInputs {
					se := &bad.SiacoinInputs[j].Parent.StateElement
					if se.LeafIndex == types.UnassignedLeafIndex || done {
						continue
					}
					if variant == 1 && len(se.MerkleProof) > 0 {
						se.MerkleProof[0][0] ^= 1
						done = true
					} else if variant == 2 {
						se.LeafIndex ^= 1
						done = true
					}
				}
				if !done {
					continue
				}
				var berr error
				func() {
					defer func() {
						if r := recover(); r != nil {
							berr = fmt.Errorf("panicked: %v", r)
						}
					}()
					_, bgot, e := node.CM.V2TransactionSet(a.basis, bad)
					if e == nil {
						berr = fmt.Errorf("returned %d transactions and no error", len(bgot))
					}
				}()
				if berr != nil {
					return fmt.Errorf("V2TransactionSet(basis %v, tip %v) of pooled %v with a broken proof (variant %d: 1 hash flipped, 2 leaf index moved): %v", a.basis, tip.Index(), target.ID(), variant, berr)
				}
				if a.basis == tip.Index() {
					cs.Class("broadcast-set-asked-with-broken-proof:basis=tip:refused")
				} else {
					cs.Class("broadcast-set-asked-with-broken-proof:stale-basis:refused")
				}
			}
			created := map[types.Hash256]bool{}
			hasParent := false
			for gi := range got {
				g := got[gi]
				var oerr error
				eachInput(&g, func(id types.Hash256, se *types.StateElement) {
					if se.LeafIndex == types.UnassignedLeafIndex && !created[id] && oerr == nil {
						oerr = fmt.Errorf("V2TransactionSet for %v: element %d (%v) spends ephemeral output %v whose creating transaction does not come earlier in the set (set ids in order: %v)", target.ID(), gi, g.ID(), id, txIDs(got))
					}
				})
				if oerr != nil {
					return oerr
				}
				gid := g.ID()
				for k := range g.SiacoinOutputs {
					created[types.Hash256(g.SiacoinOutputID(gid, k))] = true
				}
				for k := range g.SiafundOutputs {
					created[types.Hash256(g.SiafundOutputID(gid, k))] = true
				}
				for k := range g.FileContracts {
					created[types.Hash256(g.V2FileContractID(gid, k))] = true
				}
				if gi < len(got)-1 {
					hasParent = true
					if _, ok := poolIDs[gid]; !ok {
						return fmt.Errorf("V2TransactionSet returned a parent %v that is not pooled", gid)
					}
				}
			}
			kept = append(kept, keptSet{target.ID(), gotBasis, got, encV2s(got)})
			if hasParent {
				cs.Class("broadcast-set-with-parents")
				if len(got) > 2 {
					cs.Class("broadcast-set-with->=2-parents")
				}
				// a fresh node at the same tip accepts it
				twin, terr := linearTwin(tr, tip)
				if terr != nil {
					return terr
				}
				_, aerr := twin.CM.AddV2PoolTransactions(gotBasis, got)
				twin.Close()
				if aerr != nil {
					return fmt.Errorf("the set V2TransactionSet assembled for %v is rejected by a fresh node at the same tip: %v (ids %v)", target.ID(), aerr, txIDs(got))
				}
			}
		}
		// a block confirming only the first pool transaction, and as the very
		// next pool access the broadcast set of a transaction with pooled
		// parents that has nothing to do with it: same parents as before
		l := tip.Ledger
		if len(pool) >= 3 {
			firstID := pool[0].ID()
			for _, ks := range kept {
				if len(ks.set) < 2 || ks.target == firstID {
					continue
				}
				related := false
				for _, m := range ks.set {
					if m.ID() == firstID {
						related = true
					}
				}
				if related {
					continue
				}
				b := kit.AssembleBlock(l.State, l.Block.Timestamp.Add(1e9), kit.Actors[3].Addr, nil, []types.V2Transaction{pool[0]}, 6999)
				nl, aerr := l.Apply(b, nil)
				if aerr != nil {
					break
				}
				if aerr := node.CM.AddBlocks([]types.Block{b}); aerr != nil {
					return fmt.Errorf("a block confirming the first pool transaction, accepted by the reference, was rejected: %v", aerr)
				}
				gotBasis, got, serr := node.CM.V2TransactionSet(ks.basis, ks.set[len(ks.set)-1].DeepCopy())
				if _, still := node.CM.V2PoolTransaction(ks.target); still {
					allThere := true
					for _, m := range ks.set {
						if _, ok := node.CM.V2PoolTransaction(m.ID()); !ok {
							allThere = false
						}
					}
					if allThere {
						if serr != nil {
							return fmt.Errorf("V2TransactionSet as the first pool access after a block that confirmed an unrelated earlier pool transaction failed: %v", serr)
						}
						if gotBasis != nl.Index() || fmt.Sprint(txIDs(got)) != fmt.Sprint(txIDs(ks.set)) {
							return fmt.Errorf("V2TransactionSet for %v as the first pool access after a block that confirmed the unrelated first pool transaction returned %v (basis %v), before the block it was %v", ks.target, txIDs(got), gotBasis, txIDs(ks.set))
						}
						cs.Class("broadcast-set-first-access-after-unrelated-confirmation")
					}
				}
				l = nl
				// the kept sets now refer to an older tip; refresh them for the next phase
				kept = kept[:0]
				for _, target := range node.CM.V2PoolTransactions() {
					if b2, g2, e2 := node.CM.V2TransactionSet(l.Index(), target.DeepCopy()); e2 == nil {
						kept = append(kept, keptSet{target.ID(), b2, g2, encV2s(g2)})
					}
				}
				break
			}
		}
		// the caller keeps the assembled sets (as a wallet does for
		// re-broadcasting) while the tip moves: they are the caller's own
		// values, so nothing the pool does afterwards may show in them
		for k := 0; k < 6; k++ {
			b := kit.AssembleBlock(l.State, l.Block.Timestamp.Add(1e9), kit.Actors[k%kit.NumActors].Addr, nil, nil, uint64(7000+k))
			nl, aerr := l.Apply(b, nil)
			if aerr != nil {
				break
			}
			if aerr := node.CM.AddBlocks([]types.Block{b}); aerr != nil {
				return fmt.Errorf("empty block on the tip, accepted by the reference, was rejected: %v", aerr)
			}
			l = nl
			_ = node.CM.V2PoolTransactions()
			for _, ks := range kept {
				if !sameEnc(ks.enc, encV2s(ks.set)) {
					return fmt.Errorf("the set returned by V2TransactionSet for %v (basis %v, %d transactions) changed in the caller's hands after %d further block(s)", ks.target, ks.basis, len(ks.set), k+1)
				}
			}
			cs.Class("kept-broadcast-set-across-tip-change")
		}
		snap := encV2s(node.CM.V2PoolTransactions())
		for _, ks := range kept {
			for i := range ks.set {
				mutateV2(&ks.set[i], i)
			}
		}
		if !sameEnc(snap, encV2s(node.CM.V2PoolTransactions())) {
			return fmt.Errorf("writing to the transactions V2TransactionSet returned changed the pool")
		}
	}
	return nil
}

func txIDs(txns []types.V2Transaction) []string {
	var out []string
	for _, t := range txns {
		out = append(out, t.ID().String()[:8])
	}
	return out
}

var c13Prop = kit.Prop[C13Case]{
	ID:   "C13",
	Rule: "rapid fork trees (v2 reachable) fed to one manager; (from, to) drawn from all valid nodes; a v2 transaction set valid at from (optionally starting with the transactions of a child block of from, plus payments, two-input merges, siafund spends, contract formations/revisions/renewals/proofs/expirations with ephemeral parents) built on the reference ledger and confirmed valid by core. UpdateV2TransactionSet on a deep copy must return the input order minus members confirmed on the path, every input that is live at the target must carry exactly the ledger's leaf index and proof (including ephemeral inputs confirmed on the way), everything must verify against the target accumulator, and - for height-independent kinds whose inputs nothing on the path touched - validate under core at the target. Corrupted proofs / unknown bases must be refused; nothing may panic. Pool family: the set is pooled with its (possibly old) basis without modifying the caller's values; V2TransactionSet for every pooled transaction must return basis = tip, creators before spenders, the transaction last, leave its argument untouched, and be accepted by a fresh node; the returned sets are kept while six more blocks arrive and must not change in the caller's hands, and writing to them must not change the pool. Non-trivial = a path with reverts and applies, or an ephemeral input confirmed midway.",
	Assumptions: []string{
		"from/to are asserted only when every block on the path was applied by the manager at some time (others carry no supplement and are legitimately refused)",
		"UpdateV2TransactionSet documents that it may modify its argument; only AddV2PoolTransactions and V2TransactionSet are held to 'caller's values unchanged'",
		"the 144-block distance rule is asserted exactly on linear paths (TestC13Distance), with a one-step band on fork-shaped paths",
	},
	Gen: genC13,
	Run: runC13,
}

func TestC13(t *testing.T) { c13Prop.Main(t) }

// TestC13Distance pins the supported distance on linear paths in both
// directions: 144 works, 145 is refused, with an error and no panic.
func TestC13Distance(t *testing.T) {
	d := kit.NewDirect(t, "C13", "linear chain of 150 empty v2 blocks; one payment valid at a base index is rebased forward and backward over distances 0, 1, 143, 144 (must succeed with the ledger's proof) and 145, 146, 149 (must be refused with an error)")
	defer d.Done()
	tc := kit.TreeCase{Net: kit.NetSpec{Maturity: 1, Allow: 1, ReqOff: 0, CutOff: 2}}
	for i := 0; i < 150; i++ {
		tc.Blocks = append(tc.Blocks, kit.BlockSpec{Dt: 1, Miner: i % 4})
	}
	tr := kit.BuildTree(tc)
	node, err := kit.NewNode(tr, "mem")
	if err != nil {
		t.Fatal(err)
	}
	defer node.Close()
	for _, n := range tr.Nodes {
		if err := node.Submit([]types.Block{n.Block}); err != nil {
			t.Fatalf("INFRA: %v", err)
		}
	}
	type dcase struct {
		From, To int
	}
	at := func(h int) *kit.TNode {
		if h == 0 {
			return tr.Root
		}
		return tr.Nodes[h-1]
	}
	for _, dist := range []int{0, 1, 143, 144, 145, 146, 149} {
		for _, dir := range []int{1, -1} {
			fromH, toH := 0, dist
			if dir < 0 {
				fromH, toH = 149, 149-dist
			}
			from, to := at(fromH), at(toH)
			// a payment whose input exists at both ends (a genesis output)
			var set []types.V2Transaction
			for pick := 0; pick < 64 && set == nil; pick++ {
				bb := kit.NewBlockBuilder(from.Ledger)
				if bb.Add(kit.Intent{Kind: "v2pay", Who: 0, To: 1, Pick: pick, Amt: 3}) {
					if _, ok := to.Ledger.SCE[bb.V2Txns[0].SiacoinInputs[0].Parent.ID]; ok {
						set = []types.V2Transaction{bb.V2Txns[0].DeepCopy()}
					}
				}
			}
			if set == nil {
				t.Fatalf("INFRA: cannot build payment")
			}
			var cerr error
			func() {
				defer func() {
					if r := recover(); r != nil {
						cerr = fmt.Errorf("distance %d (%d -> %d): panic: %v", dist, fromH, toH, r)
					}
				}()
				out, uerr := node.CM.UpdateV2TransactionSet(set, from.Index(), to.Index())
				switch {
				case dist <= 144 && uerr != nil:
					cerr = fmt.Errorf("distance %d (%d -> %d) refused: %v", dist, fromH, toH, uerr)
				case dist > 144 && uerr == nil:
					cerr = fmt.Errorf("distance %d (%d -> %d) accepted, the supported distance is 144", dist, fromH, toH)
				case dist <= 144:
					want, ok := expectElement(to.Ledger, types.Hash256(set[0].SiacoinInputs[0].Parent.ID))
					if !ok || len(out) != 1 || seBytes(out[0].SiacoinInputs[0].Parent.StateElement) != seBytes(want) {
						cerr = fmt.Errorf("distance %d (%d -> %d): proof differs from the ledger's", dist, fromH, toH)
					}
				}
			}()
			cs := &kit.CaseStats{}
			cs.NonTrivial()
			cs.Classf("distance=%d", dist)
			d.Case(dcase{fromH, toH}, cs, cerr)
		}
	}
}
