package pchain

import (
	"fmt"
	"testing"

	"go.sia.tech/core/consensus"
	"go.sia.tech/core/types"

	"verif/kit"
)

// TestC13UnvalidatedParent: blocks handed to AddValidatedV2Blocks are marked
// as validated; proof updates later walk across such blocks using the stored
// state of their parent. If that parent was merely stored by AddBlocks (a
// lighter fork block: header-derived state only), the walk computes with a
// state that never saw the parent's transactions. The manager must either
// refuse the pre-validated batch or answer later rebasing calls with correct
// results or an error - never with a panic (F-C13-3).
//
//	T0 <- T1 <- ... <- T5                  applied
//	T0 <- F1[form contract, siafund move]  AddBlocks: stored, not applied
//	      F1 <- F2[spend the new siafund]  AddValidatedV2Blocks
//	rebase a payment from F2 to the tip
func TestC13UnvalidatedParent(t *testing.T) {
	d := kit.NewDirect(t, "C13", "unvalidated-parent family: a lighter fork block stored by AddBlocks (header-derived state only) that raises the siafund tax revenue and moves a siafund output, a child spending that output delivered through AddValidatedV2Blocks, then UpdateV2TransactionSet / AddV2PoolTransactions / V2TransactionSet with a basis on the child: the batch is refused, or every later call returns an error or a result that verifies - no panic")
	defer d.Done()
	type ucase struct {
		Who int `json:"who"`
	}
	for _, uc := range []ucase{{0}, {1}, {2}} {
		cs := &kit.CaseStats{}
		cs.NonTrivial()
		err := func() (err error) {
			tc := kit.TreeCase{Net: kit.NetSpec{Maturity: 1, Allow: 1, ReqOff: 0, CutOff: 300}}
			for i := 0; i < 6; i++ {
				tc.Blocks = append(tc.Blocks, kit.BlockSpec{Dt: 1, Miner: i % 4})
			}
			// fork from the first block: F1 with a contract formation and a siafund move
			tc.Blocks = append(tc.Blocks, kit.BlockSpec{Dt: 2, Miner: 3, Back: 5, Txs: []kit.Intent{
				{Kind: "form", V2: true, Who: (uc.Who + 1) % 4, To: (uc.Who + 2) % 4, Pick: 1, Amt: 7, A: 9, B: 5},
				{Kind: "sf", V2: true, Who: uc.Who, To: uc.Who, Pick: 0, Amt: 3},
			}})
			tr := kit.BuildTree(tc)
			f1 := tr.Nodes[6]
			if f1.Ledger == nil {
				return fmt.Errorf("INFRA: fork block invalid: %v", f1.Err)
			}
			if f1.Ledger.State.SiafundTaxRevenue.Cmp(f1.Parent.Ledger.State.SiafundTaxRevenue) <= 0 {
				return fmt.Errorf("INFRA: the fork block does not raise the tax revenue (skipped intents: %v)", f1.Skipped)
			}
			// F2: spend a siafund output F1 created
			var f2 types.Block
			f2l := f1.Ledger
			found := false
			for pick := 0; pick < 12 && !found; pick++ {
				bb := kit.NewBlockBuilder(f1.Ledger)
				if !bb.Add(kit.Intent{Kind: "sf", V2: true, Who: uc.Who, To: (uc.Who + 1) % 4, Pick: pick, Amt: 1}) || len(bb.V2Txns) == 0 {
					continue
				}
				txn := bb.V2Txns[0]
				for _, in := range txn.SiafundInputs {
					if !in.Parent.ClaimStart.IsZero() {
						found = true
					}
				}
				if found {
					f2 = kit.AssembleBlock(f1.Ledger.State, f1.Block.Timestamp.Add(1e9), kit.Actors[1].Addr, nil, []types.V2Transaction{txn}, 4242)
					nl, aerr := f1.Ledger.Apply(f2, nil)
					if aerr != nil {
						return fmt.Errorf("INFRA: F2 invalid: %v", aerr)
					}
					f2l = nl
				}
			}
			if !found {
				return fmt.Errorf("INFRA: no siafund output with a non-zero claim start to spend")
			}
			node, nerr := kit.NewNode(tr, "mem")
			if nerr != nil {
				return fmt.Errorf("INFRA: %v", nerr)
			}
			defer node.Close()
			for _, n := range tr.Nodes[:6] {
				if err := node.Submit([]types.Block{n.Block}); err != nil {
					return fmt.Errorf("INFRA: %v", err)
				}
			}
			if err := node.CM.AddBlocks([]types.Block{f1.Block}); err != nil {
				return fmt.Errorf("INFRA: lighter fork block refused: %v", err)
			}
			if node.CM.Tip() != tr.Nodes[5].Index() {
				return fmt.Errorf("INFRA: the fork block moved the tip")
			}
			if verr := node.CM.AddValidatedV2Blocks([]types.Block{f2}, []consensus.State{f2l.State}); verr != nil {
				cs.Class("unvalidated-parent:batch-refused")
				return nil
			}
			cs.Class("unvalidated-parent:batch-accepted")
			// a payment valid at F2, to be carried to the tip
			bb := kit.NewBlockBuilder(f2l)
			if !bb.Add(kit.Intent{Kind: "pay", V2: true, Who: (uc.Who + 3) % 4, To: uc.Who, Pick: 2, Amt: 3}) || len(bb.V2Txns) == 0 {
				return fmt.Errorf("INFRA: cannot build a payment at F2")
			}
			set := []types.V2Transaction{bb.V2Txns[0].DeepCopy()}
			tip := tr.Nodes[5]
			defer func() {
				if r := recover(); r != nil {
					err = fmt.Errorf("a pre-validated block on top of a block that AddBlocks had only stored was accepted; rebasing a transaction set from it to the tip then panicked: %v", r)
				}
			}()
			out, uerr := node.CM.UpdateV2TransactionSet(set, f2l.Index(), tip.Index())
			if uerr == nil {
				for k := range out {
					if verr := tip.Ledger.State.Elements.ValidateTransactionElements(out[k]); verr != nil {
						return fmt.Errorf("UpdateV2TransactionSet from %v (pre-validated on an unvalidated parent) to the tip returned no error and proofs that do not verify: %v", f2l.Index(), verr)
					}
				}
			}
			_, _ = node.CM.AddV2PoolTransactions(f2l.Index(), []types.V2Transaction{bb.V2Txns[0].DeepCopy()})
			_, _, _ = node.CM.V2TransactionSet(f2l.Index(), bb.V2Txns[0].DeepCopy())
			return nil
		}()
		if err != nil {
			err = fmt.Errorf("%+v: %w", uc, err)
		}
		d.Case(uc, cs, err)
	}
}
