package pchain

import (
	"fmt"
	"testing"

	"go.sia.tech/core/types"

	"verif/kit"
)

// TestC14Diamond enumerates small dependency shapes among pooled transactions
// (chain, diamond with either input order, double diamond) in v1 and v2 and
// checks that the parent queries return every pooled ancestor exactly once,
// creators before spenders, and that the assembled set is accepted by a fresh
// node at the same tip.
func TestC14Diamond(t *testing.T) {
	d := kit.NewDirect(t, "C14", "enumerated dependency shapes among pooled transactions (chain of 3, diamond with both input orders, double diamond; v1 and v2; overlap and single-version regimes): UnconfirmedParents / V2TransactionSet return all pooled ancestors once, creators before spenders, and the set [parents..., txn] is accepted by a fresh node")
	defer d.Done()
	type dcase struct {
		V2     bool   `json:"v2"`
		Shape  string `json:"shape"`
		Regime int    `json:"regime"`
	}
	shapes := map[string][]kit.Intent{
		// A: who->who (two outputs to who); later intents pick ephemeral outputs
		"chain3":         {{Kind: "pay", Who: 0, To: 0, Amt: 4}, {Kind: "pay", Who: 0, To: 0, Amt: 4, Eph: true, Pick: 0}, {Kind: "pay", Who: 0, To: 0, Amt: 4, Eph: true, Pick: 0}},
		"diamond-ab":     {{Kind: "pay", Who: 0, To: 0, Amt: 4}, {Kind: "pay", Who: 0, To: 0, Amt: 4, Eph: true, Pick: 0}, {Kind: "merge", Who: 0, To: 0, Amt: 4, Eph: true, Pick: 0, A: 0}},
		"diamond-ba":     {{Kind: "pay", Who: 0, To: 0, Amt: 4}, {Kind: "pay", Who: 0, To: 0, Amt: 4, Eph: true, Pick: 0}, {Kind: "merge", Who: 0, To: 0, Amt: 4, Eph: true, Pick: 1, A: 1}},
		"double-diamond": {{Kind: "pay", Who: 0, To: 0, Amt: 4}, {Kind: "pay", Who: 0, To: 0, Amt: 4, Eph: true, Pick: 0}, {Kind: "merge", Who: 0, To: 0, Amt: 4, Eph: true, Pick: 0, A: 0}, {Kind: "pay", Who: 0, To: 0, Amt: 4, Eph: true, Pick: 1}, {Kind: "merge", Who: 0, To: 0, Amt: 4, Eph: true, Pick: 0, A: 1}},
	}
	for _, v2 := range []bool{false, true} {
		for name, intents := range shapes {
			for _, regime := range []int{0, 1, 2} {
				if v2 && regime == 2 || !v2 && regime == 1 {
					continue
				}
				hc := dcase{v2, name, regime}
				cs := &kit.CaseStats{}
				cs.NonTrivial()
				cs.Classf("diamond:%s/v2=%v", name, v2)
				d.Case(hc, cs, runDiamond(C14Case{Regime: regime}, v2, intents))
			}
		}
	}
}

func runDiamond(c C14Case, v2 bool, intents []kit.Intent) error {
	tr := kit.BuildTree(c14Tree(c))
	node, err := kit.NewNode(tr, "mem")
	if err != nil {
		return fmt.Errorf("INFRA: %v", err)
	}
	defer node.Close()
	for _, n := range tr.Nodes {
		if err := node.Submit([]types.Block{n.Block}); err != nil {
			return fmt.Errorf("INFRA: %v", err)
		}
	}
	tip := tr.Nodes[len(tr.Nodes)-1]
	bb := kit.NewBlockBuilder(tip.Ledger)
	for _, in := range intents {
		in.V2 = v2
		if in.Kind == "merge" {
			in.Kind = map[bool]string{true: "v2merge", false: "v1merge"}[v2]
		}
		if !bb.Add(in) {
			return fmt.Errorf("INFRA: cannot build %+v: %v", in, bb.Skipped)
		}
	}
	if v2 {
		set := bb.V2Txns
		// pool them one set at a time (each with the ancestors it needs)
		if _, err := node.CM.AddV2PoolTransactions(tip.Index(), set); err != nil {
			return fmt.Errorf("INFRA: pool rejected the shape: %v", err)
		}
		for _, target := range set {
			basis, got, err := node.CM.V2TransactionSet(tip.Index(), target.DeepCopy())
			if err != nil {
				return fmt.Errorf("V2TransactionSet(%v) failed: %v", target.ID(), err)
			}
			created := map[types.Hash256]bool{}
			for gi, g := range got {
				for _, in := range g.SiacoinInputs {
					if in.Parent.StateElement.LeafIndex == types.UnassignedLeafIndex && !created[types.Hash256(in.Parent.ID)] {
						return fmt.Errorf("V2TransactionSet for %v: element %d spends an output whose creator does not come earlier (order %v)", target.ID(), gi, txIDs(got))
					}
				}
				gid := g.ID()
				for k := range g.SiacoinOutputs {
					created[types.Hash256(g.SiacoinOutputID(gid, k))] = true
				}
			}
			twin, terr := linearTwin(tr, tip)
			if terr != nil {
				return terr
			}
			_, aerr := twin.CM.AddV2PoolTransactions(basis, got)
			twin.Close()
			if aerr != nil {
				return fmt.Errorf("the set assembled for %v is rejected by a fresh node: %v (order %v)", target.ID(), aerr, txIDs(got))
			}
			// the returned set is the caller's own memory
			snap := encV2s(node.CM.V2PoolTransactions())
			for i := range got {
				mutateV2(&got[i], i+1)
			}
			if !sameEnc(snap, encV2s(node.CM.V2PoolTransactions())) {
				return fmt.Errorf("mutating the set V2TransactionSet returned for %v (%d transactions) changed the pool", target.ID(), len(got))
			}
		}
		return nil
	}
	set := bb.Txns
	if _, err := node.CM.AddPoolTransactions(set); err != nil {
		return fmt.Errorf("INFRA: pool rejected the shape: %v", err)
	}
	for _, target := range set {
		parents := node.CM.UnconfirmedParents(target)
		created := map[types.Hash256]bool{}
		pooled := map[types.Hash256]bool{}
		for _, t := range set {
			for k := range t.SiacoinOutputs {
				pooled[types.Hash256(t.SiacoinOutputID(k))] = true
			}
		}
		full := append(append([]types.Transaction(nil), parents...), target)
		for gi, g := range full {
			for _, in := range g.SiacoinInputs {
				if pooled[types.Hash256(in.ParentID)] && !created[types.Hash256(in.ParentID)] {
					return fmt.Errorf("UnconfirmedParents for %v: element %d spends a pooled output whose creator does not come earlier", target.ID(), gi)
				}
			}
			for k := range g.SiacoinOutputs {
				created[types.Hash256(g.SiacoinOutputID(k))] = true
			}
		}
		twin, terr := linearTwin(tr, tip)
		if terr != nil {
			return terr
		}
		_, aerr := twin.CM.AddPoolTransactions(full)
		twin.Close()
		if aerr != nil {
			return fmt.Errorf("[UnconfirmedParents..., %v] is rejected by a fresh node: %v", target.ID(), aerr)
		}
	}
	return nil
}
