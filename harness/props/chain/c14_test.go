package pchain

import (
	"bytes"
	"fmt"
	"os"
	"sort"
	"testing"

	"go.sia.tech/core/types"
	"pgregory.net/rapid"

	"verif/kit"
)

// C14Op is one step of the pool-contract machine.
type C14Op struct {
	Op      string       `json:"op"` // submit1 submit2 lookup mutret mine
	Intents []kit.Intent `json:"intents,omitempty"`
	// Known: how many transactions from the front of the pool (of the same
	// kind) are put in front of the set ("partly known" sets).
	Known    int `json:"known,omitempty"`
	Conflict int `json:"conflict,omitempty"` // 0 none; k>0: a member conflicting with the pool is inserted at position k-1
	Invalid  int `json:"invalid,omitempty"`  // 0 none; k>0: member k-1 gets an invalid signature
	IDKind   int `json:"idkind,omitempty"`   // lookup: 0 pooled v1, 1 pooled v2, 2 confirmed, 3 random
	IDSel    int `json:"idsel,omitempty"`
	Mut      int `json:"mut,omitempty"`
}

// C14Case: base chain + ops.
type C14Case struct {
	Regime int          `json:"regime"` // 0 overlap (v1+v2), 1 v2 only, 2 v1 only
	Base   []kit.Intent `json:"base"`   // intents spread over the base chain
	Ops    []C14Op      `json:"ops"`
}

func genC14(t *rapid.T) C14Case {
	c := C14Case{Regime: []int{0, 0, 0, 1, 2}[kit.Uniform(t, 5, "regime")]}
	nb := rapid.IntRange(0, 6).Draw(t, "nbase")
	for i := 0; i < nb; i++ {
		c.Base = append(c.Base, kit.GenIntent(t, []string{"pay", "sf", "form"}, 0))
	}
	n := rapid.IntRange(1, 14).Draw(t, "nops")
	for i := 0; i < n; i++ {
		op := C14Op{}
		switch k := kit.Uniform(t, 29, "opkind"); {
		case k < 5:
			op.Op = "submit1"
		case k < 11:
			op.Op = "submit2"
		case k < 15:
			op.Op = "lookup"
		case k < 18:
			op.Op = "mutret"
		case k < 20:
			op.Op = "partial"
			op.IDSel = rapid.IntRange(0, 511).Draw(t, "subset") // bit 8: the request also names a hash the pool does not hold
		case k < 22:
			op.Op = "parents"
			op.IDSel = rapid.IntRange(0, 7).Draw(t, "which")
		case k == 27:
			// a block confirming a prefix of the v2 pool and, as the very next
			// pool access, the broadcast set of a surviving child of a survivor
			op.Op = "minethenset"
			op.Mut = rapid.IntRange(1, 3).Draw(t, "prefix")
			op.IDSel = rapid.IntRange(0, 7).Draw(t, "which")
		case k == 26:
			// a set built on a block that is then reorganised away
			op.Op = "staleforkset"
			op.Mut = rapid.IntRange(0, 3).Draw(t, "variant")
			op.IDSel = rapid.IntRange(0, 7).Draw(t, "who")
		case k < 24:
			// a block confirming part of the pool and, as the very next pool
			// access, a set that conflicts with a surviving pool member
			op.Op = "mineconflict"
			op.Mut = rapid.IntRange(1, 3).Draw(t, "prefix")
			op.IDKind = kit.Uniform(t, 4, "v1orv2") // 0: v1 set, else v2
			op.Conflict = rapid.IntRange(1, 3).Draw(t, "conflict")
			ni := rapid.IntRange(1, 3).Draw(t, "nintents")
			for j := 0; j < ni; j++ {
				op.Intents = append(op.Intents, kit.GenIntent(t, []string{"pay", "pay", "sf", "arb"}, 0))
			}
		default:
			op.Op = "mine"
		}
		switch op.Op {
		case "submit1", "submit2":
			ni := rapid.IntRange(0, 4).Draw(t, "nintents")
			for j := 0; j < ni; j++ {
				in := kit.GenIntent(t, []string{"pay", "pay", "merge", "merge", "sf", "form", "form", "fcop", "fcop", "arb"}, 0)
				if in.Kind == "merge" {
					in.To = in.Who
				}
				in.V2 = op.Op == "submit2"
				in.Eph = kit.Chance(t, 55, "eph")
				op.Intents = append(op.Intents, in)
			}
			if kit.Chance(t, 35, "knownroll") {
				op.Known = rapid.IntRange(1, 4).Draw(t, "known")
			}
			if kit.Chance(t, 30, "conflictroll") {
				op.Conflict = rapid.IntRange(1, 5).Draw(t, "conflict")
			}
			if kit.Chance(t, 15, "invalidroll") {
				op.Invalid = rapid.IntRange(1, 5).Draw(t, "invalid")
			}
		case "lookup":
			op.IDKind = kit.Uniform(t, 4, "idkind")
			op.IDSel = rapid.IntRange(0, 7).Draw(t, "idsel")
		case "mutret":
			op.Mut = rapid.IntRange(0, 5).Draw(t, "mut")
		case "mine":
			// 0: confirm the whole pool; k>0: confirm only a prefix of each kind
			// (survivors stay pooled behind the dropped entries)
			if kit.Chance(t, 60, "partial") {
				op.Mut = rapid.IntRange(1, 3).Draw(t, "prefix")
			}
		}
		c.Ops = append(c.Ops, op)
	}
	return c
}

func c14Tree(c C14Case) kit.TreeCase {
	net := kit.NetSpec{Maturity: 1, Allow: 2, ReqOff: 300, CutOff: 10}
	switch ((c.Regime % 3) + 3) % 3 {
	case 1:
		net = kit.NetSpec{Maturity: 1, Allow: 1, ReqOff: 0, CutOff: 300}
	case 2:
		net = kit.NetSpec{Maturity: 1, Allow: 500, ReqOff: 10, CutOff: 10}
	}
	tc := kit.TreeCase{Net: net}
	for i := 0; i < 4; i++ {
		tc.Blocks = append(tc.Blocks, kit.BlockSpec{Dt: 1, Miner: i})
	}
	for i, in := range c.Base {
		tc.Blocks[1+i%3].Txs = append(tc.Blocks[1+i%3].Txs, in)
	}
	return tc
}

type poolView struct {
	v1   []types.Transaction
	v2   []types.V2Transaction
	ids1 map[types.TransactionID]int
	ids2 map[types.TransactionID]int
}

func viewPool(n *kit.Node) poolView {
	pv := poolView{v1: n.CM.PoolTransactions(), v2: n.CM.V2PoolTransactions(), ids1: map[types.TransactionID]int{}, ids2: map[types.TransactionID]int{}}
	for i, t := range pv.v1 {
		pv.ids1[t.ID()] = i
	}
	for i, t := range pv.v2 {
		pv.ids2[t.ID()] = i
	}
	return pv
}

func (pv poolView) idList() []string {
	var out []string
	for id := range pv.ids1 {
		out = append(out, "1:"+id.String())
	}
	for id := range pv.ids2 {
		out = append(out, "2:"+id.String())
	}
	sort.Strings(out)
	return out
}

func encV2s(txns []types.V2Transaction) [][]byte {
	out := make([][]byte, len(txns))
	for i := range txns {
		// full encoding (includes proofs and signatures)
		var buf bytes.Buffer
		e := types.NewEncoder(&buf)
		txns[i].EncodeTo(e)
		e.Flush()
		out[i] = buf.Bytes()
	}
	return out
}

func sameEnc(a, b [][]byte) bool {
	if len(a) != len(b) {
		return false
	}
	for i := range a {
		if !bytes.Equal(a[i], b[i]) {
			return false
		}
	}
	return true
}

func mutateV2(t *types.V2Transaction, sel int) {
	for i := range t.SiacoinInputs {
		se := &t.SiacoinInputs[i].Parent.StateElement
		for j := range se.MerkleProof {
			se.MerkleProof[j][sel%32] ^= 0xFF
		}
		se.LeafIndex += 7
		for j := range t.SiacoinInputs[i].SatisfiedPolicy.Signatures {
			t.SiacoinInputs[i].SatisfiedPolicy.Signatures[j][0] ^= 0xFF
		}
		t.SiacoinInputs[i].Parent.SiacoinOutput.Value = types.Siacoins(7)
	}
	for i := range t.SiacoinOutputs {
		t.SiacoinOutputs[i].Value = types.Siacoins(uint32(sel + 1))
	}
	for i := range t.SiafundInputs {
		for j := range t.SiafundInputs[i].Parent.StateElement.MerkleProof {
			t.SiafundInputs[i].Parent.StateElement.MerkleProof[j][1] ^= 0xFF
		}
	}
	for i := range t.FileContracts {
		t.FileContracts[i].RenterSignature[0] ^= 1
	}
	if len(t.ArbitraryData) > 0 {
		t.ArbitraryData[0] ^= 0xFF
	}
	t.MinerFee = t.MinerFee.Add(types.NewCurrency64(1))
}

func runC14(c C14Case, cs *kit.CaseStats) error {
	tr := kit.BuildTree(c14Tree(c))
	for i, n := range tr.Nodes {
		if !n.Valid() {
			return fmt.Errorf("INFRA: base block %d invalid: %v", i, n.Err)
		}
	}
	node, err := kit.NewNode(tr, "mem")
	if err != nil {
		return fmt.Errorf("INFRA: %v", err)
	}
	defer node.Close()
	for _, n := range tr.Nodes {
		if err := node.Submit([]types.Block{n.Block}); err != nil {
			return fmt.Errorf("INFRA: base chain rejected: %v", err)
		}
	}
	L := tr.Nodes[len(tr.Nodes)-1].Ledger
	confirmed := []types.TransactionID{}
	for _, n := range tr.Nodes {
		for _, t := range n.Block.Transactions {
			confirmed = append(confirmed, t.ID())
		}
		for _, t := range n.Block.V2Transactions() {
			confirmed = append(confirmed, t.ID())
		}
	}
	salt := uint64(1000)
	type heldList struct {
		txns []types.V2Transaction
		enc  [][]byte
	}
	var held []heldList

	for oi, op := range c.Ops {
		where := fmt.Sprintf("op %d (%s)", oi, op.Op)
		if lerr := listedAreRetrievable(node); lerr != nil {
			return fmt.Errorf("before %s: %w", where, lerr)
		}
		before := viewPool(node)
		// listings handed out earlier are the caller's: whatever the pool did
		// since (revalidation, proof updates after blocks) must not show in them
		for hi, h := range held {
			if !sameEnc(h.enc, encV2s(h.txns)) {
				return fmt.Errorf("before %s: a V2PoolTransactions result obtained %d step(s) earlier changed in the caller's hands", where, len(held)-hi)
			}
		}
		if len(before.v2) > 0 {
			held = append(held, heldList{before.v2, encV2s(before.v2)})
			if len(held) > 4 {
				held = held[1:]
			}
		}
		switch op.Op {
		case "submit1", "submit2":
			v2 := op.Op == "submit2"
			if v2 && L.Height()+1 < tr.Network.HardforkV2.AllowHeight || !v2 && L.Height()+1 >= tr.Network.HardforkV2.RequireHeight {
				continue
			}
			bb := kit.NewBlockBuilder(L)
			// pool spends are taken, pool outputs are not available unless the
			// creating transaction is part of the set (documented precondition)
			bb.Absorb(before.v1, before.v2)
			bb.DropEphemeral()
			var set1 []types.Transaction
			var set2 []types.V2Transaction
			known := 0
			if v2 {
				known = min(op.Known, len(before.v2))
				for _, kt := range before.v2[:known] {
					set2 = append(set2, kt.DeepCopy())
				}
				bb.Absorb(nil, before.v2[:known])
			} else {
				known = min(op.Known, len(before.v1))
				set1 = append(set1, before.v1[:known]...)
				bb.Absorb(before.v1[:known], nil)
			}
			for _, in := range op.Intents {
				in.V2 = v2
				if !v2 && (in.Kind == "arb" || in.Kind == "attest" || in.Kind == "foundation") {
					in.Kind = "pay"
				}
				if in.Kind == "merge" {
					in.Kind = map[bool]string{true: "v2merge", false: "v1merge"}[v2]
				}
				bb.Add(in)
			}
			if v2 {
				set2 = append(set2, bb.V2Txns...)
			} else {
				set1 = append(set1, bb.Txns...)
			}
			// a member that is valid against the tip but conflicts with the pool
			conflictPos := -1
			if op.Conflict > 0 {
				var victim *types.SiacoinElement
				for _, p := range before.v1 {
					if len(p.SiacoinInputs) > 0 {
						if e, ok := L.SCE[p.SiacoinInputs[0].ParentID]; ok {
							e = e.Copy()
							victim = &e
							break
						}
					}
				}
				if victim == nil {
					for _, p := range before.v2 {
						if len(p.SiacoinInputs) > 0 {
							if e, ok := L.SCE[p.SiacoinInputs[0].Parent.ID]; ok {
								e = e.Copy()
								victim = &e
								break
							}
						}
					}
				}
				if victim != nil && kit.ActorOf(victim.SiacoinOutput.Address) >= 0 {
					who := kit.ActorOf(victim.SiacoinOutput.Address)
					if v2 {
						txn := types.V2Transaction{SiacoinInputs: []types.V2SiacoinInput{{Parent: *victim}}, SiacoinOutputs: []types.SiacoinOutput{{Address: kit.Actors[(who+1)%kit.NumActors].Addr, Value: victim.SiacoinOutput.Value}}, ArbitraryData: []byte(fmt.Sprintf("conflict-%d", oi))}
						kit.SignV2(L.State, &txn)
						conflictPos = min(op.Conflict-1, len(set2))
						set2 = append(set2[:conflictPos:conflictPos], append([]types.V2Transaction{txn}, set2[conflictPos:]...)...)
					} else {
						txn := kit.V1Spend(L.State, *victim, who, (who+1)%kit.NumActors, oi)
						conflictPos = min(op.Conflict-1, len(set1))
						set1 = append(set1[:conflictPos:conflictPos], append([]types.Transaction{txn}, set1[conflictPos:]...)...)
					}
				}
			}
			invalidPos := -1
			if op.Invalid > 0 {
				if v2 && len(set2) > 0 {
					invalidPos = min(op.Invalid-1, len(set2)-1)
					t2 := set2[invalidPos].DeepCopy()
					if len(t2.SiacoinInputs) > 0 && len(t2.SiacoinInputs[0].SatisfiedPolicy.Signatures) > 0 {
						t2.SiacoinInputs[0].SatisfiedPolicy.Signatures[0][3] ^= 1
						set2[invalidPos] = t2
					} else {
						invalidPos = -1
					}
				} else if !v2 && len(set1) > 0 {
					invalidPos = min(op.Invalid-1, len(set1)-1)
					t1 := kit.CopyV1(set1[invalidPos])
					if len(t1.Signatures) > 0 {
						t1.Signatures[0].Signature[3] ^= 1
						set1[invalidPos] = t1
					} else {
						invalidPos = -1
					}
				}
			}
			if len(set1)+len(set2) == 0 {
				continue
			}
			var ids []types.TransactionID
			allKnown := true
			for _, t := range set1 {
				ids = append(ids, t.ID())
				if _, ok := before.ids1[t.ID()]; !ok {
					allKnown = false
				}
			}
			for _, t := range set2 {
				ids = append(ids, t.ID())
				if _, ok := before.ids2[t.ID()]; !ok {
					allKnown = false
				}
			}
			var knownRet bool
			var serr error
			var callerEnc [][]byte
			if v2 {
				callerEnc = encV2s(set2)
				knownRet, serr = node.CM.AddV2PoolTransactions(L.Index(), set2)
				if !sameEnc(callerEnc, encV2s(set2)) {
					return fmt.Errorf("%s: AddV2PoolTransactions modified the caller's transactions", where)
				}
			} else {
				knownRet, serr = node.CM.AddPoolTransactions(set1)
			}
			after := viewPool(node)
			where = fmt.Sprintf("%s set=%d known-prefix=%d conflict@%d invalid@%d -> known=%v err=%v", where, len(ids), known, conflictPos, invalidPos, knownRet, serr)
			if conflictPos >= 1 {
				cs.Class("conflict-with-pool-at-position>=2")
				cs.NonTrivial()
			} else if conflictPos == 0 {
				cs.Class("conflict-with-pool-at-position-1")
			}
			if invalidPos >= 0 {
				cs.Classf("invalid-member")
				if invalidPos < known {
					cs.Class("invalid-copy-of-a-pooled-member")
				}
			}
			if known > 0 && !allKnown {
				cs.Class("partly-known-set")
			}
			if serr != nil {
				cs.Class("submit-rejected")
				if fmt.Sprint(before.idList()) != fmt.Sprint(after.idList()) {
					return fmt.Errorf("%s: the set was rejected but the pool changed:\n before %v\n after  %v", where, before.idList(), after.idList())
				}
				if knownRet {
					return fmt.Errorf("%s: known=true together with an error", where)
				}
				// a refused set leaves nothing behind: the members in front of the
				// conflicting one, valid and not in conflict with anything, are
				// accepted when handed in on their own right afterwards
				policy := false // the pool refuses ephemeral siafund inputs whatever else the set holds
				if v2 {
					for _, t := range set2[:max(conflictPos, 0)] {
						for _, in := range t.SiafundInputs {
							policy = policy || in.Parent.StateElement.LeafIndex == types.UnassignedLeafIndex
						}
					}
				}
				if conflictPos >= 1 && !policy && (invalidPos < 0 || invalidPos >= conflictPos) {
					var perr error
					if v2 {
						var prefix []types.V2Transaction
						for _, t := range set2[:conflictPos] {
							prefix = append(prefix, t.DeepCopy())
						}
						_, perr = node.CM.AddV2PoolTransactions(L.Index(), prefix)
					} else {
						_, perr = node.CM.AddPoolTransactions(append([]types.Transaction(nil), set1[:conflictPos]...))
					}
					if perr != nil {
						return fmt.Errorf("%s: the set was refused because of its member %d; its first %d member(s), handed in on their own right afterwards, are refused too: %v", where, conflictPos, conflictPos, perr)
					}
					cs.Class("prefix-of-a-refused-set-resubmitted")
					after = viewPool(node)
				}
			} else {
				cs.Class("submit-accepted")
				if invalidPos >= 0 {
					// documented: "If any transaction in the set is invalid, the
					// entire set is rejected" - also when the invalid member carries
					// the id of a pooled transaction (a v2 id covers no signature)
					return fmt.Errorf("%s: a set whose member %d carries an invalid signature (that member's id pooled before: %v) was accepted", where, invalidPos, invalidPos < known)
				}
				for id := range before.ids1 {
					if _, ok := after.ids1[id]; !ok {
						return fmt.Errorf("%s: pooled v1 transaction %v disappeared", where, id)
					}
				}
				for id := range before.ids2 {
					if _, ok := after.ids2[id]; !ok {
						return fmt.Errorf("%s: pooled v2 transaction %v disappeared", where, id)
					}
				}
				for _, id := range ids {
					_, ok1 := after.ids1[id]
					_, ok2 := after.ids2[id]
					if !ok1 && !ok2 {
						return fmt.Errorf("%s: accepted set member %v is not in the pool", where, id)
					}
				}
				if knownRet != allKnown {
					return fmt.Errorf("%s: known=%v but 'every transaction already pooled'=%v", where, knownRet, allKnown)
				}
				if allKnown {
					cs.Class("all-known-set")
				}
			}
			if v2 && len(set2) > 0 {
				// none of the caller's memory is retained: scribble over it
				snap := encV2s(after.v2)
				for i := range set2 {
					mutateV2(&set2[i], oi)
				}
				if !sameEnc(snap, encV2s(node.CM.V2PoolTransactions())) {
					return fmt.Errorf("%s: mutating the caller's transactions after submission changed the pool", where)
				}
			}

		case "lookup":
			var id types.TransactionID
			switch ((op.IDKind % 4) + 4) % 4 {
			case 0:
				if len(before.v1) > 0 {
					id = before.v1[op.IDSel%len(before.v1)].ID()
				}
			case 1:
				if len(before.v2) > 0 {
					id = before.v2[op.IDSel%len(before.v2)].ID()
				}
			case 2:
				if len(confirmed) > 0 {
					id = confirmed[op.IDSel%len(confirmed)]
				}
			default:
				id = types.TransactionID(types.HashBytes([]byte{byte(op.IDSel), byte(oi)}))
			}
			_, want1 := before.ids1[id]
			_, want2 := before.ids2[id]
			t1, ok1 := node.CM.PoolTransaction(id)
			t2, ok2 := node.CM.V2PoolTransaction(id)
			if len(before.v1) > 0 && len(before.v2) > 0 && (want1 || want2) {
				cs.Class("cross-kind-lookup-on-mixed-pool")
				cs.NonTrivial()
			}
			cs.Classf("lookup-kind=%d", op.IDKind)
			if ok1 != want1 || (ok1 && t1.ID() != id) {
				return fmt.Errorf("%s: PoolTransaction(%v) = (id %v, %v); a pooled v1 transaction with that id exists: %v (pool: %d v1, %d v2)", where, id, t1.ID(), ok1, want1, len(before.v1), len(before.v2))
			}
			if ok2 != want2 || (ok2 && t2.ID() != id) {
				return fmt.Errorf("%s: V2PoolTransaction(%v) = (id %v, %v); a pooled v2 transaction with that id exists: %v (pool: %d v1, %d v2)", where, id, t2.ID(), ok2, want2, len(before.v1), len(before.v2))
			}

		case "mutret":
			got := node.CM.V2PoolTransactions()
			snap := encV2s(got)
			ids1 := fmt.Sprint(before.v1)
			for i := range got {
				mutateV2(&got[i], op.Mut+i)
			}
			for i, j := 0, len(got)-1; i < j; i, j = i+1, j-1 {
				got[i], got[j] = got[j], got[i]
			}
			v1 := node.CM.PoolTransactions()
			for i, j := 0, len(v1)-1; i < j; i, j = i+1, j-1 {
				v1[i], v1[j] = v1[j], v1[i]
			}
			if len(before.v2) > 0 {
				if one, ok := node.CM.V2PoolTransaction(before.v2[op.Mut%len(before.v2)].ID()); ok {
					mutateV2(&one, op.Mut)
				}
			}
			if !sameEnc(snap, encV2s(node.CM.V2PoolTransactions())) {
				return fmt.Errorf("%s: mutating / reordering values returned by V2PoolTransactions changed the pool", where)
			}
			if ids1 != fmt.Sprint(node.CM.PoolTransactions()) {
				return fmt.Errorf("%s: reordering the slice returned by PoolTransactions changed the pool", where)
			}
			if len(got) > 0 {
				cs.Class("mutated-returned-v2")
			}

		case "partial":
			// the pooled transactions with the requested leaf hashes, each once,
			// nothing else; returned v2 values are the caller's own
			var want []types.Hash256
			wantSet := map[types.Hash256]bool{}
			all := 0
			for _, t := range before.v1 {
				if op.IDSel>>(all%8)&1 == 1 {
					want = append(want, t.MerkleLeafHash())
					wantSet[t.MerkleLeafHash()] = true
				}
				all++
			}
			for _, t := range before.v2 {
				if op.IDSel>>(all%8)&1 == 1 {
					want = append(want, t.MerkleLeafHash())
					wantSet[t.MerkleLeafHash()] = true
				}
				all++
			}
			if op.IDSel>>8&1 == 1 {
				want = append(want, types.HashBytes([]byte{byte(op.IDSel), byte(oi)})) // unknown hash
			} else if len(wantSet) > 0 {
				cs.Class("partial-block-query-fully-served")
			}
			g1, g2 := node.CM.TransactionsForPartialBlock(want)
			got := map[types.Hash256]int{}
			for _, t := range g1 {
				got[t.MerkleLeafHash()]++
			}
			for _, t := range g2 {
				got[t.MerkleLeafHash()]++
			}
			for h, c := range got {
				if !wantSet[h] || c != 1 {
					return fmt.Errorf("%s: TransactionsForPartialBlock returned a transaction that was not asked for (or twice): %v x%d", where, h, c)
				}
			}
			if len(got) != len(wantSet) {
				return fmt.Errorf("%s: TransactionsForPartialBlock returned %d of the %d pooled transactions asked for", where, len(got), len(wantSet))
			}
			snap := encV2s(node.CM.V2PoolTransactions())
			for i := range g2 {
				mutateV2(&g2[i], oi)
			}
			if !sameEnc(snap, encV2s(node.CM.V2PoolTransactions())) {
				return fmt.Errorf("%s: mutating v2 transactions returned by TransactionsForPartialBlock changed the pool", where)
			}
			if len(wantSet) > 0 {
				cs.Class("partial-block-query")
			}

		case "parents":
			// UnconfirmedParents of a pooled v1 transaction: exactly its pooled
			// ancestors, creators before spenders
			if len(before.v1) == 0 {
				continue
			}
			creators := map[types.Hash256]types.TransactionID{}
			for _, t := range before.v1 {
				for i := range t.SiacoinOutputs {
					creators[types.Hash256(t.SiacoinOutputID(i))] = t.ID()
				}
				for i := range t.SiafundOutputs {
					creators[types.Hash256(t.SiafundOutputID(i))] = t.ID()
				}
				for i := range t.FileContracts {
					creators[types.Hash256(t.FileContractID(i))] = t.ID()
				}
				for i := range t.SiafundInputs {
					creators[types.Hash256(t.SiafundClaimOutputID(i))] = t.ID()
				}
			}
			byID := map[types.TransactionID]types.Transaction{}
			for _, t := range before.v1 {
				byID[t.ID()] = t
			}
			for _, target := range before.v1 {
				wantAnc := map[types.TransactionID]bool{}
				var walk func(t types.Transaction)
				walk = func(t types.Transaction) {
					for _, id := range v1InputIDs(t) {
						if c, ok := creators[id]; ok && !wantAnc[c] {
							wantAnc[c] = true
							walk(byID[c])
						}
					}
				}
				walk(target)
				gotP := node.CM.UnconfirmedParents(target)
				seen := map[types.TransactionID]bool{}
				for i, pt := range gotP {
					if !wantAnc[pt.ID()] || seen[pt.ID()] {
						return fmt.Errorf("%s: UnconfirmedParents returned %v, which is not a pooled ancestor (or twice)", where, pt.ID())
					}
					for _, id := range v1InputIDs(pt) {
						if c, ok := creators[id]; ok && !seen[c] {
							return fmt.Errorf("%s: UnconfirmedParents[%d] = %v comes before its own parent %v", where, i, pt.ID(), c)
						}
					}
					seen[pt.ID()] = true
				}
				if len(seen) != len(wantAnc) {
					return fmt.Errorf("%s: UnconfirmedParents returned %d of %d pooled ancestors", where, len(seen), len(wantAnc))
				}
				for _, r := range target.FileContractRevisions {
					if _, ok := creators[types.Hash256(r.ParentID)]; ok {
						cs.Class("unconfirmed-parents-through-a-pooled-contract")
					}
				}
				if len(wantAnc) > 0 {
					cs.Class("unconfirmed-parents-query")
					if len(wantAnc) > 1 {
						cs.Class("unconfirmed-parents>=2")
					}
				}
			}

		case "minethenset":
			if L.Height()+2 < tr.Network.HardforkV2.AllowHeight {
				continue
			}
			{
				// make sure a parent/child pair is pooled: a payment and a spend
				// of its (unconfirmed) output, submitted as one set
				pb := kit.NewBlockBuilder(L)
				pb.Absorb(before.v1, before.v2)
				pb.DropEphemeral()
				w := op.IDSel % kit.NumActors
				if pb.Add(kit.Intent{Kind: "pay", V2: true, Who: w, To: (w + 1) % kit.NumActors, Pick: oi, Amt: 5, Fee: true}) &&
					pb.Add(kit.Intent{Kind: "pay", V2: true, Who: (w + 1) % kit.NumActors, To: (w + 2) % kit.NumActors, Eph: true, Pick: 0, Amt: 2, Fee: true}) {
					if _, err := node.CM.AddV2PoolTransactions(L.Index(), pb.V2Txns); err == nil {
						before = viewPool(node)
					}
				}
			}
			if len(before.v2) < 2 {
				continue
			}
			k2 := min(op.Mut, len(before.v2)-1)
			sur2 := before.v2[k2:]
			// among the survivors: who creates what
			creator := map[types.Hash256]int{}
			for i, t := range sur2 {
				tid := t.ID()
				for k := range t.SiacoinOutputs {
					creator[types.Hash256(t.SiacoinOutputID(tid, k))] = i
				}
				for k := range t.SiafundOutputs {
					creator[types.Hash256(t.SiafundOutputID(tid, k))] = i
				}
				for k := range t.FileContracts {
					creator[types.Hash256(t.V2FileContractID(tid, k))] = i
				}
			}
			parentsOf := func(t types.V2Transaction) (ps []int) {
				_, eph := v2InputIDs(t)
				for _, id := range eph {
					if i, ok := creator[id]; ok {
						ps = append(ps, i)
					}
				}
				return
			}
			var cands []int
			for i, t := range sur2 {
				if len(parentsOf(t)) > 0 {
					cands = append(cands, i)
				}
			}
			if len(cands) == 0 {
				continue
			}
			ci := cands[op.IDSel%len(cands)]
			anc := map[int]bool{}
			var walk func(i int)
			walk = func(i int) {
				for _, pi := range parentsOf(sur2[i]) {
					if !anc[pi] {
						anc[pi] = true
						walk(pi)
					}
				}
			}
			walk(ci)
			salt++
			b := kit.AssembleBlock(L.State, L.Block.Timestamp.Add(1e9), kit.Actors[0].Addr, nil, before.v2[:k2], salt)
			nl, err := L.Apply(b, nil)
			if err != nil {
				continue
			}
			oldIndex := L.Index()
			if err := node.CM.AddBlocks([]types.Block{b}); err != nil {
				return fmt.Errorf("%s: block accepted by the reference was rejected: %v", where, err)
			}
			L = nl
			for _, t := range before.v2[:k2] {
				confirmed = append(confirmed, t.ID())
			}
			target := sur2[ci].DeepCopy()
			gotBasis, got, serr := node.CM.V2TransactionSet(oldIndex, target)
			where = fmt.Sprintf("%s: mined %d of %d pooled v2 transactions, then at once V2TransactionSet(%v, %v) (a surviving transaction with %d surviving pooled ancestor(s)) -> basis %v, %d transactions, err=%v", where, k2, len(before.v2), oldIndex, target.ID(), len(anc), gotBasis, len(got), serr)
			// the expectation only holds if the transaction and its ancestors
			// survived the block (they may have become invalid with the height)
			afterSet := viewPool(node)
			stillPooled := true
			if _, ok := afterSet.ids2[target.ID()]; !ok {
				stillPooled = false
			}
			for ai := range anc {
				if _, ok := afterSet.ids2[sur2[ai].ID()]; !ok {
					stillPooled = false
				}
			}
			if !stillPooled {
				cs.Class("minethenset:family-dropped-by-the-block")
				continue
			}
			cs.Class("broadcast-set-right-after-a-partly-confirming-block")
			cs.NonTrivial()
			if serr != nil {
				return fmt.Errorf("%s: failed", where)
			}
			if gotBasis != L.Index() || len(got) == 0 || got[len(got)-1].ID() != target.ID() {
				return fmt.Errorf("%s: expected basis = tip %v and the transaction itself last", where, L.Index())
			}
			seenAnc := map[int]bool{}
			pos := map[types.TransactionID]int{}
			for i, t := range sur2 {
				pos[t.ID()] = i
			}
			for gi, g := range got[:len(got)-1] {
				i, ok := pos[g.ID()]
				if !ok || !anc[i] {
					return fmt.Errorf("%s: element %d (%v) is not a pooled ancestor of the transaction", where, gi, g.ID())
				}
				for _, pi := range parentsOf(sur2[i]) {
					if !seenAnc[pi] {
						return fmt.Errorf("%s: element %d (%v) comes before its own pooled parent", where, gi, g.ID())
					}
				}
				seenAnc[i] = true
			}
			if len(seenAnc) != len(anc) && os.Getenv("VERIF_DEBUG") != "" {
				for i, t := range sur2 {
					_, eph := v2InputIDs(t)
					fmt.Printf("DBG sur2[%d] %v eph=%d parents=%v anc=%v\n", i, t.ID(), len(eph), parentsOf(t), anc[i])
				}
				for _, t := range node.CM.V2PoolTransactions() {
					_, eph := v2InputIDs(t)
					fmt.Printf("DBG pool now %v eph=%d\n", t.ID(), len(eph))
				}
				fmt.Printf("DBG target %v mined %v\n", target.ID(), before.v2[0].ID())
			}
			if len(seenAnc) != len(anc) {
				return fmt.Errorf("%s: %d of the %d pooled ancestors are missing from the set", where, len(anc)-len(seenAnc), len(anc))
			}
			// the returned set is the caller's: scribbling over it leaves the pool alone
			snapSet := encV2s(node.CM.V2PoolTransactions())
			for i := range got {
				mutateV2(&got[i], oi)
			}
			if !sameEnc(snapSet, encV2s(node.CM.V2PoolTransactions())) {
				return fmt.Errorf("%s: mutating the transactions returned by V2TransactionSet changed the pool", where)
			}
			for i := range sur2 {
				if anc[i] {
					if pt, ok := node.CM.V2PoolTransaction(sur2[i].ID()); !ok || pt.ID() != sur2[i].ID() {
						return fmt.Errorf("%s: after mutating the returned set, pooled ancestor %v can no longer be found by id", where, sur2[i].ID())
					}
				}
			}
			if len(anc) > 0 {
				cs.Class("mutated-returned-broadcast-set-with-ancestors")
			}

		case "staleforkset":
			// block b1 on the tip confirms a payment; a set is built with basis b1:
			// an independent payment A and a transaction X spending the output b1
			// confirmed; b1 is reorganised away by two empty blocks; then the set is
			// submitted with its (now stale, foreign) basis. All or nothing.
			if L.Height()+1 < tr.Network.HardforkV2.AllowHeight {
				continue
			}
			who := op.IDSel % kit.NumActors
			bb := kit.NewBlockBuilder(L)
			bb.Absorb(before.v1, before.v2)
			bb.DropEphemeral()
			if !bb.Add(kit.Intent{Kind: "pay", V2: true, Who: who, To: (who + 1) % kit.NumActors, Pick: oi, Amt: 4, Fee: op.Mut != 1}) || len(bb.V2Txns) == 0 {
				continue
			}
			pay := bb.V2Txns[len(bb.V2Txns)-1]
			salt++
			b1 := kit.AssembleBlock(L.State, L.Block.Timestamp.Add(1e9), kit.Actors[0].Addr, nil, []types.V2Transaction{pay}, salt)
			l1, err := L.Apply(b1, nil)
			if err != nil {
				continue
			}
			// the element b1 created for the payee
			var made *types.SiacoinElement
			for k := range pay.SiacoinOutputs {
				if e, ok := l1.SCE[pay.SiacoinOutputID(pay.ID(), k)]; ok && kit.ActorOf(e.SiacoinOutput.Address) >= 0 {
					e = e.Copy()
					made = &e
					break
				}
			}
			if made == nil {
				continue
			}
			if err := node.CM.AddBlocks([]types.Block{b1}); err != nil {
				return fmt.Errorf("%s: block accepted by the reference was rejected: %v", where, err)
			}
			owner := kit.ActorOf(made.SiacoinOutput.Address)
			x := types.V2Transaction{SiacoinInputs: []types.V2SiacoinInput{{Parent: *made}}, SiacoinOutputs: []types.SiacoinOutput{{Address: kit.Actors[(owner+2)%kit.NumActors].Addr, Value: made.SiacoinOutput.Value}}, ArbitraryData: []byte(fmt.Sprintf("stale-%d", oi))}
			kit.SignV2(l1.State, &x)
			bb2 := kit.NewBlockBuilder(l1)
			pool1, pool2 := node.CM.PoolTransactions(), node.CM.V2PoolTransactions()
			bb2.Absorb(pool1, pool2)
			bb2.Absorb(nil, []types.V2Transaction{x})
			bb2.DropEphemeral()
			var set2 []types.V2Transaction
			if op.Mut%2 == 0 && bb2.Add(kit.Intent{Kind: "pay", V2: true, Who: (who + 2) % kit.NumActors, To: who, Pick: oi + 1, Amt: 3}) {
				set2 = append(set2, bb2.V2Txns[len(bb2.V2Txns)-1])
			}
			if op.Mut >= 2 {
				set2 = append([]types.V2Transaction{x}, set2...)
			} else {
				set2 = append(set2, x)
			}
			// two empty blocks on the old tip replace b1
			salt++
			b1p := kit.AssembleBlock(L.State, L.Block.Timestamp.Add(2e9), kit.Actors[1].Addr, nil, nil, salt)
			l1p, err := L.Apply(b1p, nil)
			if err != nil {
				return fmt.Errorf("INFRA: cannot mine: %v", err)
			}
			salt++
			b2p := kit.AssembleBlock(l1p.State, l1p.Block.Timestamp.Add(1e9), kit.Actors[2].Addr, nil, nil, salt)
			l2p, err := l1p.Apply(b2p, nil)
			if err != nil {
				return fmt.Errorf("INFRA: cannot mine: %v", err)
			}
			if err := node.CM.AddBlocks([]types.Block{b1p, b2p}); err != nil {
				return fmt.Errorf("%s: competing branch accepted by the reference was rejected: %v", where, err)
			}
			if node.CM.Tip() != l2p.Index() {
				// not heavier enough: stay on b1's chain
				L = l1
				for _, t := range []types.V2Transaction{pay} {
					confirmed = append(confirmed, t.ID())
				}
				cs.Class("staleforkset:no-reorg")
				continue
			}
			L = l2p
			// the very first pool access after the reorg is a lookup by id of the
			// payment the reverted block had confirmed; it must agree with the
			// listing obtained right afterwards
			_, lookedUp := node.CM.V2PoolTransaction(pay.ID())
			pre := viewPool(node)
			if _, listed := pre.ids2[pay.ID()]; listed != lookedUp {
				return fmt.Errorf("%s: right after the reorg that reverted the block confirming %v, V2PoolTransaction reports present=%v, the listing obtained next says %v", where, pay.ID(), lookedUp, listed)
			}
			if lookedUp {
				cs.Class("reverted-transaction-back-in-the-pool")
			}
			allKnown := true
			for _, t := range set2 {
				if _, ok := pre.ids2[t.ID()]; !ok {
					allKnown = false
				}
			}
			callerEnc := encV2s(set2)
			knownRet, serr := node.CM.AddV2PoolTransactions(l1.Index(), set2)
			if !sameEnc(callerEnc, encV2s(set2)) {
				return fmt.Errorf("%s: AddV2PoolTransactions modified the caller's transactions", where)
			}
			post := viewPool(node)
			where = fmt.Sprintf("%s: %d-member set built on %v (a block since reorganised away; one member spends an output that block confirmed), submitted with that basis on tip %v -> known=%v err=%v", where, len(set2), l1.Index(), L.Index(), knownRet, serr)
			cs.Class("set-with-basis-on-a-reverted-block")
			cs.NonTrivial()
			if serr != nil {
				if knownRet {
					return fmt.Errorf("%s: known=true together with an error", where)
				}
				if fmt.Sprint(pre.idList()) != fmt.Sprint(post.idList()) {
					return fmt.Errorf("%s: the set was rejected but the pool changed:\n before %v\n after  %v", where, pre.idList(), post.idList())
				}
			} else {
				for i, t := range set2 {
					if _, ok := post.ids2[t.ID()]; !ok {
						return fmt.Errorf("%s: no error, but member %d (%v) is not in the pool", where, i, t.ID())
					}
				}
				if knownRet != allKnown {
					return fmt.Errorf("%s: known=%v but 'every transaction already pooled'=%v", where, knownRet, allKnown)
				}
			}

		case "mineconflict":
			v2 := op.IDKind%4 != 0
			if v2 && L.Height()+2 < tr.Network.HardforkV2.AllowHeight || !v2 && L.Height()+2 >= tr.Network.HardforkV2.RequireHeight {
				continue
			}
			k1, k2 := min(op.Mut, len(before.v1)), min(op.Mut, len(before.v2))
			salt++
			b := kit.AssembleBlock(L.State, L.Block.Timestamp.Add(1e9), kit.Actors[0].Addr, before.v1[:k1], before.v2[:k2], salt)
			nl, err := L.Apply(b, nil)
			if err != nil {
				continue // whether the pool is minable is C05's business
			}
			sur1, sur2 := before.v1[k1:], before.v2[k2:]
			// a surviving pool member spending an element that is on chain after the block
			var victim *types.SiacoinElement
			var victimID types.TransactionID
			for _, p := range sur2 {
				if len(p.SiacoinInputs) > 0 {
					if e, ok := nl.SCE[p.SiacoinInputs[0].Parent.ID]; ok {
						e = e.Copy()
						victim, victimID = &e, p.ID()
						break
					}
				}
			}
			if victim == nil {
				for _, p := range sur1 {
					if len(p.SiacoinInputs) > 0 {
						if e, ok := nl.SCE[p.SiacoinInputs[0].ParentID]; ok {
							e = e.Copy()
							victim, victimID = &e, p.ID()
							break
						}
					}
				}
			}
			if victim == nil || kit.ActorOf(victim.SiacoinOutput.Address) < 0 {
				// nothing to conflict with: behave like a plain partial mine
				if err := node.CM.AddBlocks([]types.Block{b}); err != nil {
					return fmt.Errorf("%s: block accepted by the reference was rejected: %v", where, err)
				}
				L = nl
				continue
			}
			who := kit.ActorOf(victim.SiacoinOutput.Address)
			bb := kit.NewBlockBuilder(nl)
			bb.Absorb(sur1, sur2)
			bb.DropEphemeral()
			for _, in := range op.Intents {
				in.V2 = v2
				if !v2 && (in.Kind == "arb" || in.Kind == "attest" || in.Kind == "foundation") {
					in.Kind = "pay"
				}
				bb.Add(in)
			}
			var set1 []types.Transaction
			var set2 []types.V2Transaction
			var ids []types.TransactionID
			if v2 {
				txn := types.V2Transaction{SiacoinInputs: []types.V2SiacoinInput{{Parent: *victim}}, SiacoinOutputs: []types.SiacoinOutput{{Address: kit.Actors[(who+1)%kit.NumActors].Addr, Value: victim.SiacoinOutput.Value}}, ArbitraryData: []byte(fmt.Sprintf("conflict-%d", oi))}
				kit.SignV2(nl.State, &txn)
				pos := min(op.Conflict-1, len(bb.V2Txns))
				set2 = append(append(append(set2, bb.V2Txns[:pos]...), txn), bb.V2Txns[pos:]...)
				for _, t := range set2 {
					ids = append(ids, t.ID())
				}
			} else {
				txn := kit.V1Spend(nl.State, *victim, who, (who+1)%kit.NumActors, oi)
				pos := min(op.Conflict-1, len(bb.Txns))
				set1 = append(append(append(set1, bb.Txns[:pos]...), txn), bb.Txns[pos:]...)
				for _, t := range set1 {
					ids = append(ids, t.ID())
				}
			}
			// the block, and straight afterwards (no pool query in between) the set
			if err := node.CM.AddBlocks([]types.Block{b}); err != nil {
				return fmt.Errorf("%s: block accepted by the reference was rejected: %v", where, err)
			}
			L = nl
			for _, t := range before.v1[:k1] {
				confirmed = append(confirmed, t.ID())
			}
			for _, t := range before.v2[:k2] {
				confirmed = append(confirmed, t.ID())
			}
			var knownRet bool
			var serr error
			if v2 {
				knownRet, serr = node.CM.AddV2PoolTransactions(L.Index(), set2)
			} else {
				knownRet, serr = node.CM.AddPoolTransactions(set1)
			}
			after := viewPool(node)
			_, v1ok := after.ids1[victimID]
			_, v2ok := after.ids2[victimID]
			where = fmt.Sprintf("%s mined %d+%d of %d+%d, then at once a %d-member set (v2=%v) whose member %d double-spends an input of the surviving pool transaction %v -> known=%v err=%v", where, k1, k2, len(before.v1), len(before.v2), len(ids), v2, min(op.Conflict, len(ids)), victimID, knownRet, serr)
			if !v1ok && !v2ok {
				cs.Class("mineconflict:victim-not-pooled-afterwards")
				continue
			}
			cs.Class("conflicting-set-right-after-a-partly-confirming-block")
			if k1+k2 > 0 {
				cs.NonTrivial()
			}
			if serr == nil {
				return fmt.Errorf("%s: the set was accepted although the pool still holds %v", where, victimID)
			}
			if knownRet {
				return fmt.Errorf("%s: known=true together with an error", where)
			}
			for _, id := range ids {
				_, ok1 := after.ids1[id]
				_, ok2 := after.ids2[id]
				if ok1 || ok2 {
					return fmt.Errorf("%s: the set was rejected but its member %v is in the pool", where, id)
				}
			}
			// survivors are only owed if they are still valid on top of the block
			salt++
			if _, verr := nl.Apply(kit.AssembleBlock(nl.State, nl.Block.Timestamp.Add(1e9), kit.Actors[0].Addr, sur1, sur2, salt), nil); verr != nil {
				cs.Class("mineconflict:survivors-not-all-valid-after-the-block")
				continue
			}
			for _, t := range sur1 {
				if _, ok := after.ids1[t.ID()]; !ok {
					return fmt.Errorf("%s: the set was rejected but the pooled v1 transaction %v, untouched by the block, is gone", where, t.ID())
				}
			}
			for _, t := range sur2 {
				if _, ok := after.ids2[t.ID()]; !ok {
					return fmt.Errorf("%s: the set was rejected but the pooled v2 transaction %v, untouched by the block, is gone", where, t.ID())
				}
			}

		case "mine":
			salt++
			ts := L.Block.Timestamp.Add(1e9)
			mine1, mine2 := before.v1, before.v2
			if op.Mut > 0 {
				mine1, mine2 = mine1[:min(op.Mut, len(mine1))], mine2[:min(op.Mut-1, len(mine2))]
				if len(mine1) < len(before.v1) || len(mine2) < len(before.v2) {
					cs.Class("mined-part-of-the-pool")
				}
			}
			b := kit.AssembleBlock(L.State, ts, kit.Actors[0].Addr, mine1, mine2, salt)
			nl, err := L.Apply(b, nil)
			if err != nil {
				// whether the pool is minable is C05's business; mine an empty block
				b = kit.AssembleBlock(L.State, ts, kit.Actors[0].Addr, nil, nil, salt)
				if nl, err = L.Apply(b, nil); err != nil {
					return fmt.Errorf("INFRA: cannot mine: %v", err)
				}
			} else {
				for _, t := range mine1 {
					confirmed = append(confirmed, t.ID())
				}
				for _, t := range mine2 {
					confirmed = append(confirmed, t.ID())
				}
			}
			if err := node.CM.AddBlocks([]types.Block{b}); err != nil {
				return fmt.Errorf("%s: block accepted by the reference was rejected: %v", where, err)
			}
			L = nl
			cs.Class("mined")
			// the very first pool access after the tip changed is a look-up by
			// id (both calls) of everything that was pooled before: what it
			// reports as present must be listed by the listing taken right after
			// (a look-up must not serve what the tip change removed)
			if oi%2 == 0 {
				var hit1, hit2 []types.TransactionID
				for _, t := range before.v1 {
					if _, ok := node.CM.PoolTransaction(t.ID()); ok {
						hit1 = append(hit1, t.ID())
					}
					if _, ok := node.CM.V2PoolTransaction(t.ID()); ok {
						return fmt.Errorf("%s: V2PoolTransaction(%v) returns a transaction for the id of a v1 transaction", where, t.ID())
					}
				}
				for _, t := range before.v2 {
					if _, ok := node.CM.V2PoolTransaction(t.ID()); ok {
						hit2 = append(hit2, t.ID())
					}
					if _, ok := node.CM.PoolTransaction(t.ID()); ok {
						return fmt.Errorf("%s: PoolTransaction(%v) returns a transaction for the id of a v2 transaction", where, t.ID())
					}
				}
				after := viewPool(node)
				for _, id := range hit1 {
					if _, ok := after.ids1[id]; !ok {
						return fmt.Errorf("%s: right after the block (first pool access) PoolTransaction(%v) still returned the transaction, the listing taken next does not hold it (confirmed by the block: %v)", where, id, containsID(confirmed, id))
					}
				}
				for _, id := range hit2 {
					if _, ok := after.ids2[id]; !ok {
						return fmt.Errorf("%s: right after the block (first pool access) V2PoolTransaction(%v) still returned the transaction, the listing taken next does not hold it (confirmed by the block: %v)", where, id, containsID(confirmed, id))
					}
				}
				if len(before.v1)+len(before.v2) > 0 {
					cs.Class("lookup-by-id-is-the-first-access-after-a-block")
				}
			}
		}
	}
	cs.Classf("regime=%d", c.Regime)
	if lerr := listedAreRetrievable(node); lerr != nil {
		return fmt.Errorf("at the end: %w", lerr)
	}
	return nil
}

// listedAreRetrievable: what the pool lists must be found by id through the
// lookup of its kind, and only there.
func listedAreRetrievable(n *kit.Node) error {
	pv := viewPool(n)
	for _, t := range pv.v1 {
		if g, ok := n.CM.PoolTransaction(t.ID()); !ok || g.ID() != t.ID() {
			return fmt.Errorf("PoolTransactions lists %v but PoolTransaction reports it absent (or returns another transaction)", t.ID())
		}
		if _, ok := n.CM.V2PoolTransaction(t.ID()); ok {
			return fmt.Errorf("V2PoolTransaction finds the v1 transaction %v", t.ID())
		}
	}
	for _, t := range pv.v2 {
		if g, ok := n.CM.V2PoolTransaction(t.ID()); !ok || g.ID() != t.ID() {
			return fmt.Errorf("V2PoolTransactions lists %v but V2PoolTransaction reports it absent (or returns another transaction)", t.ID())
		}
		if _, ok := n.CM.PoolTransaction(t.ID()); ok {
			return fmt.Errorf("PoolTransaction finds the v2 transaction %v", t.ID())
		}
	}
	return nil
}

var c14Prop = kit.Prop[C14Case]{
	ID:   "C14",
	Rule: "stateful sequences (1..14 ops) over one manager on a short base chain in three regimes (v1+v2 overlap, v2 only, v1 only): submit v1 / v2 sets built against the tip's reference ledger (fresh, with a prefix of already pooled transactions, with a member that is valid against the tip but double-spends a pooled input at a drawn position, with a member carrying an invalid signature at a drawn position), look up ids drawn from pooled v1, pooled v2, confirmed and random ids through BOTH lookup calls, mutate and reorder everything pool queries return, scribble over submitted v2 transactions, mine the pool or a prefix of it, and 'mineconflict': a block confirming a prefix of the pool followed, with no pool query in between, by a set one of whose members double-spends an input of a surviving pool member (must be rejected as a whole, survivors stay), 'minethenset' (a partly confirming block followed at once by V2TransactionSet for a surviving child of a survivor: exactly its pooled ancestors, creators first), and 'staleforkset': a set built on a block that is then reorganised away, one member spending an output only that block confirmed, submitted with that basis (all or nothing; known only if all were pooled). Oracle: rejected ⇒ pool id set unchanged; accepted ⇒ superset containing every member; known ⇔ every member was pooled before; lookups return exactly the pooled transaction of that kind or absence; no mutation of returned or submitted values is visible in a fresh query. Non-trivial = a pool-conflicting member at position >= 2, or a lookup on a pool holding both kinds; distinct by hash of the case.",
	Assumptions: []string{
		"sets respect the documented precondition: an element that is not on chain is created by an earlier member of the same set",
		"pools stay far below the 10-block weight limit (eviction belongs to C05)",
	},
	Gen: genC14,
	Run: runC14,
}

func TestC14(t *testing.T) { c14Prop.Main(t) }

func containsID(ids []types.TransactionID, id types.TransactionID) bool {
	for _, x := range ids {
		if x == id {
			return true
		}
	}
	return false
}
