package pchain

import (
	"bytes"
	"fmt"
	"testing"

	"go.sia.tech/core/consensus"
	"go.sia.tech/core/types"
	"pgregory.net/rapid"

	"verif/kit"
	"verif/kvm"
	"verif/refl"
)

// C17ChainCase: one chain history replayed over every backend.
type C17ChainCase struct {
	Tree    kit.TreeCase     `json:"tree"`
	Steps   []kit.SubmitStep `json:"steps"`
	FlushAt []int            `json:"flush_at,omitempty"`
	// AbortAt: store operations (same numbering as FlushAt) after which the
	// process stops: the call is abandoned, the backend discards what was not
	// flushed (Cancel) and the store is opened again on it.
	AbortAt []int `json:"abort_at,omitempty"`
}

func genC17Chain(t *rapid.T) C17ChainCase {
	cfg := kit.DefaultTreeGen()
	cfg.CorruptPct = 3
	cfg.ForkPct = 28
	cfg.Kinds = []string{"pay", "sf", "form", "fcop", "fcop", "attest", "arb"}
	if !kit.Thorough() {
		cfg.MaxBlocks = 16
	}
	tc := kit.GenTree(t, cfg)
	c := C17ChainCase{Tree: tc, Steps: kit.GenSchedule(t, len(tc.Blocks), 16)}
	n := rapid.IntRange(0, 6).Draw(t, "nflush")
	for i := 0; i < n; i++ {
		c.FlushAt = append(c.FlushAt, kit.Uniform(t, 3*len(tc.Blocks)+4, "flushat"))
	}
	if kit.Chance(t, 50, "abortroll") {
		for i := 0; i < 1+kit.Uniform(t, 2, "nabort"); i++ {
			c.AbortAt = append(c.AbortAt, kit.Uniform(t, 2*len(tc.Blocks)+2, "abortat"))
		}
	}
	return c
}

// runC17Chain: the chain store must behave the same whichever backend it is
// given: after every submission Tip, TipState, the error/no-error outcome and
// the full store dump agree across all five backends (flushes are injected at
// the same store operations everywhere).
func runC17Chain(c C17ChainCase, cs *kit.CaseStats) error {
	tr := kit.BuildTree(c.Tree)
	flushAt := map[int]bool{}
	for _, f := range c.FlushAt {
		flushAt[f] = true
	}
	abortAt := map[int]bool{}
	for _, f := range c.AbortAt {
		abortAt[f] = true
	}
	type inst struct {
		name string
		node *kit.Node
		ops  int
	}
	var insts []*inst
	for _, be := range kvm.BackendNames {
		n, err := kit.NewNode(tr, be)
		if err != nil {
			return fmt.Errorf("INFRA %s: %v", be, err)
		}
		defer n.Close()
		in := &inst{name: be, node: n}
		insts = append(insts, in)
	}
	install := func(in *inst) {
		hook := func(types.ChainIndex) bool {
			in.ops++
			if abortAt[in.ops-1] {
				panic(crashSentinel{})
			}
			return flushAt[in.ops-1]
		}
		in.node.Hooked.AfterApply = func(cs2 consensusState) bool { return hook(cs2.Index) }
		in.node.Hooked.AfterRevert = func(cs2 consensusState) bool { return hook(cs2.Index) }
	}
	for _, in := range insts {
		install(in)
	}
	ref := insts[0]
	for si, st := range c.Steps {
		_, blocks, states, validated := tr.ResolveBatch(st, ref.node.ValidatedParent)
		if len(blocks) == 0 {
			continue
		}
		var refErr error
		var refDump kit.Dump
		refCrashed := false
		for i, in := range insts {
			var err error
			crashed := false
			func() {
				defer func() {
					if r := recover(); r != nil {
						if _, ok := r.(crashSentinel); !ok {
							panic(r)
						}
						crashed = true
					}
				}()
				if validated {
					err = in.node.CM.AddValidatedV2Blocks(blocks, states)
				} else {
					err = in.node.Submit(blocks)
				}
			}()
			if crashed {
				// the process stopped inside the call: what was not flushed is
				// gone, the store is opened again on the same backend
				in.node.Backend.DB.Cancel()
				n2, rerr := kit.OpenNode(tr, in.node.Backend)
				if rerr != nil {
					return fmt.Errorf("step %d: backend %s: opening the store again after a stop at store operation %d failed: %v", si, in.name, in.ops-1, rerr)
				}
				for id := range in.node.Submitted {
					n2.Submitted[id] = true
				}
				n2.MaxHeight = in.node.MaxHeight
				in.node = n2
				install(in)
				err = fmt.Errorf("process stopped")
				if i == 0 {
					cs.Class("chain:stop-inside-a-call-cancel-reopen")
				}
			}
			if i == 0 {
				refCrashed = crashed
			} else if crashed != refCrashed {
				return fmt.Errorf("step %d: INFRA: backend %s stopped=%v, %s stopped=%v (operation numbering differs)", si, in.name, crashed, ref.name, refCrashed)
			}
			d := in.node.Dump(kit.DumpOpts{})
			if i == 0 {
				refErr, refDump = err, d
				continue
			}
			where := fmt.Sprintf("step %d (batch %v): backend %s vs %s", si, st.Batch, in.name, ref.name)
			if (err == nil) != (refErr == nil) {
				return fmt.Errorf("%s: submission outcome differs (%v vs %v)", where, err, refErr)
			}
			if in.node.CM.Tip() != ref.node.CM.Tip() || !bytes.Equal(refl.StateBytes(in.node.CM.TipState()), refl.StateBytes(ref.node.CM.TipState())) {
				return fmt.Errorf("%s: tip differs (%v vs %v)", where, in.node.CM.Tip(), ref.node.CM.Tip())
			}
			if !d.Equal(refDump) {
				return fmt.Errorf("%s: store contents differ (- %s, + %s):\n%s", where, in.name, ref.name, d.Diff(refDump))
			}
		}
		if refErr != nil {
			cs.Class("chain:failed-submission")
		}
	}
	if ref.ops >= 6 {
		cs.NonTrivial()
	}
	cs.Classf("chain:store-ops>=%d", min(ref.ops/10*10, 40))
	if err := ref.node.Audit(); err != nil {
		return err
	}
	return nil
}

var c17ChainProp = kit.Prop[C17ChainCase]{
	ID:          "C17",
	Rule:        "chain level: a generated fork-tree history (with corruptions, reorgs, failed reorgs, injected flushes at drawn store operations) is replayed over MemDB, CacheDB(MemDB), CacheDB(CacheDB(MemDB)), Bolt and CacheDB(Bolt), in half of the cases with one or two process stops at drawn store operations (the call is abandoned, the backend cancels what was not flushed, the store is opened again on it); after every submission or stop the outcome, Tip, TipState and the complete store dump must agree across all backends. Non-trivial = at least 6 single applies/reverts.",
	Assumptions: c17Assumptions,
	Gen:         genC17Chain,
	Run:         runC17Chain,
}

func TestC17Chain(t *testing.T) { c17ChainProp.Main(t) }

type consensusState = consensus.State
