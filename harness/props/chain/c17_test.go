package pchain

import (
	"bytes"
	"fmt"
	"os"
	"strconv"
	"testing"

	"pgregory.net/rapid"

	"verif/kit"
	"verif/kvm"
)

// KVOp is one step of a C17 case.
type KVOp struct {
	Op    string `json:"op"` // create put del flush cancel reopen
	B     int    `json:"b,omitempty"`
	K     int    `json:"k,omitempty"`
	V     int    `json:"v,omitempty"`
	Quiet bool   `json:"quiet,omitempty"` // do not read everything back after this step
}

// C17Case is an operation sequence run against every backend and the model.
type C17Case struct {
	Ops []KVOp `json:"ops"`
}

var c17Buckets = []string{"A", "B"}
var c17Keys = [][]byte{[]byte("k0"), []byte("k1"), []byte("\x00\x00\x00\x00\x00\x00\x00\x07"), []byte("k")}
var c17Vals = [][]byte{{1}, {2, 2}, bytes.Repeat([]byte{3}, 40), {}}

func genC17(t *rapid.T) C17Case {
	n := rapid.IntRange(1, 24).Draw(t, "n")
	var c C17Case
	for i := 0; i < n; i++ {
		op := KVOp{}
		switch k := rapid.IntRange(0, 19).Draw(t, "op"); {
		case k < 2:
			op.Op = "create"
		case k < 9:
			op.Op = "put"
		case k < 14:
			op.Op = "del"
		case k < 16:
			op.Op = "flush"
		case k < 18:
			op.Op = "cancel"
		default:
			op.Op = "reopen"
		}
		switch op.Op {
		case "create":
			op.B = rapid.IntRange(0, 1).Draw(t, "b")
		case "put":
			op.B = rapid.IntRange(0, 1).Draw(t, "b")
			op.K = rapid.IntRange(0, len(c17Keys)-1).Draw(t, "k")
			op.V = rapid.IntRange(0, len(c17Vals)-1).Draw(t, "v")
		case "del":
			op.B = rapid.IntRange(0, 1).Draw(t, "b")
			op.K = rapid.IntRange(0, len(c17Keys)-1).Draw(t, "k")
		}
		op.Quiet = rapid.IntRange(0, 4).Draw(t, "quiet") == 0
		c.Ops = append(c.Ops, op)
	}
	return c
}

func mod(i, n int) int { return ((i % n) + n) % n }

// kvSession runs a sequence on one backend next to the model.
type kvSession struct {
	be    *kvm.Backend
	model *kvm.Model
	// classification
	readAfterUnflushedDelete bool
	readAfterUnflushedNewPut bool
	dirty                    map[string]string // bucket/key -> "del" | "newput" | "put"
	skipped                  int
	recreated                bool
	stoppedEarly             bool
	stoppedEarlyDirty        bool
}

func newKVSession(name string) (*kvSession, error) {
	be, err := kvm.NewBackend(name)
	if err != nil {
		return nil, err
	}
	return &kvSession{be: be, model: kvm.NewModel(), dirty: map[string]string{}}, nil
}

func (s *kvSession) checkAll(step int, op KVOp) error {
	for _, bn := range c17Buckets {
		b := s.be.DB.Bucket([]byte(bn))
		if (b != nil) != s.model.HasBucket(bn) {
			return fmt.Errorf("[%s] after step %d %+v: Bucket(%q) present=%v, model says %v", s.be.Name, step, op, bn, b != nil, s.model.HasBucket(bn))
		}
		if b == nil {
			continue
		}
		for _, k := range c17Keys {
			got := b.Get(k)
			want := s.model.Get(bn, string(k))
			if (got == nil) != (want == nil) || !bytes.Equal(got, want) {
				return fmt.Errorf("[%s] after step %d %+v: Get(%s/%q) = %x (nil=%v), model %x (nil=%v)", s.be.Name, step, op, bn, k, got, got == nil, want, want == nil)
			}
			switch s.dirty[bn+"/"+string(k)] {
			case "del":
				s.readAfterUnflushedDelete = true
			case "newput":
				s.readAfterUnflushedNewPut = true
			}
		}
		got, want := kvm.Collect(b), s.model.Iter(bn)
		if !kvm.EqualKVs(got, want) {
			return fmt.Errorf("[%s] after step %d %+v: Iter(%s) = %s, model %s", s.be.Name, step, op, bn, kvm.FormatKVs(got), kvm.FormatKVs(want))
		}
		// an iteration the consumer stops early: exactly `stop` distinct pairs
		// of the model are handed over and nothing after the consumer said stop
		// (the order of pairs is not part of the contract: MemDB has none)
		for stop := 1; stop <= len(want); stop++ {
			var seen []kvm.KV
			calls, after := 0, 0
			b.Iter()(func(k, v []byte) bool {
				calls++
				if calls > stop {
					after++
					return false
				}
				seen = append(seen, kvm.KV{K: append([]byte(nil), k...), V: append([]byte(nil), v...)})
				return calls < stop
			})
			if after > 0 {
				return fmt.Errorf("[%s] after step %d %+v: Iter(%s) stopped by the consumer after %d of %d pairs called it %d more time(s)", s.be.Name, step, op, bn, stop, len(want), after)
			}
			if len(seen) != stop {
				return fmt.Errorf("[%s] after step %d %+v: Iter(%s) stopped after %d pairs handed over %d (model has %d)", s.be.Name, step, op, bn, stop, len(seen), len(want))
			}
			kvm.SortKVs(seen)
			j := 0
			for _, kv := range seen {
				for j < len(want) && !(bytes.Equal(want[j].K, kv.K) && bytes.Equal(want[j].V, kv.V)) {
					j++
				}
				if j == len(want) {
					return fmt.Errorf("[%s] after step %d %+v: Iter(%s) stopped after %d pairs yielded %s, not distinct pairs of the model %s", s.be.Name, step, op, bn, stop, kvm.FormatKVs(seen), kvm.FormatKVs(want))
				}
				j++
			}
			if stop < len(want) {
				s.stoppedEarly = true
				if len(s.dirty) > 0 {
					s.stoppedEarlyDirty = true
				}
			}
		}
	}
	return nil
}

func (s *kvSession) apply(step int, op KVOp) error {
	bn := c17Buckets[mod(op.B, len(c17Buckets))]
	k := c17Keys[mod(op.K, len(c17Keys))]
	v := c17Vals[mod(op.V, len(c17Vals))]
	switch op.Op {
	case "create":
		if s.model.HasBucket(bn) {
			// creating a bucket that exists (committed, or created earlier in
			// this session) must be refused and must not touch anything
			if _, err := s.be.DB.CreateBucket([]byte(bn)); err == nil {
				return fmt.Errorf("[%s] step %d: CreateBucket(%q) of an existing bucket (committed=%v) succeeded; Bolt refuses it", s.be.Name, step, bn, s.model.Committed[bn] != nil)
			}
			s.recreated = true
			return nil
		}
		if _, err := s.be.DB.CreateBucket([]byte(bn)); err != nil {
			return fmt.Errorf("[%s] step %d: CreateBucket(%q) of a fresh bucket failed: %v", s.be.Name, step, bn, err)
		}
		s.model.Create(bn)
	case "put":
		if !s.model.HasBucket(bn) {
			s.skipped++ // domain: only created buckets are written
			return nil
		}
		b := s.be.DB.Bucket([]byte(bn))
		if b == nil {
			return fmt.Errorf("[%s] step %d: Bucket(%q) is nil although it was created", s.be.Name, step, bn)
		}
		if err := b.Put(append([]byte(nil), k...), append([]byte{}, v...)); err != nil {
			return fmt.Errorf("[%s] step %d: Put(%s/%q) failed: %v", s.be.Name, step, bn, k, err)
		}
		if s.model.Committed[bn][string(k)] == nil {
			s.dirty[bn+"/"+string(k)] = "newput"
		} else {
			s.dirty[bn+"/"+string(k)] = "put"
		}
		s.model.Put(bn, string(k), v)
	case "del":
		if !s.model.HasBucket(bn) {
			s.skipped++
			return nil
		}
		b := s.be.DB.Bucket([]byte(bn))
		if b == nil {
			return fmt.Errorf("[%s] step %d: Bucket(%q) is nil although it was created", s.be.Name, step, bn)
		}
		if err := b.Delete(append([]byte(nil), k...)); err != nil {
			return fmt.Errorf("[%s] step %d: Delete(%s/%q) failed: %v", s.be.Name, step, bn, k, err)
		}
		if s.model.Committed[bn][string(k)] != nil {
			s.dirty[bn+"/"+string(k)] = "del"
		} else {
			delete(s.dirty, bn+"/"+string(k))
		}
		s.model.Delete(bn, string(k))
	case "flush":
		if err := s.be.DB.Flush(); err != nil {
			return fmt.Errorf("[%s] step %d: Flush failed: %v", s.be.Name, step, err)
		}
		s.model.Flush()
		s.dirty = map[string]string{}
	case "cancel":
		s.be.DB.Cancel()
		s.model.Cancel()
		s.dirty = map[string]string{}
	case "reopen":
		if err := s.be.Reopen(); err != nil {
			return fmt.Errorf("[%s] step %d: reopen failed: %v", s.be.Name, step, err)
		}
		s.model.Cancel()
		s.dirty = map[string]string{}
	default:
		return fmt.Errorf("harness: unknown op %q", op.Op)
	}
	return nil
}

func runKVOn(backend string, c C17Case, cs *kit.CaseStats) (err error) {
	s, err := newKVSession(backend)
	if err != nil {
		return fmt.Errorf("INFRA backend %s: %v", backend, err)
	}
	defer s.be.Close()
	for i, op := range c.Ops {
		if err := s.apply(i, op); err != nil {
			return err
		}
		if !op.Quiet {
			if err := s.checkAll(i, op); err != nil {
				return err
			}
		}
	}
	if err := s.checkAll(len(c.Ops), KVOp{Op: "end"}); err != nil {
		return err
	}
	if s.readAfterUnflushedDelete {
		cs.Class("read-after-unflushed-delete")
		cs.NonTrivial()
	}
	if s.readAfterUnflushedNewPut {
		cs.Class("read-after-unflushed-new-put")
		cs.NonTrivial()
	}
	if s.recreated {
		cs.Class("create-of-existing-bucket-refused")
	}
	if s.stoppedEarly {
		cs.Class("iteration-stopped-early")
	}
	if s.stoppedEarlyDirty {
		cs.Class("iteration-stopped-early-with-unflushed-writes")
	}
	return nil
}

func runC17(c C17Case, cs *kit.CaseStats) error {
	for _, op := range c.Ops {
		cs.Class("op=" + op.Op)
	}
	for _, be := range kvm.BackendNames {
		if err := runKVOn(be, c, cs); err != nil {
			return err
		}
	}
	return nil
}

var c17Assumptions = []string{
	"domain: only created buckets are written; creating an existing bucket is expected to be refused without effect (Bolt's behaviour); values are non-nil (one of them zero-length, as the chain store writes for an emptied expiration list); key/value slices are not mutated after being handed over",
	"crash model for 'reopen': everything not flushed is lost (Cancel, close without committing, open again); torn commits inside bbolt are out of scope",
	"bbolt is opened with NoSync (durability to the OS, not the disk)",
}

var c17Prop = kit.Prop[C17Case]{
	ID:          "C17",
	Rule:        "rapid operation sequences (1..24 ops: create (also of existing buckets), put, delete, flush, cancel, crash-reopen over 2 buckets × 4 keys × 4 values, one of them zero-length) run on MemDB, CacheDB(MemDB), CacheDB(CacheDB(MemDB)), Bolt and CacheDB(Bolt) next to a committed-map+overlay model; after (most) steps every key is read and every bucket iterated — fully, and stopped by the consumer after each possible number of pairs — on every backend and compared with the model. Non-trivial = a read or iteration that follows an unflushed delete of a committed key or an unflushed put of a new key; distinct by hash of the sequence.",
	Assumptions: c17Assumptions,
	Gen:         genC17,
	Run:         runC17,
}

func TestC17(t *testing.T) { c17Prop.Main(t) }

// TestC17Exhaustive enumerates every sequence up to a length bound over a
// small alphabet (one pre-created bucket, two keys, two values).
func TestC17Exhaustive(t *testing.T) {
	maxLen := 5
	if kit.Thorough() {
		maxLen = 7
	}
	if v, err := strconv.Atoi(os.Getenv("VERIF_C17_LEN")); err == nil {
		maxLen = v
	}
	alphabet := []KVOp{
		{Op: "put", K: 0, V: 0}, {Op: "put", K: 0, V: 3}, {Op: "put", K: 1, V: 0},
		{Op: "del", K: 0}, {Op: "del", K: 1}, {Op: "flush"}, {Op: "cancel"},
	}
	d := kit.NewDirect(t, "C17", fmt.Sprintf("exhaustive: every sequence of length 1..%d over {put k0=v0, put k0=<empty value>, put k1=v0, del k0, del k1, flush, cancel} after create+flush of one bucket, full read-back after every step, on MemDB, CacheDB(MemDB), CacheDB(CacheDB(MemDB)); Bolt and CacheDB(Bolt) up to length %d", maxLen, maxLen-2), c17Assumptions...)
	d.St.Exhaustive = true
	defer d.Done()
	prefix := []KVOp{{Op: "create", B: 0}, {Op: "flush"}}
	seq := make([]int, 0, maxLen)
	var rec func()
	rec = func() {
		if len(seq) > 0 {
			c := C17Case{Ops: append([]KVOp(nil), prefix...)}
			for _, i := range seq {
				c.Ops = append(c.Ops, alphabet[i])
			}
			cs := &kit.CaseStats{}
			var err error
			for _, be := range kvm.BackendNames[:3] {
				if err = runKVOn(be, c, cs); err != nil {
					break
				}
			}
			if err == nil && len(seq) <= maxLen-2 {
				for _, be := range kvm.BackendNames[3:] {
					if err = runKVOn(be, c, cs); err != nil {
						break
					}
				}
			}
			cs.Classf("len=%d", len(seq))
			d.Case(c, cs, err)
		}
		if len(seq) == maxLen {
			return
		}
		for i := range alphabet {
			seq = append(seq, i)
			rec()
			seq = seq[:len(seq)-1]
		}
	}
	rec()
}

// FuzzC17Ops: coverage-guided search over byte-encoded operation streams.
func FuzzC17Ops(f *testing.F) {
	f.Add([]byte{0, 0, 0, 0x10, 1, 2, 0x30, 0, 0, 0x20, 1, 0, 0x40, 0, 0})
	f.Fuzz(func(t *testing.T, data []byte) {
		var c C17Case
		names := []string{"create", "put", "del", "flush", "cancel", "reopen", "put", "del"}
		for i := 0; i+2 < len(data) && len(c.Ops) < 40; i += 3 {
			c.Ops = append(c.Ops, KVOp{Op: names[int(data[i]>>4)%len(names)], B: int(data[i] & 1), K: int(data[i+1]), V: int(data[i+2])})
		}
		if err := runC17(c, &kit.CaseStats{}); err != nil {
			t.Fatal(err)
		}
	})
}
