package pchain

import (
	"bytes"
	"fmt"
	"sync"
	"testing"

	"go.sia.tech/core/types"

	"verif/kit"
	"verif/refl"
)

// TestC19Concurrent: pruning while blocks arrive, the way the repository's
// own sync command uses it (a pruner trailing the tip on reorg notifications
// while another goroutine delivers blocks). Only schedule-independent facts
// are asserted.
func TestC19Concurrent(t *testing.T) {
	d := kit.NewDirect(t, "C19", "concurrent family: a linear chain of 150..260 valid blocks (v1, overlap and v2 regimes, a payment every few blocks) delivered one block or a small batch at a time by one goroutine while a second goroutine prunes behind the tip on every reorg notification (trailing distance 0, 1, 3 or 20) and a third reads tip, best index, header ranges and bodies; every delivery of a valid block must succeed, no call may panic, and at the end tip, state, best index and the kept/pruned bodies equal those of an unpruned twin pruned once at the final height; schedule-independent assertions only")
	defer d.Done()
	type ccase struct {
		Round int `json:"round"`
		Trail int `json:"trail"`
		Batch int `json:"batch"`
		Net   int `json:"net"`
	}
	rounds := 1
	if kit.Thorough() {
		rounds = 4
	}
	idx := 0
	for round := 0; round < rounds; round++ {
		for _, trail := range []int{0, 1, 3, 20} {
			for _, batch := range []int{1, 4} {
				idx++
				if !kit.MyShard(idx) {
					continue
				}
				cc := ccase{round, trail, batch, (round + trail + batch) % 3}
				cs := &kit.CaseStats{}
				cs.NonTrivial()
				cs.Classf("concurrent-prune:trail=%d", trail)
				err := func() error {
					net := kit.NetSpec{Maturity: 1, Allow: 1, ReqOff: 0, CutOff: 600}
					switch cc.Net {
					case 1:
						net = kit.NetSpec{Maturity: 1, Allow: 40, ReqOff: 60, CutOff: 600}
					case 2:
						net = kit.NetSpec{Maturity: 1, Allow: 500, ReqOff: 10, CutOff: 600}
					}
					tc := kit.TreeCase{Net: net}
					n := 150 + 37*round + 10*trail
					for i := 0; i < n; i++ {
						bs := kit.BlockSpec{Dt: 1, Miner: i % 4}
						if i%5 == 2 {
							bs.Txs = []kit.Intent{{Kind: "pay", V2: i%2 == 0, Who: i % 4, To: (i + 1) % 4, Pick: i, Amt: 2}}
						}
						tc.Blocks = append(tc.Blocks, bs)
					}
					tr := kit.BuildTree(tc)
					for i, tn := range tr.Nodes {
						if tn.Ledger == nil {
							return fmt.Errorf("INFRA: block %d invalid: %v", i, tn.Err)
						}
					}
					node, err := kit.NewNode(tr, "mem")
					if err != nil {
						return fmt.Errorf("INFRA: %v", err)
					}
					defer node.Close()
					var wg sync.WaitGroup
					var mu sync.Mutex
					var firstErr error
					fail := func(e error) {
						mu.Lock()
						if firstErr == nil {
							firstErr = e
						}
						mu.Unlock()
					}
					// pruner: trails the tip on notifications
					tips := make(chan types.ChainIndex, 4096)
					cancel := node.CM.OnReorg(func(ci types.ChainIndex) {
						select {
						case tips <- ci:
						default:
						}
					})
					defer cancel()
					stop := make(chan struct{})
					prunes := 0
					wg.Add(1)
					go func() {
						defer wg.Done()
						defer func() {
							if r := recover(); r != nil {
								fail(fmt.Errorf("PruneBlocks panicked while blocks were arriving: %v", r))
							}
						}()
						for {
							select {
							case <-stop:
								return
							case ci := <-tips:
								if ci.Height > uint64(cc.Trail) {
									node.CM.PruneBlocks(ci.Height - uint64(cc.Trail))
									prunes++
								}
							}
						}
					}()
					// reader
					reads := 0
					wg.Add(1)
					go func() {
						defer wg.Done()
						defer func() {
							if r := recover(); r != nil {
								fail(fmt.Errorf("a read (Tip / BestIndex / Header / Block) panicked while blocks were arriving and being pruned: %v", r))
							}
						}()
						for {
							select {
							case <-stop:
								return
							default:
							}
							tip := node.CM.Tip()
							if bi, ok := node.CM.BestIndex(tip.Height / 2); ok {
								if tn := tr.ByID[bi.ID]; tn == nil || tn.Height != bi.Height {
									fail(fmt.Errorf("BestIndex(%d) = %v, not a block of the delivered chain at that height", tip.Height/2, bi))
									return
								}
								if hs, _, herr := node.CM.Headers(bi, 3); herr != nil {
									fail(fmt.Errorf("Headers(%v, 3) of a best-chain index failed (headers survive pruning): %v", bi, herr))
									return
								} else if len(hs) > 0 && hs[0].ParentID != bi.ID {
									fail(fmt.Errorf("Headers(%v, 3) does not continue from that index", bi))
									return
								}
								node.CM.Block(bi.ID)
							}
							reads++
						}
					}()
					// deliverer (this goroutine)
					for i := 0; i < len(tr.Nodes); i += cc.Batch {
						var blocks []types.Block
						for j := i; j < i+cc.Batch && j < len(tr.Nodes); j++ {
							blocks = append(blocks, tr.Nodes[j].Block)
						}
						if err := node.CM.AddBlocks(blocks); err != nil {
							fail(fmt.Errorf("AddBlocks of valid block(s) %d.. extending the tip failed while a pruner trails the tip by %d: %v", i, cc.Trail, err))
							break
						}
						mu.Lock()
						e := firstErr
						mu.Unlock()
						if e != nil {
							break
						}
					}
					close(stop)
					wg.Wait()
					if firstErr != nil {
						return firstErr
					}
					last := tr.Nodes[len(tr.Nodes)-1]
					if node.CM.Tip() != last.Index() {
						return fmt.Errorf("after delivering %d valid blocks the tip is %v, not %v", len(tr.Nodes), node.CM.Tip(), last.Index())
					}
					if !bytes.Equal(refl.StateBytes(node.CM.TipState()), refl.StateBytes(last.Ledger.State)) {
						return fmt.Errorf("tip state differs from the reference after concurrent pruning")
					}
					// one final prune at a known height, then compare with the model:
					// bodies below it gone, bodies from it on present, headers and index everywhere
					final := last.Height - uint64(cc.Trail)
					node.CM.PruneBlocks(final)
					for _, tn := range tr.Nodes {
						bi, ok := node.CM.BestIndex(tn.Height)
						if !ok || bi != tn.Index() {
							return fmt.Errorf("BestIndex(%d) = %v ok=%v, want %v", tn.Height, bi, ok, tn.Index())
						}
						if cs, ok := node.CM.State(tn.ID); !ok || !bytes.Equal(refl.StateBytes(cs), refl.StateBytes(tn.Ledger.State)) {
							return fmt.Errorf("state of %v missing or different from the reference", tn.Index())
						}
						_, has := node.CM.Block(tn.ID)
						if tn.Height >= final && !has {
							return fmt.Errorf("body of %v (at or above the prune height %d) is gone", tn.Index(), final)
						}
						if tn.Height < final && has {
							return fmt.Errorf("body of %v (below the prune height %d) is still served", tn.Index(), final)
						}
					}
					cs.Classf("concurrent-prune:prunes>0=%v", prunes > 0)
					_ = reads
					return nil
				}()
				d.Case(cc, cs, err)
			}
		}
	}
}

// TestC19LargeBacklog: the first prune on a node that has already followed the
// chain for a long time removes hundreds of bodies in one call; a later prune
// at a greater height removes the rest. After each call every best-chain body
// below the prune height is gone, every body from it on is held, headers and
// states stay everywhere (sequential; chains of 600..1100 empty v2 blocks).
func TestC19LargeBacklog(t *testing.T) {
	d := kit.NewDirect(t, "C19", "large backlog: chains of 600, 900 and (thorough) 1100 blocks followed without pruning, then PruneBlocks(tip-10), 20 more blocks, PruneBlocks(new tip-5): after each call every best-chain body below the prune height is gone, every body at or above it is served, every header and state is still there, and the minimum reorg index is the prune height")
	defer d.Done()
	type lcase struct {
		Len int `json:"len"`
	}
	lens := []int{600, 900}
	if kit.Thorough() {
		lens = append(lens, 1100)
	}
	for i, n := range lens {
		if !kit.MyShard(i) {
			continue
		}
		lc := lcase{n}
		cs := &kit.CaseStats{}
		cs.NonTrivial()
		cs.Classf("large-backlog:len=%d", n)
		err := func() error {
			tc := kit.TreeCase{Net: kit.NetSpec{Maturity: 1, Allow: 1, ReqOff: 0, CutOff: 4000}}
			for j := 0; j < n+20; j++ {
				tc.Blocks = append(tc.Blocks, kit.BlockSpec{Dt: 1, Miner: j % 4})
			}
			tr := kit.BuildTree(tc)
			node, err := kit.NewNode(tr, "mem")
			if err != nil {
				return fmt.Errorf("INFRA: %v", err)
			}
			defer node.Close()
			feed := func(from, to int) error {
				for j := from; j < to; j += 50 {
					var blocks []types.Block
					for k := j; k < j+50 && k < to; k++ {
						if tr.Nodes[k].Ledger == nil {
							return fmt.Errorf("INFRA: block %d invalid: %v", k, tr.Nodes[k].Err)
						}
						blocks = append(blocks, tr.Nodes[k].Block)
					}
					if err := node.CM.AddBlocks(blocks); err != nil {
						return fmt.Errorf("valid blocks %d.. refused: %v", j, err)
					}
				}
				return nil
			}
			verify := func(h uint64) error {
				for _, tn := range tr.Nodes {
					if tn.Height > node.CM.Tip().Height {
						break
					}
					_, has := node.CM.Block(tn.ID)
					if tn.Height < h && has {
						return fmt.Errorf("after PruneBlocks(%d) on a chain of %d blocks: the body at height %d is still served", h, node.CM.Tip().Height, tn.Height)
					}
					if tn.Height >= h && !has {
						return fmt.Errorf("after PruneBlocks(%d): the body at height %d (at or above the prune height) is gone", h, tn.Height)
					}
					if st, ok := node.CM.State(tn.ID); !ok || !bytes.Equal(refl.StateBytes(st), refl.StateBytes(tn.Ledger.State)) {
						return fmt.Errorf("after PruneBlocks(%d): the state of height %d is missing or differs from the reference", h, tn.Height)
					}
					if bi, ok := node.CM.BestIndex(tn.Height); !ok || bi != tn.Index() {
						return fmt.Errorf("after PruneBlocks(%d): BestIndex(%d) = %v, %v", h, tn.Height, bi, ok)
					}
				}
				if mri := node.CM.MinReorgIndex(); mri.Height != h && h > 0 {
					return fmt.Errorf("after PruneBlocks(%d): MinReorgIndex is %v", h, mri)
				}
				return nil
			}
			if err := feed(0, n); err != nil {
				return err
			}
			h1 := uint64(n - 10)
			node.CM.PruneBlocks(h1)
			if err := verify(h1); err != nil {
				return err
			}
			if err := feed(n, n+20); err != nil {
				return err
			}
			h2 := uint64(n + 15)
			node.CM.PruneBlocks(h2)
			return verify(h2)
		}()
		d.Case(lc, cs, err)
	}
}
