package pchain

import (
	"bytes"
	"fmt"
	"sync"
	"testing"

	"go.sia.tech/core/types"

	"verif/kit"
	"verif/refl"
)

// TestC19Concurrent: pruning while blocks arrive, the way the repository's
// own sync command uses it (a pruner trailing the tip on reorg notifications
// while another goroutine delivers blocks). Only schedule-independent facts
// are asserted.
func TestC19Concurrent(t *testing.T) {
	d := kit.NewDirect(t, "C19", "concurrent family: a linear chain of 150..260 valid blocks (v1, overlap and v2 regimes, a payment every few blocks) delivered one block or a small batch at a time by one goroutine while a second goroutine prunes behind the tip on every reorg notification (trailing distance 0, 1, 3 or 20) and a third reads tip, best index, header ranges and bodies; every delivery of a valid block must succeed, no call may panic, and at the end tip, state, best index and the kept/pruned bodies equal those of an unpruned twin pruned once at the final height; schedule-independent assertions only")
	defer d.Done()
	type ccase struct {
		Round int `json:"round"`
		Trail int `json:"trail"`
		Batch int `json:"batch"`
		Net   int `json:"net"`
	}
	rounds := 1
	if kit.Thorough() {
		rounds = 4
	}
	idx := 0
	for round := 0; round < rounds; round++ {
		for _, trail := range []int{0, 1, 3, 20} {
			for _, batch := range []int{1, 4} {
				idx++
				if !kit.MyShard(idx) {
					continue
				}
				cc := ccase{round, trail, batch, (round + trail + batch) % 3}
				cs := &kit.CaseStats{}
				cs.NonTrivial()
				cs.Classf("concurrent-prune:trail=%d", trail)
				err := func() error {
					net := kit.NetSpec{Maturity: 1, Allow: 1, ReqOff: 0, CutOff: 600}
					switch cc.Net {
					case 1:
						net = kit.NetSpec{Maturity: 1, Allow: 40, ReqOff: 60, CutOff: 600}
					case 2:
						net = kit.NetSpec{Maturity: 1, Allow: 500, ReqOff: 10, CutOff: 600}
					}
					tc := kit.TreeCase{Net: net}
					n := 150 + 37*round + 10*trail
					for i := 0; i < n; i++ {
						bs := kit.BlockSpec{Dt: 1, Miner: i % 4}
						if i%5 == 2 {
							bs.Txs = []kit.Intent{{Kind: "pay", V2: i%2 == 0, Who: i % 4, To: (i + 1) % 4, Pick: i, Amt: 2}}
						}
						tc.Blocks = append(tc.Blocks, bs)
					}
					tr := kit.BuildTree(tc)
					for i, tn := range tr.Nodes {
						if tn.Ledger == nil {
							return fmt.Errorf("INFRA: block %d invalid: %v", i, tn.Err)
						}
					}
					node, err := kit.NewNode(tr, "mem")
					if err != nil {
						return fmt.Errorf("INFRA: %v", err)
					}
					defer node.Close()
					var wg sync.WaitGroup
					var mu sync.Mutex
					var firstErr error
					fail := func(e error) {
						mu.Lock()
						if firstErr == nil {
							firstErr = e
						}
						mu.Unlock()
					}
					// pruner: trails the tip on notifications
					tips := make(chan types.ChainIndex, 4096)
					cancel := node.CM.OnReorg(func(ci types.ChainIndex) {
						select {
						case tips <- ci:
						default:
						}
					})
					defer cancel()
					stop := make(chan struct{})
					prunes := 0
					wg.Add(1)
					go func() {
						defer wg.Done()
						defer func() {
							if r := recover(); r != nil {
								fail(fmt.Errorf("PruneBlocks panicked while blocks were arriving: %v", r))
							}
						}()
						for {
							select {
							case <-stop:
								return
							case ci := <-tips:
								if ci.Height > uint64(cc.Trail) {
									node.CM.PruneBlocks(ci.Height - uint64(cc.Trail))
									prunes++
								}
							}
						}
					}()
					// reader
					reads := 0
					wg.Add(1)
					go func() {
						defer wg.Done()
						defer func() {
							if r := recover(); r != nil {
								fail(fmt.Errorf("a read (Tip / BestIndex / Header / Block) panicked while blocks were arriving and being pruned: %v", r))
							}
						}()
						for {
							select {
							case <-stop:
								return
							default:
							}
							tip := node.CM.Tip()
							if bi, ok := node.CM.BestIndex(tip.Height / 2); ok {
								if tn := tr.ByID[bi.ID]; tn == nil || tn.Height != bi.Height {
									fail(fmt.Errorf("BestIndex(%d) = %v, not a block of the delivered chain at that height", tip.Height/2, bi))
									return
								}
								if hs, _, herr := node.CM.Headers(bi, 3); herr != nil {
									fail(fmt.Errorf("Headers(%v, 3) of a best-chain index failed (headers survive pruning): %v", bi, herr))
									return
								} else if len(hs) > 0 && hs[0].ParentID != bi.ID {
									fail(fmt.Errorf("Headers(%v, 3) does not continue from that index", bi))
									return
								}
								node.CM.Block(bi.ID)
							}
							reads++
						}
					}()
					// deliverer (this goroutine)
					for i := 0; i < len(tr.Nodes); i += cc.Batch {
						var blocks []types.Block
						for j := i; j < i+cc.Batch && j < len(tr.Nodes); j++ {
							blocks = append(blocks, tr.Nodes[j].Block)
						}
						if err := node.CM.AddBlocks(blocks); err != nil {
							fail(fmt.Errorf("AddBlocks of valid block(s) %d.. extending the tip failed while a pruner trails the tip by %d: %v", i, cc.Trail, err))
							break
						}
						mu.Lock()
						e := firstErr
						mu.Unlock()
						if e != nil {
							break
						}
					}
					close(stop)
					wg.Wait()
					if firstErr != nil {
						return firstErr
					}
					last := tr.Nodes[len(tr.Nodes)-1]
					if node.CM.Tip() != last.Index() {
						return fmt.Errorf("after delivering %d valid blocks the tip is %v, not %v", len(tr.Nodes), node.CM.Tip(), last.Index())
					}
					if !bytes.Equal(refl.StateBytes(node.CM.TipState()), refl.StateBytes(last.Ledger.State)) {
						return fmt.Errorf("tip state differs from the reference after concurrent pruning")
					}
					// one final prune at a known height, then compare with the model:
					// bodies below it gone, bodies from it on present, headers and index everywhere
					final := last.Height - uint64(cc.Trail)
					node.CM.PruneBlocks(final)
					for _, tn := range tr.Nodes {
						bi, ok := node.CM.BestIndex(tn.Height)
						if !ok || bi != tn.Index() {
							return fmt.Errorf("BestIndex(%d) = %v ok=%v, want %v", tn.Height, bi, ok, tn.Index())
						}
						if cs, ok := node.CM.State(tn.ID); !ok || !bytes.Equal(refl.StateBytes(cs), refl.StateBytes(tn.Ledger.State)) {
							return fmt.Errorf("state of %v missing or different from the reference", tn.Index())
						}
						_, has := node.CM.Block(tn.ID)
						if tn.Height >= final && !has {
							return fmt.Errorf("body of %v (at or above the prune height %d) is gone", tn.Index(), final)
						}
						if tn.Height < final && has {
							return fmt.Errorf("body of %v (below the prune height %d) is still served", tn.Index(), final)
						}
					}
					cs.Classf("concurrent-prune:prunes>0=%v", prunes > 0)
					_ = reads
					return nil
				}()
				d.Case(cc, cs, err)
			}
		}
	}
}
