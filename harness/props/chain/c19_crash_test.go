package pchain

import (
	"fmt"
	"testing"
	"time"

	"go.sia.tech/core/types"

	"verif/kit"
	"verif/kvm"
)

// TestC19PruneCrash: the process stops while or right after PruneBlocks ran -
// also when the store had been idle for longer than its time-based flush
// interval (5 s), the situation in which a size/time flush fires inside long
// operations. Every database image committed from the start of the prune on
// (and the one before it: nothing of the prune durable) is reopened, pruned
// again to a higher height and flushed; then, as after any prune, every
// best-chain body below that height must be gone and the node must serve its
// chain like an unpruned twin.
func TestC19PruneCrash(t *testing.T) {
	d := kit.NewDirect(t, "C19", "prune + stop family: linear chain of 30 blocks, store flushed, idle for 0 s / 5.2 s (longer than the store's time-based flush interval), PruneBlocks(20) without a following flush; every database image committed since the prune started, and the last one before it, is reopened, PruneBlocks(25) + flush: every best-chain body below 25 must be gone, everything else served, audit clean")
	defer d.Done()
	type crashCase struct {
		IdleMs int `json:"idle_ms"`
		First  int `json:"first"`
		Second int `json:"second"`
	}
	for _, cc := range []crashCase{{0, 20, 25}, {5200, 20, 25}} {
		cs := &kit.CaseStats{}
		err := func() error {
			tc := kit.TreeCase{Net: kit.NetSpec{Maturity: 1, Allow: 5, ReqOff: 5, CutOff: 5}}
			for i := 0; i < 30; i++ {
				bs := kit.BlockSpec{Dt: 1, Miner: i % 4}
				if i%3 == 1 {
					bs.Txs = []kit.Intent{{Kind: "pay", Who: i % 4, To: (i + 1) % 4, Pick: i, Amt: 2}}
				}
				tc.Blocks = append(tc.Blocks, bs)
			}
			tr := kit.BuildTree(tc)
			inner, err := kvm.NewBackend("mem")
			if err != nil {
				return fmt.Errorf("INFRA: %v", err)
			}
			defer inner.Close()
			var images []kvm.Image
			snap := &kvm.SnapDB{Inner: inner.DB, Buckets: []string{"Version", "Network", "MainChain", "States", "Blocks", "FileContracts", "SiacoinElements", "SiafundElements", "Tree"}}
			snap.OnCommit = func(img kvm.Image) { images = append(images, img) }
			be := &kvm.Backend{Name: "snap(mem)", DB: snap, Reopen: func() error { return nil }, Close: func() {}}
			node, err := kit.OpenNode(tr, be)
			if err != nil {
				return fmt.Errorf("INFRA: %v", err)
			}
			for _, n := range tr.Nodes {
				if err := node.Submit([]types.Block{n.Block}); err != nil {
					return fmt.Errorf("INFRA: %v", err)
				}
			}
			node.Store.Flush()
			if len(images) == 0 {
				return fmt.Errorf("INFRA: no commit recorded")
			}
			time.Sleep(time.Duration(cc.IdleMs) * time.Millisecond)
			first := len(images) - 1 // the last image before the prune
			node.CM.PruneBlocks(uint64(cc.First))
			during := len(images) - 1 - first
			cs.Classf("commits-during-prune=%d", min(during, 3))
			cs.Classf("idle-ms=%d", cc.IdleMs)
			for k := first; k < len(images); k++ {
				where := fmt.Sprintf("idle %d ms, PruneBlocks(%d), stop; database image #%d (%d commit(s) happened inside the prune, this is number %d)", cc.IdleMs, cc.First, k, during, k-first)
				rn, err := openFromImage(tr, images[k])
				if err != nil {
					return fmt.Errorf("%s: reopening failed: %v", where, err)
				}
				if rn.CM.Tip() != node.CM.Tip() {
					return fmt.Errorf("%s: reopened to %v, the node was on %v", where, rn.CM.Tip(), node.CM.Tip())
				}
				rn.CM.PruneBlocks(uint64(cc.Second))
				rn.Store.Flush()
				for h := uint64(0); h <= rn.CM.Tip().Height; h++ {
					idx, ok := rn.CM.BestIndex(h)
					if !ok {
						return fmt.Errorf("%s, then PruneBlocks(%d): BestIndex(%d) is gone", where, cc.Second, h)
					}
					_, has := rn.CM.Block(idx.ID)
					if h < uint64(cc.Second) && has {
						return fmt.Errorf("%s, then PruneBlocks(%d): the body of best-chain block %v (below the prune height) is still stored", where, cc.Second, idx)
					}
					if h >= uint64(cc.Second) && !has {
						return fmt.Errorf("%s, then PruneBlocks(%d): the body of best-chain block %v (not below the prune height) is gone", where, cc.Second, idx)
					}
					if _, ok := rn.CM.State(idx.ID); !ok {
						return fmt.Errorf("%s, then PruneBlocks(%d): State(%v) is gone", where, cc.Second, idx)
					}
				}
				for id := range node.Submitted {
					rn.Submitted[id] = true
				}
				if err := rn.Audit(); err != nil {
					return fmt.Errorf("%s, then PruneBlocks(%d): %w", where, cc.Second, err)
				}
				rn.Close()
				cs.NonTrivial()
			}
			return nil
		}()
		d.Case(cc, cs, err)
	}
}
