package pchain

import (
	"bytes"
	"fmt"
	"testing"

	"go.sia.tech/core/types"
	"pgregory.net/rapid"

	"verif/kit"
	"verif/refl"
)

// C19Step is a submission or a prune.
type C19Step struct {
	Submit *kit.SubmitStep `json:"submit,omitempty"`
	// PruneSel selects the prune height relative to the tip at that moment:
	// 0 -> 0, 1 -> tip/3, 2 -> tip/2, 3 -> tip-1, 4 -> tip, 5 -> tip+3, 6 -> 1
	PruneSel *int `json:"prune,omitempty"`
	// Restart: the pruned node is shut down cleanly and started again on its
	// own database (pruning must not keep a node from starting).
	Restart bool `json:"restart,omitempty"`
}

// C19Case: history with prune steps.
type C19Case struct {
	Tree  kit.TreeCase `json:"tree"`
	Steps []C19Step    `json:"steps"`
}

func genC19(t *rapid.T) C19Case {
	cfg := kit.DefaultTreeGen()
	cfg.CorruptPct = 3
	cfg.ExtraCorruptions = []string{"timestamp-future"}
	cfg.BadIntentPct = 2
	cfg.ForkPct = 30
	tc := kit.GenTree(t, cfg)
	sub := kit.GenSchedule(t, len(tc.Blocks), 24)
	c := C19Case{Tree: tc}
	for i := range sub {
		if i > 0 && kit.Chance(t, 22, "pruneroll") {
			sel := kit.Uniform(t, 7, "prunesel")
			c.Steps = append(c.Steps, C19Step{PruneSel: &sel})
			if kit.Chance(t, 35, "restartroll") {
				c.Steps = append(c.Steps, C19Step{Restart: true})
			}
		}
		st := sub[i]
		st.Malleated = false
		c.Steps = append(c.Steps, C19Step{Submit: &st})
	}
	return c
}

func pruneHeight(sel int, tip uint64) uint64 {
	switch ((sel % 7) + 7) % 7 {
	case 0:
		return 0
	case 1:
		return tip / 3
	case 2:
		return tip / 2
	case 3:
		if tip == 0 {
			return 0
		}
		return tip - 1
	case 4:
		return tip
	case 5:
		return tip + 3
	}
	return 1
}

func runC19(c C19Case, cs *kit.CaseStats) (err error) {
	tr := kit.BuildTree(c.Tree)
	node, err := kit.NewNode(tr, "mem")
	if err != nil {
		return fmt.Errorf("INFRA: %v", err)
	}
	defer node.Close()
	twin, err := kit.NewNode(tr, "mem")
	if err != nil {
		return fmt.Errorf("INFRA: %v", err)
	}
	defer twin.Close()
	maxH := treeMaxHeight(tr)
	pruned := map[types.BlockID]bool{} // bodies the harness knows were pruned
	var prunedBelow uint64
	prunes := 0

	var served struct{ pruned int }
	compare := func(where string) error {
		if node.CM.Tip() != twin.CM.Tip() {
			return nil // tips may legitimately differ after a refused reorg; compared by the caller
		}
		tip := node.CM.Tip()
		for h := uint64(0); h <= maxH+2; h++ {
			a, aok := node.CM.BestIndex(h)
			b, bok := twin.CM.BestIndex(h)
			if a != b || aok != bok {
				return fmt.Errorf("%s: BestIndex(%d) = %v,%v on the pruned node, %v,%v on the unpruned twin", where, h, a, aok, b, bok)
			}
			if !aok {
				continue
			}
			sa, oka := node.CM.State(a.ID)
			sb, okb := twin.CM.State(a.ID)
			if oka != okb || !bytes.Equal(refl.StateBytes(sa), refl.StateBytes(sb)) {
				return fmt.Errorf("%s: State(%v) differs between pruned node and twin", where, a)
			}
			ha, oka := node.Store.Header(a.ID)
			hb, okb := twin.Store.Header(a.ID)
			if oka != okb || ha != hb {
				return fmt.Errorf("%s: Header(%v) differs between pruned node and twin (%v vs %v)", where, a, oka, okb)
			}
			ba, oka := node.CM.Block(a.ID)
			bb, okb := twin.CM.Block(a.ID)
			if pruned[a.ID] {
				if oka {
					return fmt.Errorf("%s: body of pruned best-chain block %v is served again", where, a)
				}
			} else if oka != okb || ba.ID() != bb.ID() {
				return fmt.Errorf("%s: Block(%v) present=%v on the pruned node, %v on the twin, although it was never pruned", where, a, oka, okb)
			}
		}
		ha, erra := node.CM.History()
		hb, errb := twin.CM.History()
		if (erra == nil) != (errb == nil) || ha != hb {
			return fmt.Errorf("%s: History differs between pruned node and twin", where)
		}
		// header serving from every height
		for h := uint64(0); h <= tip.Height; h++ {
			idx, _ := node.CM.BestIndex(h)
			a, ra, erra := node.CM.Headers(idx, 5)
			b, rb, errb := twin.CM.Headers(idx, 5)
			if (erra == nil) != (errb == nil) || ra != rb || fmt.Sprint(a) != fmt.Sprint(b) {
				return fmt.Errorf("%s: Headers(%v) differs between pruned node and twin (%v vs %v)", where, idx, erra, errb)
			}
		}
		// block serving (what a peer that is behind asks for): from every attach
		// height, and from a history the node knows nothing of (attaches at
		// genesis). Bodies that are all still held: the twin's answer; a pruned
		// body among them: an error, never a short or empty success
		for h := uint64(0); h <= tip.Height+1; h++ {
			hist := []types.BlockID{types.BlockID(types.HashBytes([]byte("nobody knows this block")))}
			attach := uint64(0)
			if h <= tip.Height {
				idx, _ := node.CM.BestIndex(h)
				hist = append(hist, idx.ID)
				attach = h
			}
			const maxBlocks = 4
			ba, ra, erra := node.CM.BlocksForHistory(hist, maxBlocks)
			bb, rb, errb := twin.CM.BlocksForHistory(hist, maxBlocks)
			if errb != nil {
				return fmt.Errorf("%s: INFRA: the unpruned twin fails BlocksForHistory from height %d: %v", where, attach, errb)
			}
			needsPruned := false
			for _, b := range bb {
				if pruned[b.ID()] {
					needsPruned = true
				}
			}
			if needsPruned {
				if erra == nil {
					return fmt.Errorf("%s: BlocksForHistory attaching at height %d needs a pruned body (the unpruned twin answers with %d blocks) but returned %d blocks, %d remaining and no error", where, attach, len(bb), len(ba), ra)
				}
				served.pruned++
				continue
			}
			if erra != nil || ra != rb || len(ba) != len(bb) {
				return fmt.Errorf("%s: BlocksForHistory attaching at height %d: %d blocks, %d remaining, err=%v on the pruned node; %d blocks, %d remaining on the twin (no pruned body is needed)", where, attach, len(ba), ra, erra, len(bb), rb)
			}
			for i := range ba {
				if ba[i].ID() != bb[i].ID() {
					return fmt.Errorf("%s: BlocksForHistory attaching at height %d: block %d differs from the twin's", where, attach, i)
				}
			}
		}
		return nil
	}

	for si, st := range c.Steps {
		if st.Restart {
			before, beforeMRI := node.CM.Tip(), node.CM.MinReorgIndex()
			node.Store.Flush()
			n2, rerr := kit.OpenNode(tr, node.Backend)
			if rerr != nil {
				return fmt.Errorf("step %d: restarting the pruned node (tip %v, pruned below %d) on its own database failed: %v", si, before, prunedBelow, rerr)
			}
			if n2.CM.Tip() != before {
				return fmt.Errorf("step %d: after a clean restart the pruned node is on %v, before it was on %v", si, n2.CM.Tip(), before)
			}
			if mri := n2.CM.MinReorgIndex(); mri != beforeMRI {
				return fmt.Errorf("step %d: after a clean restart the pruned node reports the minimum reorg index %v, before it was %v", si, mri, beforeMRI)
			}
			for id := range node.Submitted {
				n2.Submitted[id] = true
			}
			n2.MaxHeight = node.MaxHeight
			node = n2
			cs.Class("restart-of-the-pruned-node")
			if prunedBelow > before.Height {
				cs.Class("restart-with-the-tip-body-pruned")
			}
			if err := compare(fmt.Sprintf("step %d (restart)", si)); err != nil {
				return err
			}
			continue
		}
		if st.PruneSel != nil {
			tip := node.CM.Tip()
			h := pruneHeight(*st.PruneSel, tip.Height)
			node.CM.PruneBlocks(h)
			prunes++
			for x := uint64(0); x < h && x <= tip.Height; x++ {
				if idx, ok := node.CM.BestIndex(x); ok {
					pruned[idx.ID] = true
				}
			}
			if h > prunedBelow {
				prunedBelow = min(h, tip.Height+1)
			}
			where := fmt.Sprintf("step %d (prune below %d, tip %v)", si, h, tip)
			cs.Classf("prune-sel=%d", *st.PruneSel)
			if err := node.Audit(); err != nil {
				return fmt.Errorf("%s: %w", where, err)
			}
			if err := compare(where); err != nil {
				return err
			}
			// everything else a node is asked all the time keeps answering (a
			// panic anywhere is a violation; values that depend on bodies may
			// differ from the twin and are not compared)
			_ = node.CM.RecommendedFee()
			_ = node.CM.PoolTransactions()
			_ = node.CM.V2PoolTransactions()
			_ = node.CM.MinReorgIndex()
			_, _, _ = node.CM.UpdatesSince(node.CM.Tip(), 10)
			_, _, _ = node.CM.BlocksForHistory([]types.BlockID{node.CM.Tip().ID}, 5)
			_, _, _ = node.CM.BlocksForHistory(nil, 5)
			_ = node.CM.UnconfirmedParents(types.Transaction{})
			if node.CM.TipState().Index != node.CM.Tip() {
				return fmt.Errorf("%s: TipState and Tip disagree", where)
			}
			// rebasing a transaction set needs the states of the blocks it starts
			// from and the bodies of the blocks it walks over - nothing else. From
			// the last pruned block (its state is kept), from the first kept block
			// and from the tip, the pruned node answers like the unpruned twin.
			if twin.CM.Tip() == node.CM.Tip() {
				tipNode := node.TipNode()
				var bases []*kit.TNode
				for p := tipNode; p != nil && len(bases) < 3; p = p.Parent {
					if p.Ledger == nil {
						break
					}
					if p == tipNode || p.Height+1 == prunedBelow || p.Height == prunedBelow {
						bases = append(bases, p)
					}
					if p.Height+1 < prunedBelow {
						break
					}
				}
				for _, bn := range bases {
					if bn.Height+1 < tr.Network.HardforkV2.AllowHeight || tipNode.Height-bn.Height > 100 {
						continue
					}
					bb := kit.NewBlockBuilder(bn.Ledger)
					if !bb.Add(kit.Intent{Kind: "pay", V2: true, Who: si % kit.NumActors, To: (si + 1) % kit.NumActors, Pick: si, Amt: 2}) || len(bb.V2Txns) == 0 {
						continue
					}
					mk := func() []types.V2Transaction { return []types.V2Transaction{bb.V2Txns[0].DeepCopy()} }
					on, nerr := node.CM.UpdateV2TransactionSet(mk(), bn.Index(), tipNode.Index())
					ot, terr := twin.CM.UpdateV2TransactionSet(mk(), bn.Index(), tipNode.Index())
					if (nerr == nil) != (terr == nil) {
						return fmt.Errorf("%s: UpdateV2TransactionSet from %v (pruned below %d) to the tip %v: pruned node err=%v, unpruned twin err=%v", where, bn.Index(), prunedBelow, tipNode.Index(), nerr, terr)
					}
					if nerr == nil && !sameEnc(encV2s(on), encV2s(ot)) {
						return fmt.Errorf("%s: UpdateV2TransactionSet from %v to the tip returns different transactions on the pruned node and on the twin", where, bn.Index())
					}
					if bn.Height+1 == prunedBelow {
						cs.Class("rebase-from-the-last-pruned-block")
					}
				}
			}
			// following the chain from below the pruned height needs pruned
			// bodies: error, never a panic
			if h > 0 && tip.Height > 0 {
				if _, _, err := node.CM.UpdatesSince(types.ChainIndex{}, 1000); err == nil && len(pruned) > 0 {
					return fmt.Errorf("%s: UpdatesSince(genesis) succeeded although genesis' body was pruned", where)
				}
			}
			// from the lowest index above which no best-chain body is pruned it
			// keeps working like on the twin
			low := tip.Height
			for low > 0 {
				idx, _ := node.CM.BestIndex(low)
				if pruned[idx.ID] {
					break
				}
				low--
			}
			if from, ok := node.CM.BestIndex(low); ok && twin.CM.Tip() == node.CM.Tip() {
				_, au, err := node.CM.UpdatesSince(from, 1000)
				_, tu, terr := twin.CM.UpdatesSince(from, 1000)
				if (err == nil) != (terr == nil) || len(au) != len(tu) {
					return fmt.Errorf("%s: UpdatesSince(%v) needs no pruned body, yet the pruned node returns %d updates, err=%v; the twin %d, err=%v", where, from, len(au), err, len(tu), terr)
				}
			}
			continue
		}
		_, blocks, states, validated := tr.ResolveBatch(*st.Submit, func(id types.BlockID) bool {
			return node.ValidatedParent(id) && twin.ValidatedParent(id)
		})
		if len(blocks) == 0 {
			continue
		}
		dup := false
		for _, b := range blocks {
			if pruned[b.ID()] {
				dup = true
			}
		}
		if dup {
			cs.Class("duplicate-of-pruned-block")
			cs.NonTrivial()
		}
		sameBefore := node.CM.Tip() == twin.CM.Tip()
		oldTip := node.TipNode()
		mri := node.CM.MinReorgIndex()
		pre := takeSnapshot(node, maxH)
		twinOld := twin.TipNode()
		var terr, nerr error
		if validated {
			// the pre-validated path the syncer uses above the require height
			cs.Class("call=AddValidatedV2Blocks")
			for _, b := range blocks {
				twin.Submitted[b.ID()], node.Submitted[b.ID()] = true, true
			}
			terr = twin.CM.AddValidatedV2Blocks(blocks, states)
			nerr = node.CM.AddValidatedV2Blocks(blocks, states)
			for _, n := range []*kit.Node{twin, node} {
				if h := n.CM.Tip().Height; h > n.MaxHeight {
					n.MaxHeight = h
				}
			}
		} else {
			terr = twin.Submit(blocks)
			nerr = node.Submit(blocks)
		}
		where := fmt.Sprintf("step %d (batch %v, node err=%v, twin err=%v, min reorg index %v, pruned below %d)", si, st.Submit.Batch, nerr, terr, mri, prunedBelow)
		if err := node.Audit(); err != nil {
			return fmt.Errorf("%s: %w", where, err)
		}
		if err := twin.Audit(); err != nil {
			return fmt.Errorf("%s: unpruned twin: %w", where, err)
		}
		if nerr != nil {
			// whenever the node refuses, nothing may have changed
			if d := pre.diff(takeSnapshot(node, maxH)); d != "" {
				return fmt.Errorf("%s: refused submission changed the pruned node: %s", where, d)
			}
		}
		if sameBefore && oldTip != nil && twinOld == oldTip {
			twinNew := twin.TipNode()
			if twinNew != twinOld {
				lca := kit.LCA(twinOld, twinNew)
				needsPruned := false
				for n := oldTip; n != lca && n != nil; n = n.Parent {
					if pruned[n.ID] {
						needsPruned = true
					}
				}
				d := int64(lca.Height) - int64(prunedBelow)
				if d >= -1 && d <= 1 && prunes > 0 {
					cs.Class("fork-point-within-1-of-prune-boundary")
					cs.NonTrivial()
				}
				switch {
				case lca.Height >= mri.Height:
					// the statement's direction: such reorgs keep working
					cs.Class("reorg-at-or-above-min-reorg-index")
					if nerr != nil || node.CM.Tip() != twin.CM.Tip() {
						return fmt.Errorf("%s: a reorg with fork point %v (at or above the reported minimum reorg index) was adopted by the unpruned twin (%v) but not by the pruned node (tip %v)", where, lca.Index(), twin.CM.Tip(), node.CM.Tip())
					}
				case needsPruned:
					cs.Class("reorg-needs-pruned-body")
					if nerr == nil || node.CM.Tip() != oldTip.Index() {
						return fmt.Errorf("%s: a reorg that has to revert a pruned block was not refused with an error (tip now %v)", where, node.CM.Tip())
					}
				default:
					cs.Class("reorg-in-unasserted-band")
				}
			} else if nerr == nil && terr == nil && node.CM.Tip() != twin.CM.Tip() {
				return fmt.Errorf("%s: twin stayed on %v, pruned node moved to %v", where, twin.CM.Tip(), node.CM.Tip())
			}
		}
		if err := compare(where); err != nil {
			return err
		}
		if node.CM.Tip() != twin.CM.Tip() {
			cs.Class("diverged-after-refusal")
			// a later valid extension of the node's tip must still work; the rest of
			// the case keeps running (both are audited), but twin comparisons are
			// skipped by compare()
		}
	}
	if prunes > 0 {
		cs.Class("pruned")
	}
	if served.pruned > 0 {
		cs.Class("block-serving-request-needing-a-pruned-body-refused")
	}
	return node.FullReplayAudit()
}

var c19Prop = kit.Prop[C19Case]{
	ID:   "C19",
	Rule: "histories as in C01/C02 with PruneBlocks steps (heights 0, tip/3, tip/2, tip-1, tip, tip+3, 1; repeated) on a node next to an unpruned twin that receives the same submissions (including duplicates of already pruned blocks). After every step: chain audit of both; bodies gone exactly for best-chain-at-prune-time blocks below the prune height; BestIndex, State, Header, History and Headers serving equal to the twin; a reorg the twin adopts whose fork point is at or above the reported MinReorgIndex must be adopted identically, one that has to revert a pruned body must be refused with an error and change nothing, the band in between is unasserted; UpdatesSince through pruned bodies returns an error, from the prune boundary it matches the twin; full replay at the end. Non-trivial = a fork whose fork point is within 1 of the prune boundary, or a re-submission of a pruned block; distinct by hash of the case.",
	Assumptions: []string{
		"PruneBlocks is documented to be called only after subscribers have caught up; no subscriber state is modelled here beyond UpdatesSince results",
		"go.sia.tech/core decides validity",
	},
	Gen: genC19,
	Run: runC19,
}

func TestC19(t *testing.T) { c19Prop.Main(t) }
