package pchain

import (
	"fmt"
	"sort"
	"testing"

	"go.sia.tech/core/types"
	"pgregory.net/rapid"

	"verif/kit"
)

// TestKitSelf is a self-test of the harness (tree builder + reference ledger
// against a node fed linearly); it is not one of the listed properties.
func TestKitSelf(t *testing.T) {
	kinds := map[string]int{}
	skipped := map[string]int{}
	invalid := map[string]int{}
	valid, total := 0, 0
	rapid.Check(t, func(rt *rapid.T) {
		cfg := kit.DefaultTreeGen()
		tc := kit.GenTree(rt, cfg)
		tr := kit.BuildTree(tc)
		for _, n := range tr.Nodes {
			total++
			if n.Valid() {
				valid++
				for _, k := range n.Kinds {
					kinds[k]++
				}
			} else if n.OwnInvalid {
				invalid[n.Corrupt+"|"+fmt.Sprint(n.Err)]++
			}
			for _, s := range n.Skipped {
				skipped[s]++
			}
		}
		// feed every valid leaf path to a fresh node
		isParent := map[*kit.TNode]bool{}
		for _, n := range tr.Nodes {
			isParent[n.Parent] = true
		}
		for _, leaf := range tr.Nodes {
			if isParent[leaf] || !leaf.Valid() {
				continue
			}
			node, err := kit.NewNode(tr, "mem")
			if err != nil {
				rt.Fatal(err)
			}
			var blocks []types.Block
			for _, p := range leaf.PathFromGenesis() {
				blocks = append(blocks, p.Block)
			}
			if err := node.Submit(blocks); err != nil {
				rt.Fatalf("linear submission of a chain the reference accepts failed: %v", err)
			}
			if node.CM.Tip() != leaf.Index() {
				rt.Fatalf("tip %v want %v", node.CM.Tip(), leaf.Index())
			}
			if err := node.Audit(); err != nil {
				rt.Fatal(err)
			}
			if err := node.CheckAgainstLedger(leaf.Ledger, false); err != nil {
				rt.Fatal(err)
			}
			if err := leaf.Ledger.VerifyProofs(); err != nil {
				rt.Fatal(err)
			}
			node.Close()
		}
	})
	t.Logf("blocks %d valid %d", total, valid)
	for _, m := range []map[string]int{kinds, skipped, invalid} {
		var ks []string
		for k := range m {
			ks = append(ks, k)
		}
		sort.Strings(ks)
		for _, k := range ks {
			t.Logf("  %-70.70s %d", k, m[k])
		}
		t.Log("--")
	}
}
