package pnet

import (
	"fmt"
	"os"
	"sort"
	"strconv"
	"strings"
	"testing"

	"verif/kit"
	"verif/p2px"
)

// liesItem is one entry of the enumerated lie catalogue.
type liesItem struct {
	RPC, Kind string
	Regime    string // "plain": chain crossing allow+require, victim at genesis, AddBlocks path; "instant": v2-only chain, victim bootstrapped from a retrieved checkpoint, SendCheckpoint + AddValidatedV2Blocks path
	Pos       string // position of the lie in the batch: first | middle | last | "" (not applicable)
	Arg       int
}

func (it liesItem) key() string {
	k := it.RPC + "/" + it.Kind + "@" + it.Regime
	if it.Pos != "" {
		k += ":" + it.Pos
	} else if it.Arg != 1 {
		k += fmt.Sprintf(":arg%d", it.Arg)
	}
	return k
}

// kinds whose lie sits at a position of the delivered batch
var positional = map[string]bool{
	"headers/break-link": true, "headers/low-work": true, "headers/timestamp-past": true, "headers/duplicate": true,
	"blocks/body-swap": true, "blocks/drop-txns": true, "blocks/reorder": true,
	"blocks/body-swap+hangup": true, "blocks/drop-txns+hangup": true,
}

const (
	liesChainLen  = 12
	liesBootstrap = 2 // checkpoint one block above the require height (2) of the instant regime: height 3
)

// liesCatalogue enumerates every (RPC, lie kind) the Byzantine peer knows ×
// regime × position where a position applies. SendCheckpoint is only issued on
// the instant-sync path, so checkpoint lies are enumerated for that regime only.
func liesCatalogue() []liesItem {
	var rpcs []string
	for rpc := range p2px.ByzKinds {
		rpcs = append(rpcs, rpc)
	}
	rpcs = append(rpcs, "slowloris")
	sort.Strings(rpcs)
	var out []liesItem
	// a download of several requests below the require height (250 blocks = 3
	// requests), liar and honest peer both serving: the liar answers a request
	// that is not the last with a strict prefix / nothing
	for rep := 0; rep < 3; rep++ {
		out = append(out, liesItem{"blocks", "too-few-not-last", "long", "", 10 + rep}, liesItem{"blocks", "empty-not-last", "long", "", 10 + rep})
	}
	// a self-consistent branch with a consensus-invalid block below the require
	// height, long enough that its tail arrives pre-validated on top of a first
	// request that was only stored
	out = append(out, liesItem{"synthetic", "invalid-ancestor", "cross-require", "", 20}, liesItem{"synthetic", "invalid-ancestor", "cross-require", "", 55}, liesItem{"synthetic", "invalid-ancestor", "cross-require", "", 59})
	// instant sync of several requests: the liar answers from a valid sibling
	// branch that leaves the honest chain right at the victim's checkpoint
	for rep := 0; rep < 5; rep++ {
		out = append(out, liesItem{"blocks", "other-branch", "long-instant", "", 20 + rep})
	}
	// hostile constants in everything a peer can announce: one entry per variant
	// (plain regime; the fee overflows and the header also against a v2-only
	// chain above the require height)
	for a := 0; a < 2; a++ {
		out = append(out, liesItem{"relay-header", "hostile-timestamp", "plain", "", 10 + a}, liesItem{"relay-header", "hostile-timestamp", "instant", "", 10 + a})
	}
	for a := 0; a < p2px.HostileV2Variants+p2px.HostileV1Variants; a++ {
		out = append(out, liesItem{"relay-outline", "hostile-embedded", "plain", "", 9 + a}) // 9 = one round of the variants: arg 0 and 1 are taken by key()
	}
	out = append(out, liesItem{"relay-outline", "hostile-embedded", "instant", "", 9})
	for a := 0; a < 4; a++ {
		out = append(out, liesItem{"relay-outline", "hostile-missing", "plain", "", 4 + a})
	}
	out = append(out, liesItem{"relay-outline", "hostile-missing", "instant", "", 4})
	for a := 0; a < 6; a++ {
		out = append(out, liesItem{"relay-outline", "hostile-field", "plain", "", 6 + a})
	}
	for a := 0; a < 6; a++ {
		out = append(out, liesItem{"relay-request", "hostile-numbers", []string{"plain", "instant"}[a%2], "", 6 + a})
	}
	for a := 0; a < p2px.HostileV2Variants; a++ {
		// variant a, basis tip / parent / three back in turn
		out = append(out, liesItem{"relay-txset", "hostile-txn", "plain", "", p2px.HostileV2Variants*(3+a%3) + a})
	}
	out = append(out, liesItem{"relay-txset", "hostile-txn", "instant", "", p2px.HostileV2Variants * 3})
	for a := 0; a < 4; a++ {
		out = append(out, liesItem{"relay-txset", "hostile-basis", "plain", "", 8 + a + 4*(a%2)}) // benign / hostile set in turn
	}
	// ... and in a block body served under its unchanged v2 id: what the sync
	// goroutines (outside any handler) do with it; arg = position + 16*variant
	for _, v := range []int{1, 3, 4, 7, 8} {
		out = append(out, liesItem{"blocks", "hostile-body", "plain", "", 9 + 16*v})
	}
	out = append(out, liesItem{"blocks", "hostile-body", "instant", "", 4 + 16*3}, liesItem{"blocks", "hostile-body", "instant", "", 4 + 16*8})
	for _, regime := range []string{"plain", "instant"} {
		batch := liesChainLen
		if regime == "instant" {
			batch = liesChainLen - 3 // blocks above the checkpoint at height 3
		}
		for _, rpc := range rpcs {
			if rpc == "checkpoint" && regime == "plain" {
				continue
			}
			if rpc == "slowloris" {
				// not a wire lie but a resource attack: half-open RPC streams from
				// the honest peer's subnet, three budgets
				out = append(out, liesItem{rpc, "half-open-streams", regime, "", 2}, liesItem{rpc, "half-open-streams", regime, "", 4}, liesItem{rpc, "half-open-streams", regime, "", 6})
				continue
			}
			for _, kind := range p2px.ByzKinds[rpc] {
				if kind == "too-few-not-last" || kind == "empty-not-last" {
					continue // need a download of several requests: regime "long" above
				}
				if strings.HasPrefix(kind, "hostile") {
					continue // enumerated by variant below
				}
				switch {
				case positional[rpc+"/"+kind]:
					out = append(out,
						liesItem{rpc, kind, regime, "first", 0},
						liesItem{rpc, kind, regime, "middle", batch / 2},
						liesItem{rpc, kind, regime, "last", batch - 1})
				case rpc == "checkpoint" && kind == "payout-value":
					out = append(out, liesItem{rpc, kind, regime, "", 2}, liesItem{rpc, kind, regime, "", 3}) // +1 hasting, +1 MS
				case rpc == "checkpoint" && kind == "state-field":
					for a := 0; a < 4; a++ {
						out = append(out, liesItem{rpc, kind, regime, "", a + 4}) // (arg mod 4 selects the field)
					}
				default:
					out = append(out, liesItem{rpc, kind, regime, "", 1})
				}
			}
		}
	}
	return out
}

// liesCase builds the fixed-shape cluster of one catalogue entry: one honest
// peer holding a 12-block chain with transactions in every block, one liar
// that claims the same chain and connects first (the honest peer follows 1.5 s
// later, so the liar is asked first), the victim at genesis or at a retrieved
// checkpoint.
func liesCase(it liesItem) C11Case {
	tc := kit.TreeCase{Net: kit.NetSpec{Maturity: 1, Allow: 4, ReqOff: 3, CutOff: 2}}
	if it.Regime == "instant" {
		tc.Net = kit.NetSpec{Maturity: 1, Allow: 1, ReqOff: 1, CutOff: 2}
	}
	chainLen := liesChainLen
	if it.Regime == "long-instant" {
		tc.Net = kit.NetSpec{Maturity: 1, Allow: 1, ReqOff: 1, CutOff: 2}
		chainLen = 250
	}
	if it.Regime == "cross-require" {
		// require height 60; honest chain 120 blocks
		tc.Net = kit.NetSpec{Maturity: 1, Allow: 2, ReqOff: 58, CutOff: 2}
		chainLen = 120
	}
	if it.Regime == "long" {
		// v2 allowed from height 2, required only at 302: every block is a v2
		// block on the AddBlocks path
		tc.Net = kit.NetSpec{Maturity: 1, Allow: 2, ReqOff: 300, CutOff: 2}
		chainLen = 250
	}
	for i := 0; i < chainLen; i++ {
		if (it.Regime == "long" || it.Regime == "long-instant" || it.Regime == "cross-require") && i%25 != 0 {
			tc.Blocks = append(tc.Blocks, kit.BlockSpec{Dt: 1, Miner: i % 4, OnBad: true})
			continue
		}
		bs := kit.BlockSpec{Dt: 1 + i%3, Miner: i % 4, OnBad: true, Txs: []kit.Intent{
			{Kind: "pay", Who: i % 4, To: (i + 1) % 4, Pick: i, Amt: 3, V2: true, Fee: i%2 == 0},
			{Kind: "pay", Who: (i + 2) % 4, To: (i + 3) % 4, Pick: i + 1, Amt: 5, V2: true},
		}}
		tc.Blocks = append(tc.Blocks, bs)
	}
	h := chainLen - 1
	c := C11Case{Honest: h, Victim: -1, NHonest: 1, HonestDelayMS: 1500, Outline: false}
	if it.Regime == "long" || it.Regime == "long-instant" {
		c.HonestDelayMS = 0 // liar and honest peer serve the same download
	}
	c.BadChild = appendRun(&tc, h, []kit.BlockSpec{{Dt: 1, Txs: []kit.Intent{{Kind: "pay", Who: 1, To: 2, Pick: 2, Amt: 4, V2: true}}, Corrupt: &kit.Corruption{Kind: "overspend", Arg: 0}}})
	c.GoodChild = appendRun(&tc, h, []kit.BlockSpec{{Dt: 2, Miner: 1, Txs: []kit.Intent{{Kind: "pay", Who: 0, To: 1, Pick: 3, Amt: 3, V2: true}, {Kind: "pay", Who: 3, To: 2, Pick: 1, Amt: 5, Fee: true, V2: true}}}})
	if it.Regime == "long-instant" {
		// 120 blocks off the checkpoint block (height 3): the first request of the
		// download attaches there on both branches
		var run []kit.BlockSpec
		for i := 0; i < 120; i++ {
			run = append(run, kit.BlockSpec{Dt: 2, Miner: 3})
		}
		c.AltTip = appendRun(&tc, 2, run)
		c.Bootstrap = liesBootstrap
	} else if it.RPC == "blocks" && it.Kind == "other-branch" {
		// a sibling branch of the same length that leaves the honest chain at
		// height 6: same count, other blocks
		var run []kit.BlockSpec
		for i := 0; i < 6; i++ {
			run = append(run, kit.BlockSpec{Dt: 2, Miner: 3, Txs: []kit.Intent{{Kind: "pay", Who: 3, To: 0, Pick: i, Amt: 2, V2: true}}})
		}
		c.AltTip = appendRun(&tc, 5, run)
	}
	if it.Regime == "instant" {
		c.Bootstrap = liesBootstrap
	}
	c.Byz = []ByzSpec{{Tip: h, Corr: p2px.Corruption{RPC: it.RPC, Kind: it.Kind, Arg: it.Arg}, Dial: len(it.RPC) > 5 && it.RPC[:5] == "relay"}}
	if it.RPC == "synthetic" {
		// the victim holds the whole honest chain (tip above the fork point); the
		// liar's branch leaves it at height 10, has its invalid block at height
		// it.Arg (< require) and is 30 blocks longer than the honest chain
		c.Byz = nil
		c.Victim = h
		c.HonestDelayMS = 0
		c.Synth = &SynthSpec{Fork: 10, BadAt: it.Arg, Len: 140}
	}
	if it.RPC == "slowloris" {
		c.Byz = nil
		c.HonestDelayMS = 0
		c.Slow = &SlowSpec{L: it.Arg, S: it.Arg, HoldMS: 2500, Late: 2}
		if it.Arg == 6 {
			c.Slow.L = 3 // subnet budget above the per-peer limit
		}
	}
	c.Tree = tc
	return c
}

const liesRule = "enumerated lie catalogue: every (RPC, lie kind) of the Byzantine peer × regime {plain: 12-block chain crossing the allow (4) and require (7) heights, victim at genesis, AddBlocks path; instant: v2-only chain, victim bootstrapped with RetrieveCheckpoint at height 3 (asked from the liar first), SendCheckpoint + per-block validation + AddValidatedV2Blocks path} × position of the lie in the batch {first, middle, last} where a position applies (SendHeaders: broken link / low work / old timestamp / duplicate; SendV2Blocks: swapped / dropped body, reorder), the four state fields of the checkpoint state lie; SendCheckpoint lies for the instant regime only (the RPC is not issued on the plain path). Hostile-constant kinds are enumerated by variant (49 entries). One fixed-shape cluster per entry (1 honest peer joining 1.5 s after the liar, 1 liar claiming the honest chain, every block carries transactions, an invalid and a valid transaction-carrying child of the tip for the outline lies); same oracle as TestC11 (audits, tip work, Ban assertions where certain, convergence to the honest chain, stall window). An entry whose lie was not delivered is counted inconclusive:lie-not-reached (printed), never a violation; counters lies_enumerated / lies_delivered give delivered/total. Non-trivial = the lie was delivered."

// TestC11Lies runs the enumerated stage; shards split the catalogue round
// robin (VERIF_SHARD / VERIF_SHARDS).
func TestC11Lies(t *testing.T) {
	if os.Getenv("VERIF_REPLAY") != "" {
		c11Prop.Main(t) // a saved case of this stage is a plain C11 case
		return
	}
	shard, _ := strconv.Atoi(os.Getenv("VERIF_SHARD"))
	shards, _ := strconv.Atoi(os.Getenv("VERIF_SHARDS"))
	if shards < 1 {
		shards, shard = 1, 0
	}
	d := kit.NewDirect(t, "C11", liesRule, c11Prop.Assumptions...)
	defer d.Done()
	items := liesCatalogue()
	only := os.Getenv("VERIF_C11_LIE") // debugging aid: substring of the entry key
	for i, it := range items {
		if i%shards != shard || (only != "" && !contains(it.key(), only)) {
			continue
		}
		c := liesCase(it)
		cs := &kit.CaseStats{}
		var info c11Info
		err := kit.Prop[C11Case]{ID: "C11", Run: func(c C11Case, cs *kit.CaseStats) error { return runC11x(c, cs, &info) }}.SafeRun(c, cs)
		cs.Add("lies_enumerated", 1)
		cs.Class("enumerated:" + it.Regime)
		if info.Panics > 0 {
			cs.Class("handler-panic-recovered:" + it.key())
		}
		if err == nil {
			if (len(info.Delivered) == 1 && info.Delivered[0]) || (c.Slow != nil && info.SlowHeld) || (c.Synth != nil && info.SynthReached) {
				cs.Add("lies_delivered", 1)
			} else {
				cs.Inconclusive("lie-not-reached:" + it.key())
				fmt.Printf("LIE-NOT-REACHED %s\n", it.key())
			}
		} else {
			err = fmt.Errorf("enumerated lie %s: %w", it.key(), err)
		}
		d.Case(c, cs, err)
	}
}

func contains(s, sub string) bool { return strings.Contains(s, sub) }
