package pnet

import (
	"bytes"
	"context"
	"encoding/json"
	"fmt"
	"math"
	"os"
	"sort"
	"strings"
	"sync"
	"sync/atomic"
	"testing"
	"time"

	"go.sia.tech/core/consensus"
	"go.sia.tech/core/gateway"
	"go.sia.tech/core/types"
	"go.sia.tech/coreutils/chain"
	"go.sia.tech/coreutils/syncer"
	"go.uber.org/zap"
	"go.uber.org/zap/zapcore"
	"pgregory.net/rapid"

	"verif/kit"
	"verif/kvm"
	"verif/p2px"
	"verif/refl"
)

// ByzSpec is one Byzantine peer: the chain it claims (a branch of the tree
// that may contain one block core rejects) and the one lie it tells on the
// wire.
type ByzSpec struct {
	Tip     int             `json:"tip"` // block index of the claimed tip (-1 = genesis)
	Corr    p2px.Corruption `json:"corr"`
	Dial    bool            `json:"dial,omitempty"` // the peer dials the victim (else the victim connects out)
	DelayMS int             `json:"delay_ms,omitempty"`
}

// C11Case: a victim, honest peers holding the heaviest valid chain, Byzantine
// peers.
type C11Case struct {
	Tree kit.TreeCase `json:"tree"`
	// Honest is the block index of the honest peers' tip (the heaviest valid
	// chain of the tree); Victim the block the victim starts from.
	Honest  int `json:"honest"`
	Victim  int `json:"victim"`
	NHonest int `json:"n_honest"`
	// HonestDelayMS: the honest peers are connected that long after the start.
	HonestDelayMS int `json:"honest_delay_ms,omitempty"`
	// Bootstrap > 0: the victim first retrieves the checkpoint Bootstrap-1
	// blocks above the require height on the honest chain from all peers
	// (Byzantine ones first) and starts from it.
	Bootstrap int       `json:"bootstrap,omitempty"`
	Byz       []ByzSpec `json:"byz"`
	// BadChild / GoodChild: block indices of an invalid and of a valid,
	// transaction-carrying child of the honest tip that only Byzantine peers
	// know (used by the relay corruptions); -1 = none.
	BadChild  int  `json:"bad_child"`
	GoodChild int  `json:"good_child"`
	Outline   bool `json:"outline,omitempty"`
	// AltTip > 0: block index of the tip of the branch a "blocks/other-branch"
	// liar answers from (default: the valid child of the honest tip when the
	// liar claims the honest chain, else the honest chain).
	AltTip int `json:"alt_tip,omitempty"`
	// Synth, if set, adds a lie-free Byzantine peer that serves a synthetic,
	// self-consistent branch with one consensus-invalid block (see SynthSpec).
	Synth *SynthSpec `json:"synth,omitempty"`
	// Slow, if set, adds a Byzantine peer in the honest peers' subnet that
	// saturates the subnet's in-flight budget with half-open RPC streams.
	Slow *SlowSpec `json:"slow,omitempty"`
}

// SynthSpec describes a branch no honest node could build: it leaves the
// honest chain at height Fork, is Len empty blocks long, and its block at height
// BadAt carries a payment that creates one hasting out of nothing - the header,
// the payouts and everything else ValidateOrphan looks at are fine, the block
// violates consensus. Every later block is built on
// the state obtained by applying its predecessors *without* validation, so the
// branch is self-consistent: commitments, checkpoints and per-block validation
// against the liar's own states all pass. Only a node that applies the branch
// from the fork point meets the invalid block.
type SynthSpec struct {
	Fork  int `json:"fork"`
	BadAt int `json:"bad_at"`
	Len   int `json:"len"`
}

// synthChain materialises a SynthSpec on top of the honest chain.
func synthChain(tr *kit.Tree, H *kit.TNode, sp SynthSpec) p2px.Chain {
	path := H.PathFromGenesis()
	fork := max(0, min(sp.Fork, len(path)))
	out := p2px.Chain{Tree: tr, Path: append([]*kit.TNode(nil), path[:fork]...)}
	parent := tr.Root
	if fork > 0 {
		parent = path[fork-1]
	}
	led := parent.Ledger // reference ledger while the branch is still valid
	cs := led.State
	for i := 0; i < sp.Len; i++ {
		height := parent.Height + 1
		ts := parent.Block.Timestamp.Add(time.Second)
		bad := int(height) == sp.BadAt && led != nil
		var b types.Block
		if bad {
			// a v2 payment whose outputs exceed its input by one hasting, signed
			// again: nothing a header or ValidateOrphan looks at is wrong
			var txns []types.V2Transaction
			for who := 0; who < kit.NumActors && len(txns) == 0; who++ {
				bb := kit.NewBlockBuilder(led)
				if bb.Add(kit.Intent{Kind: "v2pay", Who: who, To: (who + 1) % kit.NumActors, Amt: 3}) {
					txn := bb.V2Txns[0].DeepCopy()
					txn.SiacoinOutputs[0].Value = txn.SiacoinOutputs[0].Value.Add(types.NewCurrency64(1))
					kit.SignV2(cs, &txn)
					txns = []types.V2Transaction{txn}
				}
			}
			b = kit.AssembleBlock(cs, ts, kit.Actors[3].Addr, nil, txns, uint64(7000+i))
			bad = len(txns) > 0
		} else {
			b = kit.AssembleBlock(cs, ts, kit.Actors[3].Addr, nil, nil, uint64(7000+i))
		}
		if nb, ok := kit.Normalize(b); ok {
			b = nb
		}
		n := &kit.TNode{Idx: 1 << 20, Parent: parent, Block: b, ID: b.ID(), Height: height, OwnInvalid: bad}
		if led != nil && !bad {
			if nl, err := led.Apply(b, nil); err == nil {
				led, cs = nl, nl.State
				n.Hdr = cs
				out.Path = append(out.Path, n)
				parent = n
				continue
			}
		}
		// from the invalid block on: states by application without validation
		led = nil
		cs, _ = consensus.ApplyBlock(cs, b, consensus.V1BlockSupplement{}, time.Time{})
		n.Hdr = cs
		n.Err = fmt.Errorf("synthetic branch with an invalid block at height %d", sp.BadAt)
		if bad {
			n.Corrupt = "overspend"
		}
		out.Path = append(out.Path, n)
		parent = n
	}
	return out
}

// SlowSpec: the victim runs with small RPC limits (per-peer L, per-subnet S,
// /24 subnets - all peers of a case share one); the honest peers first hold
// the honest chain minus Late blocks. Once the victim has caught up with them
// the attacker opens S streams on which it sends the RPC id only (the handlers
// wait for the request), keeps them for HoldMS while the honest peers keep
// announcing (their RPCs are dropped: subnet over budget - documented
// behaviour), then leaves. After that the honest peers receive the last Late
// blocks. Nothing of this entitles the victim to stop following the honest
// chain.
type SlowSpec struct {
	L      int `json:"l"`       // WithMaxInflightRPCs, 2..6
	S      int `json:"s"`       // WithMaxInflightRPCsPerSubnet, 2..6
	HoldMS int `json:"hold_ms"` // 1500..3500
	Late   int `json:"late"`    // 1..3
}

// headerSafeCorruptions keep the block's header valid (the lie is in the body
// or in the commitment), so the block gets as far as full validation.
var headerSafeCorruptions = []string{"payout", "commitment", "txsig", "dup-txn", "overspend", "drop-txn-sig", "v2height", "proof-flip", "wrong-regime"}

func heaviestValid(tr *kit.Tree) *kit.TNode {
	var best *kit.TNode
	for _, n := range tr.Nodes {
		if n.Valid() && (best == nil || n.Ledger.State.TotalWork.Cmp(best.Ledger.State.TotalWork) > 0) {
			best = n
		}
	}
	return best
}

func appendRun(tc *kit.TreeCase, parent int, specs []kit.BlockSpec) (last int) {
	last = parent
	for k, bs := range specs {
		i := len(tc.Blocks)
		bs.OnBad = true
		bs.Back = 0
		if k == 0 {
			bs.Back = i - 1 - parent
		}
		tc.Blocks = append(tc.Blocks, bs)
		last = i
	}
	return last
}

func genC11(t *rapid.T) C11Case {
	cfg := treeGenForNet()
	cfg.MaxBlocks = 20
	base := kit.GenTree(t, cfg)
	ext := genExt(t, rapid.IntRange(0, 1).Draw(t, "next"))
	for i := range ext {
		if ext[i].Len > 40 && !kit.Thorough() && rapid.IntRange(0, 2).Draw(t, "longroll") > 0 {
			ext[i].Len = 1 + ext[i].Len%12
		}
	}
	tc := withExt(base, ext)
	tr := kit.BuildTree(tc)
	c := C11Case{Honest: -1, Victim: -1, BadChild: -1, GoodChild: -1, NHonest: rapid.IntRange(1, 2).Draw(t, "nhonest"),
		HonestDelayMS: rapid.SampledFrom([]int{0, 0, 100, 800}).Draw(t, "hdelay"), Outline: rapid.Bool().Draw(t, "outline")}
	h := heaviestValid(tr)
	if h != nil {
		c.Honest = h.Idx
	}
	// the victim starts on the honest chain (some way down) or on another valid branch
	if h != nil {
		switch rapid.IntRange(0, 3).Draw(t, "vstart") {
		case 0:
			c.Victim = -1
		case 1:
			if v := pickTip(tr, rapid.IntRange(0, 200).Draw(t, "vtip")); v != nil {
				c.Victim = v.Idx
			}
		default:
			a := h
			for k := rapid.IntRange(0, 12).Draw(t, "vdown"); k > 0 && a.Parent != nil; k-- {
				a = a.Parent
			}
			c.Victim = a.Idx
		}
	}
	if rapid.IntRange(0, 3).Draw(t, "bootroll") == 0 {
		c.Bootstrap = rapid.IntRange(1, 4).Draw(t, "bootstrap")
	}
	intents := func(label string) []kit.Intent {
		var out []kit.Intent
		for k := rapid.IntRange(0, 2).Draw(t, label); k > 0; k-- {
			out = append(out, kit.GenIntent(t, cfg.Kinds, 0))
		}
		return out
	}
	hIdx := c.Honest
	hHeight := 0
	if h != nil {
		hHeight = int(h.Height)
	}
	// children of the honest tip that only liars know
	c.BadChild = appendRun(&tc, hIdx, []kit.BlockSpec{{Dt: 1, Txs: intents("bctx"), Corrupt: &kit.Corruption{Kind: rapid.SampledFrom([]string{"overspend", "txsig", "dup-txn"}).Draw(t, "bckind"), Arg: rapid.IntRange(0, 7).Draw(t, "bcarg")}}})
	c.GoodChild = appendRun(&tc, hIdx, []kit.BlockSpec{{Dt: 2, Miner: 1, Txs: []kit.Intent{{Kind: "pay", Who: rapid.IntRange(0, 3).Draw(t, "gcwho"), To: 1, Pick: rapid.IntRange(0, 5).Draw(t, "gcpick"), Amt: 3, V2: true}, {Kind: "pay", Who: rapid.IntRange(0, 3).Draw(t, "gcwho2"), To: 2, Pick: 1, Amt: 5, Fee: true, V2: true}}}})
	nb := rapid.IntRange(1, 2).Draw(t, "nbyz")
	for i := 0; i < nb; i++ {
		b := ByzSpec{Dial: rapid.Bool().Draw(t, "dial"), DelayMS: rapid.SampledFrom([]int{0, 0, 50, 300}).Draw(t, "bdelay")}
		rpcs := []string{"headers", "blocks", "blocks", "checkpoint", "checkpoint", "relay-header", "relay-outline", "relay-outline", "relay-outline", "relay-txset", "relay-txset", "relay-request", "none", "none", "none"}
		b.Corr.RPC = rapid.SampledFrom(rpcs).Draw(t, "rpc")
		if c.Bootstrap > 0 && rapid.IntRange(0, 3).Draw(t, "bootcp") > 0 {
			b.Corr.RPC = "checkpoint"
		}
		if kinds := p2px.ByzKinds[b.Corr.RPC]; len(kinds) > 0 {
			b.Corr.Kind = rapid.SampledFrom(kinds).Draw(t, "kind")
		}
		b.Corr.Arg = rapid.IntRange(0, 40).Draw(t, "arg")
		// the claimed chain
		switch k := rapid.IntRange(0, 9).Draw(t, "claim"); {
		case k < 3:
			b.Tip = hIdx // the honest chain itself; the lie is on the wire only
		default:
			// a branch forking off the honest chain, longer than what is left of it
			fork := rapid.IntRange(0, min(hHeight, 12)).Draw(t, "fork")
			parent := hIdx
			for f, a := fork, h; f > 0 && a != nil; f-- {
				a = a.Parent
				if a == nil || a.Idx < 0 {
					parent = -1
					break
				}
				parent = a.Idx
			}
			ln := fork + rapid.IntRange(1, 3).Draw(t, "longer")
			if k >= 8 {
				ln = max(1, fork-rapid.IntRange(0, 2).Draw(t, "shorter")) // a lighter branch
			}
			badAt := -1
			if k < 8 {
				badAt = rapid.IntRange(0, ln-1).Draw(t, "badat")
			}
			var run []kit.BlockSpec
			for j := 0; j < ln; j++ {
				bs := kit.BlockSpec{Dt: rapid.IntRange(0, 3).Draw(t, "bdt"), Miner: rapid.IntRange(0, 3).Draw(t, "bminer"), Txs: intents("btx")}
				if j == badAt {
					kinds := headerSafeCorruptions
					if rapid.IntRange(0, 5).Draw(t, "hdrbad") == 0 {
						kinds = []string{"pow", "timestamp-past"}
					}
					bs.Corrupt = &kit.Corruption{Kind: rapid.SampledFrom(kinds).Draw(t, "badkind"), Arg: rapid.IntRange(0, 15).Draw(t, "badarg")}
				}
				run = append(run, bs)
			}
			b.Tip = appendRun(&tc, parent, run)
		}
		c.Byz = append(c.Byz, b)
	}
	if c.Bootstrap == 0 && rapid.IntRange(0, 9).Draw(t, "slowroll") == 0 {
		c.Slow = &SlowSpec{L: rapid.IntRange(2, 6).Draw(t, "slowL"), S: rapid.IntRange(2, 6).Draw(t, "slowS"), HoldMS: rapid.IntRange(1500, 3500).Draw(t, "slowhold"), Late: rapid.IntRange(1, 3).Draw(t, "slowlate")}
	}
	c.Tree = tc
	return c
}

// safely runs a send of the scripted peer; a panic while encoding one of its own
// hostile payloads is the harness's problem, not the victim's.
func safely(fn func() error) (err error) {
	defer func() {
		if r := recover(); r != nil {
			err = fmt.Errorf("scripted peer could not encode its payload: %v", r)
		}
	}()
	return fn()
}

// panicCounter is a zap core hook that counts recovered handler panics.
func panicLogger(n *atomic.Int64, first *atomic.Value) *zap.Logger {
	enc := zapcore.NewJSONEncoder(zapcore.EncoderConfig{MessageKey: "msg"})
	core := zapcore.NewCore(enc, zapcore.AddSync(discard{}), zapcore.ErrorLevel)
	return zap.New(core, zap.Hooks(func(e zapcore.Entry) error {
		if strings.Contains(e.Message, "panic") {
			n.Add(1)
			first.CompareAndSwap(nil, e.Message+" "+e.Stack)
		}
		return nil
	}))
}

type discard struct{}

func (discard) Write(p []byte) (int, error) { return len(p), nil }

func nodeAt(tr *kit.Tree, idx int) *kit.TNode {
	if idx < 0 || idx >= len(tr.Nodes) {
		return nil
	}
	return tr.Nodes[idx]
}

// c11Info reports what a case reached (for the enumerated stage).
type c11Info struct {
	Delivered    []bool // per Byzantine peer: its lie went out and differed from the honest payload
	SlowHeld     bool   // the half-open streams were opened and held
	SynthReached bool   // the synthetic liar was asked for a checkpoint and for blocks
	Quiescent    bool
	Panics       int64 // handler panics the victim recovered from
}

func runC11(c C11Case, cs *kit.CaseStats) error { return runC11x(c, cs, nil) }

func runC11x(c C11Case, cs *kit.CaseStats, info *c11Info) error {
	tr := kit.BuildTree(c.Tree)
	req := tr.Network.HardforkV2.RequireHeight
	allow := tr.Network.HardforkV2.AllowHeight
	H := nodeAt(tr, c.Honest)
	if H == nil || !H.Valid() {
		cs.Class("degenerate:no-valid-honest-chain")
		return nil
	}
	V0 := nodeAt(tr, c.Victim)
	if V0 != nil && !V0.Valid() {
		V0 = nil
	}
	genesisID := tr.Genesis.ID()

	// ---- peers
	var honest []*p2px.SyncerNode
	var byz []*p2px.ByzPeer
	var victim *p2px.SyncerNode
	defer func() {
		if victim != nil {
			victim.Close(closeWatchdog)
			victim.Node.Close()
		}
		for _, h := range honest {
			h.Close(closeWatchdog)
			h.Node.Close()
		}
		for _, b := range byz {
			b.Close()
		}
	}()
	quietOpts := []syncer.Option{syncer.WithSyncInterval(netSyncInterval), syncer.WithPeerDiscoveryInterval(time.Hour), syncer.WithMaxInboundPeers(16), syncer.WithMaxOutboundPeers(16)}
	// The half-open-stream scenario lets the honest chain grow after the victim
	// has marked the honest peers synced, so the growth has to reach the victim by
	// announcement - which exists for v2 blocks only (a relayed header that
	// attaches to the receiver's tip triggers no download, the v1 relay RPCs are
	// gone; same domain rule as in C12). With a v1 honest tip the scenario is
	// dropped and the case runs as a plain one.
	if c.Slow != nil && H.Block.V2 == nil {
		c.Slow = nil
		cs.Class("slowloris-dropped:honest-tip-is-v1(not-announceable)")
	}
	honestStart := H
	if c.Slow != nil {
		for k := max(1, c.Slow.Late); k > 0 && honestStart.Parent != nil && honestStart.Parent.Idx >= 0; k-- {
			honestStart = honestStart.Parent
		}
	}
	// Hostile-constant relays: the honest chain grows by its last block after
	// the relays went out - a victim whose handler swallowed the input but left
	// something behind (a held lock, a dead loop) no longer follows it. Same
	// domain as above: the growth must be announceable (v2), and it stays above a
	// bootstrap checkpoint.
	growPending := false
	if c.Slow == nil && H.Block.V2 != nil && H.Parent != nil && H.Parent.Idx >= 0 && H.Parent.Block.V2 != nil && (c.Bootstrap == 0 || H.Height > req+uint64(c.Bootstrap)+1) {
		for _, bs := range c.Byz {
			if bs.Dial && strings.HasPrefix(bs.Corr.RPC, "relay") && strings.HasPrefix(bs.Corr.Kind, "hostile") {
				growPending = true
			}
		}
	}
	if growPending {
		honestStart = H.Parent
		cs.Class("hostile-relay:honest-chain-grows-afterwards")
	}
	for i := 0; i < max(1, c.NHonest); i++ {
		kn, err := p2px.NewChainNode(tr, honestStart, 0)
		if err != nil {
			return fmt.Errorf("honest peer: %v", err)
		}
		sn, err := p2px.StartSyncer(kn, p2px.NodeConfig{Name: fmt.Sprintf("honest%d", i), IP: p2px.ListenIP(10 + i), UID: p2px.DetUniqueID("c11-honest", i), Opts: quietOpts})
		if err != nil {
			kn.Close()
			return err
		}
		honest = append(honest, sn)
	}
	for i, bs := range c.Byz {
		gw := &p2px.GWPeer{Genesis: genesisID, UniqueID: p2px.DetUniqueID("c11-byz", i), IP: p2px.ListenIP(20 + i)}
		if err := gw.Listen(); err != nil {
			return fmt.Errorf("INFRA: %v", err)
		}
		bp := p2px.NewByzPeer(gw, p2px.ChainTo(tr, nodeAt(tr, bs.Tip)), bs.Corr)
		bp.Alt = p2px.ChainTo(tr, H)
		if bs.Tip == c.Honest {
			if g := nodeAt(tr, c.GoodChild); g != nil {
				bp.Alt = p2px.ChainTo(tr, g)
			}
		}
		if a := nodeAt(tr, c.AltTip); c.AltTip > 0 && a != nil {
			bp.Alt = p2px.ChainTo(tr, a)
		}
		byz = append(byz, bp)
	}
	synthIdx := -1
	if c.Synth != nil && H.Block.V2 != nil {
		gw := &p2px.GWPeer{Genesis: genesisID, UniqueID: p2px.DetUniqueID("c11-synth"), IP: p2px.ListenIP(30)}
		if err := gw.Listen(); err != nil {
			return fmt.Errorf("INFRA: %v", err)
		}
		bp := p2px.NewByzPeer(gw, synthChain(tr, H, *c.Synth), p2px.Corruption{RPC: "none"})
		bp.Alt = p2px.ChainTo(tr, H)
		synthIdx = len(byz)
		byz = append(byz, bp)
		// (the bookkeeping below is per Byzantine peer: the synthetic one is a
		// lie-free peer whose tree-side claim is the honest chain)
		c.Byz = append(append([]ByzSpec(nil), c.Byz...), ByzSpec{Tip: c.Honest, Corr: p2px.Corruption{RPC: "none"}})
	}

	// ---- the victim
	floor := uint64(0)
	var vnode *kit.Node
	var err error
	if c.Bootstrap > 0 {
		// documented domain of instant sync: a v2 checkpoint at or above the
		// require height on the chain the node is going to follow
		hgt := req + uint64(c.Bootstrap-1)
		var cp *kit.TNode
		for a := H; a != nil && a.Idx >= 0; a = a.Parent {
			if a.Height == hgt {
				cp = a
			}
		}
		// (and above the Oak hardfork height: below it the difficulty adjustment
		// needs ancestors a checkpoint database does not have - on every real
		// network that height lies far below the v2 heights)
		if cp != nil && cp.Block.V2 != nil && hgt > tr.Network.HardforkOak.Height {
			for _, b := range byz {
				go b.ServeInbound(nil)
			}
			// first from the Byzantine peers alone (their answer, if it counts as
			// successful, is the one that gets used), then from the honest ones
			var addrs, haddrs []string
			for _, b := range byz {
				addrs = append(addrs, b.NetAddress)
			}
			for _, h := range honest {
				haddrs = append(haddrs, h.Addr())
			}
			ctx, cancel := context.WithTimeout(context.Background(), 30*time.Second)
			st, blk, rerr := syncer.RetrieveCheckpoint(ctx, addrs, cp.Index(), tr.Network, genesisID)
			cancel()
			if rerr != nil {
				cs.Class("bootstrap:byzantine-answers-rejected")
				ctx, cancel := context.WithTimeout(context.Background(), 30*time.Second)
				st, blk, rerr = syncer.RetrieveCheckpoint(ctx, haddrs, cp.Index(), tr.Network, genesisID)
				cancel()
			} else {
				cs.Class("bootstrap:byzantine-answer-accepted")
			}
			if rerr != nil {
				cs.Inconclusive("retrieve-checkpoint-failed")
				return nil
			}
			// whatever the peers said, a "successful" checkpoint is the true one
			if blk.ID() != cp.ID {
				return fmt.Errorf("RetrieveCheckpoint(%v) returned block %v, which is not the requested block", cp.Index(), blk.ID())
			} else if !bytes.Equal(refl.Enc(types.V2Block(blk)), refl.Enc(types.V2Block(cp.Block))) {
				// same id, other content: a v2 id binds parent state, miner address
				// and transactions only - what core says about the rest decides
				verdict := consensus.ValidateBlock(cp.Parent.Ledger.State, blk, consensus.V1BlockSupplement{Transactions: make([]consensus.V1TransactionSupplement, len(blk.Transactions))})
				return fmt.Errorf("RetrieveCheckpoint(%v) accepted a checkpoint block that carries the requested id but is not the block of the chain (payouts %v, v2 height %d; the chain's block: payouts %v, v2 height %d); consensus.ValidateBlock on its parent state: %v", cp.Index(), blk.MinerPayouts, blk.V2.Height, cp.Block.MinerPayouts, cp.Block.V2.Height, verdict)
			}
			if !bytes.Equal(refl.StateBytes(st), refl.StateBytes(cp.Parent.Ledger.State)) {
				return fmt.Errorf("RetrieveCheckpoint(%v) returned a parent state that differs from the true state before that block (index %v)", cp.Index(), st.Index)
			}
			be, err := kvm.NewBackend("mem")
			if err != nil {
				return fmt.Errorf("INFRA: %v", err)
			}
			store, tipState, err := chain.NewDBStoreAtCheckpoint(be.DB, st, blk, nil)
			if err != nil {
				return fmt.Errorf("NewDBStoreAtCheckpoint with the retrieved checkpoint: %v", err)
			}
			hs := &kit.HookStore{DBStore: store}
			vnode = &kit.Node{Tree: tr, Backend: be, Store: store, Hooked: hs, CM: chain.NewManager(hs, tipState), Submitted: map[types.BlockID]bool{cp.ID: true}, MaxHeight: cp.Height}
			floor, V0 = hgt, cp
			cs.Class("victim-bootstrapped-from-retrieved-checkpoint")
			for _, b := range byz {
				if b.Corr.RPC == "checkpoint" && b.Applied("checkpoint") > 0 {
					cs.NonTrivial()
					cs.Class("lie-delivered:bootstrap-checkpoint/" + b.Corr.Kind)
				}
			}
		}
	}
	if vnode == nil {
		if vnode, err = p2px.NewChainNode(tr, V0, 0); err != nil {
			return fmt.Errorf("victim: %v", err)
		}
	}
	var panics atomic.Int64
	var firstPanic atomic.Value
	vopts := append([]syncer.Option{syncer.WithLogger(panicLogger(&panics, &firstPanic))}, quietOpts...)
	vopts = append(vopts, syncer.WithSendBlockTimeout(5*time.Second), syncer.WithSendBlocksTimeout(5*time.Second), syncer.WithSendTransactionsTimeout(5*time.Second))
	if c.Slow != nil {
		vopts = append(vopts, syncer.WithMaxInflightRPCs(max(1, c.Slow.L)), syncer.WithMaxInflightRPCsPerSubnet(max(1, c.Slow.S)), syncer.WithInflightRPCSubnetPrefixes(24, 48))
	}
	victim, err = p2px.StartSyncer(vnode, p2px.NodeConfig{Name: "victim", IP: p2px.ListenIP(0), UID: p2px.DetUniqueID("c11-victim"), Opts: vopts})
	if err != nil {
		vnode.Close()
		return err
	}
	if c.Bootstrap == 0 || floor == 0 {
		for _, b := range byz {
			go b.ServeInbound(nil)
		}
	}

	// ---- connections, in the drawn order of delays
	type pending struct {
		at time.Duration
		fn func()
	}
	var mu sync.Mutex
	var honestDialMu sync.Mutex
	var honestDialAt time.Time // when the first honest peer was dialled
	bconn := make([]*p2px.GWConn, len(byz))
	var plan []pending
	for i, bs := range c.Byz {
		i, bs := i, bs
		plan = append(plan, pending{time.Duration(bs.DelayMS) * time.Millisecond, func() {
			if bs.Dial {
				if conn, err := byz[i].ConnectTo(victim.Addr(), 10*time.Second); err == nil {
					mu.Lock()
					bconn[i] = conn
					mu.Unlock()
				}
			} else {
				ctx, cancel := context.WithTimeout(context.Background(), 10*time.Second)
				victim.S.Connect(ctx, byz[i].NetAddress)
				cancel()
			}
		}})
	}
	for _, h := range honest {
		h := h
		plan = append(plan, pending{time.Duration(c.HonestDelayMS) * time.Millisecond, func() {
			honestDialMu.Lock()
			if honestDialAt.IsZero() {
				honestDialAt = time.Now()
			}
			honestDialMu.Unlock()
			victim.Connect(h, 10*time.Second)
		}})
	}
	sort.SliceStable(plan, func(i, j int) bool { return plan[i].at < plan[j].at })
	start := time.Now()
	for _, p := range plan {
		if d := p.at - time.Since(start); d > 0 {
			time.Sleep(d)
		}
		p.fn()
	}

	// ---- the half-open-stream attack
	var slowDone, slowHeld atomic.Bool
	if c.Slow == nil {
		slowDone.Store(true)
	} else {
		go func() {
			defer slowDone.Store(true)
			// wait until the victim has what the honest peers have (bounded; the
			// attack goes ahead anyway)
			for deadline := time.Now().Add(8 * time.Second); time.Now().Before(deadline) && victim.Node.CM.Tip() != honestStart.Index(); {
				time.Sleep(50 * time.Millisecond)
			}
			time.Sleep(300 * time.Millisecond)
			// S half-open streams, at most L per connection (more than L streams
			// on one connection is the shape of known finding F-C18-2: the
			// per-peer back-pressure then blocks that connection altogether)
			need, opened := max(1, c.Slow.S), 0
			var attackers []*p2px.GWPeer
			for k := 0; opened < need && k < 8; k++ {
				ip := p2px.ListenIP(40 + k)
				at := &p2px.GWPeer{Genesis: genesisID, UniqueID: p2px.DetUniqueID("c11-slow", k), IP: ip, NetAddress: fmt.Sprintf("%s:%d", ip, 4040+k)}
				attackers = append(attackers, at)
				conn, err := at.Dial(context.Background(), victim.Addr(), 10*time.Second)
				if err != nil {
					continue
				}
				go conn.Serve(serveQuiet)
				for j := 0; j < max(1, c.Slow.L) && opened < need; j++ {
					if st, err := conn.T.DialStream(); err == nil {
						st.SetDeadline(time.Now().Add(time.Minute))
						if st.WriteID(&gateway.RPCSendHeaders{}) == nil {
							opened++
						}
					}
				}
			}
			if opened == need {
				slowHeld.Store(true)
			}
			time.Sleep(time.Duration(c.Slow.HoldMS) * time.Millisecond)
			for _, at := range attackers {
				at.Close()
			}
			time.Sleep(300 * time.Millisecond)
			// the honest chain grows by its last blocks
			var late []types.Block
			for _, n := range H.PathFromGenesis() {
				if n.Height > honestStart.Height {
					late = append(late, n.Block)
				}
			}
			for _, h := range honest {
				h.Node.Submit(late)
			}
		}()
	}

	// ---- active lies (relays), repeated a few times
	tipNode := func() *kit.TNode { return tr.ByID[victim.Node.CM.Tip().ID] }
	relaysSent := map[int]int{}
	settledShots := map[int]int{}
	relayAtH := map[int]bool{}
	sendRelay := func(i int) {
		b := byz[i]
		mu.Lock()
		conn := bconn[i]
		mu.Unlock()
		if conn == nil || !strings.HasPrefix(b.Corr.RPC, "relay") {
			return
		}
		cur := tipNode()
		if cur == nil || cur.Ledger == nil {
			return
		}
		known := cur // a block the victim certainly knows
		pst := known.Ledger.State
		mk := func(valid bool) types.Block {
			blk := kit.AssembleBlock(pst, known.Block.Timestamp.Add(time.Second), kit.Actors[0].Addr, nil, nil, uint64(i))
			if !valid {
				kit.Grind(pst, &blk, false)
			}
			return blk
		}
		// (on the easiest target kit.Grind may not find a nonce that misses it and
		// falls back to an indivisible nonce, which is not "insufficient work")
		lowWork := func(id types.BlockID) bool { return id.CmpWork(pst.PoWTarget()) < 0 }
		outlineOf := func(blk types.Block) gateway.V2BlockOutline {
			if blk.V2 != nil {
				return gateway.OutlineBlock(blk, nil, nil)
			}
			return gateway.V2BlockOutline{Height: pst.Index.Height + 1, ParentID: blk.ParentID, Nonce: blk.Nonce, Timestamp: blk.Timestamp, MinerAddress: blk.MinerPayouts[0].Address}
		}
		var err error
		switch b.Corr.RPC + "/" + b.Corr.Kind {
		case "relay-header/low-work":
			lb := mk(false)
			if !lowWork(lb.ID()) {
				return
			}
			err = p2px.RelayHeader(conn, lb.Header())
		case "relay-header/unknown-parent":
			vb := mk(true)
			hd := vb.Header()
			hd.ParentID[7] ^= 0x55
			err = p2px.RelayHeader(conn, hd)
		case "relay-outline/low-work":
			o := outlineOf(mk(false))
			if !lowWork(o.ID(pst)) {
				return
			}
			err = p2px.RelayOutline(conn, o)
		case "relay-outline/unknown-parent":
			o := outlineOf(mk(true))
			o.ParentID[9] ^= 0x33
			err = p2px.RelayOutline(conn, o)
		case "relay-outline/invalid-child":
			bad := nodeAt(tr, c.BadChild)
			if cur != H || bad == nil || bad.Valid() || bad.Block.V2 == nil || bad.Parent != H {
				return
			}
			// an outline carries neither the payout value nor the commitment: the
			// receiver recomputes both, so only a lie inside the transactions
			// survives the trip (a v2 block with a wrong payout shares its id with
			// the valid block the receiver reconstructs)
			if bad.Corrupt != "overspend" && bad.Corrupt != "txsig" && bad.Corrupt != "dup-txn" {
				return
			}
			err = p2px.RelayOutline(conn, gateway.OutlineBlock(bad.Block, nil, nil))
			relayAtH[i] = true
		case "relay-outline/wrong-missing", "relay-outline/no-missing", "relay-outline/txn-altered":
			good := nodeAt(tr, c.GoodChild)
			if cur != H || good == nil || !good.Valid() || good.Block.V2 == nil || good.Parent != H || len(good.Block.V2.Transactions) == 0 {
				return
			}
			o := gateway.OutlineBlock(good.Block, nil, nil)
			if b.Corr.Kind == "txn-altered" {
				// the transactions an outline carries travel without their hashes, so
				// the lie is a different transaction in place of the first v2 one
				// (its signature no longer covers it; the block id changes with it)
				k := len(o.Transactions) - len(good.Block.V2.Transactions)
				alt := good.Block.V2.Transactions[0].DeepCopy()
				alt.ArbitraryData = append(alt.ArbitraryData, 'x')
				o.Transactions[k] = gateway.OutlineTransaction{Hash: alt.MerkleLeafHash(), V2Transaction: &alt}
			} else {
				o.Transactions[0].Transaction, o.Transactions[0].V2Transaction = nil, nil
			}
			err = p2px.RelayOutline(conn, o)
			relayAtH[i] = true
		case "relay-header/hostile-timestamp":
			vb := mk(true)
			hd := vb.Header()
			hd.Timestamp = p2px.HostileTime(b.Corr.Arg)
			if !p2px.GrindHeader(pst, &hd) {
				return
			}
			err = p2px.RelayHeader(conn, hd)
		case "relay-outline/hostile-embedded", "relay-outline/hostile-missing", "relay-outline/hostile-field":
			o, v1, v2, ok := p2px.HostileOutline(pst, known.Block.Timestamp, b.Corr.Kind, b.Corr.Arg)
			if !ok {
				return
			}
			b.OfferTxns(v1, v2)
			err = safely(func() error { return p2px.RelayOutline(conn, o) })
		case "relay-txset/hostile-txn":
			// basis: the tip, its parent, or three blocks back (the proofs of the set
			// are then updated along the blocks in between)
			basis := known
			for k := []int{0, 1, 3}[mod(b.Corr.Arg/p2px.HostileV2Variants, 3)]; k > 0 && basis.Parent != nil && basis.Parent.Idx >= 0; k-- {
				basis = basis.Parent
			}
			txns := []types.V2Transaction{p2px.HostileV2Txn(b.Corr.Arg, 70)}
			err = safely(func() error { return p2px.RelayTxnSet(conn, basis.Index(), txns) })
		case "relay-txset/hostile-basis":
			// a block the victim has, under a height that is not its height
			idx := known.Index()
			switch mod(b.Corr.Arg, 4) {
			case 0:
				idx.Height = math.MaxUint64
			case 1:
				idx.Height = 0
			case 2:
				idx.Height += 1000
			default:
				idx = types.ChainIndex{Height: known.Height, ID: genesisID}
			}
			txns := []types.V2Transaction{{ArbitraryData: []byte("x")}}
			if mod(b.Corr.Arg/4, 2) == 1 {
				txns = []types.V2Transaction{p2px.HostileV2Txn(3, 70)}
			}
			err = safely(func() error { return p2px.RelayTxnSet(conn, idx, txns) })
		case "relay-request/hostile-numbers":
			req := p2px.HostileRequest(b.Corr.Arg, known.Index(), genesisID)
			err = safely(func() error { return p2px.Request(conn, req) })
		case "relay-txset/empty":
			err = p2px.RelayTxnSet(conn, known.Index(), nil)
		case "relay-txset/unknown-basis":
			err = p2px.RelayTxnSet(conn, types.ChainIndex{Height: 3, ID: types.BlockID{9, 9}}, []types.V2Transaction{{ArbitraryData: []byte("x")}})
		case "relay-txset/invalid":
			err = p2px.RelayTxnSet(conn, known.Index(), []types.V2Transaction{{ArbitraryData: []byte("x")}})
		}
		if err == nil {
			relaysSent[i]++
		}
	}

	// ---- run until quiescent or out of budget
	var stall stallTracker
	stalled := ""
	lastMove := time.Now()
	moveKey := ""
	lastChange := time.Now()
	prev := ""
	quiescent := false
	rounds, reconnects := 0, 0
	why := ""
	lastIter := time.Now()
	for time.Since(start) < stallWindowByz()+15*time.Second {
		time.Sleep(netTick)
		rounds++
		iterLag := time.Since(lastIter)
		lastIter = time.Now()
		if iterLag > 5*netTick {
			// the machine is starved: relays and syncs may be lagging as well, so
			// this is no time to conclude that nothing is going on
			lastChange = time.Now()
		}
		victim.CM.SampleWork()
		changed := false
		if s := victim.Node.CM.Tip().String(); s != prev {
			prev, changed = s, true
		}
		live := true
		for _, h := range honest {
			if !victim.HasPeer(h.Addr()) {
				live = false
				reconnects++
				victim.Connect(h, 5*time.Second)
			}
		}
		// the honest peers must be connected and marked synced; a Byzantine peer
		// that keeps failing stays "unsynced" for ever (the victim retries it
		// once a second), which is not the victim's problem - but as long as one
		// is still being worked on, the tip has to stay put for longer
		honestSynced, allSynced := true, true
		for _, p := range victim.S.Peers() {
			if !p.Synced() {
				allSynced = false
				for _, h := range honest {
					if p.Addr() == h.Addr() {
						honestSynced = false
					}
				}
			}
		}
		if !slowDone.Load() {
			changed = true // the attack (and the honest chain's last blocks) are still to come
		}
		if changed || !live || !honestSynced {
			lastChange = time.Now()
			why = fmt.Sprintf("changed=%v live=%v honestSynced=%v", changed, live, honestSynced)
		}
		// stall oracle: the honest peers are connected, their chain is an
		// announceable (v2) tip sufficiently heavier than the victim's, and
		// nothing has moved for the whole window
		if H.Block.V2 != nil {
			tn := tipNode()
			lighter := tn != nil && tn.Ledger != nil && H.Ledger.State.SufficientlyHeavierThan(tn.Ledger.State)
			key := fmt.Sprintf("%v/%d", victim.Node.CM.Tip(), victim.CM.SubmittedCount())
			if stall.observeW(live && lighter && slowDone.Load() && !growPending, key, stallWindowByz()) && stallOracle() {
				var ps []string
				for _, p := range victim.S.Peers() {
					ps = append(ps, fmt.Sprintf("%s synced=%v err=%v", p, p.Synced(), p.Err()))
				}
				stalled = fmt.Sprintf("no progress for %v (the victim's tip %v did not move, no new block reached its manager) although %d honest peer(s) holding the sufficiently heavier chain %v are connected and re-announce it every 200 ms; victim's peers: [%s]\ngoroutines inside the syncer:\n%s",
					stallWindowByz(), victim.Node.CM.Tip(), len(honest), H.Index(), strings.Join(ps, "; "), p2px.ClipStacks(p2px.StacksWith("coreutils/syncer."), 10))
				break
			}
		}
		if victim.Node.CM.Tip().String()+fmt.Sprint(victim.CM.SubmittedCount()) != moveKey {
			moveKey, lastMove = victim.Node.CM.Tip().String()+fmt.Sprint(victim.CM.SubmittedCount()), time.Now()
		}
		need := netStable
		if !allSynced {
			need = 3 * netStable
		}
		// "settled": in a near tie the honest peers' announcements of their
		// (side-chain) tip keep flipping them to unsynced; when nothing has moved
		// for a while, the honest chain is not sufficiently heavier than the
		// victim's tip and every active liar had its shots, there is nothing left
		// to wait for
		if !honestSynced && live && slowDone.Load() && time.Since(lastMove) >= 4*time.Second {
			tn := tipNode()
			relaysDone := true
			for i, b := range byz {
				mu.Lock()
				conn := bconn[i]
				mu.Unlock()
				if strings.HasPrefix(b.Corr.RPC, "relay") && conn != nil && settledShots[i] < 2 {
					relaysDone = false
				}
			}
			if tn != nil && tn.Ledger != nil && !H.Ledger.State.SufficientlyHeavierThan(tn.Ledger.State) {
				if relaysDone && !growPending {
					quiescent = true
					cs.Class("settled-without-synced-flags(near-tie-flapping)")
					break
				}
				lastChange = time.Now().Add(-need) // take the shots now
				honestSynced = true
			}
		}
		if time.Since(lastChange) >= need {
			// give every active liar at least one shot at the settled victim
			pendingRelay := false
			for i, b := range byz {
				mu.Lock()
				conn := bconn[i]
				mu.Unlock()
				if strings.HasPrefix(b.Corr.RPC, "relay") && conn != nil && settledShots[i] < 2 {
					settledShots[i]++
					sendRelay(i)
					pendingRelay = true
				}
			}
			if !pendingRelay && growPending {
				// every hostile relay had its shots: the honest chain grows
				growPending = false
				for _, h := range honest {
					h.Node.Submit([]types.Block{H.Block})
				}
				lastChange = time.Now()
				continue
			}
			if !pendingRelay {
				quiescent = true
				break
			}
			lastChange = time.Now().Add(-need + 500*time.Millisecond)
			continue
		}
		if rounds%2 == 0 {
			for _, h := range honest {
				h.Announce(!c.Outline)
			}
		}
		if rounds%5 == 3 {
			for i := range byz {
				if relaysSent[i] == 0 {
					sendRelay(i)
				}
			}
		}
	}
	elapsed := time.Since(start)
	if !quiescent {
		// a relay may have gone out in the last round: let its handler finish
		time.Sleep(500 * time.Millisecond)
	}

	// ---- verdict
	if err := victim.Close(closeWatchdog); err != nil {
		cs.Inconclusive("close-timeout")
		return nil
	}
	for _, h := range honest {
		h.Close(closeWatchdog)
	}
	victim.SyncSubmitted()
	if err := p2px.AuditNode(victim.Node, floor); err != nil {
		return fmt.Errorf("victim (started at %v): %w", tipName(V0), err)
	}
	if d := victim.WorkDrop(); d != "" {
		return fmt.Errorf("victim: total work of the tip decreased: %s", d)
	}
	for i, h := range honest {
		h.SyncSubmitted()
		if err := p2px.AuditNode(h.Node, 0); err != nil {
			return fmt.Errorf("honest peer %d: %w", i, err)
		}
	}
	T := tr.ByID[victim.Node.CM.Tip().ID]
	if n := panics.Load(); n > 0 {
		if info != nil {
			info.Panics = n
		}
		cs.Class("handler-panic-recovered")
		cs.Add("recovered_panics", n)
		if os.Getenv("VERIF_NET_DEBUG") != "" {
			fmt.Printf("PANIC %v\n", firstPanic.Load())
		}
	}
	// what was exercised
	if synthIdx >= 0 {
		reached := byz[synthIdx].Seen("checkpoint") > 0 && byz[synthIdx].Seen("blocks") > 0
		if reached {
			cs.NonTrivial()
			cs.Class("lie-delivered:synthetic/invalid-ancestor-below-require(pre-validated-batch-on-top)")
		}
		if info != nil {
			info.SynthReached = reached
		}
	}
	if c.Slow != nil {
		if slowHeld.Load() {
			cs.NonTrivial()
			cs.Class("lie-delivered:slowloris/half-open-streams")
		}
		if info != nil {
			info.SlowHeld = slowHeld.Load()
		}
	}
	for i, b := range byz {
		rpc := b.Corr.RPC
		key := rpc + "/" + b.Corr.Kind
		delivered := false
		switch {
		case rpc == "none":
		case strings.HasPrefix(rpc, "relay"):
			delivered = relaysSent[i] > 0
		default:
			delivered = b.Seen(rpc) > 0 && b.Applied(rpc) > 0
		}
		if delivered {
			cs.NonTrivial()
			cs.Class("lie-delivered:" + key)
		}
		if info != nil {
			info.Delivered = append(info.Delivered, delivered)
			info.Quiescent = quiescent
		}
		bt := nodeAt(tr, c.Byz[i].Tip)
		if bt != nil && !bt.Valid() && b.Seen("blocks") > 0 {
			cs.NonTrivial()
			for a := bt; a != nil; a = a.Parent {
				if a.OwnInvalid {
					cs.Class("invalid-branch-requested:" + a.Corrupt)
				}
			}
		}
		_, banned := victim.Store.BannedHost(b.IP)
		if banned {
			cs.Class("banned:" + key)
		}
		// "invalid block": the peer handed over, unaltered, a block core rejects
		// on a branch that outweighs everything the victim can be on
		if bt != nil && !bt.Valid() {
			off := b.Offered()
			for a := bt; a != nil; a = a.Parent {
				if a.OwnInvalid && off[a.ID] {
					headerSafe := false
					for _, k := range headerSafeCorruptions {
						if k == a.Corrupt {
							headerSafe = true
						}
					}
					if banned {
						cs.Class("invalid-block-delivered:banned")
					} else if quiescent && headerSafe && (rpc == "none" || strings.HasPrefix(rpc, "relay")) && T != nil && T.Ledger != nil && bt.Hdr.SufficientlyHeavierThan(T.Ledger.State) {
						// no lie on the sync RPCs, the header chain is valid and
						// sufficiently heavier than the tip the victim ended on (hence,
						// tip work being monotone, than any tip it ever had): the victim
						// fetched this chain from this peer and tried to reorganise to
						// it, so the invalid block was validated
						return fmt.Errorf("Byzantine peer %d (%s) delivered block %v, which core rejects (%v), on a branch sufficiently heavier than the victim's final tip %v, but the peer store never saw a Ban of its address (bans: %v)", i, b.IP, a.Index(), a.Err, T.Index(), victim.Store.Bans())
					} else {
						cs.Class("invalid-block-delivered:NOT-banned:" + a.Corrupt + "/" + key)
						if os.Getenv("VERIF_NET_DEBUG") != "" {
							js, _ := json.Marshal(c)
							fmt.Printf("NOT-BANNED byz=%d bad=%v kind=%s heavier=%v case=%s\n", i, a.Index(), a.Corrupt, bt.Hdr.SufficientlyHeavierThan(H.Ledger.State), js)
						}
					}
				}
			}
		}
		// provable offences the code names: a Ban call must have been made
		expect := ""
		switch key {
		case "relay-header/low-work", "relay-outline/low-work", "relay-txset/empty":
			if delivered {
				expect = "sent " + key
			}
		case "relay-outline/invalid-child", "relay-outline/wrong-missing", "relay-outline/no-missing", "relay-outline/txn-altered":
			if delivered && relayAtH[i] && T == H && quiescent {
				expect = "sent " + key + " attaching to the victim's tip"
			}
		}
		// another body under an unchanged v2 id, handed over (and, for the hang-up
		// variants, read by the victim) before the first honest peer was even
		// dialled, i.e. while this liar was the only peer the victim could ask: no
		// other worker can have pre-empted or cancelled that request, the batch
		// reached full validation, so the peer must have been reported - whether
		// or not it is still connected
		honestDialMu.Lock()
		soloUntil := honestDialAt
		honestDialMu.Unlock()
		if at := b.SameIDAt(); expect == "" && rpc == "blocks" && !at.IsZero() && !soloUntil.IsZero() && at.Add(200*time.Millisecond).Before(soloUntil) && len(c.Byz) == 1 && c.Slow == nil && quiescent {
			expect = "delivered a block with another body under its id (" + key + ") while it was the victim's only peer"
		}
		if expect != "" && !banned {
			return fmt.Errorf("Byzantine peer %d (%s) %s, but the peer store never saw a Ban of its address (bans: %v)", i, b.IP, expect, victim.Store.Bans())
		}
		if expect != "" {
			cs.Class("ban-asserted:" + key)
		}
	}
	for _, h := range honest {
		if reason, ok := victim.Store.BannedHost(h.IP); ok {
			return fmt.Errorf("the victim banned honest peer %s: %s", h.IP, reason)
		}
	}
	startH := uint64(0)
	if V0 != nil {
		startH = V0.Height
	}
	if lca := kit.LCA(orRoot(tr, V0), T); startH-lca.Height >= 1 {
		cs.Classf("victim-reorg-depth>=%d", min(int(startH-lca.Height), 3))
	}
	if startH < req && T.Height >= req {
		cs.Class("sync-crossed-require-height")
	}
	if startH < allow && T.Height >= allow {
		cs.Class("sync-crossed-allow-height")
	}
	if _, val, _ := victim.CM.Calls(); val > 0 {
		cs.Class("used-AddValidatedV2Blocks")
	}
	cs.Add("elapsed_ms", elapsed.Milliseconds())
	cs.Add("reconnects", int64(reconnects))
	if H.Block.V2 != nil {
		stall.class(cs)
		if os.Getenv("VERIF_NET_DEBUG") != "" {
			fmt.Printf("GAP %d\n", stall.maxGap.Milliseconds())
		}
	}
	if stalled != "" {
		return fmt.Errorf("stalled: %s", stalled)
	}
	if !quiescent {
		cs.Inconclusive("not-quiescent-within-budget")
		if os.Getenv("VERIF_NET_DEBUG") != "" {
			js, _ := json.Marshal(c)
			fmt.Printf("NOT-QUIESCENT why=%s reconnects=%d tip=%v honest=%v case=%s\n", why, reconnects, tipName(T), H.Index(), js)
		}
		return nil
	}
	cs.Class("quiescent")
	// liveness half: the honest chain is not sufficiently heavier than where the
	// victim ended; and equal to it when it dominates everything valid on offer
	if H.Ledger.State.SufficientlyHeavierThan(T.Ledger.State) {
		return fmt.Errorf("quiescent after %v with %d honest peer(s) connected and synced, yet the victim is on %v while the honest chain %v is sufficiently heavier (victim started at %v)", elapsed.Round(time.Millisecond), len(honest), T.Index(), H.Index(), tipName(V0))
	}
	dominates := true
	var others []consensus.State
	if V0 != nil && !V0.IsAncestorOf(H) {
		others = append(others, V0.Ledger.State)
	}
	for _, bs := range c.Byz {
		for a := nodeAt(tr, bs.Tip); a != nil && a.Idx >= 0; a = a.Parent {
			if a.Valid() && !a.IsAncestorOf(H) {
				others = append(others, a.Ledger.State)
			}
		}
	}
	for i, bs := range c.Byz {
		// (the valid child of the honest tip is on offer only through a peer that
		// answers block requests from that branch)
		if g := nodeAt(tr, c.GoodChild); g != nil && g.Valid() && bs.Tip == c.Honest && byz[i].Corr.RPC == "blocks" && byz[i].Corr.Kind == "other-branch" {
			others = append(others, g.Ledger.State)
		}
		if byz[i].Corr.RPC == "blocks" && byz[i].Corr.Kind == "other-branch" && c.AltTip > 0 {
			for a := nodeAt(tr, c.AltTip); a != nil && a.Idx >= 0; a = a.Parent {
				if a.Valid() && !a.IsAncestorOf(H) {
					others = append(others, a.Ledger.State)
				}
			}
		}
	}
	for _, o := range others {
		if !H.Ledger.State.SufficientlyHeavierThan(o) {
			dominates = false
		}
	}
	if dominates {
		cs.Class("honest-chain-dominates")
		if T != H {
			return fmt.Errorf("quiescent after %v, the honest chain %v is sufficiently heavier than every valid chain on offer, yet the victim is on %v", elapsed.Round(time.Millisecond), H.Index(), T.Index())
		}
	} else {
		cs.Class("valid-competitor-near-or-above-honest")
	}
	return nil
}

var c11Prop = kit.Prop[C11Case]{
	ID:   "C11",
	Rule: "a victim syncer (fresh, part-way on the honest chain, on another valid branch, or bootstrapped with RetrieveCheckpoint) + 1..2 real honest peers holding the heaviest valid chain of a generated fork tree (ending below / across / above the v2 require height) + 1..2 scripted Byzantine gateway peers, each claiming the honest chain or a longer branch containing one block core rejects (body-level or header-level corruption) or a valid lighter branch, and telling one wire lie: SendHeaders (broken link, low work, old timestamp, wrong remaining, duplicate, wrong message type, garbage, close), SendV2Blocks (other branch, swapped/dropped bodies under the same id, too few/many, reordered, foreign first block, wrong type, garbage, close), SendCheckpoint (non-v2, wrong id, altered state fields, inflated work, self-consistent forged state, wrong type, garbage), relayed headers/outlines/transaction sets (low work, unknown parent, invalid child of the tip, wrong/no missing transactions, altered transaction, empty set, unknown basis, invalid set), or sending hostile constants onto the victim's tip with ground proof of work (MaxCurrency fees / outputs, MaxUint64 heights, sizes and leaf indices, out-of-range timestamps, over-long proofs in embedded or served-when-asked transactions, in outline fields, header timestamps, transaction sets and their basis, requests to the victim, and in block bodies served under an unchanged v2 id; afterwards the honest chain grows by one block and the victim has to follow). Every case: victim and honest peers pass the chain audit against the reference ledger (incl. full replay), tip work never decreases, no handler panic escapes, honest peers are never banned, a checkpoint returned by RetrieveCheckpoint is the true one; Ban is asserted for low-work relays, empty sets and (when sent onto the settled tip) invalid/incompletable outlines. Quiescent cases: the honest chain is not sufficiently heavier than the victim's tip, and the tip equals it when it dominates every valid chain on offer. Stall oracle (violation): for 25 s (40 s thorough) the honest peers are connected, their chain is an announceable (v2) tip sufficiently heavier than the victim's, and neither the victim's tip nor its count of distinct blocks handed to the manager changed (longest legitimate gap measured under load: 5.4 s, the victim works through its peers' header chains one after the other). Non-trivial = the victim issued the corrupted RPC and the delivered payload differed from the honest one (or the active lie was delivered).",
	Assumptions: []string{
		"honest tips keep being announced every 200 ms; dropped honest connections are re-dialled",
		"Byzantine peers hold no hash-collision power: a lie keeps at most the block id (v2 bodies under an unchanged header)",
		"instant-sync victims only inside the documented domain (v2 checkpoint at/above the require height on the chain they follow)",
		"the recording peer store does not enforce bans (like the repository's EphemeralPeerStore)",
	},
	Gen: genC11,
	Run: runC11,
}

func TestC11(t *testing.T) { c11Prop.Main(t) }
