package pnet

import (
	"fmt"
	"os"
	"strconv"
	"testing"

	"verif/kit"
)

// starCase builds a star: the hub (node 0) dials every leaf at once; leaf 1
// holds the dominating branch (trunk + long blocks), the other leaves hold
// short forks off the trunk tip. The hub starts at genesis or at the trunk tip.
// While the hub downloads the dominating branch, its other unsynced peers are
// workers that cannot serve the requests.
func starCase(leaves, long int, hubAtTrunk bool, rep int) C12Case {
	const trunk = 6
	tc := kit.TreeCase{Net: kit.NetSpec{Maturity: 1, Allow: 2, ReqOff: 2, CutOff: 2}}
	for i := 0; i < trunk; i++ {
		tc.Blocks = append(tc.Blocks, kit.BlockSpec{Dt: 1, Miner: i % 4, OnBad: true, Txs: []kit.Intent{{Kind: "pay", Who: i % 4, To: (i + 1) % 4, Pick: i, Amt: 3, V2: true}}})
	}
	run := func(n, miner, dt int) []kit.BlockSpec {
		var out []kit.BlockSpec
		for i := 0; i < n; i++ {
			out = append(out, kit.BlockSpec{Dt: dt, Miner: miner})
		}
		return out
	}
	tips := []int{appendRun(&tc, trunk-1, run(long, 1, 1))}
	for l := 1; l < leaves; l++ {
		tips = append(tips, appendRun(&tc, trunk-1, run(1+l%3, (l+1)%4, 2+l)))
	}
	c := C12Case{Tree: tc, Outline: rep%2 == 0}
	hub := C12Node{Tip: -1}
	if hubAtTrunk {
		hub.Tip = 2*(trunk-1) + 1 // odd selectors index the valid blocks in list order
	}
	c.Nodes = append(c.Nodes, hub)
	for l, t := range tips {
		c.Nodes = append(c.Nodes, C12Node{Tip: 2*t + 1})
		c.Edges = append(c.Edges, C12Edge{From: 0, To: l + 1})
	}
	return c
}

// freshCase: every node holds the same 8-block chain; one of them then mines a
// block with two payments nobody else has seen and announces it by an outline
// without bodies (with pool: after broadcasting the payments as a transaction
// set). topo: pair | line-end (miner at one end of a line of three) |
// line-middle | star-leaf (hub + 3 leaves, a leaf mines).
func freshCase(topo string, pool bool) C12Case {
	tc := kit.TreeCase{Net: kit.NetSpec{Maturity: 1, Allow: 2, ReqOff: 1, CutOff: 2}}
	const chain = 8
	for i := 0; i < chain; i++ {
		tc.Blocks = append(tc.Blocks, kit.BlockSpec{Dt: 1, Miner: i % 4, OnBad: true, Txs: []kit.Intent{{Kind: "pay", Who: i % 4, To: (i + 1) % 4, Pick: i, Amt: 3, V2: true}}})
	}
	appendRun(&tc, chain-1, []kit.BlockSpec{{Dt: 2, Miner: 1, Txs: []kit.Intent{{Kind: "pay", Who: 0, To: 1, Pick: 3, Amt: 3, V2: true}, {Kind: "pay", Who: 3, To: 2, Pick: 1, Amt: 5, Fee: true, V2: true}}}})
	c := C12Case{Tree: tc, Outline: true, Fresh: &FreshSpec{Pool: pool}}
	at := C12Node{Tip: 2*(chain-1) + 1}
	switch topo {
	case "pair":
		c.Nodes = []C12Node{at, at}
		c.Edges = []C12Edge{{From: 1, To: 0}}
	case "line-end", "line-middle":
		c.Nodes = []C12Node{at, at, at}
		c.Edges = []C12Edge{{From: 0, To: 1}, {From: 2, To: 1, DelayMS: 10}}
		if topo == "line-middle" {
			c.Fresh.Miner = 1
		}
	default:
		c.Nodes = []C12Node{at, at, at, at}
		c.Edges = []C12Edge{{From: 1, To: 0}, {From: 2, To: 0}, {From: 0, To: 3}}
		c.Fresh.Miner = 2
	}
	return c
}

// capsCase: topologies whose tight per-node connection limits (CapSlack 1)
// are only met if inbound and outbound peers are counted separately. line:
// A(heaviest) -> B -> C with B's MaxInboundPeers 1 and MaxOutboundPeers 1,
// B dialling C before or after A dials B. hub: leaves 1..2 are dialled by the
// hub, leaves 3..4 dial the hub (hub: inbound 2, outbound 2); the heaviest
// chain sits on an inbound leaf; outbound edges first or last.
func capsCase(shape string, outboundFirst bool) C12Case {
	const trunk = 6
	tc := kit.TreeCase{Net: kit.NetSpec{Maturity: 1, Allow: 2, ReqOff: 2, CutOff: 2}}
	for i := 0; i < trunk; i++ {
		tc.Blocks = append(tc.Blocks, kit.BlockSpec{Dt: 1, Miner: i % 4, OnBad: true})
	}
	var run []kit.BlockSpec
	for i := 0; i < 9; i++ {
		run = append(run, kit.BlockSpec{Dt: 1, Miner: 1})
	}
	heavy := appendRun(&tc, trunk-1, run)
	at := C12Node{Tip: 2*(trunk-1) + 1}
	c := C12Case{Tree: tc, Outline: true, CapSlack: 1}
	if shape == "line" {
		c.Nodes = []C12Node{{Tip: 2*heavy + 1}, at, at}
		out, in := C12Edge{From: 1, To: 2}, C12Edge{From: 0, To: 1}
		if outboundFirst {
			in.DelayMS = 30
			c.Edges = []C12Edge{out, in}
		} else {
			out.DelayMS = 30
			c.Edges = []C12Edge{in, out}
		}
		return c
	}
	c.Nodes = []C12Node{at, at, at, at, {Tip: 2*heavy + 1}}
	outs := []C12Edge{{From: 0, To: 1}, {From: 0, To: 2}}
	ins := []C12Edge{{From: 3, To: 0}, {From: 4, To: 0}}
	if outboundFirst {
		ins[0].DelayMS = 30
		c.Edges = append(outs, ins...)
	} else {
		outs[0].DelayMS = 30
		c.Edges = append(ins, outs...)
	}
	return c
}

// deepForkCase: two (or three) nodes on forks that part ways `depth` blocks
// below their tips, every node with a small per-subnet RPC budget. The lighter
// node's SendHeaders walk through its history meets `depth` entries the heavier
// node does not have on its best chain - that many handlers end with an error
// before the common ancestor is found.
func deepForkCase(depth, budget int, lighterDials bool, third bool) C12Case {
	const trunk = 6
	tc := kit.TreeCase{Net: kit.NetSpec{Maturity: 1, Allow: 2, ReqOff: 2, CutOff: 2}}
	for i := 0; i < trunk; i++ {
		tc.Blocks = append(tc.Blocks, kit.BlockSpec{Dt: 1, Miner: i % 4, OnBad: true})
	}
	run := func(n, miner, dt int) []kit.BlockSpec {
		var out []kit.BlockSpec
		for i := 0; i < n; i++ {
			out = append(out, kit.BlockSpec{Dt: dt, Miner: miner})
		}
		return out
	}
	light := appendRun(&tc, trunk-1, run(depth, 1, 2))
	heavy := appendRun(&tc, trunk-1, run(depth+8, 2, 1))
	c := C12Case{Tree: tc, Outline: true}
	c.Nodes = []C12Node{{Tip: 2*light + 1, SubnetLimit: budget}, {Tip: 2*heavy + 1, SubnetLimit: budget}}
	if lighterDials {
		c.Edges = []C12Edge{{From: 0, To: 1}}
	} else {
		c.Edges = []C12Edge{{From: 1, To: 0}}
	}
	if third {
		c.Nodes = append(c.Nodes, C12Node{Tip: -1, SubnetLimit: budget})
		c.Edges = append(c.Edges, C12Edge{From: 2, To: 0, DelayMS: 20})
	}
	return c
}

const starsRule = "enumerated stars: a hub that dials 3 or 4 leaves at once, one leaf holding the dominating branch (6-block trunk + 8 or 120 blocks, i.e. one or two block requests), the others short forks off the trunk tip, hub at genesis or at the trunk tip, two repetitions each (header+outline / outline-only announcements); same oracle as TestC12 (audits, no bans among honest nodes, convergence when quiescent, stall window). While the hub downloads the dominating branch its other unsynced peers are workers that cannot serve the requests, so failed requests must find their way to the peer that can. Plus 8 deep-fork cases: two or three nodes on forks that part 5 or 12 blocks below their tips, every node with WithMaxInflightRPCsPerSubnet(3 or 6), either side dialling: the lighter node's history walk makes that many SendHeaders handlers end with an error before the common ancestor is found - the budget must come back whatever way a handler ends. Fresh blocks: every node of a pair / line of three (miner at the end, in the middle) / star (a leaf mines) holds the same chain; one node mines a child carrying two payments nobody else has seen and announces it by an outline without transaction bodies - directly (receivers lack the transactions and fetch them from the announcing node with SendTransactions; the next hop gets them relayed) or after broadcasting them as a v2 transaction set (receivers complete the outline from their pools); all announcements of these cases are outlines without bodies; every node must end on the new block, nobody banned. Tight connection limits: a line A -> B -> C (B: MaxInboundPeers 1, MaxOutboundPeers 1; A holds the dominating chain) and a hub with two outbound and two inbound leaves (limits 2/2, the dominating chain on an inbound leaf), the middle node's outbound connections made first or last: every connection the limits permit must stay, all nodes converge."

// TestC12Stars runs the enumerated star topologies (round robin over shards).
func TestC12Stars(t *testing.T) {
	if os.Getenv("VERIF_REPLAY") != "" {
		c12Prop.Main(t)
		return
	}
	shard, _ := strconv.Atoi(os.Getenv("VERIF_SHARD"))
	shards, _ := strconv.Atoi(os.Getenv("VERIF_SHARDS"))
	if shards < 1 {
		shards, shard = 1, 0
	}
	d := kit.NewDirect(t, "C12", starsRule, c12Prop.Assumptions...)
	defer d.Done()
	i := 0
	for rep := 0; rep < 2; rep++ {
		for _, leaves := range []int{3, 4} {
			for _, long := range []int{8, 120} {
				for _, hubAtTrunk := range []bool{false, true} {
					i++
					if (i-1)%shards != shard {
						continue
					}
					c := starCase(leaves, long, hubAtTrunk, rep)
					cs := &kit.CaseStats{}
					err := c12Prop.SafeRun(c, cs)
					cs.Classf("star:leaves=%d,long=%d,hub-at-trunk=%v", leaves, long, hubAtTrunk)
					if err != nil {
						err = fmt.Errorf("star (leaves=%d, dominating branch +%d blocks, hub at trunk=%v, rep %d): %w", leaves, long, hubAtTrunk, rep, err)
					}
					d.Case(c, cs, err)
				}
			}
		}
	}
	// a freshly mined block with transactions only the miner has
	for _, topo := range []string{"pair", "line-end", "line-middle", "star-leaf"} {
		for _, pool := range []bool{false, true} {
			i++
			if (i-1)%shards != shard {
				continue
			}
			c := freshCase(topo, pool)
			cs := &kit.CaseStats{}
			err := c12Prop.SafeRun(c, cs)
			cs.Classf("fresh:%s,pool=%v", topo, pool)
			if err != nil {
				err = fmt.Errorf("fresh block (%s, transactions broadcast as a set first=%v): %w", topo, pool, err)
			}
			d.Case(c, cs, err)
		}
	}
	// tight connection limits, inbound and outbound peers mixed at one node
	for _, shape := range []string{"line", "hub"} {
		for _, outboundFirst := range []bool{true, false} {
			i++
			if (i-1)%shards != shard {
				continue
			}
			c := capsCase(shape, outboundFirst)
			cs := &kit.CaseStats{}
			err := c12Prop.SafeRun(c, cs)
			cs.Classf("caps:%s,outbound-first=%v", shape, outboundFirst)
			if err != nil {
				err = fmt.Errorf("tight connection limits (%s, the middle node's outbound connections made first=%v): %w", shape, outboundFirst, err)
			}
			d.Case(c, cs, err)
		}
	}
	// deep forks under small per-subnet RPC budgets
	for _, depth := range []int{5, 12} {
		for _, budget := range []int{3, 6} {
			for _, lighterDials := range []bool{true, false} {
				i++
				if (i-1)%shards != shard {
					continue
				}
				c := deepForkCase(depth, budget, lighterDials, depth == 12)
				cs := &kit.CaseStats{}
				err := c12Prop.SafeRun(c, cs)
				cs.Classf("deep-fork:depth=%d,subnet-budget=%d", depth, budget)
				if err != nil {
					err = fmt.Errorf("deep fork (depth %d, per-subnet RPC budget %d, lighter node dials=%v): %w", depth, budget, lighterDials, err)
				}
				d.Case(c, cs, err)
			}
		}
	}
}

// forkCase: a trunk of `anc` blocks, a lighter branch of `light` and a heavier
// one of `heavy` blocks on top of it, in a network whose v2 heights are (allow,
// require). Two nodes (lighter dials heavier) or a line of three with a fresh
// node in the middle, which both others dial.
func forkCase(allow, require, anc, light, heavy int, line3 bool) C12Case {
	tc := kit.TreeCase{Net: kit.NetSpec{Maturity: 1, Allow: allow, ReqOff: require - allow, CutOff: 2}}
	for i := 0; i < anc; i++ {
		tc.Blocks = append(tc.Blocks, kit.BlockSpec{Dt: 1, Miner: i % 4, OnBad: true})
	}
	run := func(n, miner, dt int) []kit.BlockSpec {
		var out []kit.BlockSpec
		for i := 0; i < n; i++ {
			out = append(out, kit.BlockSpec{Dt: dt, Miner: miner})
		}
		return out
	}
	l := appendRun(&tc, anc-1, run(light, 1, 2))
	h := appendRun(&tc, anc-1, run(heavy, 2, 1))
	c := C12Case{Tree: tc, Outline: true, V1Converges: true}
	if !line3 {
		c.Nodes = []C12Node{{Tip: 2*l + 1}, {Tip: 2*h + 1}}
		c.Edges = []C12Edge{{From: 0, To: 1}}
		return c
	}
	c.Nodes = []C12Node{{Tip: 2*l + 1}, {Tip: -1}, {Tip: 2*h + 1}}
	c.Edges = []C12Edge{{From: 0, To: 1}, {From: 2, To: 1, DelayMS: 20}}
	return c
}

type forkShape struct {
	name                              string
	allow, require, anc, light, heavy int
	line3                             bool
}

func forkShapes() []forkShape {
	var out []forkShape
	// common ancestor below the require height (60), both branches crossing it
	for _, below := range []int{50, 5} {
		for _, light := range []int{20, 100, 120} {
			for _, heavy := range []int{150, 230} {
				out = append(out, forkShape{fmt.Sprintf("ancestor=require-%d", below), 2, 60, 60 - below, light, heavy, false})
				if heavy == 150 {
					out = append(out, forkShape{fmt.Sprintf("ancestor=require-%d", below), 2, 60, 60 - below, light, heavy, true})
				}
			}
		}
	}
	// mirrored: ancestor above the require height (everything pre-validated)
	for _, light := range []int{20, 120} {
		for _, heavy := range []int{150, 230} {
			out = append(out, forkShape{"ancestor=require+6", 2, 4, 10, light, heavy, false})
		}
	}
	out = append(out, forkShape{"ancestor=require+6", 2, 4, 10, 120, 150, true})
	// and entirely below the allow height (v1 blocks only)
	for _, light := range []int{20, 120} {
		out = append(out, forkShape{"below-allow", 1000, 1010, 10, light, 150, false})
	}
	out = append(out, forkShape{"below-allow", 1000, 1010, 10, 120, 150, true})
	return out
}

const forksRule = "enumerated long forks: two nodes (the lighter dials the heavier) or a line of three with a fresh node in the middle; common ancestor 50 or 5 blocks below the require height (60) with a lighter branch of 20 / 100 / 120 and a heavier one of 150 / 230 blocks (both crossing the require height, the heavier - and for 100/120 the lighter - longer than one 100-block request, so the first request of the heavier branch arrives through AddBlocks and is only stored, the rest arrives pre-validated on top of it); mirrored with the ancestor above the require height (everything pre-validated) and entirely below the allow height (v1 blocks only). Same oracle as TestC12; the branches differ by more than one block, so convergence and the stall window are asserted for v1 tips too. Heavier-is-not-longer: on a calm network with difficulty ~4096 (real per-block adjustment) a branch of blocks one second apart against a branch of blocks 10-30 s apart off a common trunk - the sufficiently heavier branch has the same height (12/12, 16/16) or is one block shorter (22/23, 30/31), control with the longer branch heavier (12/13); lighter dials heavier, heavier dials lighter, and a line of three with a fresh node in the middle; every node must end on the sufficiently heavier tip."

// TestC12Forks runs the enumerated long-fork geometries (round robin over shards).
func TestC12Forks(t *testing.T) {
	if os.Getenv("VERIF_REPLAY") != "" {
		c12Prop.Main(t)
		return
	}
	shard, _ := strconv.Atoi(os.Getenv("VERIF_SHARD"))
	shards, _ := strconv.Atoi(os.Getenv("VERIF_SHARDS"))
	if shards < 1 {
		shards, shard = 1, 0
	}
	d := kit.NewDirect(t, "C12", forksRule, c12Prop.Assumptions...)
	defer d.Done()
	for i, sh := range forkShapes() {
		if i%shards != shard {
			continue
		}
		c := forkCase(sh.allow, sh.require, sh.anc, sh.light, sh.heavy, sh.line3)
		cs := &kit.CaseStats{}
		err := c12Prop.SafeRun(c, cs)
		cs.Classf("fork:%s,light=%d,heavy=%d,line3=%v", sh.name, sh.light, sh.heavy, sh.line3)
		if err != nil {
			err = fmt.Errorf("long fork (%s, lighter branch %d, heavier %d blocks, line of three=%v): %w", sh.name, sh.light, sh.heavy, sh.line3, err)
		}
		d.Case(c, cs, err)
	}
	// heavier is not longer
	nf := len(forkShapes())
	for i, sh := range heavierShapes() {
		if (nf+i)%shards != shard {
			continue
		}
		c := heavierCase(sh)
		cs := &kit.CaseStats{}
		tr := kit.BuildTree(c.Tree)
		hv, lt := pickTip(tr, c.Nodes[sh.heavyNode()].Tip), pickTip(tr, c.Nodes[sh.lightNode()].Tip)
		if hv == nil || lt == nil || !hv.Ledger.State.SufficientlyHeavierThan(lt.Ledger.State) || int(hv.Height)-int(lt.Height) != map[bool]int{false: sh.fast - sh.slow, true: sh.slow - sh.fast}[sh.control()] {
			d.Case(c, cs, fmt.Errorf("INFRA: heavier-not-longer geometry %+v does not hold in the built tree", sh))
			continue
		}
		err := c12Prop.SafeRun(c, cs)
		cs.Classf("fork:heavier-not-longer,%s,fast-branch=%d,slow-branch=%d,order=%s", sh.rel(), sh.fast, sh.slow, sh.order)
		if err != nil {
			err = fmt.Errorf("heavier-not-longer fork (calm network with difficulty ~4096; a branch of %d blocks one second apart against one of %d blocks %d s apart: the sufficiently heavier one is %s; %s): %w", sh.fast, sh.slow, sh.slowDt, sh.rel(), sh.order, err)
		}
		d.Case(c, cs, err)
	}
}

// heavierShape: two branches off a common trunk on a network with real
// per-block difficulty adjustment (kit.NetSpec Hard 3 + Calm): `fast` blocks
// one second apart against `slow` blocks slowDt seconds apart. The fast
// branch carries more work per block, so accumulated work and length come
// apart: the sufficiently heavier branch is as long as the other, or one block
// shorter; the control has the longer branch heavier.
type heavierShape struct {
	fast, slow, slowDt int
	order              string // light-dials-heavy | heavy-dials-light | line3 (fresh node in the middle, both dial it)
}

func (h heavierShape) rel() string {
	switch {
	case h.fast == h.slow:
		return "of equal height"
	case h.fast < h.slow && h.slowDt >= 10:
		return "one block shorter"
	default:
		return "longer (control)"
	}
}

// in the control (slowDt 3) the longer, slow branch is the heavier one
func (h heavierShape) control() bool { return h.slowDt < 10 }
func (h heavierShape) heavyNode() int {
	k := 1
	if h.control() {
		k = 0
	}
	if h.order == "line3" {
		k *= 2
	}
	return k
}
func (h heavierShape) lightNode() int {
	k := 0
	if h.control() {
		k = 1
	}
	if h.order == "line3" {
		k *= 2
	}
	return k
}

func heavierShapes() []heavierShape {
	var out []heavierShape
	for _, g := range [][3]int{{12, 12, 10}, {16, 16, 20}, {22, 23, 10}, {30, 31, 30}, {12, 13, 3}} {
		for _, order := range []string{"light-dials-heavy", "heavy-dials-light", "line3"} {
			out = append(out, heavierShape{g[0], g[1], g[2], order})
		}
	}
	return out
}

func heavierCase(sh heavierShape) C12Case {
	tc := kit.TreeCase{Net: kit.NetSpec{Maturity: 1, Allow: 2, ReqOff: 1, CutOff: 400, Hard: 3, Calm: true}}
	for i := 0; i < 6; i++ {
		tc.Blocks = append(tc.Blocks, kit.BlockSpec{Dt: 1, Miner: i % 4, OnBad: true})
	}
	run := func(n, miner, dt int) []kit.BlockSpec {
		var out []kit.BlockSpec
		for i := 0; i < n; i++ {
			out = append(out, kit.BlockSpec{Dt: dt, Miner: miner})
		}
		return out
	}
	f := appendRun(&tc, 5, run(sh.fast, 1, 1))
	s := appendRun(&tc, 5, run(sh.slow, 2, sh.slowDt))
	c := C12Case{Tree: tc, Outline: true, V1Converges: true}
	// node 0 (or 0 and 2): the slow branch / the fast branch
	switch sh.order {
	case "light-dials-heavy", "heavy-dials-light":
		c.Nodes = []C12Node{{Tip: 2*s + 1}, {Tip: 2*f + 1}}
		from, to := sh.lightNode(), sh.heavyNode()
		if sh.order == "heavy-dials-light" {
			from, to = to, from
		}
		c.Edges = []C12Edge{{From: from, To: to}}
	default:
		c.Nodes = []C12Node{{Tip: 2*s + 1}, {Tip: -1}, {Tip: 2*f + 1}}
		c.Edges = []C12Edge{{From: 0, To: 1}, {From: 2, To: 1, DelayMS: 20}}
	}
	return c
}
