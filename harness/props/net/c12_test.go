package pnet

import (
	"bytes"
	"encoding/json"
	"errors"
	"fmt"
	"go.sia.tech/core/gateway"
	"go.sia.tech/core/types"
	"os"
	"sort"
	"strings"
	"sync"
	"testing"
	"time"

	"go.sia.tech/coreutils/syncer"
	"go.uber.org/zap"
	"go.uber.org/zap/zapcore"
	"pgregory.net/rapid"

	"verif/kit"
	"verif/p2px"
)

// ExtSpec appends a run of empty blocks to the tree (to reach chain lengths
// around the 10-entry history window and the 100-block request split).
type ExtSpec struct {
	From int `json:"from"` // block index the run attaches to (mod #blocks; -1 = genesis)
	Len  int `json:"len"`
	Dt   int `json:"dt"`
}

// C12Node is one honest node of the cluster.
type C12Node struct {
	// Tip selects the branch the node is pre-loaded with: even values pick among
	// the tree's valid leaves, odd ones among all valid blocks; -1 = genesis only.
	Tip int `json:"tip"`
	// CP > 0 asks for a node bootstrapped from the checkpoint CP-1 blocks above
	// the require height (honoured only inside the documented domain).
	CP            int `json:"cp,omitempty"`
	MaxSendBlocks int `json:"max_send_blocks,omitempty"`
	// SubnetLimit > 0: WithMaxInflightRPCsPerSubnet (every node has its own
	// /32, so this is a second, smaller cap on each peer's concurrent RPCs).
	SubnetLimit int `json:"subnet_limit,omitempty"`
	Batch       int `json:"batch,omitempty"` // pre-load batch size
}

// FreshSpec: see C12Case.Fresh.
type FreshSpec struct {
	Miner int `json:"miner"` // node index (mod the number of nodes)
	// Pool: the miner first puts the transactions into its pool and broadcasts
	// them as a v2 transaction set; the block follows once the set had time to
	// travel (receivers then complete the outline from their pools).
	Pool bool `json:"pool,omitempty"`
}

// C12Edge is one connection: From dials To after DelayMS.
type C12Edge struct {
	From    int `json:"from"`
	To      int `json:"to"`
	DelayMS int `json:"delay_ms,omitempty"`
}

// C12Case is a cluster of honest nodes holding branches of one tree.
type C12Case struct {
	Tree    kit.TreeCase `json:"tree"`
	Ext     []ExtSpec    `json:"ext,omitempty"`
	Nodes   []C12Node    `json:"nodes"`
	Edges   []C12Edge    `json:"edges"`
	Outline bool         `json:"outline,omitempty"` // announce v2 tips by outline only (else header + outline)
	// Fresh: once the cluster has come to rest on its dominating tip, one node
	// mines a child of it that carries transactions nobody else holds (the tree
	// must contain such a child) and announces it the way a miner does whose
	// pool held them: by an outline without transaction bodies. From the start
	// of such a case every announcement is an outline without bodies.
	Fresh *FreshSpec `json:"fresh,omitempty"`
	// CapSlack k >= 1: every node runs with WithMaxInboundPeers(number of edges
	// that dial it + k-1) and WithMaxOutboundPeers(number of edges it dials +
	// k-1): the limits permit every edge of the topology in whatever order the
	// connections are made (k = 1: exactly). 0 = generous limits (16/16).
	CapSlack int `json:"cap_slack,omitempty"`
	// Excluded names a known finding whose shape the generator removed.
	Excluded string `json:"excluded,omitempty"`
	// V1Converges: the branches of the case differ by more than one block, so
	// whatever a node relays after a sync (a header whose parent the receiver
	// does not know) flips the receiver back to unsynced; convergence and the
	// stall window are then asserted for v1 tips as well (the "v1 tips cannot be
	// announced" rule only concerns a tip exactly one block ahead).
	V1Converges bool `json:"v1_converges,omitempty"`
}

var sendBlocksFixed = knownFixed("F-C12-1")

func treeGenForNet() kit.TreeGenConfig {
	cfg := kit.DefaultTreeGen()
	cfg.MaxBlocks = 24
	cfg.CorruptPct = 0
	cfg.BadIntentPct = 0
	cfg.ForkPct = 35
	return cfg
}

func genExt(t *rapid.T, n int) []ExtSpec {
	var out []ExtSpec
	for i := 0; i < n; i++ {
		e := ExtSpec{From: rapid.IntRange(-1, 40).Draw(t, "extfrom"), Dt: rapid.IntRange(0, 2).Draw(t, "extdt")}
		switch rapid.IntRange(0, 9).Draw(t, "extkind") {
		case 0, 1:
			e.Len = rapid.IntRange(88, 112).Draw(t, "extlen")
		case 2:
			e.Len = rapid.IntRange(20, 40).Draw(t, "extlen")
		default:
			e.Len = rapid.IntRange(1, 12).Draw(t, "extlen")
		}
		out = append(out, e)
	}
	return out
}

// withExt appends the extension runs to the tree case.
func withExt(tc kit.TreeCase, ext []ExtSpec) kit.TreeCase {
	out := tc
	out.Blocks = append([]kit.BlockSpec(nil), tc.Blocks...)
	base := len(tc.Blocks)
	for _, e := range ext {
		parent := -1
		if e.From >= 0 && base > 0 {
			parent = e.From % base
		}
		for k := 0; k < e.Len; k++ {
			i := len(out.Blocks)
			bs := kit.BlockSpec{Dt: e.Dt, OnBad: true}
			if k == 0 {
				bs.Back = i - 1 - parent
			}
			out.Blocks = append(out.Blocks, bs)
		}
	}
	return out
}

func genC12(t *rapid.T) C12Case {
	c := C12Case{Tree: kit.GenTree(t, treeGenForNet()), Outline: rapid.Bool().Draw(t, "outline")}
	c.Ext = genExt(t, rapid.IntRange(0, 2).Draw(t, "next"))
	n := rapid.IntRange(2, 5).Draw(t, "nnodes")
	// in a third of the clusters every node runs with a small per-subnet RPC
	// budget: slots must come back whatever way a handler ends (a sync across a
	// deep fork makes many SendHeaders handlers end with "not on our best chain")
	smallLimits := rapid.IntRange(0, 2).Draw(t, "smalllimits") == 0
	for i := 0; i < n; i++ {
		nd := C12Node{Tip: rapid.IntRange(-1, 200).Draw(t, "tip"), MaxSendBlocks: rapid.SampledFrom([]int{0, 0, 1, 3, 10, 100, 150}).Draw(t, "maxsend"), Batch: rapid.SampledFrom([]int{0, 1, 7}).Draw(t, "batch")}
		if nd.MaxSendBlocks > 0 && nd.MaxSendBlocks < 100 && !sendBlocksFixed && os.Getenv("VERIF_C12_ALL_BATCH") == "" {
			// known finding F-C12-1: a node that serves fewer blocks per request
			// than parallelSync asks for (always up to 100) can never be synced
			// from; excluded by construction until fixed
			nd.MaxSendBlocks = 0
			c.Excluded = "F-C12-1/max-send-blocks-below-request-size"
		}
		if smallLimits {
			nd.SubnetLimit = rapid.IntRange(3, 8).Draw(t, "subnetlimit")
		}
		if rapid.IntRange(0, 4).Draw(t, "cproll") == 0 {
			nd.CP = rapid.IntRange(1, 6).Draw(t, "cp")
		}
		c.Nodes = append(c.Nodes, nd)
	}
	// connected topology: a spanning tree in drawn order plus extras
	for i := 1; i < n; i++ {
		j := rapid.IntRange(0, i-1).Draw(t, "parent")
		e := C12Edge{From: i, To: j, DelayMS: rapid.SampledFrom([]int{0, 0, 20, 150, 600}).Draw(t, "delay")}
		if rapid.Bool().Draw(t, "dir") {
			e.From, e.To = e.To, e.From
		}
		c.Edges = append(c.Edges, e)
	}
	for k := rapid.IntRange(0, 2).Draw(t, "extra"); k > 0 && n > 2; k-- {
		a := rapid.IntRange(0, n-1).Draw(t, "xa")
		b := rapid.IntRange(0, n-2).Draw(t, "xb")
		if b >= a {
			b++
		}
		c.Edges = append(c.Edges, C12Edge{From: a, To: b, DelayMS: rapid.SampledFrom([]int{0, 50, 400}).Draw(t, "xdelay")})
	}
	c.CapSlack = rapid.SampledFrom([]int{0, 0, 1, 1, 2}).Draw(t, "capslack")
	// connection order
	for i := len(c.Edges) - 1; i > 0; i-- {
		j := rapid.IntRange(0, i).Draw(t, "shuffle")
		c.Edges[i], c.Edges[j] = c.Edges[j], c.Edges[i]
	}
	return c
}

// pickTip resolves a node's Tip selector.
func pickTip(tr *kit.Tree, sel int) *kit.TNode {
	if sel < 0 {
		return nil
	}
	isParent := map[*kit.TNode]bool{}
	for _, n := range tr.Nodes {
		isParent[n.Parent] = true
	}
	var valid, leaves []*kit.TNode
	for _, n := range tr.Nodes {
		if n.Valid() {
			valid = append(valid, n)
			if !isParent[n] {
				leaves = append(leaves, n)
			}
		}
	}
	if len(valid) == 0 {
		return nil
	}
	if sel%2 == 0 {
		return leaves[(sel/2)%len(leaves)]
	}
	return valid[(sel/2)%len(valid)]
}

const (
	netSyncInterval = 40 * time.Millisecond
	netTick         = 100 * time.Millisecond
	// ghostLimit: that many consecutive dials of one edge (one per tick) that
	// succeeded at the dialer and left the edge down make a violation; the
	// longest run seen on the unchanged tree under load is recorded as a class
	ghostLimit = 50
	netStable  = 1300 * time.Millisecond // > the 1 s worker-spawn ticker of parallelSync
)

func netBudget() time.Duration {
	if kit.Thorough() {
		return 40 * time.Second
	}
	return 25 * time.Second
}

// stallWindow is the zero-progress window of the stall oracle: that many
// seconds (>= 15 periods of parallelSync's 1 s ticker) without any node's tip
// or any node's count of distinct blocks handed to its manager changing, while
// every connection is up, tips are re-announced every 200 ms and some node is
// sufficiently lighter than an announceable (v2) dominating tip. It is a
// progress criterion, not a total-time budget.
func stallWindow() time.Duration {
	if kit.Thorough() {
		return 25 * time.Second
	}
	return 15 * time.Second
}

// stallWindowByz is the window for clusters with Byzantine peers: the victim
// works through the header chains of its peers one after the other (>= 1-2 s
// each when a liar fails to deliver), so legitimate zero-progress gaps are
// longer there (measured: up to 5.4 s under load, against 2.6 s among honest
// nodes).
func stallWindowByz() time.Duration {
	if kit.Thorough() {
		return 40 * time.Second
	}
	return 25 * time.Second
}

// stallTracker measures the longest zero-progress gap while the stall
// conditions hold.
type stallTracker struct {
	key    string
	since  time.Time
	maxGap time.Duration
}

// observe is called every tick; conds = the stall conditions hold right now,
// key = tips and submitted-block counts of every node. It returns true when the
// conditions have held without progress for the whole window.
func (st *stallTracker) observe(conds bool, key string) bool {
	return st.observeW(conds, key, stallWindow())
}

func (st *stallTracker) observeW(conds bool, key string, window time.Duration) bool {
	now := time.Now()
	if !conds || key != st.key || st.since.IsZero() {
		st.key, st.since = key, now
		if !conds {
			st.since = time.Time{}
		}
		return false
	}
	gap := now.Sub(st.since)
	if gap > st.maxGap {
		st.maxGap = gap
	}
	return gap >= window
}

func (st *stallTracker) class(cs *kit.CaseStats) {
	ms := st.maxGap.Milliseconds()
	for _, b := range []int64{500, 1000, 1500, 2000, 3000, 5000, 8000, 15000} {
		if ms <= b {
			cs.Classf("max-zero-progress-gap<=%dms", b)
			return
		}
	}
	cs.Class("max-zero-progress-gap>15000ms")
}

// stallOracle: enforced unless VERIF_NET_NOSTALL is set (measurement runs).
func stallOracle() bool { return os.Getenv("VERIF_NET_NOSTALL") == "" }

type clusterNode struct {
	sn      *p2px.SyncerNode
	start   *kit.TNode
	floor   uint64
	initial uint64
}

// freshStep performs C12Case.Fresh; it returns the freshly mined block, or nil
// if the step does not apply (no dominating v2 tip every node is on, no
// suitable child in the tree).
func freshStep(c C12Case, tr *kit.Tree, nodes []*clusterNode, dom *kit.TNode, cs *kit.CaseStats) *kit.TNode {
	if dom == nil || dom.Block.V2 == nil {
		cs.Class("fresh:skipped(no-dominating-v2-tip)")
		return nil
	}
	for _, n := range nodes {
		if n.sn.Node.CM.Tip() != dom.Index() {
			cs.Class("fresh:skipped(not-all-on-the-dominating-tip)")
			return nil
		}
	}
	var g *kit.TNode
	for _, n := range tr.Nodes {
		if n.Parent == dom && n.Valid() && n.Block.V2 != nil && len(n.Block.V2.Transactions) > 0 && len(n.Block.Transactions) == 0 {
			g = n
			break
		}
	}
	if g == nil {
		cs.Class("fresh:skipped(no-child-with-transactions)")
		return nil
	}
	miner := nodes[mod(c.Fresh.Miner, len(nodes))]
	txns := g.Block.V2.Transactions
	if c.Fresh.Pool {
		if _, err := miner.sn.Node.CM.AddV2PoolTransactions(dom.Index(), txns); err != nil {
			cs.Class("fresh:skipped(pool-refused-the-transactions)")
			return nil
		}
		miner.sn.S.BroadcastV2TransactionSet(dom.Index(), txns)
		// give the set time to travel (best effort: a node it did not reach asks
		// for the transactions when the outline arrives)
		everywhere := false
		for deadline := time.Now().Add(3 * time.Second); time.Now().Before(deadline) && !everywhere; time.Sleep(20 * time.Millisecond) {
			everywhere = true
			for _, n := range nodes {
				have := map[types.TransactionID]bool{}
				for _, t := range n.sn.Node.CM.V2PoolTransactions() {
					have[t.ID()] = true
				}
				for _, t := range txns {
					if !have[t.ID()] {
						everywhere = false
					}
				}
			}
		}
		if everywhere {
			cs.Class("fresh:transaction-set-relayed-to-every-pool")
		} else {
			cs.Class("fresh:transaction-set-did-not-reach-every-pool-within-3s")
		}
	}
	miner.sn.Node.Submit([]types.Block{g.Block})
	miner.sn.S.BroadcastV2BlockOutline(gateway.OutlineBlock(g.Block, g.Block.Transactions, txns))
	cs.Classf("fresh:mined-and-announced-by-outline-without-bodies,pool=%v", c.Fresh.Pool)
	cs.NonTrivial()
	return g
}

func runC12(c C12Case, cs *kit.CaseStats) error {
	if len(c.Nodes) < 2 {
		return nil
	}
	if c.Excluded != "" {
		cs.Excluded(c.Excluded)
	}
	tr := kit.BuildTree(withExt(c.Tree, c.Ext))
	req := tr.Network.HardforkV2.RequireHeight
	// resolve the branches
	tips := make([]*kit.TNode, len(c.Nodes))
	for i, nd := range c.Nodes {
		tips[i] = pickTip(tr, nd.Tip)
	}
	// a checkpoint node is inside the documented domain only if its checkpoint
	// is a v2 block at or above the require height (no v1 state is needed above
	// it) that every node of the cluster has on its chain (nothing below a
	// checkpoint can be served or reorganised), and it holds at most 9 blocks
	// above it (its whole history then reaches the checkpoint)
	// the edges that will be made (duplicates and self-loops dropped), for the
	// per-node connection limits
	inDeg, outDeg := make([]int, len(c.Nodes)), make([]int, len(c.Nodes))
	{
		seenE := map[[2]int]bool{}
		for _, e := range c.Edges {
			a, b := mod(e.From, len(c.Nodes)), mod(e.To, len(c.Nodes))
			if a == b || seenE[[2]int{a, b}] || seenE[[2]int{b, a}] {
				continue
			}
			seenE[[2]int{a, b}] = true
			outDeg[a]++
			inDeg[b]++
		}
	}
	nodes := make([]*clusterNode, len(c.Nodes))
	defer func() {
		for _, n := range nodes {
			if n != nil {
				n.sn.Close(closeWatchdog)
				n.sn.Node.Close()
			}
		}
	}()
	for i, nd := range c.Nodes {
		var kn *kit.Node
		var err error
		floor := uint64(0)
		if nd.CP > 0 && tips[i] != nil {
			h := req + uint64(nd.CP-1)
			if h < 1 {
				h = 1
			}
			var cp *kit.TNode
			for a := tips[i]; a != nil; a = a.Parent {
				if a.Height == h && a.Idx >= 0 {
					cp = a
				}
			}
			ok := cp != nil && cp.Block.V2 != nil && tips[i].Height-h <= 9 && h > tr.Network.HardforkOak.Height
			for _, t := range tips {
				if ok && (t == nil || !cp.IsAncestorOf(t)) {
					ok = false
				}
			}
			if ok {
				if kn, err = p2px.NewCheckpointNode(tr, cp, tips[i]); err != nil {
					return fmt.Errorf("node %d: bootstrapping at checkpoint %v failed: %v", i, cp.Index(), err)
				}
				floor = h
				cs.Class("checkpoint-node")
			}
		}
		if kn == nil {
			if kn, err = p2px.NewChainNode(tr, tips[i], nd.Batch); err != nil {
				return fmt.Errorf("node %d: %v", i, err)
			}
		}
		opts := []syncer.Option{syncer.WithSyncInterval(netSyncInterval), syncer.WithPeerDiscoveryInterval(time.Hour), syncer.WithMaxInboundPeers(16), syncer.WithMaxOutboundPeers(16)}
		if c.CapSlack > 0 {
			opts = append(opts, syncer.WithMaxInboundPeers(inDeg[i]+c.CapSlack-1), syncer.WithMaxOutboundPeers(outDeg[i]+c.CapSlack-1))
		}
		if nd.MaxSendBlocks > 0 {
			opts = append(opts, syncer.WithMaxSendBlocks(uint64(nd.MaxSendBlocks)))
		}
		if nd.SubnetLimit > 0 {
			opts = append(opts, syncer.WithMaxInflightRPCsPerSubnet(nd.SubnetLimit))
			cs.Class("small-subnet-rpc-budget")
		}
		sn, err := p2px.StartSyncer(kn, p2px.NodeConfig{Name: fmt.Sprintf("n%d", i), IP: p2px.ListenIP(i), UID: p2px.DetUniqueID("c12", i), Opts: opts})
		if err != nil {
			kn.Close()
			return err
		}
		nodes[i] = &clusterNode{sn: sn, start: tips[i], floor: floor, initial: kn.CM.Tip().Height}
	}

	// connect in the drawn order
	type edge struct{ a, b int }
	var edges []edge
	seen := map[edge]bool{}
	connect := func(a, b int) error {
		return nodes[a].sn.Connect(nodes[b].sn, 10*time.Second)
	}
	hasCheckpoint := false
	for _, n := range nodes {
		if n.floor > 0 {
			hasCheckpoint = true
		}
	}
	for _, e := range c.Edges {
		a, b := mod(e.From, len(nodes)), mod(e.To, len(nodes))
		if a == b || seen[edge{a, b}] || seen[edge{b, a}] {
			continue
		}
		seen[edge{a, b}] = true
		edges = append(edges, edge{a, b})
		time.Sleep(time.Duration(e.DelayMS) * time.Millisecond)
		connect(a, b)
	}
	edgeLive := func(e edge) bool {
		return nodes[e.a].sn.HasPeer(nodes[e.b].sn.Addr()) || nodes[e.b].sn.HasPeer(nodes[e.a].sn.Addr())
	}

	// the branch every node must end on, if there is one (see the convergence
	// oracle below): sufficiently heavier than every other branch of the cluster
	var dom *kit.TNode
	for _, t := range tips {
		if t == nil {
			continue
		}
		ok := true
		for _, o := range tips {
			if o != nil && o != t && !t.Ledger.State.SufficientlyHeavierThan(o.Ledger.State) {
				ok = false
			}
		}
		if ok {
			dom = t
		}
	}
	var stall stallTracker
	stalled := ""
	freshDone := false
	ghost := map[edge]int{} // consecutive successful dials that left the edge down
	maxGhost, ghostEdge := 0, ""
	if c.Fresh != nil {
		for _, n := range nodes {
			n.sn.Stripped = true
		}
	}

	// run until quiescent or out of budget
	start := time.Now()
	lastChange := time.Now()
	prev := make([]string, len(nodes))
	quiescent := false
	rounds, reconnects := 0, 0
	lastLive, lastSynced := true, true
	lastMove := time.Now()
	moveKey := ""
	settled := false
	lastIter := time.Now()
	for time.Since(start) < netBudget() {
		time.Sleep(netTick)
		rounds++
		iterLag := time.Since(lastIter)
		lastIter = time.Now()
		if iterLag > 5*netTick {
			// the machine is starved: relays and syncs may be lagging as well, so
			// this is no time to conclude that nothing is going on
			lastChange = time.Now()
		}
		changed := false
		for i, n := range nodes {
			n.sn.CM.SampleWork()
			if s := n.sn.Node.CM.Tip().String(); s != prev[i] {
				prev[i], changed = s, true
			}
		}
		mk := ""
		for _, n := range nodes {
			mk += fmt.Sprintf("%v/%d;", n.sn.Node.CM.Tip(), n.sn.CM.SubmittedCount())
		}
		if mk != moveKey {
			moveKey, lastMove = mk, time.Now()
		}
		allLive, redialled := true, true
		for _, e := range edges {
			if edgeLive(e) {
				ghost[e] = 0
			}
			if !edgeLive(e) {
				allLive = false
				reconnects++
				if connect(e.a, e.b) != nil {
					redialled = false
				} else if ghost[e]++; ghost[e] > maxGhost {
					maxGhost = ghost[e]
				}
				if ghost[e] >= ghostLimit && !hasCheckpoint && ghostEdge == "" {
					in := 0
					for _, p := range nodes[e.b].sn.S.Peers() {
						if p.Inbound {
							in++
						}
					}
					lim := "16 (default of the cluster)"
					if c.CapSlack > 0 {
						lim = fmt.Sprint(inDeg[e.b] + c.CapSlack - 1)
					}
					ghostEdge = fmt.Sprintf("the connection node %d -> node %d does not stay: %d consecutive Connect calls of node %d (one per %v) returned success, yet none of them left the two nodes connected; node %d has %d inbound and %d peers in all, its MaxInboundPeers is %s, and %d edge(s) of the topology dial it", e.a, e.b, ghost[e], e.a, netTick, e.b, in, len(nodes[e.b].sn.S.Peers()), lim, inDeg[e.b])
				}
			}
		}
		// Among full nodes there is always common history (genesis), so a node has
		// no reason to drop an honest peer; an edge that went down and was
		// re-dialled successfully counts as "up" for the stall oracle (a node that
		// keeps hanging up on its peers makes no progress either). With checkpoint
		// nodes "no common history" is legitimate, there the edge must really be up.
		if ghostEdge != "" {
			break
		}
		stallLive := allLive || (!hasCheckpoint && redialled)
		allSynced := true
		for _, n := range nodes {
			if _, ok := n.sn.PeerState(); !ok {
				allSynced = false
			}
		}
		lastLive, lastSynced = allLive, allSynced
		if changed || !allLive || !allSynced {
			lastChange = time.Now()
		}
		// stall oracle: all edges up, an announceable dominating tip exists, some
		// node is sufficiently lighter than it, and nothing at all has moved
		if dom != nil && (dom.Block.V2 != nil || c.V1Converges) {
			lighter := false
			key := ""
			for _, n := range nodes {
				tn := tr.ByID[n.sn.Node.CM.Tip().ID]
				if tn != nil && tn.Ledger != nil && dom.Ledger.State.SufficientlyHeavierThan(tn.Ledger.State) {
					lighter = true
				}
				key += fmt.Sprintf("%v/%d;", n.sn.Node.CM.Tip(), n.sn.CM.SubmittedCount())
			}
			if stall.observe(stallLive && lighter, key) && stallOracle() {
				var flags []string
				for i, n := range nodes {
					var ps []string
					for _, p := range n.sn.S.Peers() {
						ps = append(ps, fmt.Sprintf("%s synced=%v err=%v", p, p.Synced(), p.Err()))
					}
					flags = append(flags, fmt.Sprintf("node %d tip %v blocks-handed-in %d peers [%s]", i, n.sn.Node.CM.Tip(), n.sn.CM.SubmittedCount(), strings.Join(ps, "; ")))
				}
				stalled = fmt.Sprintf("no progress for %v (no tip moved, no new block reached any manager) although every connection is up (or was re-dialled at once: %d re-dials so far), tips are re-announced every 200 ms and %v is sufficiently heavier than some node's tip\n%s\ngoroutines inside the syncer:\n%s",
					stallWindow(), reconnects, dom.Index(), strings.Join(flags, "\n"), p2px.ClipStacks(p2px.StacksWith("coreutils/syncer."), 10))
				break
			}
		}
		if time.Since(lastChange) >= netStable && c.Fresh != nil && !freshDone {
			freshDone = true
			if g := freshStep(c, tr, nodes, dom, cs); g != nil {
				dom = g
				lastChange = time.Now()
				continue
			}
		}
		if time.Since(lastChange) >= netStable {
			quiescent = true
			break
		}
		// "settled": peers of a near-tie cluster keep flipping each other to
		// unsynced (every announcement of a sidechain tip triggers a resync), so
		// the flags never come to rest; when nothing has moved for a while and no
		// node is sufficiently lighter than another (v2) tip there is nothing
		// left to wait for - the relations asserted below already hold
		if allLive && time.Since(lastMove) >= 3*time.Second {
			lighterPair := false
			for _, a := range nodes {
				for _, b := range nodes {
					ta, tb := tr.ByID[a.sn.Node.CM.Tip().ID], tr.ByID[b.sn.Node.CM.Tip().ID]
					if ta == nil || tb == nil || ta.Ledger == nil || tb.Ledger == nil || ((tb.Block.V2 != nil || c.V1Converges) && tb.Ledger.State.SufficientlyHeavierThan(ta.Ledger.State)) {
						lighterPair = true
					}
				}
			}
			if !lighterPair {
				quiescent, settled = true, true
				break
			}
		}
		if rounds%2 == 0 {
			// tips keep being announced, as miners do
			for _, n := range nodes {
				n.sn.Announce(!c.Outline)
			}
		}
	}
	elapsed := time.Since(start)
	// stop everything, then audit every node (the safety half is decided for
	// every case)
	for i, n := range nodes {
		if err := n.sn.Close(closeWatchdog); err != nil {
			cs.Inconclusive("close-timeout")
			return nil
		}
		n.sn.SyncSubmitted()
		if err := p2px.AuditNode(n.sn.Node, n.floor); err != nil {
			return fmt.Errorf("node %d (started at %v): %w", i, tipName(n.start), err)
		}
		if d := n.sn.WorkDrop(); d != "" {
			return fmt.Errorf("node %d: total work of the tip decreased: %s", i, d)
		}
		for _, b := range n.sn.Store.Bans() {
			// honest nodes serving valid chains must not get each other banned
			return fmt.Errorf("node %d banned %s although every node is honest: %s", i, b.Addr, b.Reason)
		}
	}
	if c.Fresh != nil {
		asked, short := 0, 0
		for _, n := range nodes {
			a, sh := n.sn.CM.PartialBlocks()
			asked, short = asked+a, short+sh
		}
		if asked > 0 {
			cs.Class("fresh:outline-completed-from-pool-attempted")
		}
		if short > 0 {
			cs.Class("fresh:pool-lacked-transactions(SendTransactions-round-trip)")
		}
		if asked > short {
			cs.Class("fresh:outline-completed-from-the-pool-alone")
		}
	}
	finals := make([]*kit.TNode, len(nodes))
	for i, n := range nodes {
		finals[i] = tr.ByID[n.sn.Node.CM.Tip().ID]
		if n.start != nil {
			if finals[i].Ledger.State.TotalWork.Cmp(n.start.Ledger.State.TotalWork) < 0 {
				return fmt.Errorf("node %d ended on %v with less work than it started with (%v)", i, finals[i].Index(), n.start.Index())
			}
		}
		// classes
		lca := kit.LCA(orRoot(tr, n.start), finals[i])
		startH := uint64(0)
		if n.start != nil {
			startH = n.start.Height
		}
		if depth := startH - lca.Height; depth >= 2 {
			cs.NonTrivial()
			cs.Classf("reorg-depth>=%d", min(int(depth), 3))
		}
		if startH < req && finals[i].Height >= req && finals[i].Height > startH {
			cs.NonTrivial()
			cs.Class("sync-crossed-require-height")
		}
		if finals[i].Height-lca.Height > 100 {
			cs.Class("synced>100-blocks")
		} else if finals[i].Height-lca.Height > 10 {
			cs.Class("synced>10-blocks")
		}
		_, val, _ := n.sn.CM.Calls()
		if val > 0 {
			cs.Class("used-AddValidatedV2Blocks")
		}
	}
	cs.Classf("nodes=%d", len(nodes))
	if reconnects > 0 {
		cs.Class("edge-reconnected")
	}
	cs.Add("reconnects", int64(reconnects))
	cs.Add("elapsed_ms", elapsed.Milliseconds())
	if dom != nil && (dom.Block.V2 != nil || c.V1Converges) {
		stall.class(cs)
		if os.Getenv("VERIF_NET_DEBUG") != "" {
			fmt.Printf("GAP %d\n", stall.maxGap.Milliseconds())
		}
	}
	if stalled != "" {
		return fmt.Errorf("stalled: %s", stalled)
	}
	switch {
	case maxGhost == 0:
	case maxGhost <= 2:
		cs.Class("max-consecutive-dials-that-did-not-stay:1-2")
	case maxGhost <= 9:
		cs.Class("max-consecutive-dials-that-did-not-stay:3-9")
	default:
		cs.Class("max-consecutive-dials-that-did-not-stay:10+")
	}
	if os.Getenv("VERIF_NET_DEBUG") != "" && maxGhost > 0 {
		fmt.Printf("GHOST %d\n", maxGhost)
	}
	if c.CapSlack > 0 {
		cs.Classf("connection-limits=edges+%d", c.CapSlack-1)
	}
	if ghostEdge != "" {
		return errors.New(ghostEdge)
	}
	if !quiescent {
		why := "tips-moving"
		if !lastLive {
			why = "edge-down"
		} else if !lastSynced {
			why = "peer-unsynced"
		}
		cs.Inconclusive("not-quiescent-within-budget:" + why)
		if os.Getenv("VERIF_NET_DEBUG") != "" {
			js, _ := json.Marshal(c)
			fmt.Printf("NOT-QUIESCENT %s reconnects=%d finals=%v starts=%v\ncase=%s\n", why, reconnects, tipNames(finals), tipNames(tips), js)
		}
		return nil
	}
	cs.Class("quiescent")
	if settled {
		cs.Class("settled-without-synced-flags(near-tie-flapping)")
	}
	if rounds > int((netStable+2*time.Second)/netTick) {
		cs.Class("needed>2s-beyond-stability-window")
	}
	// convergence
	// A v1 block cannot be announced (the v1 relay RPCs are gone; a relayed
	// header that attaches to the receiver's tip triggers no download), so the
	// premise "tips are announced" can only be met for v2 tips: the convergence
	// half is asserted where the heavier tip is a v2 block.
	if dom != nil {
		cs.Class("one-branch-dominates")
		if dom.Block.V2 == nil && !c.V1Converges {
			cs.Class("dominating-tip-is-v1(not-announceable)")
		} else {
			for i := range nodes {
				if finals[i] != dom {
					return fmt.Errorf("quiescent after %v, yet node %d is on %v while %v is sufficiently heavier than every other branch of the cluster (started at %v; all tips: %v)", elapsed.Round(time.Millisecond), i, finals[i].Index(), dom.Index(), tipName(nodes[i].start), tipNames(finals))
				}
			}
			cs.Class("converged-on-dominating-branch")
		}
	} else {
		cs.Class("near-tie")
	}
	for i := range nodes {
		for j := range nodes {
			if (finals[j].Block.V2 != nil || c.V1Converges) && finals[j].Ledger.State.SufficientlyHeavierThan(finals[i].Ledger.State) {
				return fmt.Errorf("quiescent after %v, yet node %d's tip %v is sufficiently lighter than node %d's tip %v (all tips: %v)", elapsed.Round(time.Millisecond), i, finals[i].Index(), j, finals[j].Index(), tipNames(finals))
			}
		}
	}
	return nil
}

func orRoot(tr *kit.Tree, n *kit.TNode) *kit.TNode {
	if n == nil {
		return tr.Root
	}
	return n
}

func tipName(n *kit.TNode) string {
	if n == nil {
		return "genesis"
	}
	return n.Index().String()
}

func tipNames(ns []*kit.TNode) []string {
	var out []string
	for _, n := range ns {
		out = append(out, tipName(n))
	}
	sort.Strings(out)
	return out
}

var c12Prop = kit.Prop[C12Case]{
	ID:   "C12",
	Rule: "2..5 real syncers on distinct loopback subnets, each pre-loaded with a branch of one generated fork tree (<= 24 generated blocks over all hardfork regimes plus 0..2 runs of 1..12 / 20..40 / 88..112 empty blocks; some nodes bootstrapped from a v2 checkpoint), random connected topology, connection order and delays, MaxSendBlocks in {1,3,10,100,default}. Tips are re-announced every 200 ms (header or outline), dropped edges are re-dialled. Every case: each node passes the chain audit against the reference ledger (incl. full replay of the chain it serves), tip work never decreases, no honest node gets another banned. Cases that reach quiescence (all edges up, every peer of every node Synced(), tips stable for 1.3 s) additionally: if one branch is SufficientlyHeavierThan every other, all tips equal it; in any case no tip is sufficiently lighter than another. Stall oracle (violation): for 15 s (25 s thorough) every edge is up, an announceable (v2) branch dominates, some node is sufficiently lighter than it, and no node's tip nor any node's count of distinct blocks handed to its manager changed - zero progress over >= 15 periods of the 1 s sync ticker (longest legitimate gap measured under load: 2.6 s; per-case maxima are recorded as max-zero-progress-gap classes). Otherwise not quiescent within the budget = inconclusive. Non-trivial = some node reorganised >= 2 blocks or synced across the v2 require height.",
	Assumptions: []string{
		"tips keep being announced (the repository's own `synced` test helper does the same and documents why)",
		"v1 tips are announced with RelayV2Header (the only announcement primitive; the handler treats it at header level)",
		"checkpoint nodes only inside the domain: checkpoint = v2 block at/above the require height that every node's chain contains, at most 9 blocks held above it",
		"connections that a node drops are re-dialled by the harness (peerLoop would retry only after 5 minutes)",
	},
	Gen: genC12,
	Run: runC12,
}

func TestC12(t *testing.T) { c12Prop.Main(t) }

type lockedBuf struct {
	mu  sync.Mutex
	buf bytes.Buffer
}

func (b *lockedBuf) Write(p []byte) (int, error) {
	b.mu.Lock()
	defer b.mu.Unlock()
	return b.buf.Write(p)
}

func (b *lockedBuf) String() string {
	b.mu.Lock()
	defer b.mu.Unlock()
	return b.buf.String()
}

// TestC12KnownMaxSendBlocks is the demonstrator of known finding F-C12-1: a
// node built with WithMaxSendBlocks(10) holds 30 blocks; a fresh node connected
// to it asks for all 30 in one request (parallelSync always asks for up to 100),
// gets 10, rejects the answer ("peer returned wrong number of blocks") and
// retries for ever. The bounded wait decides only whether the KNOWN-FINDING
// line is printed, never a verdict.
func TestC12KnownMaxSendBlocks(t *testing.T) {
	var blocks []kit.BlockSpec
	for i := 0; i < 30; i++ {
		blocks = append(blocks, kit.BlockSpec{Dt: 1})
	}
	tr := kit.BuildTree(kit.TreeCase{Net: kit.NetSpec{Maturity: 1, Allow: 2, ReqOff: 2, CutOff: 2}, Blocks: blocks})
	tip := tr.Nodes[len(tr.Nodes)-1]
	if !tip.Valid() {
		t.Fatalf("INFRA: demonstrator chain invalid: %v", tip.Err)
	}
	srcNode, err := p2px.NewChainNode(tr, tip, 0)
	if err != nil {
		t.Fatalf("INFRA: %v", err)
	}
	defer srcNode.Close()
	dstNode, err := p2px.NewChainNode(tr, nil, 0)
	if err != nil {
		t.Fatalf("INFRA: %v", err)
	}
	defer dstNode.Close()
	logs := &lockedBuf{}
	enc := zapcore.NewJSONEncoder(zapcore.EncoderConfig{MessageKey: "msg"})
	lg := zap.New(zapcore.NewCore(enc, zapcore.AddSync(logs), zapcore.DebugLevel))
	base := []syncer.Option{syncer.WithSyncInterval(netSyncInterval), syncer.WithPeerDiscoveryInterval(time.Hour)}
	src, err := p2px.StartSyncer(srcNode, p2px.NodeConfig{Name: "src", IP: p2px.ListenIP(0), UID: p2px.DetUniqueID("c12k-src"), Opts: append([]syncer.Option{syncer.WithMaxSendBlocks(10)}, base...)})
	if err != nil {
		t.Fatalf("INFRA: %v", err)
	}
	defer src.Close(closeWatchdog)
	dst, err := p2px.StartSyncer(dstNode, p2px.NodeConfig{Name: "dst", IP: p2px.ListenIP(1), UID: p2px.DetUniqueID("c12k-dst"), Opts: append([]syncer.Option{syncer.WithLogger(lg)}, base...)})
	if err != nil {
		t.Fatalf("INFRA: %v", err)
	}
	defer dst.Close(closeWatchdog)
	if err := dst.Connect(src, 10*time.Second); err != nil {
		t.Fatalf("INFRA: connect: %v", err)
	}
	deadline := time.Now().Add(8 * time.Second)
	for time.Now().Before(deadline) && dstNode.CM.Tip() != tip.Index() {
		time.Sleep(100 * time.Millisecond)
		src.Announce(true)
	}
	rejected := strings.Count(logs.String(), "peer returned wrong number of blocks")
	switch {
	case dstNode.CM.Tip() == tip.Index():
		fmt.Println("KNOWN-GONE F-C12-1")
	case rejected > 0:
		fmt.Printf("KNOWN-REPRODUCED F-C12-1: after 8 s the fresh node is at height %d of %d; it rejected %d answer(s) of the WithMaxSendBlocks(10) peer with \"peer returned wrong number of blocks\"\n", dstNode.CM.Tip().Height, tip.Height, rejected)
	default:
		fmt.Printf("KNOWN-GONE F-C12-1 (not synced after 8 s, but no short-answer rejection was logged: height %d of %d)\n", dstNode.CM.Tip().Height, tip.Height)
	}
}
