package pnet

import (
	"context"
	"errors"
	"fmt"
	"net"
	"sync"
	"sync/atomic"
	"testing"
	"time"

	"go.sia.tech/core/gateway"
	"go.sia.tech/core/types"
	"go.sia.tech/coreutils/syncer"
	"pgregory.net/rapid"

	"verif/kit"
	"verif/p2px"
)

// CapCase: many connections attempted at once against the peer caps.
type CapCase struct {
	MaxIn  int `json:"max_in"`  // MaxInboundPeers 0..4
	MaxOut int `json:"max_out"` // MaxOutboundPeers 0..3
	// NIn scripted peers dial and handshake at the same moment (after a
	// per-peer stagger of 0..StaggerUS microseconds).
	NIn       int `json:"n_in"`
	StaggerUS int `json:"stagger_us"`
	// NCand listening scripted peers are put into the peer store, so that the
	// syncer's own peer loop (the code path that enforces the outbound cap)
	// connects out to them.
	NCand int `json:"n_cand"`
	// NExplicit concurrent explicit Connect calls (observed, see assumptions).
	NExplicit int `json:"n_explicit"`
	// Waves: the inbound burst is repeated after the first wave's surplus
	// connections were closed by the dialers.
	Waves int `json:"waves"`
	// Script: before the bursts, peers arrive and leave one at a time and every
	// arrival's fate is compared with the model: "in" = a scripted peer dials
	// (admitted iff fewer than MaxIn inbound peers are connected - outbound peers
	// do not count), "out" = an explicit Connect to a fresh listener, "drop-in" /
	// "drop-out" = the oldest such peer hangs up.
	Script []string `json:"script,omitempty"`
}

func genCap(t *rapid.T) CapCase {
	script := rapid.SliceOfN(rapid.SampledFrom([]string{"in", "in", "in", "out", "out", "drop-in", "drop-out"}), 0, 10).Draw(t, "script")
	return CapCase{
		Script:    script,
		MaxIn:     rapid.IntRange(0, 4).Draw(t, "maxin"),
		MaxOut:    rapid.IntRange(0, 3).Draw(t, "maxout"),
		NIn:       rapid.IntRange(0, 24).Draw(t, "nin"),
		StaggerUS: rapid.SampledFrom([]int{0, 0, 50, 500}).Draw(t, "stagger"),
		NCand:     rapid.IntRange(0, 8).Draw(t, "ncand"),
		NExplicit: rapid.IntRange(0, 6).Draw(t, "nexplicit"),
		Waves:     rapid.IntRange(1, 2).Draw(t, "waves"),
	}
}

// serveQuiet answers ShareNodes with an empty list and SendHeaders with "no
// further headers" (so that a syncing peer marks us synced), and closes
// everything else.
func serveQuiet(id types.Specifier, s *gateway.Stream) {
	defer s.Close()
	switch r := gateway.ObjectForID(id).(type) {
	case *gateway.RPCShareNodes:
		s.WriteResponse(r)
	case *gateway.RPCSendHeaders:
		if s.ReadRequest(r) == nil {
			r.Headers, r.Remaining = nil, 0
			s.WriteResponse(r)
		}
	}
}

// quietListener accepts gateway connections and serves them quietly.
func quietListener(genesis types.BlockID, ip string, uid gateway.UniqueID) (*p2px.GWPeer, error) {
	gp := &p2px.GWPeer{Genesis: genesis, UniqueID: uid, IP: ip}
	if err := gp.Listen(); err != nil {
		return nil, err
	}
	go func() {
		for {
			c, err := gp.Accept(20 * time.Second)
			if err != nil {
				if errors.Is(err, net.ErrClosed) {
					return
				}
				continue
			}
			go c.Serve(serveQuiet)
		}
	}()
	return gp, nil
}

func runCap(c CapCase, cs *kit.CaseStats) error {
	if c.MaxIn < 0 || c.MaxOut < 0 {
		return nil
	}
	node, err := genesisNode()
	if err != nil {
		return fmt.Errorf("INFRA: %v", err)
	}
	defer node.Close()
	genesisID := node.Tree.Genesis.ID()
	disc := time.Hour
	if c.NCand > 0 {
		disc = 5 * time.Millisecond
	}
	srv, err := p2px.StartSyncer(node, p2px.NodeConfig{Name: "srv", IP: p2px.ListenIP(0), UID: p2px.DetUniqueID("cap-srv"), NoRun: true, Opts: []syncer.Option{
		syncer.WithSyncInterval(time.Hour), syncer.WithPeerDiscoveryInterval(disc),
		syncer.WithMaxInboundPeers(c.MaxIn), syncer.WithMaxOutboundPeers(c.MaxOut),
	}})
	if err != nil {
		return err
	}
	// outbound candidates are known before the peer loop starts
	auto := map[string]bool{}
	var listeners []*p2px.GWPeer
	defer func() {
		for _, l := range listeners {
			l.Close()
		}
	}()
	for i := 0; i < c.NCand; i++ {
		gp, err := quietListener(genesisID, p2px.ListenIP(10+i), p2px.DetUniqueID("cap-cand", i))
		if err != nil {
			return fmt.Errorf("INFRA: %v", err)
		}
		listeners = append(listeners, gp)
		auto[gp.NetAddress] = true
		srv.Store.AddPeer(gp.NetAddress)
	}
	var explicit []*p2px.GWPeer
	for i := 0; i < c.NExplicit; i++ {
		gp, err := quietListener(genesisID, p2px.ListenIP(30+i), p2px.DetUniqueID("cap-expl", i))
		if err != nil {
			return fmt.Errorf("INFRA: %v", err)
		}
		listeners = append(listeners, gp)
		explicit = append(explicit, gp)
	}
	go func() { srv.RunErr <- srv.S.Run() }()
	closed := false
	defer func() {
		if !closed {
			srv.Close(closeWatchdog)
		}
	}()

	// sampler: the caps must hold at every observation
	var maxIn, maxAuto, maxOut atomic.Int64
	stopSampler := make(chan struct{})
	var samplerDone sync.WaitGroup
	sample := func() {
		in, out, au := 0, 0, 0
		for _, p := range srv.S.Peers() {
			if p.Inbound {
				in++
			} else {
				out++
				if auto[p.Addr()] {
					au++
				}
			}
		}
		for _, pr := range []struct {
			m *atomic.Int64
			v int
		}{{&maxIn, in}, {&maxOut, out}, {&maxAuto, au}} {
			if int64(pr.v) > pr.m.Load() {
				pr.m.Store(int64(pr.v))
			}
		}
	}
	samplerDone.Add(1)
	go func() {
		defer samplerDone.Done()
		for {
			select {
			case <-stopSampler:
				return
			default:
			}
			sample()
			time.Sleep(100 * time.Microsecond)
		}
	}()

	var dialers []*p2px.GWPeer
	defer func() {
		for _, d := range dialers {
			d.Close()
		}
	}()
	if err, inconclusive := capScript(c, cs, srv, genesisID, &listeners); err != nil || inconclusive != "" {
		close(stopSampler)
		samplerDone.Wait()
		if inconclusive != "" {
			cs.Inconclusive(inconclusive)
			return nil
		}
		return err
	}
	serial := 0
	for w := 0; w < c.Waves; w++ {
		start := make(chan struct{})
		var wg sync.WaitGroup
		var okConn, dialTimeouts atomic.Int64
		for i := 0; i < c.NIn; i++ {
			gp := &p2px.GWPeer{Genesis: genesisID, UniqueID: p2px.DetUniqueID("cap-in", serial), IP: fmt.Sprintf("127.50.%d.%d", 1+i/8, 1+i%8), NetAddress: fmt.Sprintf("127.50.%d.%d:%d", 1+i/8, 1+i%8, 3000+serial)}
			serial++
			dialers = append(dialers, gp)
			wg.Add(1)
			go func(i int) {
				defer wg.Done()
				<-start
				p2px.Pause(c.StaggerUS * (i % 4))
				conn, err := gp.Dial(context.Background(), srv.Addr(), 20*time.Second)
				if err != nil {
					if ne := net.Error(nil); errors.As(err, &ne) && ne.Timeout() {
						dialTimeouts.Add(1)
					}
					return
				}
				okConn.Add(1)
				go conn.Serve(serveQuiet)
			}(i)
		}
		var ewg sync.WaitGroup
		if w == 0 {
			for _, gp := range explicit {
				ewg.Add(1)
				go func() {
					defer ewg.Done()
					<-start
					ctx, cancel := context.WithTimeout(context.Background(), 20*time.Second)
					defer cancel()
					srv.S.Connect(ctx, gp.NetAddress)
				}()
			}
		}
		close(start)
		wg.Wait()
		ewg.Wait()
		// at rest
		time.Sleep(2 * time.Millisecond)
		sample()
		if c.NIn >= 2*(c.MaxIn+1) {
			cs.NonTrivial()
			cs.Class("inbound-burst>=2x(cap+1)")
		}
		if in := int(maxIn.Load()); in > c.MaxIn {
			close(stopSampler)
			samplerDone.Wait()
			return fmt.Errorf("wave %d: %d inbound peers were connected at the same time, MaxInboundPeers is %d (%d simultaneous handshakes, %d completed on the dialers' side)", w, in, c.MaxIn, c.NIn, okConn.Load())
		}
		// the other half: slots the limit leaves open are given to peers that ask
		// for them. In a burst that is no schedule-independent fact (the syncer
		// gives every handshake a deadline, and on a starved machine any number of
		// the simultaneous handshakes can run into it), so what a burst left free
		// is only recorded - and then single peers arrive, one at a time, until
		// the limit is reached: each of them finds a free slot on the syncer's own
		// list and must be admitted, whatever the number of outbound peers.
		{
			rawIn := func() (in, out int) {
				for _, p := range srv.S.Peers() {
					if p.Inbound {
						in++
					} else {
						out++
					}
				}
				return
			}
			in, out := rawIn()
			for deadline := time.Now().Add(2 * time.Second); in < min(c.MaxIn, c.NIn) && time.Now().Before(deadline); time.Sleep(time.Millisecond) {
				in, out = rawIn() // (the last handshakes of the burst may still be on their way into the list)
			}
			if in < min(c.MaxIn, c.NIn) {
				cs.Class("burst-left-inbound-slots-free(observed)")
			}
			for fill := 0; in < c.MaxIn && fill < 4; fill++ {
				ip := fmt.Sprintf("127.52.%d.%d", 1+w, 1+fill)
				gp := &p2px.GWPeer{Genesis: genesisID, UniqueID: p2px.DetUniqueID("cap-fill", w, fill), IP: ip, NetAddress: fmt.Sprintf("%s:%d", ip, 3700+8*w+fill)}
				dialers = append(dialers, gp)
				t0 := time.Now()
				conn, err := gp.Dial(context.Background(), srv.Addr(), 20*time.Second)
				admitted, decided := false, err != nil
				if err == nil {
					go conn.Serve(serveQuiet)
					for deadline := time.Now().Add(10 * time.Second); !decided && time.Now().Before(deadline); time.Sleep(200 * time.Microsecond) {
						if cerr := conn.Call(&gateway.RPCShareNodes{}, 5*time.Second); cerr != nil {
							decided = true
						} else if srv.HasPeer(gp.NetAddress) {
							admitted, decided = true, true
						}
					}
				}
				in2, out2 := rawIn()
				if !decided || (!admitted && time.Since(t0) > 3*time.Second) {
					cs.Class("fill-arrival-undecided-or-slow(not-judged)")
					break
				}
				if !admitted && in2 < c.MaxIn && in < c.MaxIn {
					close(stopSampler)
					samplerDone.Wait()
					return fmt.Errorf("wave %d: after the burst of %d simultaneous dials %d of %d inbound slots were taken; a single peer arriving then was turned away within %v although the syncer's own list showed a free inbound slot before (%d inbound, %d outbound) and after (%d inbound, %d outbound) - dial error: %v", w, c.NIn, in, c.MaxIn, time.Since(t0).Round(time.Millisecond), in, out, in2, out2, err)
				}
				if admitted && out > 0 {
					cs.Class("inbound-slot-taken-with-outbound-peers-present")
				}
				in, out = in2, out2
			}
		}
		if w+1 < c.Waves {
			// the dialers of this wave go away; the next wave must find the same cap
			for _, d := range dialers {
				d.Close()
			}
			dialers = nil
			deadline := time.Now().Add(closeWatchdog)
			for {
				in := 0
				for _, p := range srv.S.Peers() {
					if p.Inbound {
						in++
					}
				}
				if in == 0 {
					break
				}
				if time.Now().After(deadline) {
					cs.Inconclusive("inbound-peers-not-removed-after-disconnect")
					close(stopSampler)
					samplerDone.Wait()
					return nil
				}
				time.Sleep(500 * time.Microsecond)
			}
			cs.Class("second-wave")
		}
	}
	// give the peer loop a few rounds to fill (and possibly overfill) the
	// outbound slots
	if c.NCand > 0 {
		deadline := time.Now().Add(400 * time.Millisecond)
		want := min(c.MaxOut, c.NCand)
		for time.Now().Before(deadline) && int(maxOut.Load()) < want {
			time.Sleep(time.Millisecond)
		}
		time.Sleep(15 * time.Millisecond)
	}
	close(stopSampler)
	samplerDone.Wait()
	sample()
	if au := int(maxAuto.Load()); au > c.MaxOut {
		return fmt.Errorf("%d outbound peers opened by the peer loop were connected at the same time, MaxOutboundPeers is %d (%d candidates)", au, c.MaxOut, c.NCand)
	}
	if c.NCand > c.MaxOut {
		cs.Class("more-candidates-than-outbound-cap")
	}
	if int(maxOut.Load()) > c.MaxOut {
		// explicit Connect calls are not subject to the cap in this code base
		// (only the peer loop consults it): observed, not asserted
		cs.Class("explicit-connect-above-outbound-cap(observed)")
	}
	if c.MaxIn == 0 {
		cs.Class("max-inbound=0")
	}
	closed = true
	if err := srv.Close(closeWatchdog); err != nil {
		return fmt.Errorf("syncer Close after the connection bursts: %v\n%s", err, p2px.ClipStacks(p2px.StacksWith("coreutils/syncer."), 8))
	}
	return nil
}

// capScript runs CapCase.Script against the model. It returns a violation, or
// the name of an inconclusive outcome.
func capScript(c CapCase, cs *kit.CaseStats, srv *p2px.SyncerNode, genesisID types.BlockID, listeners *[]*p2px.GWPeer) (error, string) {
	type inPeer struct {
		gp   *p2px.GWPeer
		conn *p2px.GWConn
	}
	var ins []inPeer        // admitted inbound peers, oldest first
	var outs []*p2px.GWPeer // listeners the syncer is connected out to, oldest first
	defer func() {
		for _, p := range ins {
			p.gp.Close()
		}
	}()
	listed := func(addr string) bool { return srv.HasPeer(addr) }
	// a peer that hung up keeps its slot until the syncer has taken it off its
	// list (that happens asynchronously, when its connection's goroutine ends): the
	// slot counts as free only once the syncer's own list no longer has the peer,
	// whatever the peer's error state
	held := func(addr string) bool {
		for _, p := range srv.S.Peers() {
			if p.Addr() == addr {
				return true
			}
		}
		return false
	}
	gone := func(addr string) bool {
		for deadline := time.Now().Add(closeWatchdog); time.Now().Before(deadline); time.Sleep(200 * time.Microsecond) {
			if !held(addr) {
				return true
			}
		}
		return false
	}
	counts := func() (in, out int) {
		for _, p := range srv.S.Peers() {
			if p.Inbound {
				in++
			} else {
				out++
			}
		}
		return
	}
	for k, op := range c.Script {
		switch op {
		case "out":
			gp, err := quietListener(genesisID, p2px.ListenIP(60+k), p2px.DetUniqueID("cap-script-out", k))
			if err != nil {
				return fmt.Errorf("INFRA: %v", err), ""
			}
			*listeners = append(*listeners, gp)
			ctx, cancel := context.WithTimeout(context.Background(), 20*time.Second)
			_, err = srv.S.Connect(ctx, gp.NetAddress)
			cancel()
			if err != nil {
				return nil, "script-connect-failed"
			}
			outs = append(outs, gp)
		case "drop-out":
			if len(outs) == 0 {
				continue
			}
			gp := outs[0]
			outs = outs[1:]
			// (the listener may still be on its way out of Accept: hang up until
			// the connection is really gone)
			removed := false
			for deadline := time.Now().Add(closeWatchdog); !removed && time.Now().Before(deadline); time.Sleep(time.Millisecond) {
				gp.CloseConns()
				removed = !held(gp.NetAddress)
			}
			if !removed {
				return nil, "outbound-peer-not-removed-after-disconnect"
			}
		case "drop-in":
			if len(ins) == 0 {
				continue
			}
			p := ins[0]
			ins = ins[1:]
			p.gp.Close()
			if !gone(p.gp.NetAddress) {
				return nil, "inbound-peers-not-removed-after-disconnect"
			}
		case "in":
			ip := fmt.Sprintf("127.51.%d.%d", 1+k/8, 1+k%8)
			gp := &p2px.GWPeer{Genesis: genesisID, UniqueID: p2px.DetUniqueID("cap-script-in", k), IP: ip, NetAddress: fmt.Sprintf("%s:%d", ip, 3500+k)}
			wantAdmit := len(ins) < c.MaxIn
			// the model and the syncer's own list must agree on the inbound peers
			// before the arrival is judged
			inBefore, outBefore := counts()
			for deadline := time.Now().Add(closeWatchdog); inBefore != len(ins) && time.Now().Before(deadline); time.Sleep(200 * time.Microsecond) {
				inBefore, outBefore = counts()
			}
			if inBefore != len(ins) {
				return nil, "syncer-and-model-disagree-on-inbound-peers"
			}
			t0 := time.Now()
			conn, err := gp.Dial(context.Background(), srv.Addr(), 20*time.Second)
			if err != nil {
				if ne := net.Error(nil); errors.As(err, &ne) && ne.Timeout() {
					gp.Close()
					return nil, "script-dial-timeout"
				}
			}
			// the arrival's fate: admitted = listed and answering; turned away = the
			// dial failed or the syncer closed the connection
			admitted, decided := false, err != nil
			if err == nil {
				go conn.Serve(serveQuiet)
				for deadline := time.Now().Add(10 * time.Second); !decided && time.Now().Before(deadline); time.Sleep(200 * time.Microsecond) {
					if cerr := conn.Call(&gateway.RPCShareNodes{}, 5*time.Second); cerr != nil {
						decided = true // closed by the syncer
					} else if listed(gp.NetAddress) {
						admitted, decided = true, true
					}
				}
			}
			if !decided {
				gp.Close()
				return nil, "script-arrival-undecided"
			}
			what := fmt.Sprintf("step %d of %v: a peer arrived while %d inbound peer(s) (MaxInboundPeers %d) and %d outbound peer(s) were connected (counted by the harness: %d admitted inbound peers not yet dropped)", k, c.Script, inBefore, c.MaxIn, outBefore, len(ins))
			switch {
			case wantAdmit && !admitted && time.Since(t0) > 3*time.Second:
				// the syncer gives a handshake 10 s (ConnectTimeout): on a machine this
				// slow the refusal may be that deadline, not the limit
				gp.Close()
				return nil, "script-arrival-slow(handshake-deadline-possible)"
			case wantAdmit && !admitted:
				gp.Close()
				if in2, _ := counts(); in2 >= c.MaxIn {
					return nil, "syncer-and-model-disagree-on-inbound-peers"
				}
				return fmt.Errorf("%s and was turned away within %v although an inbound slot was free, before and after, on the syncer's own list (dial error: %v)", what, time.Since(t0).Round(time.Millisecond), err), ""
			case !wantAdmit && admitted:
				gp.Close()
				return fmt.Errorf("%s and was admitted although no inbound slot was free", what), ""
			}
			if admitted {
				ins = append(ins, inPeer{gp, conn})
				if outBefore > 0 {
					cs.Class("script:inbound-admitted-with-outbound-peers-present")
					if inBefore+outBefore >= c.MaxIn {
						cs.Class("script:inbound-admitted-with-total-peers>=inbound-cap")
						cs.NonTrivial()
					}
				}
			} else {
				gp.Close()
				cs.Class("script:inbound-turned-away-at-the-cap")
			}
		}
	}
	// the bursts start without inbound peers
	for _, p := range ins {
		p.gp.Close()
		if !gone(p.gp.NetAddress) {
			return nil, "inbound-peers-not-removed-after-disconnect"
		}
	}
	ins = nil
	if len(c.Script) > 0 {
		cs.Class("script-run")
	}
	return nil, ""
}

var c18CapProp = kit.Prop[CapCase]{
	ID:   "C18",
	Rule: "peer caps: MaxInboundPeers 0..4 against 0..24 scripted gateway peers that dial and handshake at the same moment (1..2 waves), MaxOutboundPeers 0..3 against 0..8 listening candidates in the peer store (peer loop every 5 ms) plus 0..6 concurrent explicit Connect calls. Before the bursts a drawn script of up to 10 single arrivals and departures (inbound dial, explicit outbound Connect, oldest inbound / outbound peer hangs up) is compared step by step with the model: an arriving peer is admitted iff fewer than MaxInboundPeers inbound peers are connected, outbound peers do not count. Oracle: at every 100 µs sample and at rest the number of connected inbound peers <= MaxInboundPeers and the number of outbound peers opened by the peer loop <= MaxOutboundPeers; after every burst single peers arrive one at a time until the limit is reached, each finding a free slot on the syncer's own list and having to be admitted, whatever the number of outbound peers (what the burst itself left free is only recorded: the syncer's handshake deadline makes that schedule-dependent). Non-trivial = simultaneous handshakes >= 2x(cap+1).",
	Assumptions: []string{
		"explicit Syncer.Connect calls are not checked against MaxOutboundPeers by this code base (only peerLoop calls allowConnect for outbound); they are exercised and observed but the cap is asserted only for connections the syncer opens itself",
	},
	Gen: genCap,
	Run: runCap,
}

func TestC18Caps(t *testing.T) { c18CapProp.Main(t) }
