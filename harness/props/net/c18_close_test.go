package pnet

import (
	"context"
	"errors"
	"fmt"
	"net"
	"os"
	"strings"
	"sync"
	"sync/atomic"
	"testing"
	"time"

	"go.sia.tech/core/gateway"
	proto4 "go.sia.tech/core/rhp/v4"
	"go.sia.tech/core/types"
	rhp "go.sia.tech/coreutils/rhp/v4"
	"go.sia.tech/coreutils/syncer"
	"go.sia.tech/coreutils/testutil"
	"go.sia.tech/coreutils/threadgroup"
	"go.sia.tech/coreutils/wallet"
	"go.uber.org/zap"
	"pgregory.net/rapid"

	"verif/kit"
	"verif/p2px"
)

// CloseCase: Close of one component at a drawn moment relative to its
// in-flight work.
type CloseCase struct {
	Comp string `json:"comp"` // syncer | syncer-sync | syncer-dial | rhp4 | wallet
	// Blocked: work items held inside the component (RPC handlers inside the
	// ChainManager / Settings call, the wallet's rebroadcast inside its store
	// call) when Close is issued.
	Blocked int `json:"blocked"`
	// Idle: syncer - inbound handshakes started around the Close; rhp4 -
	// streams opened on which nothing was sent yet.
	Idle int `json:"idle"`
	// Connects: syncer - explicit Connect calls started around the Close;
	// wallet - reorgs triggered around the Close.
	Connects int `json:"connects"`
	// CloseDelayUS: from "in-flight work in place" to issuing Close.
	CloseDelayUS int `json:"close_delay_us"`
	// ReleaseUS: the held work is released that long after Close was issued;
	// negative = that long before.
	ReleaseUS int `json:"release_us"`
	// Closers: concurrent Close calls.
	Closers int `json:"closers"`
	// Stall (rhp4 only): 0 = idle streams are closed by the client together with
	// the release of the held handlers (the server runs with its default RPC
	// timeout); k > 0 = the server runs with WithRPCTimeout(400 ms), no handler is
	// held, and every idle stream sends k-1 bytes (0..15: part of the RPC id, 16:
	// the whole id of an RPC that expects a request, 17..: id + part of the
	// request) and then stays silent and OPEN: only the server's own deadline can
	// end its handler.
	Stall int `json:"stall,omitempty"`
	// NoRun (syncer-dial only): Run is not active (the application only uses
	// Connect); otherwise Run is active and Blocked is the number of unresponsive
	// addresses in the peer store (peerLoop's own connect is pending as well).
	// In syncer-dial, Connects (at least one) is the number of application
	// Connect(context.Background(), addr) calls whose dial is pending at Close and
	// Idle the number of further Connect calls started around the Close.
	NoRun bool `json:"no_run,omitempty"`
	// SpreadUS: the racing work (handshakes, connects, reorgs) starts at
	// i*SpreadUS after the moment Close is issued minus SpreadUS*n/2.
	SpreadUS int `json:"spread_us"`
}

func genClose(t *rapid.T) CloseCase {
	c := CloseCase{
		Comp:         rapid.SampledFrom([]string{"syncer", "syncer", "syncer", "syncer", "syncer", "syncer", "rhp4", "rhp4", "rhp4", "wallet", "wallet", "wallet", "syncer-sync", "syncer-dial", "syncer-dial"}).Draw(t, "comp"),
		Blocked:      rapid.IntRange(0, 4).Draw(t, "blocked"),
		Idle:         rapid.IntRange(0, 6).Draw(t, "idle"),
		Connects:     rapid.IntRange(0, 4).Draw(t, "connects"),
		CloseDelayUS: rapid.SampledFrom([]int{0, 0, 20, 200, 2000}).Draw(t, "closedelay"),
		Closers:      rapid.IntRange(1, 3).Draw(t, "closers"),
		SpreadUS:     rapid.SampledFrom([]int{0, 10, 100, 400}).Draw(t, "spread"),
	}
	if c.Comp == "rhp4" && rapid.Bool().Draw(t, "stallmode") {
		c.Stall = 1 + rapid.SampledFrom([]int{0, 1, 2, 7, 8, 15, 16, 17, 19, 40}).Draw(t, "stallbytes")
		c.Idle = max(1, c.Idle)
	}
	if c.Comp == "syncer-dial" {
		c.NoRun = rapid.IntRange(0, 2).Draw(t, "norun") == 0
	}
	switch rapid.IntRange(0, 3).Draw(t, "release") {
	case 0:
		c.ReleaseUS = -rapid.IntRange(1, 500).Draw(t, "before")
	case 1:
		c.ReleaseUS = 0
	default:
		c.ReleaseUS = rapid.IntRange(1, 3000).Draw(t, "after")
	}
	return c
}

// closeRun is the part common to the three components: issue the Close calls,
// release the held work, and check that no Close returns while held work is
// still inside.
type closeRun struct {
	c        CloseCase
	gate     *p2px.Gate
	closeFn  func()
	insideFn func() string // extra "still inside" evidence at Close return ("" = none)
	mu       sync.Mutex
	errs     []string
}

func (r *closeRun) fail(f string, a ...any) {
	r.mu.Lock()
	r.errs = append(r.errs, fmt.Sprintf(f, a...))
	r.mu.Unlock()
}

// run returns false if a Close did not return within the watchdog.
func (r *closeRun) run() bool {
	c := r.c
	var wg sync.WaitGroup
	issue := func() {
		for k := 0; k < max(1, c.Closers); k++ {
			wg.Add(1)
			go func() {
				defer wg.Done()
				r.closeFn()
				if s := r.gate.Snapshot(); s.Inside() > 0 {
					r.fail("Close returned while %d held work item(s) of the component were still running", s.Inside())
				} else if r.insideFn != nil {
					if ev := r.insideFn(); ev != "" {
						r.fail("Close returned while work of the component was still running:\n%s", ev)
					}
				}
			}()
		}
	}
	p2px.Pause(c.CloseDelayUS)
	if c.ReleaseUS < 0 {
		r.gate.Open()
		p2px.Pause(-c.ReleaseUS)
		issue()
	} else {
		issue()
		p2px.Pause(c.ReleaseUS)
		r.gate.Open()
	}
	done := make(chan struct{})
	go func() { wg.Wait(); close(done) }()
	select {
	case <-done:
		return true
	case <-time.After(closeWatchdog):
		return false
	}
}

func (r *closeRun) result() error {
	r.mu.Lock()
	defer r.mu.Unlock()
	if len(r.errs) > 0 {
		return errors.New(strings.Join(r.errs, "\n"))
	}
	return nil
}

func runClose(c CloseCase, cs *kit.CaseStats) error {
	if v := os.Getenv("VERIF_C18_COMP"); v != "" { // debugging aid
		c.Comp = v
	}
	if os.Getenv("VERIF_C18_TIME") != "" {
		t0 := time.Now()
		defer func() {
			if d := time.Since(t0); d > 300*time.Millisecond {
				fmt.Printf("SLOW %v %+v\n", d, c)
			}
		}()
	}
	cs.Class("component=" + c.Comp)
	var err error
	switch c.Comp {
	case "syncer":
		err = runCloseSyncer(c, cs)
	case "syncer-sync":
		err = runCloseSyncing(c, cs)
	case "syncer-dial":
		return runCloseDial(c, cs)
	case "rhp4":
		err = runCloseRHP4(c, cs)
	case "wallet":
		err = runCloseWallet(c, cs)
	default:
		return nil
	}
	if err == nil && c.Blocked >= 1 && c.ReleaseUS >= 0 {
		cs.NonTrivial()
		cs.Class("close-issued-while-work-held")
	}
	if c.Closers > 1 {
		cs.Class("concurrent-closes")
	}
	return err
}

// ---------------------------------------------------------------- syncer

func runCloseSyncer(c CloseCase, cs *kit.CaseStats) error {
	node, err := genesisNode()
	if err != nil {
		return fmt.Errorf("INFRA: %v", err)
	}
	defer node.Close()
	genesisID := node.Tree.Genesis.ID()
	gate := p2px.NewGate()
	srv, err := p2px.StartSyncer(node, p2px.NodeConfig{Name: "srv", IP: p2px.ListenIP(0), UID: p2px.DetUniqueID("close-srv"), Gate: gate,
		KeysFor: func(peer int) []string { return []string{fmt.Sprintf("peer:%d", peer)} },
		Opts: []syncer.Option{syncer.WithSyncInterval(3 * time.Millisecond), syncer.WithPeerDiscoveryInterval(2 * time.Millisecond),
			syncer.WithMaxInflightRPCs(8), syncer.WithMaxInboundPeers(32), syncer.WithMaxOutboundPeers(8)}})
	if err != nil {
		return err
	}
	var scripted []*p2px.GWPeer
	defer func() {
		gate.Open()
		srv.Close(closeWatchdog)
		for _, p := range scripted {
			p.Close()
		}
	}()
	// two scripted peers hold `Blocked` handlers inside the manager
	var conns []*p2px.GWConn
	for i := 0; i < 2; i++ {
		gp := &p2px.GWPeer{Genesis: genesisID, UniqueID: p2px.DetUniqueID("close-peer", i), IP: fmt.Sprintf("127.70.0.%d", 1+i), NetAddress: fmt.Sprintf("127.70.0.%d:%d", 1+i, 4000+i)}
		scripted = append(scripted, gp)
		conn, err := gp.Dial(context.Background(), srv.Addr(), 20*time.Second)
		if err != nil {
			cs.Inconclusive("handshake-failed")
			return nil
		}
		go conn.Serve(serveQuiet)
		conns = append(conns, conn)
	}
	// one listening peer the syncer is connected out to
	out, err := quietListener(genesisID, p2px.ListenIP(1), p2px.DetUniqueID("close-out"))
	if err != nil {
		return fmt.Errorf("INFRA: %v", err)
	}
	scripted = append(scripted, out)
	if err := func() error {
		ctx, cancel := context.WithTimeout(context.Background(), 20*time.Second)
		defer cancel()
		_, err := srv.S.Connect(ctx, out.NetAddress)
		return err
	}(); err != nil {
		cs.Inconclusive("outbound-connect-failed")
		return nil
	}
	var reqs sync.WaitGroup
	for k := 0; k < c.Blocked; k++ {
		reqs.Add(1)
		go func() {
			defer reqs.Done()
			conns[k%2].Call(&gateway.RPCSendV2Blocks{History: []types.BlockID{p2px.TagID(k%2, k)}, Max: 1}, 2*closeWatchdog)
		}()
	}
	if !gate.WaitFor(func(s p2px.GateSnapshot) bool { return s.Inside() >= c.Blocked }, closeWatchdog) {
		cs.Inconclusive("held-handlers-not-reached")
		return nil
	}
	// racing work: inbound handshakes and explicit Connects around the Close
	var racing sync.WaitGroup
	nr := c.Idle + c.Connects
	var listeners []*p2px.GWPeer
	for i := 0; i < c.Connects; i++ {
		l, err := quietListener(genesisID, p2px.ListenIP(10+i), p2px.DetUniqueID("close-conn", i))
		if err != nil {
			return fmt.Errorf("INFRA: %v", err)
		}
		scripted = append(scripted, l)
		listeners = append(listeners, l)
	}
	var connectErrsAfter, hsTimeouts atomic.Int64
	var closeReturned atomic.Bool
	for i := 0; i < nr; i++ {
		racing.Add(1)
		go func() {
			defer racing.Done()
			// spread the racing work around the moment Close is issued
			p2px.Pause(c.CloseDelayUS + (i-nr/2)*c.SpreadUS)
			if i < c.Idle {
				gp := &p2px.GWPeer{Genesis: genesisID, UniqueID: p2px.DetUniqueID("close-hs", i), IP: fmt.Sprintf("127.70.3.%d", 1+i), NetAddress: fmt.Sprintf("127.70.3.%d:%d", 1+i, 4100+i)}
				srvAddr := srv.Addr()
				conn, err := gp.Dial(context.Background(), srvAddr, closeWatchdog)
				scriptedAdd(&scripted, gp)
				if err == nil {
					go conn.Serve(serveQuiet)
				} else if ne := net.Error(nil); errors.As(err, &ne) && ne.Timeout() {
					// the TCP connection was established but the syncer neither
					// shook hands nor closed it for the whole watchdog period
					hsTimeouts.Add(1)
				}
				return
			}
			after := closeReturned.Load()
			ctx, cancel := context.WithTimeout(context.Background(), 20*time.Second)
			defer cancel()
			_, err := srv.S.Connect(ctx, listeners[i-c.Idle].NetAddress)
			if after && !errors.Is(err, threadgroup.ErrClosed) {
				connectErrsAfter.Add(1)
			}
		}()
	}
	run := &closeRun{c: c, gate: gate, closeFn: func() { srv.S.Close(); closeReturned.Store(true) }}
	if !run.run() {
		parked := p2px.StacksWith("coreutils/syncer.", "coreutils/threadgroup.")
		return fmt.Errorf("syncer Close did not return within %v after the held handlers were released (held inside now: %d); goroutines inside syncer/threadgroup:\n%s", closeWatchdog, gate.Snapshot().Inside(), p2px.ClipStacks(parked, 12))
	}
	racing.Wait()
	reqs.Wait()
	if n := hsTimeouts.Load(); n > 0 {
		run.fail("%d inbound connection(s) opened around the Close were accepted by the syncer but neither served nor closed: the dialer waited %v for the handshake", n, closeWatchdog)
	}
	// Run must have returned
	select {
	case <-srv.RunErr:
	case <-time.After(closeWatchdog):
		return fmt.Errorf("syncer Run did not return within %v after Close returned:\n%s", closeWatchdog, p2px.ClipStacks(p2px.StacksWith("coreutils/syncer."), 12))
	}
	// afterwards everything is rejected
	ctx, cancel := context.WithTimeout(context.Background(), 5*time.Second)
	_, cerr := srv.S.Connect(ctx, out.NetAddress)
	cancel()
	if !errors.Is(cerr, threadgroup.ErrClosed) {
		run.fail("Connect after Close returned %v, want threadgroup.ErrClosed", cerr)
	}
	if n := connectErrsAfter.Load(); n > 0 {
		run.fail("%d Connect call(s) started after Close had returned did not fail with ErrClosed", n)
	}
	if err := srv.S.BroadcastV2Header(types.BlockHeader{}); err == nil {
		run.fail("BroadcastV2Header after Close reported success")
	}
	late := &p2px.GWPeer{Genesis: genesisID, UniqueID: p2px.DetUniqueID("close-late"), IP: "127.70.4.1", NetAddress: "127.70.4.1:4999"}
	scripted = append(scripted, late)
	if conn, err := late.Dial(context.Background(), srv.Addr(), 5*time.Second); err == nil {
		conn.Close()
		run.fail("a new inbound connection completed the handshake after Close")
	}
	for i, conn := range conns {
		if err := conn.Call(&gateway.RPCShareNodes{}, 5*time.Second); err == nil {
			run.fail("peer %d's connection still answers RPCs after Close", i)
		}
	}
	// (a runPeer goroutine spawned by a Connect that raced the Close may still
	// be on its way out, so the listing is polled rather than read once)
	for deadline := time.Now().Add(10 * time.Second); ; time.Sleep(200 * time.Microsecond) {
		n := len(srv.S.Peers())
		if n == 0 {
			break
		}
		if time.Now().After(deadline) {
			run.fail("%d peers still listed 10 s after Close returned", n)
			break
		}
	}
	// no goroutine of the syncer is left once the remote ends are gone too
	for _, p := range scripted {
		p.Close()
	}
	if rest := p2px.WaitNoStacks(10*time.Second, "coreutils/syncer."); len(rest) > 0 {
		run.fail("%d goroutine(s) still inside the syncer after Close returned and every remote end was closed:\n%s", len(rest), p2px.ClipStacks(rest, 6))
	}
	if c.Idle > 0 {
		cs.Class("syncer:handshakes-racing-close")
	}
	if c.Connects > 0 {
		cs.Class("syncer:connects-racing-close")
	}
	return run.result()
}

// runCloseSyncing: Close of a syncer in the middle of a parallel block
// download. The node at genesis is connected to 2 + Idle%3 peers that all hold
// the same short chain (one block request, so at most two workers are busy and
// the others wait for work); the peers hold every block request inside their
// manager. Close is issued while the download is in flight; the held requests
// are released ReleaseUS later. A syncer whose download is aborted must let go
// of its busy and of its idle workers.
func runCloseSyncing(c CloseCase, cs *kit.CaseStats) error {
	var blocks []kit.BlockSpec
	for i := 0; i < 6+c.Connects; i++ {
		blocks = append(blocks, kit.BlockSpec{Dt: 1})
	}
	tr := kit.BuildTree(kit.TreeCase{Net: kit.NetSpec{Maturity: 1, Allow: 2, ReqOff: 2, CutOff: 2}, Blocks: blocks})
	tip := tr.Nodes[len(tr.Nodes)-1]
	node, err := p2px.NewChainNode(tr, nil, 0)
	if err != nil {
		return fmt.Errorf("INFRA: %v", err)
	}
	defer node.Close()
	gate := p2px.NewGate()
	npeers := 2 + mod(c.Idle, 3)
	var peers []*p2px.SyncerNode
	quiet := []syncer.Option{syncer.WithSyncInterval(time.Hour), syncer.WithPeerDiscoveryInterval(time.Hour)}
	defer func() {
		gate.Open()
		for _, p := range peers {
			p.Close(closeWatchdog)
			p.Node.Close()
		}
	}()
	for i := 0; i < npeers; i++ {
		kn, err := p2px.NewChainNode(tr, tip, 0)
		if err != nil {
			return fmt.Errorf("INFRA: %v", err)
		}
		sn, err := p2px.StartSyncer(kn, p2px.NodeConfig{Name: fmt.Sprintf("src%d", i), IP: p2px.ListenIP(10 + i), UID: p2px.DetUniqueID("close-src", i), Gate: gate, Opts: quiet})
		if err != nil {
			kn.Close()
			return err
		}
		sn.CM.HoldServe = true
		peers = append(peers, sn)
	}
	srv, err := p2px.StartSyncer(node, p2px.NodeConfig{Name: "srv", IP: p2px.ListenIP(0), UID: p2px.DetUniqueID("close-sync-srv"), Opts: []syncer.Option{syncer.WithSyncInterval(5 * time.Millisecond), syncer.WithPeerDiscoveryInterval(time.Hour)}})
	if err != nil {
		return err
	}
	defer srv.Close(closeWatchdog)
	for _, p := range peers {
		if err := srv.Connect(p, 10*time.Second); err != nil {
			cs.Inconclusive("connect-failed")
			return nil
		}
	}
	// the download is in flight once a block request is held inside a peer
	if !gate.WaitFor(func(s p2px.GateSnapshot) bool { return s.Inside() >= 1 }, closeWatchdog) {
		cs.Inconclusive("download-not-started")
		return nil
	}
	busy := gate.Snapshot().Inside()
	cs.Classf("syncer-sync:peers=%d,held-requests=%d", npeers, busy)
	if npeers > busy {
		cs.Class("syncer-sync:idle-worker-at-close")
	}
	p2px.Pause(c.CloseDelayUS)
	var wg sync.WaitGroup
	for k := 0; k < max(1, c.Closers); k++ {
		wg.Add(1)
		go func() { defer wg.Done(); srv.S.Close() }()
	}
	p2px.Pause(max(0, c.ReleaseUS))
	gate.Open() // the peers answer (to a node that is no longer listening)
	done := make(chan struct{})
	go func() { wg.Wait(); close(done) }()
	select {
	case <-done:
	case <-time.After(closeWatchdog):
		parked := p2px.StacksWith("syncer.(*Syncer).parallelSync", "syncer.(*Syncer).Close", "syncer.(*Syncer).syncLoop")
		return fmt.Errorf("syncer Close during a parallel block download (%d peers, %d requests in flight) did not return within %v after the serving peers answered; goroutines inside the download / Close:\n%s", npeers, busy, closeWatchdog, p2px.ClipStacks(parked, 10))
	}
	select {
	case <-srv.RunErr:
	case <-time.After(closeWatchdog):
		return fmt.Errorf("syncer Run did not return within %v after Close returned (download in flight at Close)", closeWatchdog)
	}
	cs.NonTrivial()
	return nil
}

var scriptedMu sync.Mutex

func scriptedAdd(list *[]*p2px.GWPeer, p *p2px.GWPeer) {
	scriptedMu.Lock()
	*list = append(*list, p)
	scriptedMu.Unlock()
}

// ---------------------------------------------------------------- rhp4

type gatedSettings struct {
	gate *p2px.Gate
}

func (g gatedSettings) RHP4Settings() proto4.HostSettings {
	g.gate.Enter("settings")
	defer g.gate.Exit("settings")
	return proto4.HostSettings{Release: "verif", AcceptingContracts: true, MaxCollateral: types.Siacoins(1), MaxContractDuration: 100, RemainingStorage: 1, TotalStorage: 1}
}

func runCloseRHP4(c CloseCase, cs *kit.CaseStats) error {
	node, err := genesisNode()
	if err != nil {
		return fmt.Errorf("INFRA: %v", err)
	}
	defer node.Close()
	gate := p2px.NewGate()
	hostKey := types.NewPrivateKeyFromSeed(make([]byte, 32))
	var sopts []rhp.ServerOption
	if c.Stall > 0 {
		// the handlers of silent streams end on the server's own deadline; the
		// 30 s watchdog of Close is 75 times that
		sopts = append(sopts, rhp.WithRPCTimeout(400*time.Millisecond))
		c.Blocked = 0
		cs.Classf("rhp4:silent-open-streams,bytes-sent=%d", c.Stall-1)
	}
	srv := rhp.NewServer(hostKey, node.CM, nil, nil, gatedSettings{gate}, nil, sopts...)
	mux := p2px.NewMemMux(hostKey.PublicKey())
	served := make(chan error, 1)
	go func() { served <- srv.Serve(mux, zap.NewNop()) }()
	closed := false
	defer func() {
		gate.Open()
		mux.Close()
		if !closed {
			go srv.Close()
		}
	}()

	var rpcs sync.WaitGroup
	var answered, failed atomic.Int64
	for k := 0; k < c.Blocked; k++ {
		rpcs.Add(1)
		go func() {
			defer rpcs.Done()
			ctx, cancel := context.WithTimeout(context.Background(), 2*closeWatchdog)
			defer cancel()
			if _, err := rhp.RPCSettings(ctx, mux); err != nil {
				failed.Add(1)
			} else {
				answered.Add(1)
			}
		}()
	}
	if !gate.WaitFor(func(s p2px.GateSnapshot) bool { return s.Inside() >= c.Blocked }, closeWatchdog) {
		cs.Inconclusive("held-handlers-not-reached")
		return nil
	}
	// idle streams: opened, nothing sent; the client ends are closed together
	// with the release of the held handlers
	var idle []net.Conn
	for i := 0; i < c.Idle; i++ {
		s, err := mux.DialStream(context.Background())
		if err != nil {
			return fmt.Errorf("INFRA: %v", err)
		}
		if c.Stall > 1 {
			// part of (or all of) the id of an RPC that expects a request body,
			// followed by zero bytes of a request that never completes
			msg := make([]byte, c.Stall-1)
			id := proto4.RPCReadSectorID
			copy(msg, id[:])
			s.SetWriteDeadline(time.Now().Add(10 * time.Second))
			s.Write(msg)
		}
		idle = append(idle, s)
	}
	if c.Idle > 0 && c.Stall == 0 {
		// wait until their handlers exist
		deadline := time.Now().Add(closeWatchdog)
		for len(p2px.StacksWith("rhp/v4.(*Server).handleHostStream")) < c.Idle+c.Blocked {
			if time.Now().After(deadline) {
				cs.Inconclusive("idle-handlers-not-reached")
				return nil
			}
			time.Sleep(200 * time.Microsecond)
		}
	}
	var idleClosed atomic.Bool
	run := &closeRun{c: c, gate: gate, closeFn: srv.Close, insideFn: func() string {
		if st := p2px.StacksWith("rhp/v4.(*Server).handleHostStream"); len(st) > 0 {
			return p2px.ClipStacks(st, 4)
		}
		return ""
	}}
	// release the idle streams at the same moment as the gate: wrap Open
	releaseIdle := func() {
		if c.Stall > 0 {
			return // silent streams stay open: the server has to end them itself
		}
		if idleClosed.CompareAndSwap(false, true) {
			for _, s := range idle {
				s.Close()
			}
		}
	}
	relDone := make(chan struct{})
	go func() {
		defer close(relDone)
		// wait until the gate is opened by closeRun, then close the idle streams
		for {
			if gate.IsOpen() {
				releaseIdle()
				return
			}
			time.Sleep(50 * time.Microsecond)
		}
	}()
	ok := run.run()
	<-relDone
	if !ok {
		parked := p2px.StacksWith("coreutils/rhp/v4.", "coreutils/threadgroup.")
		if c.Stall > 0 {
			return fmt.Errorf("rhp4 Server.Close did not return within %v although the server runs with WithRPCTimeout(400ms): %d stream(s) that sent %d byte(s) and then stayed silent (connection open) keep their handlers alive; goroutines inside rhp/v4 / threadgroup:\n%s", closeWatchdog, len(idle), c.Stall-1, p2px.ClipStacks(parked, 12))
		}
		return fmt.Errorf("rhp4 Server.Close did not return within %v after the held handlers were released and idle streams closed; goroutines inside rhp/v4 / threadgroup:\n%s", closeWatchdog, p2px.ClipStacks(parked, 12))
	}
	closed = true
	for _, st := range idle {
		st.Close() // (silent streams: only now, after Close has returned)
	}
	rpcs.Wait()
	if int(answered.Load()) != c.Blocked {
		run.fail("%d RPCs were in flight when Close was issued, only %d were answered (%d failed): Close must wait for in-flight handlers", c.Blocked, answered.Load(), failed.Load())
	}
	// afterwards streams are rejected
	ctx, cancel := context.WithTimeout(context.Background(), 10*time.Second)
	_, rerr := rhp.RPCSettings(ctx, mux)
	cancel()
	if rerr == nil {
		run.fail("an RPC issued after Close was served")
	} else if strings.Contains(rerr.Error(), "shutting down") {
		cs.Class("rhp4:late-rpc-got-shutting-down-error")
	}
	mux.Close()
	select {
	case err := <-served:
		if err != nil {
			run.fail("Serve returned %v after the transport was closed", err)
		}
	case <-time.After(closeWatchdog):
		run.fail("Serve did not return after the transport was closed")
	}
	if rest := p2px.WaitNoStacks(10*time.Second, "coreutils/rhp/v4."); len(rest) > 0 {
		run.fail("%d goroutine(s) still inside the RHP4 server after Close and transport close:\n%s", len(rest), p2px.ClipStacks(rest, 6))
	}
	if c.Idle > 0 {
		cs.Class("rhp4:idle-streams-at-close")
	}
	return run.result()
}

// ---------------------------------------------------------------- wallet

type gatedWalletStore struct {
	*testutil.EphemeralWalletStore
	gate  *p2px.Gate
	calls atomic.Int64
}

func (s *gatedWalletStore) BroadcastedSets() ([]wallet.BroadcastedSet, error) {
	// the constructor's own call passes; the background rebroadcast is held
	if s.calls.Add(1) > 1 {
		s.gate.Enter("rebroadcast")
		defer s.gate.Exit("rebroadcast")
	}
	return s.EphemeralWalletStore.BroadcastedSets()
}

type nopBroadcaster struct{}

func (nopBroadcaster) BroadcastV2TransactionSet(types.ChainIndex, []types.V2Transaction) error {
	return nil
}

func runCloseWallet(c CloseCase, cs *kit.CaseStats) error {
	var blocks []kit.BlockSpec
	for i := 0; i < 2+c.Connects; i++ {
		blocks = append(blocks, kit.BlockSpec{Dt: 1})
	}
	tr := kit.BuildTree(kit.TreeCase{Net: kit.NetSpec{Maturity: 1, Allow: 2, ReqOff: 2, CutOff: 2}, Blocks: blocks})
	node, err := kit.NewNode(tr, "mem")
	if err != nil {
		return fmt.Errorf("INFRA: %v", err)
	}
	defer node.Close()
	gate := p2px.NewGate()
	store := &gatedWalletStore{EphemeralWalletStore: testutil.NewEphemeralWalletStore(), gate: gate}
	w, err := wallet.NewSingleAddressWallet(kit.Actors[0].SK, node.CM, store, nopBroadcaster{}, wallet.WithDebounceInterval(200*time.Microsecond))
	if err != nil {
		return fmt.Errorf("INFRA: %v", err)
	}
	closed := false
	defer func() {
		gate.Open()
		if !closed {
			go w.Close()
		}
	}()
	next := 0
	reorg := func() {
		if next < len(tr.Nodes) {
			node.Submit([]types.Block{tr.Nodes[next].Block})
			next++
		}
	}
	held := min(c.Blocked, 1)
	if held > 0 {
		// the initial token makes the background goroutine rebroadcast once
		if !gate.WaitFor(func(s p2px.GateSnapshot) bool { return s.Inside() >= 1 }, closeWatchdog) {
			cs.Inconclusive("rebroadcast-not-reached")
			return nil
		}
		cs.Class("wallet:rebroadcast-held-at-close")
	} else if c.ReleaseUS >= 0 {
		// nothing is to be held: let the background work pass
		gate.Open()
	}
	var racing sync.WaitGroup
	var mu sync.Mutex
	for i := 0; i < c.Connects; i++ {
		racing.Add(1)
		go func() {
			defer racing.Done()
			p2px.Pause(c.CloseDelayUS + (i-c.Connects/2)*c.SpreadUS)
			mu.Lock()
			reorg()
			mu.Unlock()
		}()
	}
	run := &closeRun{c: c, gate: gate, closeFn: func() { w.Close() }, insideFn: func() string {
		if st := p2px.StacksWith("wallet.(*SingleAddressWallet).rebroadcastTransactions"); len(st) > 0 {
			return p2px.ClipStacks(st, 2)
		}
		return ""
	}}
	if !run.run() {
		parked := p2px.StacksWith("coreutils/wallet.", "coreutils/threadgroup.")
		return fmt.Errorf("wallet Close did not return within %v after the held rebroadcast was released; goroutines inside wallet / threadgroup:\n%s", closeWatchdog, p2px.ClipStacks(parked, 8))
	}
	closed = true
	racing.Wait()
	// afterwards no background work starts any more, whatever the chain does
	before := store.calls.Load()
	mu.Lock()
	reorg()
	reorg()
	mu.Unlock()
	time.Sleep(5 * time.Millisecond) // 25 debounce intervals
	if after := store.calls.Load(); after != before {
		run.fail("the wallet's background rebroadcast ran %d time(s) after Close returned", after-before)
	}
	if rest := p2px.WaitNoStacks(10*time.Second, "coreutils/wallet."); len(rest) > 0 {
		run.fail("%d goroutine(s) still inside the wallet after Close:\n%s", len(rest), p2px.ClipStacks(rest, 4))
	}
	if c.Connects > 0 {
		cs.Class("wallet:reorgs-racing-close")
	}
	return run.result()
}

var c18CloseProp = kit.Prop[CloseCase]{
	ID:   "C18",
	Rule: "shutdown: syncer.Syncer (0..4 RPC handlers held inside the ChainManager, 0..6 inbound handshakes and 0..4 explicit Connects racing the Close, sync and peer loops ticking every 2-3 ms), rhp4.Server (0..4 RPCSettings handlers held inside Settings, 0..6 idle streams) wallet.SingleAddressWallet (background rebroadcast held inside its store, reorgs racing the Close), a syncer in the middle of a parallel download, an rhp4.Server with WithRPCTimeout(400 ms) whose streams sent 0..40 bytes and stay silent and open, and a syncer with 1..4 application Connect(context.Background(), addr) calls (plus, with Run active, the peer loop's own connect) whose dials are pending in a context-bound WithDialer dialer - those dials must be cancelled by Close and every Connect must return an error; 1..3 concurrent Close calls issued 0..2 ms after the work is in place, held work released up to 0.5 ms before / 3 ms after. Oracle: no Close returns while held work is inside the component (or a handler goroutine exists); every Close returns within 30 s of the release (dump of goroutines parked inside the component otherwise); Run/Serve return; afterwards Connect fails with ErrClosed, broadcasts fail, new connections/streams are refused (host-shutting-down for RHP4), old connections are dead, the wallet starts no further rebroadcast; no goroutine of the component is left. Non-trivial = Close issued while >= 1 work item is held.",
	Assumptions: []string{
		"work held by the harness is always released (a Close that waits for it is correct behaviour); the watchdog starts counting once it is released",
		"the wallet has no API that submits background work, so 'rejected afterwards' is checked as 'no further rebroadcast runs after Close'",
	},
	Gen: genClose,
	Run: runClose,
}

func TestC18Close(t *testing.T) { c18CloseProp.Main(t) }
