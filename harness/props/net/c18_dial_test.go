package pnet

import (
	"context"
	"errors"
	"fmt"
	"net"
	"strings"
	"sync"
	"sync/atomic"
	"time"

	"go.sia.tech/coreutils/syncer"
	"go.sia.tech/coreutils/threadgroup"

	"verif/kit"
	"verif/p2px"
)

// pendingDialer is a syncer.Dialer (installed with syncer.WithDialer) whose
// dials to the "unresponsive" range 127.71.0.0/16 stay pending until the
// context they were given is done - what a dial to an address that never
// answers does. Every other address is dialled normally. release ends the
// pending dials from the outside (clean-up after a verdict was reached).
type pendingDialer struct {
	inner     syncer.Dialer
	entered   atomic.Int64
	cancelled atomic.Int64
	released  atomic.Int64
	release   chan struct{}
	once      sync.Once
}

const pendingPrefix = "127.71."

func (d *pendingDialer) DialContext(ctx context.Context, network, address string) (net.Conn, error) {
	if !strings.HasPrefix(address, pendingPrefix) {
		return d.inner.DialContext(ctx, network, address)
	}
	d.entered.Add(1)
	select {
	case <-ctx.Done():
		d.cancelled.Add(1)
		return nil, ctx.Err()
	case <-d.release:
		d.released.Add(1)
		return nil, errors.New("pendingDialer: released by the harness")
	}
}

func (d *pendingDialer) Release() { d.once.Do(func() { close(d.release) }) }

// runCloseDial: Close of a syncer while dials are pending.
//
//   - Connects (at least one) application-issued Connect(context.Background(),
//     addr) calls whose dial is pending when Close is issued: the caller's
//     context never ends, only the syncer's shutdown can end them;
//   - with Run active and Blocked > 0: Blocked unresponsive addresses in the
//     peer store, so that peerLoop's own outbound connect is pending too;
//   - Idle further Connect calls started around the moment Close is issued.
//
// Close must return within the watchdog; every pending dial must have seen its
// context cancelled; every Connect must have returned an error; Run (if
// active) must return; Connects started after Close fail with ErrClosed.
func runCloseDial(c CloseCase, cs *kit.CaseStats) error {
	node, err := genesisNode()
	if err != nil {
		return fmt.Errorf("INFRA: %v", err)
	}
	defer node.Close()
	ip := p2px.ListenIP(0)
	d := &pendingDialer{inner: p2px.SrcDialer{IP: ip}, release: make(chan struct{})}
	defer d.Release()
	srv, err := p2px.StartSyncer(node, p2px.NodeConfig{Name: "srv", IP: ip, UID: p2px.DetUniqueID("close-dial-srv"), NoRun: c.NoRun,
		Opts: []syncer.Option{syncer.WithDialer(d), syncer.WithSyncInterval(3 * time.Millisecond), syncer.WithPeerDiscoveryInterval(2 * time.Millisecond),
			syncer.WithMaxOutboundPeers(8)}})
	if err != nil {
		return err
	}
	defer srv.Close(closeWatchdog)

	nPending := max(1, c.Connects)
	loopDial := 0
	if !c.NoRun && c.Blocked > 0 {
		loopDial = 1 // peerLoop connects one candidate at a time
		for i := 0; i < c.Blocked; i++ {
			srv.Store.AddPeer(fmt.Sprintf("%s1.%d:%d", pendingPrefix, 1+i, 5000+i))
		}
	}
	type res struct {
		err      error
		afterRet bool // started after Close had returned
	}
	results := make(chan res, nPending+c.Idle)
	var closeReturned atomic.Bool
	connect := func(i int) {
		after := closeReturned.Load()
		_, err := srv.S.Connect(context.Background(), fmt.Sprintf("%s0.%d:%d", pendingPrefix, 1+i, 4000+i))
		results <- res{err, after}
	}
	for i := 0; i < nPending; i++ {
		go connect(i)
	}
	// the dials are pending
	for deadline := time.Now().Add(closeWatchdog); d.entered.Load() < int64(nPending+loopDial); time.Sleep(100 * time.Microsecond) {
		if time.Now().After(deadline) {
			cs.Inconclusive("dials-not-started")
			return nil
		}
	}
	for i := 0; i < c.Idle; i++ {
		go func() {
			p2px.Pause(c.CloseDelayUS + (i-c.Idle/2)*c.SpreadUS)
			connect(nPending + i)
		}()
	}
	p2px.Pause(c.CloseDelayUS)
	var wg sync.WaitGroup
	for k := 0; k < max(1, c.Closers); k++ {
		wg.Add(1)
		go func() { defer wg.Done(); srv.S.Close(); closeReturned.Store(true) }()
	}
	done := make(chan struct{})
	go func() { wg.Wait(); close(done) }()
	select {
	case <-done:
	case <-time.After(closeWatchdog):
		ent, can := d.entered.Load(), d.cancelled.Load()
		parked := p2px.StacksWith("syncer.(*Syncer).Connect", "syncer.(*Syncer).Close", "threadgroup.")
		d.Release()
		select { // with the dials released Close can finish; keep the process clean
		case <-done:
		case <-time.After(closeWatchdog):
		}
		return fmt.Errorf("syncer Close did not return within %v while %d dial(s) were pending (%d application Connect(context.Background(), addr) call(s)%s; the Dialer installed with WithDialer returns as soon as its context is done): the context of %d of the %d pending dial(s) was cancelled; goroutines inside Connect / Close:\n%s",
			closeWatchdog, ent-can, nPending, map[bool]string{true: " + peerLoop's own connect", false: ""}[loopDial > 0], can, ent, p2px.ClipStacks(parked, 8))
	}
	var fails []string
	// every Connect has returned, with an error
	for i := 0; i < nPending+c.Idle; i++ {
		select {
		case r := <-results:
			switch {
			case r.err == nil:
				fails = append(fails, "a Connect to an address whose dial never completed returned a nil error")
			case r.afterRet && !errors.Is(r.err, threadgroup.ErrClosed):
				fails = append(fails, fmt.Sprintf("a Connect started after Close had returned failed with %q, want threadgroup.ErrClosed", r.err))
			}
		case <-time.After(closeWatchdog):
			d.Release()
			return fmt.Errorf("Close returned, but %d of %d Connect call(s) had not returned %v later (pending dials whose context was cancelled: %d of %d)", nPending+c.Idle-i, nPending+c.Idle, closeWatchdog, d.cancelled.Load(), d.entered.Load())
		}
	}
	if ent, can, rel := d.entered.Load(), d.cancelled.Load(), d.released.Load(); can != ent || rel != 0 {
		fails = append(fails, fmt.Sprintf("%d dial(s) were started, the context of only %d was cancelled", ent, can))
	}
	if !c.NoRun {
		select {
		case <-srv.RunErr:
		case <-time.After(closeWatchdog):
			return fmt.Errorf("syncer Run did not return within %v after Close returned (dials pending at Close):\n%s", closeWatchdog, p2px.ClipStacks(p2px.StacksWith("coreutils/syncer."), 12))
		}
	}
	if _, err := srv.S.Connect(context.Background(), pendingPrefix+"9.9:4999"); !errors.Is(err, threadgroup.ErrClosed) {
		fails = append(fails, fmt.Sprintf("Connect after Close returned %v, want threadgroup.ErrClosed", err))
	}
	if rest := p2px.WaitNoStacks(10*time.Second, "coreutils/syncer."); len(rest) > 0 {
		fails = append(fails, fmt.Sprintf("%d goroutine(s) still inside the syncer after Close returned:\n%s", len(rest), p2px.ClipStacks(rest, 6)))
	}
	cs.NonTrivial()
	cs.Classf("syncer-dial:run=%v,peerloop-dial=%v", !c.NoRun, loopDial > 0)
	cs.Classf("syncer-dial:pending-connects=%d", nPending)
	if c.Idle > 0 {
		cs.Class("syncer-dial:connects-racing-close")
	}
	if len(fails) > 0 {
		return errors.New(strings.Join(fails, "\n"))
	}
	return nil
}
