package pnet

import (
	"context"
	"encoding/json"
	"fmt"
	"os"
	"path/filepath"
	"sort"
	"strings"
	"sync"
	"sync/atomic"
	"testing"
	"time"

	"go.sia.tech/core/gateway"
	"go.sia.tech/core/types"
	"go.sia.tech/coreutils/syncer"
	"pgregory.net/rapid"

	"verif/kit"
	"verif/p2px"
)

// LimPeer is one scripted gateway peer of a limits case.
type LimPeer struct {
	Subnet int   `json:"subnet"` // 0..1: second octet group
	Host   int   `json:"host"`   // 1..3: last octet
	Bursts []int `json:"bursts"` // concurrent RPCs in burst k
	// Out: the limited node dials this peer (Syncer.Connect) instead of being
	// dialled by it; the peer's requests then arrive over an outbound
	// connection. The limits are per peer and per subnet of the remote address,
	// whoever opened the connection.
	Out bool `json:"out,omitempty"`
}

// LimCase configures the RPC handler limits of one syncer and the bursts.
type LimCase struct {
	PerPeer   int `json:"per_peer"`   // 1..8
	PerSubnet int `json:"per_subnet"` // <= 0 disabled, 1..8
	// Prefix: IPv4 prefix bits handed to WithInflightRPCSubnetPrefixes. Valid are
	// 0..32 (0 = one subnet for the whole family, i.e. a global cap); the option
	// documents that a value outside the range is ignored and the default (/32)
	// used, which is what the harness' own model does too.
	Prefix int `json:"prefix"`
	// Prefix6: the IPv6 argument (no IPv6 peers on loopback: configuration only).
	Prefix6 int       `json:"prefix6,omitempty"`
	Peers   []LimPeer `json:"peers"`
	Kinds   []int     `json:"kinds"`   // RPC kind per request, cycled
	HoldUS  int       `json:"hold_us"` // time the handlers are held after the expected level is reached
	// Order: how the two messages of a request (RPC id, request body) of
	// concurrent requests are laid out on one connection.
	//   0 = contiguous (id and body of a request are written back to back, as
	//       when each request is issued after the previous one was sent);
	//   1 = free (every request has its own goroutine, as the syncer's own
	//       client code does when it relays and syncs concurrently);
	//   2 = scripted worst case: all ids first, then the bodies in reverse.
	Order int `json:"order,omitempty"`
	// Failing: RPCs per peer, issued and finished before every burst, whose
	// handler ends with an error (headers from an index that is not on the best
	// chain, a checkpoint nobody has, a request body that does not decode). A
	// handler that ends with an error returns its slots like any other.
	Failing int `json:"failing,omitempty"`
	// Excluded names a known finding whose shape the generator replaced by the
	// contiguous layout (counted in the evidence).
	Excluded string `json:"excluded,omitempty"`
}

// knownFixed reports whether known_findings.json marks the key as fixed. As
// long as F-C18-2 is not, request layouts other than "contiguous" are excluded
// by construction from the main generator (the dedicated demonstrator
// TestC18KnownHOL decides whether the finding still reproduces).
func knownFixed(key string) bool {
	root := os.Getenv("VERIF_ROOT")
	if root == "" {
		root = "/verif"
	}
	raw, err := os.ReadFile(filepath.Join(root, "known_findings.json"))
	if err != nil {
		return false
	}
	var entries []struct {
		Key    string `json:"key"`
		Status string `json:"status"`
	}
	if json.Unmarshal(raw, &entries) != nil {
		return false
	}
	for _, e := range entries {
		if e.Key == key && e.Status == "fixed" {
			return true
		}
	}
	return false
}

var holFixed = knownFixed("F-C18-2")

func (p LimPeer) ip() string { return fmt.Sprintf("127.%d.7.%d", 40+p.Subnet, p.Host) }

func genLim(t *rapid.T) LimCase {
	c := LimCase{
		PerPeer: rapid.IntRange(1, 8).Draw(t, "perpeer"),
		Prefix:  rapid.SampledFrom([]int{0, 0, 8, 16, 24, 31, 32, 32, -1, 33, 64}).Draw(t, "prefix"),
		Prefix6: rapid.SampledFrom([]int{0, 48, 64, 128, -1, 129}).Draw(t, "prefix6"),
		HoldUS:  rapid.IntRange(0, 3000).Draw(t, "hold"),
	}
	if rapid.IntRange(0, 3).Draw(t, "subnet-disabled") == 0 {
		c.PerSubnet = rapid.IntRange(-2, 0).Draw(t, "persubnet")
	} else {
		c.PerSubnet = rapid.IntRange(1, 8).Draw(t, "persubnet")
	}
	np := rapid.IntRange(1, 4).Draw(t, "npeers")
	nb := rapid.IntRange(2, 3).Draw(t, "nbursts")
	for i := 0; i < np; i++ {
		// addresses 127.{40,41}.7.{1,2,3}: same /8, two /16 and /24, .2 and .3
		// share a /31 - neighbouring prefix lengths group them differently
		p := LimPeer{Subnet: rapid.IntRange(0, 1).Draw(t, "subnet"), Host: rapid.IntRange(1, 3).Draw(t, "host"), Out: rapid.Bool().Draw(t, "out")}
		for b := 0; b < nb; b++ {
			p.Bursts = append(p.Bursts, rapid.IntRange(0, 3*c.PerPeer+1).Draw(t, "burst"))
		}
		c.Peers = append(c.Peers, p)
	}
	if rapid.IntRange(0, 2).Draw(t, "failroll") > 0 {
		c.Failing = rapid.IntRange(1, 10).Draw(t, "failing")
	}
	c.Order = rapid.SampledFrom([]int{0, 0, 0, 1, 1, 2}).Draw(t, "order")
	if c.Order != 0 && !holFixed && os.Getenv("VERIF_C18_ALL_LAYOUTS") == "" {
		c.Order, c.Excluded = 0, "F-C18-2/interleaved-request-messages-under-per-peer-limit"
	}
	nk := rapid.IntRange(1, 5).Draw(t, "nkinds")
	for i := 0; i < nk; i++ {
		c.Kinds = append(c.Kinds, rapid.IntRange(0, 2).Draw(t, "kind"))
	}
	return c
}

// genesisNode returns a fresh node at genesis on a fixed small network.
func genesisNode() (*kit.Node, error) {
	tr := kit.BuildTree(kit.TreeCase{Net: kit.NetSpec{Maturity: 1, Allow: 2, ReqOff: 2, CutOff: 2}})
	return kit.NewNode(tr, "mem")
}

type limReq struct {
	peer, seq int
	written   bool
	err       error
}

func runLim(c LimCase, cs *kit.CaseStats) error {
	c.Order = mod(c.Order, 3)
	if c.Excluded != "" {
		cs.Excluded(c.Excluded)
	}
	if c.PerPeer < 1 || len(c.Peers) == 0 {
		return nil // outside the documented domain
	}
	node, err := genesisNode()
	if err != nil {
		return fmt.Errorf("INFRA: %v", err)
	}
	defer node.Close()
	gate := p2px.NewGate()
	effPrefix := c.Prefix
	if effPrefix < 0 || effPrefix > 32 {
		effPrefix = 32 // documented: out of range = ignored, default used
		cs.Class("prefix-out-of-range(default)")
	}
	cs.Classf("ipv4-prefix=/%d", effPrefix)
	subnetOf := make([]string, len(c.Peers))
	for i, p := range c.Peers {
		subnetOf[i] = p2px.MaskIP(p.ip(), effPrefix)
	}
	keysFor := func(peer int) []string {
		if peer < 0 || peer >= len(c.Peers) {
			return []string{"peer:?"}
		}
		return []string{fmt.Sprintf("peer:%d", peer), "subnet:" + subnetOf[peer]}
	}
	srv, err := p2px.StartSyncer(node, p2px.NodeConfig{Name: "srv", IP: p2px.ListenIP(0), UID: p2px.DetUniqueID("lim-srv"), Gate: gate, KeysFor: keysFor, Opts: []syncer.Option{
		syncer.WithSyncInterval(time.Hour), syncer.WithPeerDiscoveryInterval(time.Hour),
		syncer.WithMaxInflightRPCs(c.PerPeer), syncer.WithMaxInflightRPCsPerSubnet(c.PerSubnet),
		syncer.WithInflightRPCSubnetPrefixes(c.Prefix, c.Prefix6), syncer.WithMaxInboundPeers(16),
	}})
	if err != nil {
		return err
	}
	closed := false
	defer func() {
		gate.Open()
		if !closed {
			srv.Close(closeWatchdog)
		}
	}()

	genesisID := node.Tree.Genesis.ID()
	conns := make([]*p2px.GWConn, len(c.Peers))
	for i, p := range c.Peers {
		gp := &p2px.GWPeer{Genesis: genesisID, UniqueID: p2px.DetUniqueID("lim-peer", i), IP: p.ip(), NetAddress: fmt.Sprintf("%s:%d", p.ip(), 2000+i)}
		defer gp.Close()
		var conn *p2px.GWConn
		var err error
		if p.Out {
			// the limited node dials the peer
			if err := gp.Listen(); err != nil {
				return fmt.Errorf("INFRA: %v", err)
			}
			acc := make(chan *p2px.GWConn, 1)
			go func() {
				c, _ := gp.Accept(20 * time.Second)
				acc <- c
			}()
			ctx, cancel := context.WithTimeout(context.Background(), 20*time.Second)
			_, err = srv.S.Connect(ctx, gp.NetAddress)
			cancel()
			if err == nil {
				select {
				case conn = <-acc:
				case <-time.After(20 * time.Second):
				}
				if conn == nil {
					err = fmt.Errorf("the scripted peer did not see the connection")
				}
			}
		} else {
			conn, err = gp.Dial(context.Background(), srv.Addr(), 20*time.Second)
		}
		if err != nil {
			cs.Inconclusive("handshake-failed")
			return nil
		}
		// the syncer may call us too (ShareNodes from its peer loop); an inbound
		// stream nobody reads would block this connection's in-order delivery
		go conn.Serve(serveQuiet)
		conns[i] = conn
	}

	// effective limits and the groups the harness computes for itself
	groups := map[string][]int{}
	for i := range c.Peers {
		groups[subnetOf[i]] = append(groups[subnetOf[i]], i)
	}
	var groupKeys []string
	for g := range groups {
		groupKeys = append(groupKeys, g)
	}
	sort.Strings(groupKeys)
	cs.Classf("subnets=%d", len(groups))
	for _, g := range groupKeys {
		in, out := 0, 0
		for _, i := range groups[g] {
			if c.Peers[i].Out {
				out++
			} else {
				in++
			}
		}
		switch {
		case in > 0 && out > 0:
			cs.Class("subnet-shared-by-inbound-and-outbound-peers")
		case out > 0:
			cs.Class("subnet-of-outbound-peers-only")
		}
	}
	cs.Classf("request-layout=%s", []string{"contiguous", "free", "ids-first"}[mod(c.Order, 3)])
	if c.PerSubnet <= 0 {
		cs.Class("per-subnet=disabled")
	}

	nbursts := 0
	for _, p := range c.Peers {
		if len(p.Bursts) > nbursts {
			nbursts = len(p.Bursts)
		}
	}
	seq := 0
	sawDrop := false
	failSeq := 0
	for b := 0; b < nbursts; b++ {
		// handlers that end with an error, one after the other (so that none of
		// them is dropped for a full subnet), all finished before the burst
		if c.Failing > 0 {
			for i := range c.Peers {
				for k := 0; k < c.Failing; k++ {
					failSeq++
					bogus := types.BlockID{0xEE, byte(failSeq), byte(failSeq >> 8)}
					var err error
					switch failSeq % 3 {
					case 0:
						err = conns[i].Call(&gateway.RPCSendHeaders{Index: types.ChainIndex{Height: 7, ID: bogus}, Max: 5}, 20*time.Second)
					case 1:
						err = conns[i].Call(&gateway.RPCSendCheckpoint{Index: types.ChainIndex{Height: 7, ID: bogus}}, 20*time.Second)
					default:
						// the id of one RPC followed by the request body of another: the
						// length prefix announces far more hashes than a request may
						// hold, the decoder gives up at once and the handler ends with
						// an error (the answer is awaited, so the handler is known to
						// have run before the burst starts)
						err = func() error {
							st, err := conns[i].T.DialStream()
							if err != nil {
								return err
							}
							defer st.Close()
							st.SetDeadline(time.Now().Add(20 * time.Second))
							if err := st.WriteID(&gateway.RPCSendTransactions{}); err != nil {
								return err
							} else if err := st.WriteRequest(&gateway.RPCSendHeaders{Index: types.ChainIndex{Height: 7, ID: bogus}, Max: 1 << 40}); err != nil {
								return err
							}
							return st.ReadResponse(&gateway.RPCSendTransactions{})
						}()
					}
					if err == nil {
						return fmt.Errorf("a request the handler cannot serve (kind %d) was answered", failSeq%3)
					}
					// wait for that handler to be gone before the next one
					if rest := p2px.WaitNoStacks(closeWatchdog, "syncer.(*Syncer).runPeer.func"); len(rest) > 0 {
						cs.Inconclusive("failing-handler-not-finished")
						return nil
					}
				}
			}
			cs.Class("bursts-after-failing-handlers")
		}
		gate.Shut()
		gate.ResetMax()
		n := make([]int, len(c.Peers))
		total := 0
		for i, p := range c.Peers {
			if b < len(p.Bursts) {
				n[i] = p.Bursts[b]
			}
			total += n[i]
		}
		if total == 0 {
			continue
		}
		// what must be reached while the handlers are held: per subnet
		// min(S, Σ min(L, n_p)); drops are possible only where S < Σ min(L, n_p)
		expect := map[string]int{}
		dropsPossible := false
		for g, members := range groups {
			sum := 0
			for _, i := range members {
				sum += min(c.PerPeer, n[i])
			}
			e := sum
			if c.PerSubnet > 0 && sum > c.PerSubnet {
				e = c.PerSubnet
				dropsPossible = true
			}
			expect[g] = e
		}
		var written atomic.Int64
		reqs := make([]*limReq, 0, total)
		var wg sync.WaitGroup
		connMu := make([]sync.Mutex, len(c.Peers))
		mkObj := func(r *limReq) gateway.Object {
			kind := 0
			if len(c.Kinds) > 0 {
				kind = c.Kinds[r.seq%len(c.Kinds)]
			}
			switch kind {
			case 1:
				return &gateway.RPCSendTransactions{Index: types.ChainIndex{Height: 1, ID: p2px.TagID(r.peer, r.seq)}, Hashes: []types.Hash256{{1}}}
			case 2:
				return &gateway.RPCSendHeaders{Index: types.ChainIndex{ID: genesisID}, Max: p2px.TagMax(r.peer, r.seq)}
			}
			return &gateway.RPCSendV2Blocks{History: []types.BlockID{p2px.TagID(r.peer, r.seq)}, Max: 3}
		}
		for i := range c.Peers {
			var mine []*limReq
			for k := 0; k < n[i]; k++ {
				r := &limReq{peer: i, seq: seq}
				seq++
				reqs = append(reqs, r)
				mine = append(mine, r)
			}
			if c.Order == 2 {
				// one writer: ids first, bodies in reverse; readers in parallel
				wg.Add(1)
				go func() {
					defer wg.Done()
					streams := make([]*gateway.Stream, len(mine))
					objs := make([]gateway.Object, len(mine))
					for k, r := range mine {
						objs[k] = mkObj(r)
						s, err := conns[r.peer].T.DialStream()
						if err != nil {
							r.err = err
							continue
						}
						s.SetDeadline(time.Now().Add(2 * closeWatchdog))
						streams[k] = s
						r.err = s.WriteID(objs[k])
					}
					for k := len(mine) - 1; k >= 0; k-- {
						if r := mine[k]; r.err == nil {
							if r.err = streams[k].WriteRequest(objs[k]); r.err == nil {
								r.written = true
								written.Add(1)
							}
						}
					}
					var rg sync.WaitGroup
					for k, r := range mine {
						if streams[k] == nil {
							continue
						}
						rg.Add(1)
						go func() {
							defer rg.Done()
							defer streams[k].Close()
							if r.err == nil {
								r.err = streams[k].ReadResponse(objs[k])
							}
						}()
					}
					rg.Wait()
				}()
				continue
			}
			for _, r := range mine {
				wg.Add(1)
				go func() {
					defer wg.Done()
					obj := mkObj(r)
					s, err := conns[r.peer].T.DialStream()
					if err != nil {
						r.err = err
						return
					}
					defer s.Close()
					s.SetDeadline(time.Now().Add(2 * closeWatchdog))
					if c.Order == 0 {
						connMu[r.peer].Lock()
					}
					err = s.WriteID(obj)
					if err == nil {
						err = s.WriteRequest(obj)
					}
					if c.Order == 0 {
						connMu[r.peer].Unlock()
					}
					if err != nil {
						r.err = err
						return
					}
					r.written = true
					written.Add(1)
					r.err = s.ReadResponse(obj)
				}()
			}
		}
		reached := gate.WaitFor(func(s p2px.GateSnapshot) bool {
			for g, e := range expect {
				if s.Cur["subnet:"+g] < e {
					return false
				}
			}
			return true
		}, closeWatchdog)
		snap := gate.Snapshot()
		if !reached {
			stacks := p2px.ClipStacks(p2px.StacksWith("syncer.(*Syncer).runPeer", "syncer.(*Syncer).handleRPC"), 16)
			gate.Open()
			for _, conn := range conns {
				conn.Close() // abort the stuck requests
			}
			wg.Wait()
			if int(written.Load()) < total {
				cs.Inconclusive("client-writes-incomplete")
				return nil
			}
			return fmt.Errorf("burst %d: with the handlers held, the expected number of concurrent handlers per subnet %v was not reached within %v although all %d requests were written (now %v): either a slot was not returned by an earlier handler or drop, or admitted handlers cannot make progress while the per-peer limit holds back the next stream (see the stacks). limits per-peer=%d per-subnet=%d, burst sizes %v, request layout %d\nsyncer goroutines:\n%s",
				b, expect, closeWatchdog, total, snap.Cur, c.PerPeer, c.PerSubnet, n, c.Order, stacks)
		}
		p2px.Pause(c.HoldUS)
		gate.Open()
		wg.Wait()
		final := gate.Snapshot()
		// (1) limits were never exceeded, neither while held nor while draining
		for i := range c.Peers {
			if m := final.Max[fmt.Sprintf("peer:%d", i)]; m > c.PerPeer {
				return fmt.Errorf("burst %d: %d handlers ran concurrently for peer %d (%s), per-peer limit is %d", b, m, i, c.Peers[i].ip(), c.PerPeer)
			}
		}
		if c.PerSubnet > 0 {
			for _, g := range groupKeys {
				if m := final.Max["subnet:"+g]; m > c.PerSubnet {
					var who []string
					for _, i := range groups[g] {
						dir := "dialled the node"
						if c.Peers[i].Out {
							dir = "was dialled by the node"
						}
						who = append(who, fmt.Sprintf("peer %d (%s, %s, max %d at once)", i, c.Peers[i].ip(), dir, final.Max[fmt.Sprintf("peer:%d", i)]))
					}
					return fmt.Errorf("burst %d: %d handlers ran concurrently for subnet %s, per-subnet limit is %d; peers of that subnet: %s", b, m, g, c.PerSubnet, strings.Join(who, ", "))
				}
			}
		}
		// (2) every request was either answered or (where the subnet budget can be
		// exceeded) dropped; with only the per-peer limit binding nothing is dropped
		okBy := map[string]int{}
		var failed []string
		for _, r := range reqs {
			if r.err == nil {
				okBy[subnetOf[r.peer]]++
			} else {
				failed = append(failed, fmt.Sprintf("peer %d req %d: %v", r.peer, r.seq, r.err))
			}
		}
		if len(failed) > 0 {
			sawDrop = true
			// (the probe below is an RPC like any other: let the handlers of this
			// burst return their slots first, or a full subnet drops it)
			p2px.WaitNoStacks(closeWatchdog, "syncer.(*Syncer).runPeer.func")
			// a dropped stream leaves the connection usable; a dead connection is
			// not a drop (and not what this property is about)
			for _, r := range reqs {
				if r.err != nil {
					if err := conns[r.peer].Call(&gateway.RPCShareNodes{}, 20*time.Second); err != nil {
						cs.Inconclusive("peer-connection-lost")
						if os.Getenv("VERIF_NET_DEBUG") != "" {
							js, _ := json.Marshal(c)
							fmt.Printf("CONN-LOST burst=%d req-err=%v probe-err=%v failed=%v case=%s\n", b, r.err, err, failed, js)
						}
						return nil
					}
				}
			}
			if !dropsPossible {
				return fmt.Errorf("burst %d: %d of %d requests were not answered although no subnet can exceed its budget (per-peer=%d per-subnet=%d, burst sizes %v, subnets %v): the per-peer limit must apply back-pressure, not drop\n%s",
					b, len(failed), total, c.PerPeer, c.PerSubnet, n, subnetOf, strings.Join(failed[:min(len(failed), 4)], "\n"))
			}
		}
		for g, e := range expect {
			if okBy[g] < e {
				return fmt.Errorf("burst %d: subnet %s had %d handlers admitted but only %d requests were answered", b, g, e, okBy[g])
			}
		}
		if !gate.WaitFor(func(s p2px.GateSnapshot) bool { return s.Inside() == 0 }, closeWatchdog) {
			cs.Inconclusive("drain-timeout")
			return nil
		}
		// a handler that has answered still holds its two slots until its deferred
		// calls have run; the next burst must not race them (it would be dropped
		// legitimately by a subnet that is momentarily full), so wait until no
		// handler goroutine is left
		if rest := p2px.WaitNoStacks(closeWatchdog, "syncer.(*Syncer).runPeer.func"); len(rest) > 0 {
			cs.Inconclusive("handlers-not-finished-after-drain")
			return nil
		}
		for i := range c.Peers {
			if n[i] >= 2*c.PerPeer {
				cs.NonTrivial()
				cs.Class("burst>=2x-per-peer-limit")
			}
		}
		if dropsPossible {
			cs.Class("subnet-budget-exceeded")
			if b > 0 {
				cs.Class("burst-after-subnet-drops")
			}
		} else {
			cs.Class("only-per-peer-binding")
		}
		if b > 0 && sawDrop {
			cs.Class("burst-after-observed-drops")
		}
	}
	closed = true
	if err := srv.Close(closeWatchdog); err != nil {
		return fmt.Errorf("syncer Close after drained bursts: %v\n%s", err, p2px.ClipStacks(p2px.StacksWith("coreutils/syncer."), 8))
	}
	return nil
}

var c18LimProp = kit.Prop[LimCase]{
	ID:   "C18",
	Rule: "syncer RPC handler limits: per-peer limit 1..8, per-subnet limit <= 0 (disabled) or 1..8, IPv4 subnet prefix drawn from {0, 8, 16, 24, 31, 32} and the out-of-range values {-1, 33, 64} (documented: ignored, /32 used), IPv6 argument from {0, 48, 64, 128, -1, 129}, 1..4 scripted gateway peers at 127.{40,41}.7.{1,2,3}, each either dialling the limited node or dialled by it (Syncer.Connect), their requests arriving over that connection - the limits count per peer and per subnet of the remote address across both directions - (same /8, two /16 and /24, .2/.3 share a /31, so neighbouring prefix lengths group them differently), 2..3 bursts of 0..3L+1 concurrent SendV2Blocks / SendTransactions / SendHeaders requests per peer whose handlers are held inside a wrapping ChainManager; in two of three cases every burst is preceded by 1..10 RPCs per peer whose handler ends with an error (headers from an unknown index, unknown checkpoint, undecodable request body). Oracle: concurrent handlers per peer <= L and per subnet <= S at all times; while held, every subnet reaches min(S, Σ min(L, n_p)) (so no slot leaked by an earlier burst, including bursts with subnet drops); every request is answered unless its subnet can exceed S (then it may be dropped, the connection stays usable); at least the admitted number is answered. Non-trivial = some peer's burst >= 2x the per-peer limit.",
	Assumptions: []string{
		"per-peer limit <= 0 is not documented as 'disabled' (only the per-subnet option is) and is kept out of the generator",
		"the subnet of a peer is computed by the harness from its source address and the configured prefix, independently of the syncer",
		"concurrency is observed inside the ChainManager call of a handler (a lower bound of the handler's lifetime, exact while handlers are held)",
	},
	Gen: genLim,
	Run: runLim,
}

func TestC18Limits(t *testing.T) { c18LimProp.Main(t) }

func mod(i, n int) int { return ((i % n) + n) % n }

// TestC18KnownHOL is the demonstrator of known finding F-C18-2: with a
// per-peer limit of 1, two requests whose messages are interleaved on the
// connection (id a, id b, body b, body a) - a layout two goroutines of the
// syncer's own client produce by chance - are not both answered: the stream
// the per-peer limit holds back blocks the connection's in-order frame
// delivery, so the admitted handler never receives its request body.
func TestC18KnownHOL(t *testing.T) {
	saved := closeWatchdog
	closeWatchdog = 6 * time.Second
	defer func() { closeWatchdog = saved }()
	c := LimCase{PerPeer: 1, PerSubnet: 0, Prefix: 32, Peers: []LimPeer{{Subnet: 0, Host: 1, Bursts: []int{2}}}, Kinds: []int{0}, Order: 2}
	cs := &kit.CaseStats{}
	if err := runLim(c, cs); err != nil {
		fmt.Printf("KNOWN-REPRODUCED F-C18-2: %.300s\n", err.Error())
		return
	}
	fmt.Println("KNOWN-GONE F-C18-2")
}
