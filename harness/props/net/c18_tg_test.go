package pnet

import (
	"context"
	"errors"
	"fmt"
	"os"
	"strconv"
	"strings"
	"sync"
	"sync/atomic"
	"testing"
	"time"

	"go.sia.tech/coreutils/threadgroup"
	"pgregory.net/rapid"

	"verif/kit"
	"verif/p2px"
)

// closeWatchdog is the bounded wait of the C18 shutdown oracles: the work in
// flight is micro- to millisecond scale, so a component that has not shut down
// after this long is parked, not slow (the goroutine dump decides).
var closeWatchdog = func() time.Duration {
	// (debugging aid only: VERIF_WATCHDOG_S shortens the wait)
	if v, err := strconv.Atoi(os.Getenv("VERIF_WATCHDOG_S")); err == nil && v > 0 {
		return time.Duration(v) * time.Second
	}
	return 30 * time.Second
}()

// TGOp is one call a worker goroutine makes on the thread group.
type TGOp struct {
	Op string `json:"op"` // add | addctx | withctx | stop | done?
	// Pre: microseconds the worker waits before the call.
	Pre int `json:"pre,omitempty"`
	// Hold: microseconds the admitted thread works before it calls done /
	// cancel; -1 = the thread only waits for its context (addctx, withctx).
	Hold int `json:"hold,omitempty"`
	// ParentCancel: cancel the parent context after that many microseconds
	// (0 = never).
	ParentCancel int `json:"parent_cancel,omitempty"`
	// Twice: call the returned cancel function twice (context.CancelFunc
	// contract: later calls do nothing).
	Twice bool `json:"twice,omitempty"`
}

// TGCase is a program for one thread group.
type TGCase struct {
	Workers [][]TGOp `json:"workers"`
}

func genTG(t *rapid.T) TGCase {
	var c TGCase
	nw := rapid.IntRange(1, 6).Draw(t, "workers")
	delay := func(label string) int {
		switch rapid.IntRange(0, 3).Draw(t, label+"-scale") {
		case 0:
			return 0
		case 1:
			return rapid.IntRange(1, 25).Draw(t, label)
		case 2:
			return rapid.IntRange(30, 300).Draw(t, label)
		}
		return rapid.IntRange(300, 2000).Draw(t, label)
	}
	for w := 0; w < nw; w++ {
		n := rapid.IntRange(1, 8).Draw(t, "nops")
		var ops []TGOp
		for i := 0; i < n; i++ {
			op := TGOp{Pre: delay("pre")}
			switch k := rapid.IntRange(0, 19).Draw(t, "op"); {
			case k < 8:
				op.Op = "add"
				op.Hold = delay("hold")
			case k < 14:
				op.Op = "addctx"
				if rapid.IntRange(0, 2).Draw(t, "ctxonly") == 0 {
					op.Hold = -1
				} else {
					op.Hold = delay("hold")
				}
				if rapid.IntRange(0, 2).Draw(t, "pc") == 0 {
					op.ParentCancel = 1 + delay("pcd")
				}
				op.Twice = rapid.IntRange(0, 3).Draw(t, "twice") == 0
			case k < 16:
				op.Op = "withctx"
				op.Hold = -1
				if rapid.IntRange(0, 2).Draw(t, "pc") == 0 {
					op.ParentCancel = 1 + delay("pcd")
				}
			default:
				op.Op = "stop"
			}
			ops = append(ops, op)
		}
		c.Workers = append(c.Workers, ops)
	}
	return c
}

// tgTainted is set when a case of this process was abandoned on a watchdog.
var tgTainted atomic.Bool

type tgRun struct {
	tg           *threadgroup.ThreadGroup
	stopCalled   atomic.Bool
	stopReturned atomic.Bool
	running      atomic.Int64
	admitted     atomic.Int64
	finished     atomic.Int64
	threads      sync.WaitGroup
	mu           sync.Mutex
	errs         []string
	admittedLate bool
}

func (r *tgRun) fail(f string, a ...any) {
	r.mu.Lock()
	r.errs = append(r.errs, fmt.Sprintf(f, a...))
	r.mu.Unlock()
}

// goSafe runs fn in a goroutine of the case; a panic is an oracle failure, not
// a process crash.
func (r *tgRun) goSafe(wg *sync.WaitGroup, what string, fn func()) {
	wg.Add(1)
	go func() {
		defer wg.Done()
		defer func() {
			if p := recover(); p != nil {
				r.fail("panic in %s: %v", what, p)
			}
		}()
		fn()
	}()
}

func (r *tgRun) stop(who string) {
	r.stopCalled.Store(true)
	r.tg.Stop()
	// every admitted thread decrements `running` before it calls done, and a
	// thread that has not incremented yet has not called done either, so with a
	// Stop that waits this is exactly zero here.
	if n := r.running.Load(); n != 0 {
		r.fail("%s: Stop returned while %d admitted thread(s) had not finished", who, n)
	}
	r.stopReturned.Store(true)
	select {
	case <-r.tg.Done():
	default:
		r.fail("%s: Done() channel still open after Stop returned", who)
	}
}

func (r *tgRun) do(w, i int, op TGOp) {
	who := fmt.Sprintf("worker %d op %d (%s)", w, i, op.Op)
	p2px.Pause(op.Pre)
	switch op.Op {
	case "stop":
		r.stop(who)
	case "add":
		after := r.stopReturned.Load()
		select {
		case <-r.tg.Done():
			if !r.stopCalled.Load() {
				r.fail("%s: Done() closed although Stop was never called", who)
			}
		default:
		}
		done, err := r.tg.Add()
		if err != nil {
			if !errors.Is(err, threadgroup.ErrClosed) {
				r.fail("%s: Add failed with %v, want ErrClosed", who, err)
			}
			if !r.stopCalled.Load() {
				r.fail("%s: Add refused (%v) although Stop was never called", who, err)
			}
			return
		}
		r.running.Add(1)
		r.admitted.Add(1)
		if after {
			r.fail("%s: Add succeeded after a Stop had already returned", who)
		}
		r.goSafe(&r.threads, who+" thread", func() {
			p2px.Pause(op.Hold)
			r.finished.Add(1)
			r.running.Add(-1)
			done()
		})
	case "addctx", "withctx":
		after := r.stopReturned.Load()
		parent, pcancel := context.WithCancel(context.Background())
		var parentCancelled, ownCancelled atomic.Bool
		var ctx context.Context
		var cancel context.CancelFunc
		if op.Op == "addctx" {
			var err error
			ctx, cancel, err = r.tg.AddContext(parent)
			if err != nil {
				pcancel()
				if !errors.Is(err, threadgroup.ErrClosed) {
					r.fail("%s: AddContext failed with %v, want ErrClosed", who, err)
				}
				if !r.stopCalled.Load() {
					r.fail("%s: AddContext refused (%v) although Stop was never called", who, err)
				}
				return
			}
			r.running.Add(1)
			r.admitted.Add(1)
			if after {
				r.fail("%s: AddContext succeeded after a Stop had already returned", who)
			}
		} else {
			ctx, cancel = r.tg.WithContext(parent)
		}
		if op.ParentCancel > 0 {
			r.goSafe(&r.threads, who+" parent-cancel", func() {
				p2px.Pause(op.ParentCancel)
				parentCancelled.Store(true)
				pcancel()
			})
		}
		r.goSafe(&r.threads, who+" thread", func() {
			defer pcancel()
			var timer <-chan time.Time
			if op.Hold >= 0 {
				timer = time.After(time.Duration(op.Hold) * time.Microsecond)
			}
			select {
			case <-ctx.Done():
				// the context may end only for one of the documented reasons
				if !parentCancelled.Load() && !ownCancelled.Load() && !r.stopCalled.Load() {
					r.fail("%s: context cancelled although neither the parent was cancelled nor Stop called", who)
				}
			case <-timer:
			}
			ownCancelled.Store(true)
			if op.Op == "addctx" {
				r.finished.Add(1)
				r.running.Add(-1)
			}
			cancel()
			if ctx.Err() == nil {
				r.fail("%s: context not cancelled after its cancel function returned", who)
			}
			if op.Twice {
				cancel()
			}
		})
	}
}

func tgParked() []string {
	return p2px.StacksWith("coreutils/threadgroup.")
}

func runTG(c TGCase, cs *kit.CaseStats) error {
	r := &tgRun{tg: threadgroup.New()}
	var workers sync.WaitGroup
	stops, ctxOnly, adds := 0, 0, 0
	for w, ops := range c.Workers {
		for _, op := range ops {
			switch {
			case op.Op == "stop":
				stops++
			case op.Hold < 0:
				ctxOnly++
			default:
				adds++
			}
		}
		w, ops := w, ops
		r.goSafe(&workers, fmt.Sprintf("worker %d", w), func() {
			for i, op := range ops {
				r.do(w, i, op)
			}
		})
	}
	waitGroup := func(wg *sync.WaitGroup) bool {
		ch := make(chan struct{})
		go func() { wg.Wait(); close(ch) }()
		select {
		case <-ch:
			return true
		case <-time.After(closeWatchdog):
			return false
		}
	}
	hang := func(what string) error {
		parked := tgParked()
		inStop := false
		for _, g := range parked {
			if strings.Contains(g, "ThreadGroup).Stop") {
				inStop = true
			}
		}
		// a Stop that is still waiting although every admitted thread finished
		// is parked inside the component; anything else is the harness' problem
		if inStop && r.running.Load() == 0 {
			return fmt.Errorf("%s did not finish within %v although every admitted thread is done; goroutines inside threadgroup:\n%s", what, closeWatchdog, p2px.ClipStacks(parked, 8))
		}
		if r.running.Load() > 0 && r.stopCalled.Load() {
			// threads that only wait for their context were never released
			return fmt.Errorf("%s did not finish within %v: %d admitted thread(s) still wait for their context after Stop was called (context not cancelled by Stop); goroutines inside threadgroup:\n%s", what, closeWatchdog, r.running.Load(), p2px.ClipStacks(parked, 8))
		}
		// neither shape: the process itself did not get to run for the whole
		// watchdog period (starved or frozen machine). The abandoned goroutines of
		// this case stay behind, so the "nothing left inside the package" check
		// of later cases in this process would see them: mark the process.
		tgTainted.Store(true)
		cs.Inconclusive("tg-watchdog")
		return nil
	}
	if !waitGroup(&workers) {
		return hang("worker goroutines")
	}
	// the final Stop releases every thread that only waits for its context
	var final sync.WaitGroup
	nfinal := 1
	if stops > 0 {
		nfinal = 2 // concurrent Stops at the end too
	}
	for k := 0; k < nfinal; k++ {
		k := k
		r.goSafe(&final, "final stop", func() { r.stop(fmt.Sprintf("final Stop %d", k)) })
	}
	if !waitGroup(&final) {
		return hang("final Stop")
	}
	if !waitGroup(&r.threads) {
		return hang("threads after the final Stop")
	}
	// after Stop: nothing is admitted any more
	if _, err := r.tg.Add(); !errors.Is(err, threadgroup.ErrClosed) {
		r.fail("Add after Stop returned %v, want ErrClosed", err)
	}
	if ctx, cancel, err := r.tg.AddContext(context.Background()); !errors.Is(err, threadgroup.ErrClosed) {
		r.fail("AddContext after Stop returned %v, want ErrClosed", err)
		if cancel != nil {
			cancel()
		}
		_ = ctx
	}
	// WithContext on a stopped group yields a context that gets cancelled
	wctx, wcancel := r.tg.WithContext(context.Background())
	select {
	case <-wctx.Done():
	case <-time.After(closeWatchdog):
		r.fail("context from WithContext on a stopped group was not cancelled")
	}
	wcancel()
	if a, f := r.admitted.Load(), r.finished.Load(); a != f {
		r.fail("%d threads admitted, %d finished", a, f)
	}
	// no goroutine of the group is left behind (not decidable once an earlier
	// case of this process was abandoned on a watchdog)
	if tgTainted.Load() {
		cs.Class("leak-check-skipped(process-tainted-by-abandoned-case)")
	} else if rest := p2px.WaitNoStacks(10*time.Second, "coreutils/threadgroup."); len(rest) > 0 {
		r.fail("%d goroutine(s) still inside threadgroup after everything was cancelled and stopped:\n%s", len(rest), p2px.ClipStacks(rest, 4))
	}
	r.mu.Lock()
	defer r.mu.Unlock()
	if len(r.errs) > 0 {
		return errors.New(strings.Join(r.errs, "\n"))
	}
	cs.Classf("workers=%d", len(c.Workers))
	if stops >= 2 {
		cs.Class("concurrent-stops")
	}
	if stops >= 1 && adds+ctxOnly >= 2 {
		cs.Class("stop-races-adds")
		cs.NonTrivial()
	}
	if ctxOnly > 0 {
		cs.Class("threads-released-only-by-stop-or-parent")
	}
	if r.admitted.Load() > 0 {
		cs.Class("admitted>0")
	}
	return nil
}

var c18TGProp = kit.Prop[TGCase]{
	ID:   "C18",
	Rule: "thread group: 1..6 worker goroutines × 1..8 calls (Add+done after a drawn hold, AddContext with own cancel / parent cancel / wait-for-context-only, WithContext, Stop) with drawn µs..ms delays, concurrent final Stops. Oracle: when any Stop returns no admitted thread is unfinished; Add/AddContext started after a returned Stop fail with ErrClosed and never fail before Stop was called; contexts end only by parent cancel, own cancel or Stop, and do end on Stop (threads waiting only for their context are released); cancel is idempotent; all Stops return (30 s watchdog ≫ µs work, dump inspected); no goroutine left inside the package. Non-trivial = a Stop issued by a worker while ≥ 2 Add/AddContext calls are issued by the program.",
	Assumptions: []string{
		"a thread never calls Stop while it holds its own admission (caller error, would self-deadlock)",
		"done functions of Add are called exactly once; only context cancel functions are called twice (context.CancelFunc contract)",
	},
	Gen: genTG,
	Run: runTG,
}

func TestC18ThreadGroup(t *testing.T) { c18TGProp.Main(t) }
