package prhp

import (
	"context"
	"fmt"
	"reflect"
	"sync"
	"testing"
	"time"

	"go.sia.tech/core/consensus"
	proto4 "go.sia.tech/core/rhp/v4"
	"go.sia.tech/core/types"
	rhp4 "go.sia.tech/coreutils/rhp/v4"
	"pgregory.net/rapid"

	"verif/kit"
	"verif/rhpx"
)

// ---------------------------------------------------------------- case types

// C08Op is one RPC of a C08 sequence, honest or with exactly one corruption.
type C08Op struct {
	Op      string `json:"op"` // fund repl-acct repl-pool append free roots latest renew refresh-full refresh-partial mine race
	C       int    `json:"c,omitempty"`
	Corrupt string `json:"corrupt,omitempty"`
	Roots   []int  `json:"roots,omitempty"`  // append
	Idx     []int  `json:"idx,omitempty"`    // free
	Off     int    `json:"off,omitempty"`    // roots
	Len     int    `json:"len,omitempty"`    // roots
	Dep     []int  `json:"dep,omitempty"`    // fund: pairs (account, amount code)
	Target  int    `json:"target,omitempty"` // replenish: amount code
	Keys    []int  `json:"keys,omitempty"`   // replenish: account / pool indices
	Alw     int    `json:"alw,omitempty"`    // renew / refresh: allowance code
	Col     int    `json:"col,omitempty"`    // renew / refresh: collateral code
	Stale   bool   `json:"stale,omitempty"`  // renew / refresh: build the request at the stashed (older) basis with the stashed (older, still valid) price table
	What    string `json:"what,omitempty"`   // settings: maxcol | maxdur | accept | prices
	Old     bool   `json:"old,omitempty"`    // address contract C itself even if it has been renewed (do not follow the renewal)
	Race    *C08Op `json:"race,omitempty"`   // race: the second RPC, run concurrently on the same contract
}

// C08Case is a sequence of RPCs against one host.
type C08Case struct {
	Contracts int     `json:"contracts"` // 1 or 2
	Small     bool    `json:"small,omitempty"`
	Ops       []C08Op `json:"ops"`
}

var amountTable = []types.Currency{
	types.NewCurrency64(1), types.NewCurrency64(7), types.NewCurrency64(1000), types.NewCurrency64(1_000_000_000_000),
	types.Siacoins(1), types.Siacoins(3), types.Siacoins(1).Div64(4),
}

// extremeTable holds amounts at the edges of the 128-bit range; lists of them
// make renter-chosen sums overflow (before or at the last addition) or wrap to
// something small and affordable. Codes >= 100 select them.
var extremeTable = []types.Currency{
	types.NewCurrency64(2), types.NewCurrency64(5), types.NewCurrency(^uint64(0), 0), types.NewCurrency(0, 1),
	types.NewCurrency(0, 1<<63), types.NewCurrency(5, 1<<63), types.MaxCurrency.Sub(types.NewCurrency64(7)), types.MaxCurrency,
}

func amount(code int) types.Currency {
	if code >= 100 {
		return extremeTable[(code-100)%len(extremeTable)]
	}
	return amountTable[mod(code, len(amountTable))]
}

func genAmountCode(t *rapid.T, label string) int {
	if rapid.IntRange(0, 6).Draw(t, label+"-extreme") == 0 {
		return 100 + rapid.IntRange(0, len(extremeTable)-1).Draw(t, label+"-x")
	}
	return rapid.IntRange(0, len(amountTable)-1).Draw(t, label)
}

// ---------------------------------------------------------------- executor

type replayKey struct {
	kind string
	id   types.FileContractID
}

type c08 struct {
	*session
	commits      int
	rejected     int // corrupted / replayed requests that were rejected
	refusedStale int // revising RPCs on renewed / expired contracts that were refused
	// what a renter that prepared a request some blocks ago still holds: the
	// chain index of that time, its own outputs with proofs for that index, and
	// the price table it fetched then
	stash *staleView
	// material for replay corruptions: last committed exchange per kind+contract
	lastReq map[replayKey]proto4.Object
	lastSig map[replayKey]types.Signature
}

func newC08(c C08Case, cs *kit.CaseStats) (*c08, error) {
	s, err := newSession(rhpx.HostConfig{RenterOutputs: 6, HostOutputs: 6}, 3, 2, cs)
	if err != nil {
		return nil, err
	}
	x := &c08{session: s, lastReq: map[replayKey]proto4.Object{}, lastSig: map[replayKey]types.Signature{}}
	n := c.Contracts
	if n < 1 {
		n = 1
	}
	for i := 0; i < n; i++ {
		alw, col := types.Siacoins(100), types.Siacoins(200)
		if c.Small && i == 0 {
			alw, col = types.Siacoins(2), types.Siacoins(4)
		}
		if _, err := s.form(alw, col, 60); err != nil {
			s.close()
			return nil, err
		}
	}
	return x, nil
}

func nosig(fc types.V2FileContract) types.V2FileContract {
	fc.RenterSignature, fc.HostSignature = types.Signature{}, types.Signature{}
	return fc
}

// pairInvariant is the relation between consecutive committed revisions.
func pairInvariant(prev, next types.V2FileContract, cs consensus.State) error {
	switch {
	case next.RevisionNumber <= prev.RevisionNumber:
		return fmt.Errorf("revision number does not increase (%d -> %d)", prev.RevisionNumber, next.RevisionNumber)
	case next.RenterPublicKey != prev.RenterPublicKey || next.HostPublicKey != prev.HostPublicKey:
		return fmt.Errorf("keys changed")
	case next.ProofHeight != prev.ProofHeight || next.ExpirationHeight != prev.ExpirationHeight:
		return fmt.Errorf("proof/expiration height changed (%d/%d -> %d/%d)", prev.ProofHeight, prev.ExpirationHeight, next.ProofHeight, next.ExpirationHeight)
	case !next.TotalCollateral.Equals(prev.TotalCollateral):
		return fmt.Errorf("total collateral changed (%v -> %v)", prev.TotalCollateral, next.TotalCollateral)
	case next.RenterOutput.Value.Cmp(prev.RenterOutput.Value) > 0:
		return fmt.Errorf("renter payout grew (%v -> %v)", prev.RenterOutput.Value, next.RenterOutput.Value)
	case !next.RenterOutput.Value.Add(next.HostOutput.Value).Equals(prev.RenterOutput.Value.Add(prev.HostOutput.Value)):
		return fmt.Errorf("payout sum changed (%v -> %v)", prev.RenterOutput.Value.Add(prev.HostOutput.Value), next.RenterOutput.Value.Add(next.HostOutput.Value))
	case next.RenterOutput.Address != prev.RenterOutput.Address || next.HostOutput.Address != prev.HostOutput.Address:
		return fmt.Errorf("payout address changed")
	case next.MissedHostValue.Cmp(prev.MissedHostValue) > 0:
		return fmt.Errorf("missed host value grew")
	}
	h := cs.ContractSigHash(next)
	if !prev.RenterPublicKey.VerifyHash(h, next.RenterSignature) {
		return fmt.Errorf("revision %d: renter signature does not verify over exactly this revision", next.RevisionNumber)
	}
	if !prev.HostPublicKey.VerifyHash(h, next.HostSignature) {
		return fmt.Errorf("revision %d: host signature does not verify over exactly this revision", next.RevisionNumber)
	}
	return nil
}

var commitOps = map[string]bool{"ReviseV2Contract": true, "CreditAccountsWithContract": true, "CreditPoolsWithContract": true}

func successfulCommits(calls []rhpx.Call) (out []rhpx.Call) {
	for _, c := range calls {
		if commitOps[c.Op] && !c.Failed() {
			out = append(out, c)
		}
	}
	return
}

// expectation is what the harness derives itself for one exchange.
type expectation struct {
	op       string // Contractor method that must carry the commit
	rev      types.V2FileContract
	usage    proto4.Usage
	roots    []types.Hash256         // ReviseV2Contract: roots that must be persisted
	deposits []proto4.AccountDeposit // Credit*: deposits that must be credited
	apply    func()                  // updates the model (roots, balances)
}

// verifyCommit checks that the recorded calls since logFrom contain exactly one
// committed revision for m, equal to the harness' expectation, and records it.
func (x *c08) verifyCommit(what string, m *mcontract, logFrom int, e expectation) error {
	calls := successfulCommits(x.H.Log.Since(logFrom))
	if len(calls) != 1 {
		return fmt.Errorf("%s: %d revisions were committed, exactly one expected", what, len(calls))
	}
	c := calls[0]
	if c.Op != e.op || c.ContractID != m.ID {
		return fmt.Errorf("%s: committed through %s on %v, expected %s on %v", what, c.Op, c.ContractID, e.op, m.ID)
	}
	if got, want := nosig(c.Revision), nosig(e.rev); !reflect.DeepEqual(got, want) {
		return fmt.Errorf("%s: the committed revision is not core's derivation from the previous revision and what was sent: %s", what, revDiff(want, got))
	}
	if err := pairInvariant(m.Rev, c.Revision, x.tipState()); err != nil {
		return fmt.Errorf("%s: %w", what, err)
	}
	if c.Usage != e.usage {
		return fmt.Errorf("%s: recorded usage %+v, core's price functions give %+v", what, c.Usage, e.usage)
	}
	if e.op == "ReviseV2Contract" {
		if !reflect.DeepEqual(append([]types.Hash256{}, c.Roots...), append([]types.Hash256{}, e.roots...)) {
			return fmt.Errorf("%s: persisted roots %s, expected %s", what, rhpx.ShortRoots(c.Roots), rhpx.ShortRoots(e.roots))
		}
	} else {
		if !reflect.DeepEqual(append([]proto4.AccountDeposit{}, c.Deposits...), append([]proto4.AccountDeposit{}, e.deposits...)) {
			return fmt.Errorf("%s: credited %v, expected %v", what, c.Deposits, e.deposits)
		}
		if err := conserved(m.Rev, c); err != nil {
			return fmt.Errorf("%s: %w", what, err)
		}
	}
	m.commit(c.Revision)
	if e.apply != nil {
		e.apply()
	}
	x.commits++
	return nil
}

// consensusAccepts checks that core accepts the latest revision as a revision
// of the on-chain element.
//
// justCommitted: the revision was committed by the RPC that just ended, so it
// must be acceptable at the CURRENT tip (a revision persisted after the proof
// window opened or after the contract was renewed fails here). Otherwise the
// check is skipped once the tip has passed the proof height or the contract
// has been renewed, because an older, once valid revision legitimately cannot
// be confirmed any more.
func (x *c08) consensusAccepts(m *mcontract, justCommitted bool) error {
	cs := x.tipState()
	if len(m.Chain) < 2 || (!justCommitted && (m.Renewed || cs.Index.Height >= m.Rev.ProofHeight)) {
		return nil
	}
	basis, fce, err := x.H.Contractor.V2FileContractElement(m.ID)
	if err != nil {
		return fmt.Errorf("contract element of %v unavailable: %v", m.ID, err)
	}
	if basis != cs.Index {
		return fmt.Errorf("%w: contractor basis %v != tip %v", errInfra, basis, cs.Index)
	}
	if fce.V2FileContract.RevisionNumber == m.Rev.RevisionNumber {
		// the latest revision itself has been confirmed
		if !reflect.DeepEqual(nosig(fce.V2FileContract), nosig(m.Rev)) {
			return fmt.Errorf("the confirmed revision %d of %v differs from the host's latest revision of the same number", m.Rev.RevisionNumber, m.ID)
		}
		return nil
	}
	txn := types.V2Transaction{FileContractRevisions: []types.V2FileContractRevision{{Parent: fce, Revision: m.Rev}}}
	if err := consensus.ValidateV2Transaction(consensus.NewMidState(cs), txn); err != nil {
		return fmt.Errorf("the host's latest revision %d of %v is not acceptable to consensus as a revision of the on-chain contract: %v", m.Rev.RevisionNumber, m.ID, err)
	}
	x.cs.Class("consensus-accepts-latest")
	return nil
}

func (x *c08) after(what string, before *rhpx.Snapshot, m *mcontract) error {
	snap := x.snapshot()
	if before != nil {
		if d := before.Diff(snap); d != "" {
			return fmt.Errorf("%s (must change nothing): %s", what, d)
		}
	}
	if d := x.modelDiff(snap); d != "" {
		return fmt.Errorf("%s: %s", what, d)
	}
	if err := merkleInvariant(snap); err != nil {
		return fmt.Errorf("%s: %w", what, err)
	}
	if m != nil {
		return x.consensusAccepts(m, true)
	}
	return nil
}

func setChallenge(o proto4.Object, sig types.Signature) {
	switch r := o.(type) {
	case *proto4.RPCAppendSectorsRequest:
		r.ChallengeSignature = sig
	case *proto4.RPCFreeSectorsRequest:
		r.ChallengeSignature = sig
	case *proto4.RPCReplenishAccountsRequest:
		r.ChallengeSignature = sig
	case *proto4.RPCRenewContractRequest:
		r.ChallengeSignature = sig
	case *proto4.RPCRefreshContractRequest:
		r.ChallengeSignature = sig
	}
}

func getChallenge(o proto4.Object) (types.Signature, bool) {
	switch r := o.(type) {
	case *proto4.RPCAppendSectorsRequest:
		return r.ChallengeSignature, true
	case *proto4.RPCFreeSectorsRequest:
		return r.ChallengeSignature, true
	case *proto4.RPCReplenishAccountsRequest:
		return r.ChallengeSignature, true
	}
	return types.Signature{}, false
}

func setContractID(o proto4.Object, id types.FileContractID) {
	switch r := o.(type) {
	case *proto4.RPCAppendSectorsRequest:
		r.ContractID = id
	case *proto4.RPCFreeSectorsRequest:
		r.ContractID = id
	case *proto4.RPCReplenishAccountsRequest:
		r.ContractID = id
	case *proto4.RPCFundAccountsRequest:
		r.ContractID = id
	case *proto4.RPCSectorRootsRequest:
		r.ContractID = id
	case *proto4.RPCRenewContractRequest:
		r.Renewal.ContractID = id
	case *proto4.RPCRefreshContractRequest:
		r.Refresh.ContractID = id
	}
}

func garbageSig(k byte) (s types.Signature) {
	for i := range s {
		s[i] = byte(i)*11 + k
	}
	return
}

// tamperFor builds the hooks of a message-level corruption. ok=false means
// the corruption is not available here (e.g. nothing to replay yet); the
// exchange is then run honestly.
func (x *c08) tamperFor(kind, corrupt string, m *mcontract) (t *rhpx.Tamper, ok bool) {
	key := replayKey{kind, m.ID}
	switch corrupt {
	case "chal-random":
		return &rhpx.Tamper{Request: func(o proto4.Object) { setChallenge(o, garbageSig(1)) }}, true
	case "chal-otherkey":
		return &rhpx.Tamper{ChallengeKey: &otherKey}, true
	case "chal-n-1":
		return &rhpx.Tamper{ChallengeNumber: func(n uint64) uint64 { return n - 1 }}, true
	case "chal-n+1":
		return &rhpx.Tamper{ChallengeNumber: func(n uint64) uint64 { return n + 1 }}, true
	case "sig-random":
		return &rhpx.Tamper{Signature: func(s *types.Signature) { *s = garbageSig(2) }}, true
	case "sig-otherkey":
		return &rhpx.Tamper{SigKey: &otherKey}, true
	case "sig-amount":
		return &rhpx.Tamper{Revision: func(r *types.V2FileContract) {
			one := types.NewCurrency64(1)
			if r.HostOutput.Value.Cmp(one) >= 0 {
				r.HostOutput.Value = r.HostOutput.Value.Sub(one)
				r.RenterOutput.Value = r.RenterOutput.Value.Add(one)
			}
		}}, true
	case "sig-root":
		return &rhpx.Tamper{Revision: func(r *types.V2FileContract) { r.FileMerkleRoot[0] ^= 1 }}, true
	case "sig-number":
		return &rhpx.Tamper{Revision: func(r *types.V2FileContract) { r.RevisionNumber++ }}, true
	case "chal-zero":
		return &rhpx.Tamper{Request: func(o proto4.Object) { setChallenge(o, types.Signature{}) }}, true
	case "sig-zero":
		return &rhpx.Tamper{Signature: func(s *types.Signature) { *s = types.Signature{} }}, true
	case "chal-replay":
		old, have := x.lastReq[key]
		if !have {
			return nil, false
		}
		sig, ok := getChallenge(old)
		if !ok {
			return nil, false
		}
		return &rhpx.Tamper{Request: func(o proto4.Object) { setChallenge(o, sig) }}, true
	case "sig-replay":
		sig, have := x.lastSig[key]
		if !have {
			return nil, false
		}
		return &rhpx.Tamper{Signature: func(s *types.Signature) { *s = sig }}, true
	case "req-replay":
		old, have := x.lastReq[key]
		if !have {
			return nil, false
		}
		return &rhpx.Tamper{Request: func(o proto4.Object) {
			ov, nv := reflect.ValueOf(old), reflect.ValueOf(o)
			if ov.Type() == nv.Type() {
				nv.Elem().Set(ov.Elem())
			}
		}}, true
	case "prices-otherkey":
		return &rhpx.Tamper{Prices: func(p *proto4.HostPrices) { p.Signature = otherKey.SignHash(p.SigHash()) }}, true
	case "prices-expired":
		return &rhpx.Tamper{Prices: func(p *proto4.HostPrices) {
			p.ValidUntil = time.Now().Add(-time.Second)
			p.Signature = x.H.HostKey.SignHash(p.SigHash())
		}}, true
	case "prices-altered":
		return &rhpx.Tamper{Prices: func(p *proto4.HostPrices) {
			p.StoragePrice = p.StoragePrice.Div64(2)
			p.EgressPrice = p.EgressPrice.Div64(2)
			p.FreeSectorPrice = p.FreeSectorPrice.Div64(2)
			p.ContractPrice = p.ContractPrice.Div64(2)
		}}, true
	case "bad-input-sig", "double-spend":
		// every check of the handler passes, the pool rejects the finished set
		return sigTamper(corrupt), true
	case "other-contract":
		other := types.FileContractID{0xAB, 0xCD}
		for _, c := range x.C {
			if c.ID != m.ID && !c.Renewed {
				other = c.ID
			}
		}
		return &rhpx.Tamper{Request: func(o proto4.Object) { setContractID(o, other) }}, true
	}
	return nil, false
}

var argCorruptions = map[string]bool{
	"idx-oob": true, "idx-dup": true, "off-oob": true, "len-zero": true, "len-oob": true,
	"dep-zero": true, "dep-none": true, "dep-noaccount": true, "dep-overflow": true,
	"target-zero": true, "no-accounts": true, "target-overflow": true,
	"proof-height-low": true, "allowance-zero": true, "collateral-over-max": true,
}

// corruptionsFor lists what can be corrupted in each RPC.
func corruptionsFor(op string) []string {
	chal := []string{"chal-random", "chal-otherkey", "chal-n-1", "chal-n+1", "chal-zero"}
	sig := []string{"sig-random", "sig-otherkey", "sig-amount", "sig-root", "sig-number", "sig-replay", "sig-zero"}
	prices := []string{"prices-otherkey", "prices-expired", "prices-altered"}
	cat := func(l ...[]string) (out []string) {
		for _, x := range l {
			out = append(out, x...)
		}
		return
	}
	switch op {
	case "append":
		return cat(chal, sig, prices, []string{"req-replay", "chal-replay", "other-contract"})
	case "free":
		return cat(chal, sig, prices, []string{"req-replay", "chal-replay", "other-contract", "idx-oob", "idx-dup"})
	case "roots":
		return cat(sig, prices, []string{"req-replay", "other-contract", "off-oob", "len-zero", "len-oob"})
	case "fund":
		return cat(sig, []string{"req-replay", "other-contract", "dep-zero", "dep-none", "dep-noaccount", "dep-overflow"})
	case "repl-acct", "repl-pool":
		return cat(chal, sig, []string{"req-replay", "chal-replay", "other-contract", "target-zero", "no-accounts", "target-overflow"})
	case "renew":
		return cat(chal, prices, []string{"sig-random", "sig-otherkey", "sig-amount", "other-contract", "proof-height-low", "allowance-zero", "collateral-over-max", "bad-input-sig", "double-spend"})
	case "refresh-full", "refresh-partial":
		return cat(chal, prices, []string{"sig-random", "sig-otherkey", "sig-amount", "other-contract", "allowance-zero", "collateral-over-max", "bad-input-sig", "double-spend"})
	}
	return nil
}

// live returns the contract an op addresses, following renewals.
func (x *c08) live(i int) *mcontract {
	m := x.C[mod(i, len(x.C))]
	for m.Renewed {
		next := m
		for _, c := range x.C {
			if c.ID == m.ID.V2RenewalID() {
				next = c
			}
		}
		if next == m {
			break
		}
		m = next
	}
	return m
}

// target returns the contract an op addresses: the live successor, or - with
// Old - exactly contract C even if it has been renewed.
func (x *c08) target(op C08Op) *mcontract {
	if op.Old {
		return x.C[mod(op.C, len(x.C))]
	}
	return x.live(op.C)
}

// nonRevisable reports (by the harness' own bookkeeping) that the host must
// refuse every revising RPC on m: it was renewed / refreshed, or the tip has
// reached its proof height.
func (x *c08) nonRevisable(m *mcontract) bool {
	return m.Renewed || x.H.CM.Tip().Height >= m.Rev.ProofHeight
}

// exchange is one prepared RPC: how to run it and what the harness expects if
// the host commits it.
type exchange struct {
	kind    string
	what    string
	run     func(t *rhpx.Tamper) (rhpx.Result, proto4.Object, types.Signature)
	expect  func() (expectation, error) // error: the harness cannot derive a revision (unaffordable) => must be rejected
	mustOK  bool                        // honest + derivable => the host must complete it
	noop    bool                        // honest completion commits nothing (replenish with nothing to deposit)
	invalid bool                        // argument-level corruption applied
}

func (x *c08) prepare(op C08Op, m *mcontract) (exchange, error) {
	size := len(m.Roots)
	ac := op.Corrupt
	if !argCorruptions[ac] {
		ac = ""
	}
	e := exchange{kind: op.Op, invalid: ac != ""}
	switch op.Op {
	case "append":
		var roots, knownRoots []types.Hash256
		for _, k := range op.Roots {
			roots = append(roots, rootOf(k))
			if known(k) {
				knownRoots = append(knownRoots, rootOf(k))
			}
		}
		if len(roots) == 0 {
			roots, knownRoots = []types.Hash256{rootOf(0)}, []types.Hash256{rootOf(0)}
		}
		e.what = fmt.Sprintf("append %v", op.Roots)
		prices := x.Prices
		e.run = func(t *rhpx.Tamper) (rhpx.Result, proto4.Object, types.Signature) {
			r := x.R.Append(m.view(), prices, roots, rhpx.Script{}, t)
			return r.Result, &r.Req, r.RenterSig
		}
		e.expect = func() (expectation, error) {
			newRoots := listAppend(m.Roots, knownRoots)
			rev, usage, err := proto4.ReviseForAppendSectors(m.Rev, prices, proto4.MetaRoot(newRoots), uint64(len(knownRoots)))
			return expectation{op: "ReviseV2Contract", rev: rev, usage: usage, roots: newRoots, apply: func() { m.Roots = newRoots }}, err
		}
		e.mustOK = true
	case "free":
		indices := normalise(resolveIdx(op.Idx, 0, size))
		switch ac {
		case "idx-oob":
			indices = append([]uint64{uint64(size)}, indices...)
		case "idx-dup":
			if len(indices) == 0 {
				indices = []uint64{0}
			}
			indices = append(indices, indices[len(indices)-1])
		}
		e.what = fmt.Sprintf("free %v of %d", indices, size)
		prices := x.Prices
		e.run = func(t *rhpx.Tamper) (rhpx.Result, proto4.Object, types.Signature) {
			r := x.R.Free(m.view(), prices, indices, rhpx.Script{}, t)
			return r.Result, &r.Req, r.RenterSig
		}
		e.expect = func() (expectation, error) {
			if size == 0 || len(indices) == 0 {
				return expectation{}, fmt.Errorf("nothing to free")
			}
			seen := map[uint64]bool{}
			for _, i := range indices {
				if i >= uint64(size) || seen[i] {
					return expectation{}, fmt.Errorf("index out of range or repeated")
				}
				seen[i] = true
			}
			newRoots := listFree(m.Roots, indices)
			rev, usage, err := proto4.ReviseForFreeSectors(m.Rev, prices, proto4.MetaRoot(newRoots), len(indices))
			return expectation{op: "ReviseV2Contract", rev: rev, usage: usage, roots: newRoots, apply: func() { m.Roots = newRoots }}, err
		}
		e.mustOK = size > 0 && len(indices) > 0
	case "roots":
		off, n := uint64(0), uint64(0)
		if size > 0 {
			off = uint64(mod(op.Off, size))
			n = uint64(mod(op.Len, size-int(off))) + 1
		}
		switch ac {
		case "off-oob":
			off, n = uint64(size+1), 1
		case "len-zero":
			n = 0
		case "len-oob":
			off, n = 0, uint64(size+1)
		}
		e.what = fmt.Sprintf("roots [%d,+%d) of %d", off, n, size)
		prices := x.Prices
		e.run = func(t *rhpx.Tamper) (rhpx.Result, proto4.Object, types.Signature) {
			r := x.R.SectorRoots(m.view(), prices, off, n, rhpx.Script{}, t)
			return r.Result, &r.Req, r.RenterSig
		}
		e.expect = func() (expectation, error) {
			if n == 0 || off+n > uint64(size) {
				return expectation{}, fmt.Errorf("invalid range")
			}
			rev, usage, err := proto4.ReviseForSectorRoots(m.Rev, prices, n)
			return expectation{op: "ReviseV2Contract", rev: rev, usage: usage, roots: m.Roots}, err
		}
		e.mustOK = size > 0
	case "fund":
		var deps []proto4.AccountDeposit
		for i := 0; i+1 < len(op.Dep); i += 2 {
			deps = append(deps, proto4.AccountDeposit{Account: x.Accts[mod(op.Dep[i], len(x.Accts))], Amount: amount(op.Dep[i+1])})
		}
		if len(deps) == 0 {
			deps = []proto4.AccountDeposit{{Account: x.Accts[0], Amount: amount(2)}}
		}
		switch ac {
		case "dep-zero":
			deps[len(deps)-1].Amount = types.ZeroCurrency
		case "dep-none":
			deps = nil
		case "dep-noaccount":
			deps[0].Account = proto4.Account{}
		case "dep-overflow":
			deps = append(deps, proto4.AccountDeposit{Account: x.Accts[0], Amount: types.MaxCurrency}, proto4.AccountDeposit{Account: x.Accts[1], Amount: types.MaxCurrency})
		}
		e.what = fmt.Sprintf("fund %d deposits", len(deps))
		e.run = func(t *rhpx.Tamper) (rhpx.Result, proto4.Object, types.Signature) {
			r := x.R.Fund(m.view(), deps, rhpx.Script{}, t)
			return r.Result, &r.Req, r.RenterSig
		}
		e.expect = func() (expectation, error) {
			var total types.Currency
			for _, d := range deps {
				var o bool
				if total, o = total.AddWithOverflow(d.Amount); o {
					return expectation{}, fmt.Errorf("overflow")
				}
			}
			if len(deps) == 0 {
				return expectation{}, fmt.Errorf("no deposits")
			}
			rev, usage, err := proto4.ReviseForFundAccounts(m.Rev, total)
			return expectation{op: "CreditAccountsWithContract", rev: rev, usage: usage, deposits: deps, apply: func() {
				for _, d := range deps {
					for i, a := range x.Accts {
						if a == d.Account {
							x.Bal[i] = x.Bal[i].Add(d.Amount)
						}
					}
				}
			}}, err
		}
		e.mustOK = true
	case "repl-acct", "repl-pool":
		pools := op.Op == "repl-pool"
		all, bal := x.Accts, x.Bal
		creditOp := "CreditAccountsWithContract"
		if pools {
			all, bal, creditOp = x.Pools, x.PBal, "CreditPoolsWithContract"
		}
		var keys []proto4.Account
		var kidx []int
		for _, i := range distinct(op.Keys, len(all)) { // a key listed twice is C15's business
			keys, kidx = append(keys, all[i]), append(kidx, i)
		}
		if len(keys) == 0 {
			keys, kidx = []proto4.Account{all[0]}, []int{0}
		}
		target := amount(op.Target)
		switch ac {
		case "target-zero":
			target = types.ZeroCurrency
		case "no-accounts":
			keys, kidx = nil, nil
		case "target-overflow":
			target = types.MaxCurrency
			keys, kidx = []proto4.Account{all[0], all[1]}, []int{0, 1}
		}
		e.what = fmt.Sprintf("%s %v to %v", op.Op, kidx, target)
		// the harness' own deposit computation: max(target - balance, 0) on
		// the balance before the RPC, per listed (distinct) key
		var deps []proto4.AccountDeposit
		var sum types.Currency
		overflow := false
		for j, i := range kidx {
			d := proto4.AccountDeposit{Account: keys[j]}
			if target.Cmp(bal[i]) > 0 {
				d.Amount = target.Sub(bal[i])
			}
			var o bool
			sum, o = sum.AddWithOverflow(d.Amount)
			overflow = overflow || o
			deps = append(deps, d)
		}
		e.noop = sum.IsZero() && !overflow && len(keys) > 0 && !target.IsZero()
		e.run = func(t *rhpx.Tamper) (rhpx.Result, proto4.Object, types.Signature) {
			r := x.R.Replenish(m.view(), pools, keys, target, rhpx.Script{}, t)
			return r.Result, &r.Req, r.RenterSig
		}
		e.expect = func() (expectation, error) {
			if overflow || len(keys) == 0 || target.IsZero() {
				return expectation{}, fmt.Errorf("invalid request")
			}
			rev, usage, err := proto4.ReviseForReplenish(m.Rev, sum)
			return expectation{op: creditOp, rev: rev, usage: usage, deposits: deps, apply: func() {
				for j, i := range kidx {
					bal[i] = bal[i].Add(deps[j].Amount)
				}
			}}, err
		}
		e.mustOK = true
	default:
		return e, fmt.Errorf("harness: unknown op %q", op.Op)
	}
	return e, nil
}

// rpc runs one revising RPC (fund, replenish, append, free, roots), honest or
// corrupted, and applies the oracle.
func (x *c08) rpc(op C08Op) error { return x.rpcOn(op, x.target(op)) }

func (x *c08) rpcOn(op C08Op, m *mcontract) error {
	e, err := x.prepare(op, m)
	if err != nil {
		return err
	}
	var tamper *rhpx.Tamper
	corrupted := e.invalid
	if op.Corrupt != "" && !argCorruptions[op.Corrupt] {
		t, ok := x.tamperFor(e.kind, op.Corrupt, m)
		if ok {
			tamper, corrupted = t, true
		} else {
			x.cs.Class("corruption-unavailable")
		}
	}
	if e.noop && len(op.Corrupt) > 3 && op.Corrupt[:4] == "sig-" {
		// nothing is signed when nothing needs depositing, so a signature
		// corruption cannot apply: the exchange is honest
		corrupted, tamper = e.invalid, nil
	}
	what := e.kind + ": " + e.what
	if corrupted {
		what += " [" + op.Corrupt + "]"
	}
	before := x.snapshot()
	logFrom := x.H.Log.Len()
	res, req, sig := e.run(tamper)
	if res.Infra != nil {
		x.cs.Inconclusive("watchdog")
		return errInconclusive
	}
	exp, derr := e.expect()
	x.cs.Class("rpc:" + e.kind)
	if x.nonRevisable(m) {
		// renewed, refreshed or past its proof height: nothing may be revised
		why := "past-proof-height"
		if m.Renewed {
			why = "renewed"
		}
		x.cs.Class("non-revisable:" + why + ":" + e.kind)
		if res.Done {
			return fmt.Errorf("%s: the host completed a revising RPC on a contract that is no longer revisable (renewed=%v, tip height %d, proof height %d)", what, m.Renewed, x.H.CM.Tip().Height, m.Rev.ProofHeight)
		}
		if err := quietLog(x.H.Log.Since(logFrom)); err != nil {
			return fmt.Errorf("%s on a non-revisable contract (%v): %w", what, res, err)
		}
		x.refusedStale++
		return x.after(what+" on a non-revisable contract -> "+res.String(), &before, nil)
	}
	if corrupted {
		x.cs.Class("corrupt:" + op.Corrupt)
		if res.Done {
			return fmt.Errorf("%s: the host completed a corrupted exchange", what)
		}
		if err := quietLog(x.H.Log.Since(logFrom)); err != nil {
			return fmt.Errorf("%s (%v): %w", what, res, err)
		}
		x.rejected++
		return x.after(what+" -> "+res.String(), &before, nil)
	}
	if derr != nil {
		// honest but unaffordable / out of range by the harness' own derivation
		x.cs.Class("honest-underivable")
		if res.Done {
			return fmt.Errorf("%s: the host completed the exchange although core cannot derive a revision: %v", what, derr)
		}
		if err := quietLog(x.H.Log.Since(logFrom)); err != nil {
			return fmt.Errorf("%s (%v): %w", what, res, err)
		}
		return x.after(what+" -> "+res.String(), &before, nil)
	}
	if !res.Done {
		if e.mustOK {
			return fmt.Errorf("%s: an honest, affordable exchange was refused: %v", what, res)
		}
		return x.after(what+" -> "+res.String(), &before, nil)
	}
	if e.noop {
		x.cs.Class("replenish-noop")
		if err := quietLog(x.H.Log.Since(logFrom)); err != nil {
			return fmt.Errorf("%s: %w", what, err)
		}
		return x.after(what+" (nothing to deposit)", &before, nil)
	}
	if err := x.verifyCommit(what, m, logFrom, exp); err != nil {
		return err
	}
	x.lastReq[replayKey{e.kind, m.ID}] = req
	x.lastSig[replayKey{e.kind, m.ID}] = sig
	return x.after(what, nil, m)
}

func (x *c08) latest(op C08Op) error {
	if op.Len == 1 {
		// ask for the id the live contract will get when it is renewed: the
		// host does not know it yet, must say so and must not remember it
		id := x.live(op.C).ID.V2RenewalID()
		before := x.snapshot()
		logFrom := x.H.Log.Len()
		_, err := x.R.LatestRevision(id)
		if stop, e := infra(x.cs, err); stop {
			return e
		}
		if err == nil {
			return fmt.Errorf("latest revision of a contract id the host has never seen succeeded")
		}
		x.cs.Class("rpc:latest-unknown-id")
		for _, c := range x.H.Log.Since(logFrom) {
			if mutatingOps[c.Op] && !c.Failed() {
				return fmt.Errorf("latest revision of an unknown id: host performed %s", c.Op)
			}
		}
		return x.after("latest revision of an unknown id", &before, nil)
	}
	m := x.C[mod(op.C, len(x.C))]
	resp, err := x.R.LatestRevision(m.ID)
	if stop, e := infra(x.cs, err); stop {
		return e
	}
	if err != nil {
		return fmt.Errorf("latest revision of a known contract failed: %v", err)
	}
	if !reflect.DeepEqual(resp.Contract, m.Rev) {
		return fmt.Errorf("RPCLatestRevision returned a revision that is not the last committed one: %s", revDiff(m.Rev, resp.Contract))
	}
	wantRevisable := !m.Renewed && x.H.CM.Tip().Height < m.Rev.ProofHeight
	if resp.Renewed != m.Renewed || resp.Revisable != wantRevisable {
		return fmt.Errorf("RPCLatestRevision: renewed=%v revisable=%v, expected %v %v", resp.Renewed, resp.Revisable, m.Renewed, wantRevisable)
	}
	x.cs.Class("rpc:latest")
	return nil
}

func (x *c08) renew(op C08Op) error { return x.renewOn(op, x.target(op)) }

func (x *c08) renewOn(op C08Op, m *mcontract) error {
	args := rhpx.RenewArgs{Kind: op.Op, Allowance: amount(op.Alw).Add(types.Siacoins(1)), Collateral: amount(op.Col).Add(types.Siacoins(2)), ProofHeight: m.Rev.ProofHeight + 10}
	corrupted := false
	var tamper *rhpx.Tamper
	switch op.Corrupt {
	case "":
	case "proof-height-low":
		args.ProofHeight, corrupted = m.Rev.ProofHeight, true
	case "allowance-zero":
		args.Allowance, corrupted = types.ZeroCurrency, true
	case "collateral-over-max":
		args.Collateral, corrupted = x.H.Settings.RHP4Settings().MaxCollateral.Add(types.Siacoins(1)), true
		args.Allowance = args.Collateral // keep the allowance above the minimum so that only the cap decides
	default:
		if t, ok := x.tamperFor(op.Op, op.Corrupt, m); ok {
			tamper, corrupted = t, true
		}
	}
	what := fmt.Sprintf("%s of contract at revision %d", op.Op, m.Rev.RevisionNumber)
	if corrupted {
		what += " [" + op.Corrupt + "]"
	}
	before := x.snapshot()
	logFrom := x.H.Log.Len()
	prices := x.Prices
	if op.Stale && !corrupted && x.stash != nil {
		// the renter still holds the view it had when it took the stash: an
		// older (real) chain index, inputs proved for it, and a price table
		// whose signed tip height is equally old but which is still valid
		prices = x.stash.prices
		tamper = &rhpx.Tamper{Request: x.staleRequest}
		what += fmt.Sprintf(" [request built at height %d, host tip %d]", x.stash.basis.Height, x.H.CM.Tip().Height)
	}
	forbidden := x.forbiddenBySettings(m, args, prices)
	r := x.R.Renew(m.view(), prices, args, rhpx.Script{}, tamper)
	if r.Infra != nil {
		x.cs.Inconclusive("watchdog")
		return errInconclusive
	}
	x.cs.Class("rpc:" + op.Op)
	calls := x.H.Log.Since(logFrom)
	if forbidden != nil && !corrupted && !x.nonRevisable(m) {
		// the settings the operator has in force right now (or core's own
		// request validation under them) forbid this request
		x.cs.Class("forbidden-by-settings-in-force:" + op.Op)
		if r.Done {
			return fmt.Errorf("%s: accepted although the host settings in force when it arrived forbid it: %v", what, forbidden)
		}
		if err := quietLog(calls); err != nil {
			return fmt.Errorf("%s (forbidden: %v; %v): %w", what, forbidden, r.Result, err)
		}
		x.rejected++
		return x.after(what+" -> refused ("+forbidden.Error()+")", &before, nil)
	}
	if x.nonRevisable(m) {
		why := "past-proof-height"
		if m.Renewed {
			why = "renewed"
		}
		x.cs.Class("non-revisable:" + why + ":" + op.Op)
		if r.Done {
			return fmt.Errorf("%s: the host renewed a contract that is no longer revisable (renewed=%v, tip height %d, proof height %d)", what, m.Renewed, x.H.CM.Tip().Height, m.Rev.ProofHeight)
		}
		if err := quietLog(calls); err != nil {
			return fmt.Errorf("%s on a non-revisable contract (%v): %w", what, r.Result, err)
		}
		x.refusedStale++
		return x.after(what+" on a non-revisable contract -> "+r.Result.String(), &before, nil)
	}
	if corrupted || !r.Done {
		if corrupted {
			x.cs.Class("corrupt:" + op.Corrupt)
			if r.Done {
				return fmt.Errorf("%s: the host completed a corrupted exchange", what)
			}
			x.rejected++
		} else {
			x.cs.Class("renewal-refused")
		}
		if err := quietLog(calls); err != nil {
			return fmt.Errorf("%s (%v): %w", what, r.Result, err)
		}
		return x.after(what+" -> "+r.Result.String(), &before, nil)
	}
	nm, err := x.verifyRenewal(what, m, op.Op, args, prices, calls)
	if err != nil {
		return err
	}
	if err := x.H.Mine(types.VoidAddress, 1); err != nil {
		return err
	}
	// confirmable: after one block the chain holds exactly the new contract
	_, fce, err := x.H.Contractor.V2FileContractElement(nm.ID)
	if err != nil {
		return fmt.Errorf("%s: the renewal did not confirm: %v", what, err)
	}
	if !reflect.DeepEqual(fce.V2FileContract, nm.Rev) {
		return fmt.Errorf("%s: the confirmed contract differs from the one handed to the contractor", what)
	}
	x.cs.Class("renewal-committed")
	if err := x.after(what, nil, nil); err != nil {
		return err
	}
	return x.staleBattery(m)
}

type staleView struct {
	basis  types.ChainIndex
	utxos  map[types.SiacoinOutputID]types.SiacoinElement
	prices proto4.HostPrices
}

// takeStash records the renter's current view (tip, its spendable outputs with
// proofs for that tip, a freshly fetched price table).
func (x *c08) takeStash() error {
	outs, err := x.H.RenterWallet.SpendableOutputs()
	if err != nil {
		return fmt.Errorf("%w: %v", errInfra, err)
	}
	p, err := x.H.FetchPrices()
	if err != nil {
		return fmt.Errorf("%w: %v", errInfra, err)
	}
	st := &staleView{basis: x.H.CM.Tip(), utxos: map[types.SiacoinOutputID]types.SiacoinElement{}, prices: p}
	for _, o := range outs {
		st.utxos[o.ID] = o.Copy()
	}
	x.stash = st
	x.cs.Class("stash-taken")
	return nil
}

// staleRequest rewrites a renew / refresh request so that it is what the renter
// would have built at the stashed index: older basis, inputs proved for it.
func (x *c08) staleRequest(o proto4.Object) {
	st := x.stash
	swap := func(basis *types.ChainIndex, inputs []types.SiacoinElement, parents []types.V2Transaction) {
		if len(parents) > 0 {
			return
		}
		repl := make([]types.SiacoinElement, len(inputs))
		for i, in := range inputs {
			old, ok := st.utxos[in.ID]
			if !ok {
				return // an output that did not exist then
			}
			repl[i] = old.Copy()
		}
		copy(inputs, repl)
		*basis = st.basis
		x.cs.Class("request-built-at-stale-basis")
	}
	switch r := o.(type) {
	case *proto4.RPCRenewContractRequest:
		swap(&r.Basis, r.RenterInputs, r.RenterParents)
	case *proto4.RPCRefreshContractRequest:
		swap(&r.Basis, r.RenterInputs, r.RenterParents)
	}
}

// mineNear brings the tip to within d (1..18) blocks of the live contract's
// proof height - it is then still revisable, but too close to its proof window
// for any renewal or refresh - and issues all three kinds, each built at the
// current tip and at the basis / price table stashed before the mining.
func (x *c08) mineNear(op C08Op) error {
	m := x.live(op.C)
	if x.nonRevisable(m) {
		return nil
	}
	if x.stash == nil {
		if err := x.takeStash(); err != nil {
			return err
		}
	}
	d := uint64(1 + mod(op.Len, 18))
	goal := m.Rev.ProofHeight - d
	if tip := x.H.CM.Tip().Height; tip < goal {
		if err := x.H.Mine(types.VoidAddress, int(goal-tip)); err != nil {
			return err
		}
	}
	x.cs.Class("mined-near-proof-height")
	if err := x.after("mine near the proof height", nil, nil); err != nil {
		return err
	}
	for _, kind := range []string{"refresh-full", "refresh-partial", "renew"} {
		for _, stale := range []bool{true, false} {
			if m.Renewed {
				return nil
			}
			if err := x.renewOn(C08Op{Op: kind, Alw: op.Alw, Col: op.Col, Stale: stale}, m); err != nil {
				return err
			}
		}
	}
	return nil
}

// forbiddenBySettings judges a renew / refresh request against the host
// settings in force when it arrives (the harness sets them itself through the
// settings reporter, as an operator would) with core's own request validation:
// not accepting contracts, collateral above MaxCollateral, duration above
// MaxContractDuration, and core's parameter rules. nil = not forbidden.
func (x *c08) forbiddenBySettings(m *mcontract, args rhpx.RenewArgs, prices proto4.HostPrices) error {
	st := x.H.Settings.RHP4Settings()
	if !st.AcceptingContracts {
		return fmt.Errorf("the host is not accepting contracts")
	}
	hostKey := x.H.HostKey.PublicKey()
	tip := x.H.CM.Tip()
	dummyBasis := types.ChainIndex{Height: 1, ID: types.BlockID{1}}
	fee := types.NewCurrency64(1)
	if args.Kind == "renew" {
		req := proto4.RPCRenewContractRequest{Prices: prices, MinerFee: fee, Basis: dummyBasis,
			Renewal: proto4.RPCRenewContractParams{ContractID: m.ID, Allowance: args.Allowance, Collateral: args.Collateral, ProofHeight: args.ProofHeight}}
		return req.Validate(hostKey, tip, m.Rev, st.MaxCollateral, st.MaxContractDuration)
	}
	req := proto4.RPCRefreshContractRequest{Prices: prices, MinerFee: fee, Basis: dummyBasis,
		Refresh: proto4.RPCRefreshContractParams{ContractID: m.ID, Allowance: args.Allowance, Collateral: args.Collateral}}
	return req.Validate(hostKey, tip, m.Rev, st.MaxCollateral, args.Kind == "refresh-partial")
}

// changeSettings is the operator changing the host's settings at runtime.
func (x *c08) changeSettings(op C08Op) error {
	st := x.H.Settings.RHP4Settings()
	switch op.What {
	case "maxcol":
		st.MaxCollateral = []types.Currency{types.Siacoins(1), types.Siacoins(3), types.Siacoins(100), types.Siacoins(250), types.Siacoins(10000)}[mod(op.Len, 5)]
	case "maxdur":
		st.MaxContractDuration = []uint64{50, 150, 210, 1000}[mod(op.Len, 4)]
	case "accept":
		st.AcceptingContracts = op.Len%2 == 1
	case "prices":
		f := uint64(1 + mod(op.Len, 3))
		p := rhpx.DefaultPrices()
		st.Prices.StoragePrice, st.Prices.EgressPrice, st.Prices.IngressPrice = p.StoragePrice.Mul64(f), p.EgressPrice.Mul64(f), p.IngressPrice.Mul64(f)
		st.Prices.ContractPrice, st.Prices.FreeSectorPrice, st.Prices.Collateral = p.ContractPrice.Mul64(f), p.FreeSectorPrice.Mul64(f), p.Collateral.Mul64(f)
	default:
		return nil
	}
	x.H.Settings.Update(st)
	x.cs.Class("settings-changed:" + op.What)
	if op.What == "prices" && op.Off%2 == 0 {
		// the renter may keep using its still valid table or fetch the new one
		p, err := x.H.FetchPrices()
		if err != nil {
			return fmt.Errorf("%w: %v", errInfra, err)
		}
		x.Prices = p
	}
	// the advertised settings are the new ones at once
	adv, err := rhp4.RPCSettings(context.Background(), x.H.Client)
	if stop, e := infra(x.cs, x.idle(err)); stop {
		return e
	}
	if err != nil || adv.AcceptingContracts != st.AcceptingContracts || !adv.MaxCollateral.Equals(st.MaxCollateral) || adv.MaxContractDuration != st.MaxContractDuration {
		return fmt.Errorf("RPCSettings does not advertise the settings in force (err %v)", err)
	}
	if err := x.after("operator changed "+op.What, nil, nil); err != nil {
		return err
	}
	// every renewal kind right away, judged against the new settings
	m := x.live(op.C)
	if x.nonRevisable(m) {
		return nil
	}
	for _, kind := range []string{"refresh-full", "renew", "refresh-partial"} {
		if m.Renewed {
			break
		}
		if err := x.renewOn(C08Op{Op: kind, Alw: op.Alw, Col: op.Col}, m); err != nil {
			return err
		}
	}
	return nil
}

// staleBattery issues every revising RPC kind, honestly built on the last
// revision, against a contract that is no longer revisable (renewed or past
// its proof height): each must be refused and change nothing.
func (x *c08) staleBattery(m *mcontract) error {
	n := len(m.Roots)
	for _, op := range []C08Op{
		{Op: "roots", Off: 0, Len: n},
		{Op: "append", Roots: []int{5}},
		{Op: "free", Idx: []int{0}},
		{Op: "fund", Dep: []int{0, 2}},
		{Op: "repl-acct", Keys: []int{0}, Target: 4},
		{Op: "repl-pool", Keys: []int{0}, Target: 4},
	} {
		if err := x.rpcOn(op, m); err != nil {
			return err
		}
	}
	for _, kind := range []string{"renew", "refresh-full", "refresh-partial"} {
		if err := x.renewOn(C08Op{Op: kind, Alw: 4, Col: 4}, m); err != nil {
			return err
		}
	}
	return nil
}

// verifyRenewal checks the calls recorded during a completed renew/refresh:
// exactly one RenewV2Contract, carrying core's renewal of the latest committed
// revision and the request, with four valid signatures; it then records the
// renewal in the model and returns the new contract.
func (x *c08) verifyRenewal(what string, m *mcontract, kind string, args rhpx.RenewArgs, prices proto4.HostPrices, calls []rhpx.Call) (*mcontract, error) {
	// completed: the set handed to the contractor must carry core's renewal,
	// fully signed
	var renewCalls []rhpx.Call
	for _, c := range calls {
		if c.Op == "RenewV2Contract" && !c.Failed() {
			renewCalls = append(renewCalls, c)
		}
		if (commitOps[c.Op] || c.Op == "AddV2Contract") && !c.Failed() {
			return nil, fmt.Errorf("%s: unexpected %s during a renewal", what, c.Op)
		}
	}
	if len(renewCalls) != 1 {
		return nil, fmt.Errorf("%s: %d RenewV2Contract calls, one expected", what, len(renewCalls))
	}
	set := renewCalls[0].Set
	if len(set.Transactions) == 0 {
		return nil, fmt.Errorf("%s: empty renewal set", what)
	}
	txn := set.Transactions[len(set.Transactions)-1]
	if len(txn.FileContractResolutions) != 1 || types.FileContractID(txn.FileContractResolutions[0].Parent.ID) != m.ID {
		return nil, fmt.Errorf("%s: the renewal set does not resolve exactly this contract", what)
	}
	got, ok := txn.FileContractResolutions[0].Resolution.(*types.V2FileContractRenewal)
	if !ok {
		return nil, fmt.Errorf("%s: resolution is not a renewal", what)
	}
	var exp types.V2FileContractRenewal
	var expUsage proto4.Usage
	hostAddr := x.H.HostWallet.Address()
	switch kind {
	case "renew":
		exp, expUsage = proto4.RenewContract(m.Rev, prices, hostAddr, proto4.RPCRenewContractParams{ContractID: m.ID, Allowance: args.Allowance, Collateral: args.Collateral, ProofHeight: args.ProofHeight})
	case "refresh-full":
		exp, expUsage = proto4.RefreshContractFullRollover(m.Rev, prices, hostAddr, proto4.RPCRefreshContractParams{ContractID: m.ID, Allowance: args.Allowance, Collateral: args.Collateral})
	default:
		exp, expUsage = proto4.RefreshContractPartialRollover(m.Rev, prices, hostAddr, proto4.RPCRefreshContractParams{ContractID: m.ID, Allowance: args.Allowance, Collateral: args.Collateral})
	}
	// the renewal must finalise the contract from the host's LATEST committed
	// revision: what it pays out and rolls over is exactly that revision's payouts
	if rs, unlock, lerr := x.H.Contractor.LockV2Contract(m.ID); lerr == nil {
		latest := rs.Revision
		unlock()
		if rshare, hshare := got.FinalRenterOutput.Value.Add(got.RenterRollover), got.FinalHostOutput.Value.Add(got.HostRollover); !rshare.Equals(latest.RenterOutput.Value) || !hshare.Equals(latest.HostOutput.Value) {
			return nil, fmt.Errorf("%s: the renewal is not based on the host's latest committed revision %d: renter share %v (latest renter payout %v), host share %v (latest host payout %v)", what, latest.RevisionNumber, rshare, latest.RenterOutput.Value, hshare, latest.HostOutput.Value)
		}
		if !reflect.DeepEqual(latest, m.Rev) {
			return nil, fmt.Errorf("%s: the renewed contract's latest committed revision is not the model's: %s", what, revDiff(m.Rev, latest))
		}
	} else {
		return nil, fmt.Errorf("%s: cannot read the renewed contract afterwards: %v", what, lerr)
	}
	cmp := *got
	cmp.RenterSignature, cmp.HostSignature = types.Signature{}, types.Signature{}
	cmp.NewContract = nosig(cmp.NewContract)
	if !reflect.DeepEqual(cmp, exp) {
		return nil, fmt.Errorf("%s: the renewal handed to the contractor is not core's renewal of the previous revision and the request:\n got %+v\nwant %+v", what, cmp, exp)
	}
	if renewCalls[0].Usage != expUsage {
		return nil, fmt.Errorf("%s: recorded usage %+v, core gives %+v", what, renewCalls[0].Usage, expUsage)
	}
	cs := x.tipState()
	rh, ch := cs.RenewalSigHash(*got), cs.ContractSigHash(got.NewContract)
	rk, hk := m.Rev.RenterPublicKey, m.Rev.HostPublicKey
	switch {
	case !rk.VerifyHash(rh, got.RenterSignature):
		return nil, fmt.Errorf("%s: renter renewal signature does not verify", what)
	case !hk.VerifyHash(rh, got.HostSignature):
		return nil, fmt.Errorf("%s: host renewal signature does not verify", what)
	case !rk.VerifyHash(ch, got.NewContract.RenterSignature):
		return nil, fmt.Errorf("%s: renter signature of the new contract does not verify", what)
	case !hk.VerifyHash(ch, got.NewContract.HostSignature):
		return nil, fmt.Errorf("%s: host signature of the new contract does not verify", what)
	}
	m.Renewed = true
	nm := &mcontract{ID: m.ID.V2RenewalID(), Rev: got.NewContract, Formed: got.NewContract, Roots: append([]types.Hash256(nil), m.Roots...)}
	nm.Chain = append(nm.Chain, nm.Rev)
	x.C = append(x.C, nm)
	x.commits++
	return nm, nil
}

// race starts 2 or 3 honest RPCs (the chain op.Race, op.Race.Race, ...)
// concurrently on one contract, all built from the same committed revision:
// exactly one of them can be valid, so exactly one must commit and report
// success; which one is up to the scheduler.
func (x *c08) race(op C08Op) error {
	m := x.live(op.C)
	if x.nonRevisable(m) {
		x.cs.Class("race-skipped")
		return nil
	}
	var parts []exchange
	var exps []expectation
	for p := op.Race; p != nil && len(parts) < 3; p = p.Race {
		q := *p
		q.Corrupt, q.C = "", op.C
		e, err := x.prepare(q, m)
		if err != nil {
			return err
		}
		exp, derr := e.expect()
		if derr != nil || e.noop {
			x.cs.Class("race-skipped")
			return nil
		}
		parts, exps = append(parts, e), append(exps, exp)
	}
	if len(parts) < 2 {
		return nil
	}
	what := "race"
	for _, e := range parts {
		what += fmt.Sprintf(" {%s: %s}", e.kind, e.what)
	}
	logFrom := x.H.Log.Len()
	results := make([]rhpx.Result, len(parts))
	var wg sync.WaitGroup
	for i := range parts {
		wg.Add(1)
		go func(i int) {
			defer wg.Done()
			results[i], _, _ = parts[i].run(nil)
		}(i)
	}
	wg.Wait()
	if !x.H.Client.WaitIdle(rhpx.Watchdog) {
		x.cs.Inconclusive("watchdog")
		return errInconclusive
	}
	winner, done := -1, 0
	for i, r := range results {
		if r.Infra != nil {
			x.cs.Inconclusive("watchdog")
			return errInconclusive
		}
		if r.Done {
			winner = i
			done++
		}
	}
	x.cs.Classf("race-%d-way", len(parts))
	calls := successfulCommits(x.H.Log.Since(logFrom))
	if len(calls) != 1 {
		return fmt.Errorf("%s: %d revisions committed; all requests start from revision %d, so exactly one can be valid (results: %v)", what, len(calls), m.Rev.RevisionNumber, results)
	}
	if done != 1 {
		return fmt.Errorf("%s: the host reported success for %d of the requests although one revision was committed (results: %v)", what, done, results)
	}
	x.cs.Classf("race-winner=%d:%s", winner, parts[winner].kind)
	if err := x.verifyCommit(what, m, logFrom, exps[winner]); err != nil {
		return err
	}
	return x.after(what, nil, m)
}

// nest runs one RPC (op.Race.Race, "inner") on a second stream at exactly the
// moment the host is waiting for the renter's second message of a multi-round
// RPC (op.Race, "outer") on the SAME contract; both are built by the renter
// from the same committed revision. The interleaving is forced by the harness
// (rhpx.Tamper.AfterFirstResponse), not by timing. While the outer RPC holds
// the contract the inner one must be refused or serialised: at most one of
// the two may commit, the host must report success for exactly what it
// committed, and a committed renewal must be built from the host's latest
// committed revision.
func (x *c08) nest(op C08Op) error {
	if op.Race == nil || op.Race.Race == nil {
		return nil
	}
	m := x.live(op.C)
	if x.nonRevisable(m) {
		x.cs.Class("nest-skipped")
		return nil
	}
	prices := x.Prices
	type part struct {
		kind, what string
		renewal    bool
		e          exchange
		exp        expectation
		args       rhpx.RenewArgs
		res        rhpx.Result
		ran        bool
	}
	build := func(o C08Op) (*part, error) {
		o.Corrupt, o.C = "", op.C
		p := &part{kind: o.Op}
		switch o.Op {
		case "renew", "refresh-full", "refresh-partial":
			p.renewal = true
			p.args = rhpx.RenewArgs{Kind: o.Op, Allowance: amount(o.Alw).Add(types.Siacoins(5)), Collateral: amount(o.Col).Add(types.Siacoins(2)), ProofHeight: m.Rev.ProofHeight + 10}
			p.what = fmt.Sprintf("%s (+%v / +%v)", o.Op, p.args.Allowance, p.args.Collateral)
		default:
			e, err := x.prepare(o, m)
			if err != nil {
				return nil, err
			}
			exp, derr := e.expect()
			if derr != nil || e.noop {
				return nil, nil
			}
			p.e, p.exp, p.what = e, exp, e.kind+": "+e.what
		}
		return p, nil
	}
	outer, err := build(*op.Race)
	if err != nil {
		return err
	}
	inner, err := build(*op.Race.Race)
	if err != nil {
		return err
	}
	if outer == nil || inner == nil || !(outer.renewal || twoRoundC08(outer.kind)) {
		x.cs.Class("nest-skipped")
		return nil
	}
	run := func(p *part, t *rhpx.Tamper) {
		p.ran = true
		if p.renewal {
			p.res = x.R.Renew(m.view(), prices, p.args, rhpx.Script{}, t).Result
		} else {
			p.res, _, _ = p.e.run(t)
		}
	}
	what := fmt.Sprintf("{%s} issued while the host waits for the renter's signature of {%s}, both built on revision %d", inner.what, outer.what, m.Rev.RevisionNumber)
	before := x.snapshot()
	logFrom := x.H.Log.Len()
	run(outer, &rhpx.Tamper{AfterFirstResponse: func() { run(inner, nil) }})
	if !x.H.Client.WaitIdle(rhpx.Watchdog) || outer.res.Infra != nil || inner.res.Infra != nil {
		x.cs.Inconclusive("watchdog")
		return errInconclusive
	}
	x.cs.Classf("nest:%s-inside-%s", inner.kind, outer.kind)
	if !inner.ran {
		x.cs.Class("nest-outer-refused-at-once")
	}
	calls := x.H.Log.Since(logFrom)
	var committed []string
	locks := 0
	for _, c := range calls {
		if (commitOps[c.Op] || c.Op == "RenewV2Contract" || c.Op == "AddV2Contract") && !c.Failed() {
			committed = append(committed, c.Op)
		}
		if c.Op == "LockV2Contract" && !c.Failed() {
			locks++
		}
		if c.Op == "Unlock" {
			locks--
		}
	}
	if locks != 0 {
		return fmt.Errorf("%s: %d contract lock(s) still held afterwards", what, locks)
	}
	if len(committed) > 1 {
		return fmt.Errorf("%s: the host committed both (%v; results outer %v, inner %v): RPCs on one contract were not serialised, the later commit was derived from a revision that was no longer the latest", what, committed, outer.res, inner.res)
	}
	done := 0
	var winner *part
	for _, p := range []*part{outer, inner} {
		if p.res.Done {
			done++
			winner = p
		}
	}
	if done != len(committed) {
		return fmt.Errorf("%s: the host reported success for %d RPC(s) but committed %v (results outer %v, inner %v)", what, done, committed, outer.res, inner.res)
	}
	if winner == nil {
		if !outer.renewal && outer.e.mustOK {
			return fmt.Errorf("%s: neither was served although the outer RPC is honest and affordable (results outer %v, inner %v)", what, outer.res, inner.res)
		}
		x.cs.Class("nest-none-committed")
		return x.after(what+" -> none committed", &before, nil)
	}
	if winner == outer {
		x.cs.Class("nest-outer-committed-inner-refused")
	} else {
		x.cs.Class("nest-inner-committed-outer-refused")
	}
	if !winner.renewal {
		if err := x.verifyCommit(what, m, logFrom, winner.exp); err != nil {
			return err
		}
		return x.after(what, nil, m)
	}
	nm, err := x.verifyRenewal(what, m, winner.kind, winner.args, prices, calls)
	if err != nil {
		return err
	}
	if err := x.H.Mine(types.VoidAddress, 1); err != nil {
		return err
	}
	if _, fce, err := x.H.Contractor.V2FileContractElement(nm.ID); err != nil {
		return fmt.Errorf("%s: the renewal did not confirm: %v", what, err)
	} else if !reflect.DeepEqual(fce.V2FileContract, nm.Rev) {
		return fmt.Errorf("%s: the confirmed contract differs from the one handed to the contractor", what)
	}
	x.cs.Class("renewal-committed")
	if err := x.after(what, nil, nil); err != nil {
		return err
	}
	return x.staleBattery(m)
}

// nestx forces another RPC between the host's QUOTE of a replenish (accounts
// or pools: the deposits announced in its first response) and the renter's
// signature - one that changes a listed balance without touching the locked
// contract: a read / verify paid from a listed account, or a fund / replenish
// of the same key through ANOTHER contract. Both must complete. The host must
// credit exactly the deposits it quoted and the renter signed for: the
// revision moves their sum, the credit batch carries them, and every balance
// ends at "before + what the nested RPC did + quoted deposit".
func (x *c08) nestx(op C08Op) error {
	if op.Race == nil || op.Race.Race == nil {
		return nil
	}
	m := x.live(op.C)
	if x.nonRevisable(m) {
		x.cs.Class("nestx-skipped")
		return nil
	}
	outerOp, innerOp := *op.Race, *op.Race.Race
	outerOp.Corrupt, outerOp.C, outerOp.Old = "", op.C, false
	if outerOp.Op != "repl-acct" && outerOp.Op != "repl-pool" {
		return nil
	}
	pools := outerOp.Op == "repl-pool"
	nkeys := len(x.Accts)
	if pools {
		nkeys = len(x.Pools)
	}
	keys := distinct(outerOp.Keys, nkeys)
	if len(keys) == 0 {
		keys = []int{0}
	}
	first := keys[0]

	// the nested exchange
	var runInner func() (rhpx.Result, error)
	var innerExp *expectation
	var innerOn *mcontract
	var innerWhat string
	var payCost proto4.Usage
	payAcct := -1
	var otherContract *mcontract
	for i := range x.C {
		if c := x.live(i); c.ID != m.ID && !x.nonRevisable(c) {
			otherContract = c
		}
	}
	pay := innerOp.Op == "pay-read" || innerOp.Op == "pay-verify"
	switch {
	case pay && pools && otherContract != nil:
		pay, innerOp.Op = false, "repl-pool" // pools are not debited directly here
	case !pay && otherContract == nil && !pools:
		pay, innerOp.Op = true, "pay-verify"
	}
	switch {
	case pay:
		if pools {
			x.cs.Class("nestx-skipped")
			return nil
		}
		payAcct = first
		root := rootOf(mod(innerOp.Off, rhpx.PoolSize))
		if innerOp.Op == "pay-read" {
			payCost = x.Prices.RPCReadSectorCost(proto4.LeafSize)
		} else {
			payCost = x.Prices.RPCVerifySectorCost()
		}
		// make sure the account can pay (an honest, checked funding)
		if x.Bal[payAcct].Cmp(payCost.RenterCost()) < 0 {
			if err := x.rpcOn(C08Op{Op: "fund", Dep: []int{payAcct, 3}}, m); err != nil {
				return err
			}
			if x.Bal[payAcct].Cmp(payCost.RenterCost()) < 0 {
				x.cs.Class("nestx-skipped")
				return nil
			}
		}
		innerWhat = fmt.Sprintf("%s paid from account %d", innerOp.Op, payAcct)
		token := x.R.Token(x.AcctKeys[payAcct])
		prices := x.Prices
		runInner = func() (rhpx.Result, error) {
			if innerOp.Op == "pay-read" {
				r := x.R.Read(prices, token, root, 0, proto4.LeafSize, rhpx.Script{})
				if r.Done && !r.ProofOK {
					return r.Result, fmt.Errorf("nested read: proof does not verify")
				}
				return r.Result, nil
			}
			r := x.R.Verify(prices, token, root, 7, rhpx.Script{})
			return r.Result, nil
		}
	default:
		// fund / replenish of the same key through another contract
		other := otherContract
		if other == nil {
			x.cs.Class("nestx-skipped")
			return nil
		}
		q := innerOp
		q.Corrupt, q.Old = "", false
		switch {
		case pools:
			q.Op, q.Keys = "repl-pool", []int{first}
		case q.Op == "repl-acct":
			q.Keys = []int{first}
		default:
			q.Op = "fund"
			q.Dep = []int{first, innerOp.Target}
		}
		ei, err := x.prepare(q, other)
		if err != nil {
			return err
		}
		exp, derr := ei.expect()
		if derr != nil || ei.noop {
			x.cs.Class("nestx-skipped")
			return nil
		}
		innerExp, innerOn, innerWhat = &exp, other, ei.kind+": "+ei.what+" through the other contract"
		runInner = func() (rhpx.Result, error) {
			r, _, _ := ei.run(nil)
			return r, nil
		}
	}

	// the quote is computed from the balances as they are now
	outerOp.Keys = keys
	eo, err := x.prepare(outerOp, m)
	if err != nil {
		return err
	}
	expO, derr := eo.expect()
	if derr != nil || eo.noop {
		x.cs.Class("nestx-skipped")
		return nil
	}
	what := fmt.Sprintf("{%s} issued between the host's quote and the renter's signature of {%s: %s}", innerWhat, eo.kind, eo.what)
	logFrom := x.H.Log.Len()
	var innerRes rhpx.Result
	var innerErr error
	ran := false
	outerRes, _, _ := eo.run(&rhpx.Tamper{AfterFirstResponse: func() { ran = true; innerRes, innerErr = runInner() }})
	if !x.H.Client.WaitIdle(rhpx.Watchdog) || outerRes.Infra != nil || innerRes.Infra != nil {
		x.cs.Inconclusive("watchdog")
		return errInconclusive
	}
	x.cs.Class("nestx:" + innerOp.Op + "-inside-" + eo.kind)
	if innerErr != nil {
		return fmt.Errorf("%s: %w", what, innerErr)
	}
	if !ran || !outerRes.Done || !innerRes.Done {
		return fmt.Errorf("%s: both are honest, affordable and touch different contracts / no contract, but did not both complete (outer %v, nested %v)", what, outerRes, innerRes)
	}
	calls := x.H.Log.Since(logFrom)
	commits := successfulCommits(calls)
	pick := func(id types.FileContractID) []rhpx.Call {
		var out []rhpx.Call
		for _, c := range commits {
			if c.ContractID == id {
				out = append(out, c)
			}
		}
		return out
	}
	// the nested exchange first (it was committed first)
	if innerExp != nil {
		ic := pick(innerOn.ID)
		if len(ic) != 1 || len(commits) != 2 {
			return fmt.Errorf("%s: %d commits recorded (%d on the other contract), one per contract expected", what, len(commits), len(ic))
		}
		if err := x.checkCommitCall(what+" [nested]", innerOn, ic[0], *innerExp); err != nil {
			return err
		}
	} else {
		if len(commits) != 1 {
			return fmt.Errorf("%s: %d commits recorded, one expected", what, len(commits))
		}
		debits := 0
		for _, c := range calls {
			if c.Op == "DebitAccount" && !c.Failed() {
				debits++
				if c.Account != x.Accts[payAcct] || c.Usage != payCost {
					return fmt.Errorf("%s: nested debit %+v of %v, expected %+v of account %d", what, c.Usage, c.Account, payCost, payAcct)
				}
			}
		}
		if debits != 1 {
			return fmt.Errorf("%s: %d successful debits, one expected", what, debits)
		}
		x.Bal[payAcct] = x.Bal[payAcct].Sub(payCost.RenterCost())
	}
	oc := pick(m.ID)
	if len(oc) != 1 {
		return fmt.Errorf("%s: %d commits on the replenished contract", what, len(oc))
	}
	// the credit batch must carry the QUOTED deposits (expO was derived before
	// the nested exchange ran), and the revision must move exactly their sum
	if err := x.checkCommitCall(what, m, oc[0], expO); err != nil {
		return err
	}
	x.cs.Class("nestx-both-committed")
	return x.after(what, nil, m)
}

// checkCommitCall is verifyCommit for one given recorded call.
func (x *c08) checkCommitCall(what string, m *mcontract, c rhpx.Call, e expectation) error {
	if c.Op != e.op {
		return fmt.Errorf("%s: committed through %s, expected %s", what, c.Op, e.op)
	}
	if got, want := nosig(c.Revision), nosig(e.rev); !reflect.DeepEqual(got, want) {
		return fmt.Errorf("%s: the committed revision is not core's derivation from the previous revision and what was sent: %s", what, revDiff(want, got))
	}
	if err := pairInvariant(m.Rev, c.Revision, x.tipState()); err != nil {
		return fmt.Errorf("%s: %w", what, err)
	}
	if c.Usage != e.usage {
		return fmt.Errorf("%s: recorded usage %+v, core's price functions give %+v", what, c.Usage, e.usage)
	}
	if e.op != "ReviseV2Contract" {
		if !reflect.DeepEqual(append([]proto4.AccountDeposit{}, c.Deposits...), append([]proto4.AccountDeposit{}, e.deposits...)) {
			return fmt.Errorf("%s: the host credited %v but quoted (and the renter signed for) %v", what, c.Deposits, e.deposits)
		}
		if err := conserved(m.Rev, c); err != nil {
			return fmt.Errorf("%s: %w", what, err)
		}
	}
	m.commit(c.Revision)
	if e.apply != nil {
		e.apply()
	}
	x.commits++
	return nil
}

// conserved: a credit batch moves exactly its total from the renter payout to
// the host payout of the revision that carries it.
func conserved(prev types.V2FileContract, c rhpx.Call) error {
	var total types.Currency
	for _, d := range c.Deposits {
		var o bool
		if total, o = total.AddWithOverflow(d.Amount); o {
			return fmt.Errorf("credited deposits %v overflow", c.Deposits)
		}
	}
	if prev.RenterOutput.Value.Cmp(c.Revision.RenterOutput.Value) < 0 || !prev.RenterOutput.Value.Sub(c.Revision.RenterOutput.Value).Equals(total) {
		return fmt.Errorf("credits applied total %v but the signed revision lowers the renter payout %v -> %v", total, prev.RenterOutput.Value, c.Revision.RenterOutput.Value)
	}
	return nil
}

func twoRoundC08(kind string) bool {
	switch kind {
	case "append", "free", "repl-acct", "repl-pool":
		return true
	}
	return false
}

func (x *c08) step(op C08Op) error {
	switch op.Op {
	case "mine":
		if err := x.H.Mine(types.VoidAddress, 1); err != nil {
			return err
		}
		if op.Len%2 == 0 {
			p, err := x.H.FetchPrices()
			if err != nil {
				return fmt.Errorf("%w: %v", errInfra, err)
			}
			x.Prices = p
		}
		if err := x.after("mine", nil, nil); err != nil {
			return err
		}
		return x.consensusAccepts(x.live(op.C), false)
	case "minepast":
		// mine until the proof window of the live contract has opened (Len = 1:
		// until it has expired); from then on nothing on it may be revised
		m := x.live(op.C)
		goal := m.Rev.ProofHeight
		if op.Len == 1 {
			goal = m.Rev.ExpirationHeight + 1
		}
		if tip := x.H.CM.Tip().Height; tip < goal {
			if err := x.H.Mine(types.VoidAddress, int(goal-tip)); err != nil {
				return err
			}
		}
		p, err := x.H.FetchPrices()
		if err != nil {
			return fmt.Errorf("%w: %v", errInfra, err)
		}
		x.Prices = p
		x.cs.Class("mined-past-proof-height")
		if err := x.after("mine past the proof height", nil, nil); err != nil {
			return err
		}
		return x.staleBattery(m)
	case "stash":
		return x.takeStash()
	case "minenear":
		return x.mineNear(op)
	case "settings":
		return x.changeSettings(op)
	case "confirm":
		// broadcast and mine one of the doubly-signed revisions the host has
		// committed so far - usually an OLDER one while newer ones exist. The
		// chain then holds that revision; the host's latest revision, roots and
		// balances must stay what they were and later RPCs must build on the
		// latest, not on the confirmed one.
		m := x.live(op.C)
		if x.nonRevisable(m) || len(m.Chain) < 2 {
			x.cs.Class("confirm-skipped")
			return nil
		}
		k := 1 + mod(op.Len, len(m.Chain)-1)
		rev := m.Chain[k]
		basis, fce, err := x.H.Contractor.V2FileContractElement(m.ID)
		if err != nil {
			return fmt.Errorf("contract element of %v unavailable: %v", m.ID, err)
		}
		if rev.RevisionNumber <= fce.V2FileContract.RevisionNumber {
			x.cs.Class("confirm-skipped")
			return nil
		}
		txn := types.V2Transaction{FileContractRevisions: []types.V2FileContractRevision{{Parent: fce, Revision: rev}}}
		if _, err := x.H.CM.AddV2PoolTransactions(basis, []types.V2Transaction{txn}); err != nil {
			return fmt.Errorf("a revision the host committed (%d of %v) is not accepted by the pool: %v", rev.RevisionNumber, m.ID, err)
		}
		if err := x.H.Mine(types.VoidAddress, 1); err != nil {
			return err
		}
		if k < len(m.Chain)-1 {
			x.cs.Class("confirmed-older-revision")
		} else {
			x.cs.Class("confirmed-latest-revision")
		}
		what := fmt.Sprintf("revision %d of %d committed ones confirmed on chain", rev.RevisionNumber, len(m.Chain)-1)
		if err := x.after(what, nil, nil); err != nil {
			return err
		}
		if resp, err := x.R.LatestRevision(m.ID); err != nil || !reflect.DeepEqual(resp.Contract, m.Rev) {
			return fmt.Errorf("%s: RPCLatestRevision no longer returns the latest committed revision %d (err %v): %s", what, m.Rev.RevisionNumber, err, revDiff(m.Rev, resp.Contract))
		}
		return x.consensusAccepts(m, false)
	case "latest":
		return x.latest(op)
	case "renew", "refresh-full", "refresh-partial":
		return x.renew(op)
	case "race":
		return x.race(op)
	case "nest":
		return x.nest(op)
	case "nestx":
		return x.nestx(op)
	}
	return x.rpc(op)
}

func runC08(c C08Case, cs *kit.CaseStats) error {
	x, err := newC08(c, cs)
	if stop, e := infra(cs, err); stop {
		return e
	}
	if err != nil {
		return err
	}
	defer x.close()
	for i, op := range c.Ops {
		if err := x.step(op); err != nil {
			if stop, e := infra(cs, err); stop {
				return e
			}
			return fmt.Errorf("step %d: %w", i, err)
		}
	}
	// every contract's committed chain, pairwise
	for _, m := range x.C {
		for i := 1; i < len(m.Chain); i++ {
			if err := pairInvariant(m.Chain[i-1], m.Chain[i], x.tipState()); err != nil {
				return fmt.Errorf("contract %v chain position %d: %w", m.ID, i, err)
			}
		}
		if err := x.consensusAccepts(m, false); err != nil {
			return err
		}
	}
	cs.Classf("commits=%d", min(x.commits, 8))
	if x.refusedStale > 0 {
		cs.Class("refused-on-non-revisable-contract")
	}
	if x.commits >= 2 && x.rejected >= 1 {
		cs.NonTrivial()
	}
	return nil
}

// ---------------------------------------------------------------- generator

func genC08Op(t *rapid.T, nc int, allowRace bool) C08Op {
	op := C08Op{C: rapid.IntRange(0, nc-1).Draw(t, "c")}
	k := rapid.IntRange(0, 44).Draw(t, "op")
	switch {
	case k < 6:
		op.Op = "fund"
		n := rapid.IntRange(1, 4).Draw(t, "ndep")
		for i := 0; i < n; i++ {
			op.Dep = append(op.Dep, rapid.IntRange(0, 2).Draw(t, "acct"), genAmountCode(t, "amt"))
		}
	case k < 10:
		op.Op = "repl-acct"
	case k < 13:
		op.Op = "repl-pool"
	case k < 18:
		op.Op = "append"
		n := rapid.IntRange(1, 3).Draw(t, "nroots")
		for i := 0; i < n; i++ {
			if rapid.IntRange(0, 6).Draw(t, "unknown") == 0 {
				op.Roots = append(op.Roots, -1-rapid.IntRange(0, 3).Draw(t, "u"))
			} else {
				op.Roots = append(op.Roots, rapid.IntRange(0, rhpx.PoolSize-1).Draw(t, "root"))
			}
		}
	case k < 22:
		op.Op = "free"
		n := rapid.IntRange(1, 3).Draw(t, "nidx")
		for i := 0; i < n; i++ {
			op.Idx = append(op.Idx, rapid.IntRange(0, 7).Draw(t, "idx"))
		}
	case k < 25:
		op.Op = "roots"
		op.Off, op.Len = rapid.IntRange(0, 7).Draw(t, "off"), rapid.IntRange(0, 7).Draw(t, "len")
	case k < 26:
		op.Op = "latest"
		op.Len = rapid.IntRange(0, 1).Draw(t, "future-id")
	case k < 27:
		op.Op = "renew"
	case k < 28:
		op.Op = "refresh-full"
	case k < 29:
		op.Op = "refresh-partial"
	case k < 30:
		op.Op = "mine"
		op.Len = rapid.IntRange(0, 1).Draw(t, "refetch")
		if rapid.IntRange(0, 2).Draw(t, "confirm") == 0 {
			op.Op = "confirm"
			op.Len = rapid.IntRange(0, 7).Draw(t, "which")
		} else if rapid.IntRange(0, 2).Draw(t, "past") == 0 {
			op.Op = "minepast"
			op.Len = rapid.SampledFrom([]int{0, 0, 0, 1}).Draw(t, "expire")
		}
	case k >= 43:
		if !allowRace {
			op.Op = "latest"
			return op
		}
		// a balance-changing RPC forced between a replenish quote and the signature
		op.Op = "nestx"
		outer := C08Op{Op: rapid.SampledFrom([]string{"repl-acct", "repl-acct", "repl-pool"}).Draw(t, "xouter"), Target: rapid.IntRange(2, len(amountTable)-1).Draw(t, "xtarget")}
		nk := rapid.IntRange(1, 3).Draw(t, "xnkeys")
		for i := 0; i < nk; i++ {
			outer.Keys = append(outer.Keys, rapid.IntRange(0, 2).Draw(t, "xkey"))
		}
		inner := C08Op{Op: rapid.SampledFrom([]string{"pay-read", "pay-verify", "fund", "repl-acct", "repl-pool"}).Draw(t, "xinner"),
			Target: rapid.IntRange(0, len(amountTable)-1).Draw(t, "xamt"), Off: rapid.IntRange(0, 15).Draw(t, "xsector")}
		outer.Race = &inner
		op.Race = &outer
		return op
	case k >= 42:
		op.Op = "stash"
		return op
	case k >= 40:
		op.Op = "minenear"
		op.Len = rapid.IntRange(0, 17).Draw(t, "distance")
		op.Alw, op.Col = rapid.IntRange(0, len(amountTable)-1).Draw(t, "malw"), rapid.IntRange(0, len(amountTable)-1).Draw(t, "mcol")
		return op
	case k >= 38:
		op.Op = "settings"
		op.What = rapid.SampledFrom([]string{"maxcol", "maxcol", "maxdur", "accept", "prices"}).Draw(t, "what")
		op.Len = rapid.IntRange(0, 5).Draw(t, "level")
		op.Off = rapid.IntRange(0, 1).Draw(t, "refetch")
		op.Alw, op.Col = rapid.IntRange(0, len(amountTable)-1).Draw(t, "salw"), rapid.IntRange(0, len(amountTable)-1).Draw(t, "scol")
		return op
	case k >= 35:
		op.Op = "confirm"
		op.Len = rapid.IntRange(0, 7).Draw(t, "which")
		return op
	case k >= 32:
		if !allowRace {
			op.Op = "latest"
			return op
		}
		// outer multi-round RPC with another RPC forced between its rounds
		op.Op = "nest"
		mk := func(kinds []string, label string) C08Op {
			p := C08Op{Op: rapid.SampledFrom(kinds).Draw(t, label)}
			switch p.Op {
			case "fund":
				p.Dep = []int{rapid.IntRange(0, 2).Draw(t, "nacct"), rapid.IntRange(0, len(amountTable)-1).Draw(t, "namt")}
			case "repl-acct", "repl-pool":
				p.Target = rapid.IntRange(2, len(amountTable)-1).Draw(t, "ntarget")
				p.Keys = []int{rapid.IntRange(0, 2).Draw(t, "nkey")}
			case "append":
				p.Roots = []int{rapid.IntRange(0, rhpx.PoolSize-1).Draw(t, "nroot")}
			case "free":
				p.Idx = []int{rapid.IntRange(0, 7).Draw(t, "nidx")}
			case "roots":
				p.Off, p.Len = rapid.IntRange(0, 7).Draw(t, "noff"), rapid.IntRange(0, 7).Draw(t, "nlen")
			default:
				p.Alw, p.Col = rapid.IntRange(0, len(amountTable)-1).Draw(t, "nalw"), rapid.IntRange(0, len(amountTable)-1).Draw(t, "ncol")
			}
			return p
		}
		outer := mk([]string{"renew", "renew", "refresh-full", "refresh-partial", "append", "free", "repl-acct", "repl-pool"}, "outer")
		inner := mk([]string{"fund", "fund", "repl-acct", "repl-pool", "append", "free", "roots", "renew", "refresh-full", "refresh-partial"}, "inner")
		outer.Race = &inner
		op.Race = &outer
		return op
	default:
		if !allowRace {
			op.Op = "latest"
			return op
		}
		op.Op = "race"

		n := 2
		if rapid.IntRange(0, 2).Draw(t, "three") == 0 {
			n = 3
		}
		var chain *C08Op
		for i := 0; i < n; i++ {
			p := genC08Op(t, nc, false)
			for p.Op == "latest" || p.Op == "mine" || p.Op == "minepast" || p.Op == "confirm" || p.Op == "settings" || p.Op == "stash" || p.Op == "minenear" || p.Op == "nestx" || p.Op == "renew" || p.Op == "refresh-full" || p.Op == "refresh-partial" {
				p = C08Op{Op: "fund", Dep: []int{rapid.IntRange(0, 2).Draw(t, "racct"), rapid.IntRange(0, 3).Draw(t, "ramt")}}
			}
			p.Corrupt, p.Race = "", chain
			q := p
			chain = &q
		}
		op.Race = chain
		return op
	}
	switch op.Op {
	case "repl-acct", "repl-pool":
		op.Target = genAmountCode(t, "target")
		n := rapid.IntRange(1, 3).Draw(t, "nkeys")
		for i := 0; i < n; i++ {
			op.Keys = append(op.Keys, rapid.IntRange(0, 2).Draw(t, "key"))
		}
	case "renew", "refresh-full", "refresh-partial":
		op.Alw, op.Col = rapid.IntRange(0, len(amountTable)-1).Draw(t, "alw"), rapid.IntRange(0, len(amountTable)-1).Draw(t, "col")
		op.Stale = rapid.IntRange(0, 2).Draw(t, "stale") == 0
	}
	if len(corruptionsFor(op.Op)) > 0 {
		op.Old = rapid.IntRange(0, 5).Draw(t, "old") == 0
	}
	if cl := corruptionsFor(op.Op); len(cl) > 0 && rapid.IntRange(0, 99).Draw(t, "corrupt?") < 38 {
		op.Corrupt = rapid.SampledFrom(cl).Draw(t, "corrupt")
	}
	return op
}

func genC08(t *rapid.T) C08Case {
	c := C08Case{Contracts: 1}
	if rapid.IntRange(0, 2).Draw(t, "two") == 0 {
		c.Contracts = 2
	}
	c.Small = rapid.IntRange(0, 5).Draw(t, "small") == 0
	maxOps := 20
	if kit.Thorough() {
		maxOps = 40
	}
	n := rapid.IntRange(2, maxOps).Draw(t, "nops")
	for i := 0; i < n; i++ {
		c.Ops = append(c.Ops, genC08Op(t, c.Contracts, true))
	}
	return c
}

var c08Prop = kit.Prop[C08Case]{
	ID:   "C08",
	Rule: "sequences (2..20, thorough 2..40) of balance-changing RPCs (account-paid read / verify, fund / replenish through another contract) forced between a replenish quote and the signature (the host must credit exactly what it quoted; revision delta == credits applied), contracts mined to within 1..18 blocks of their proof height with renew / refresh requests built at the current tip and at an older real basis with an equally old, still valid price table (judged by the rule of core at the tip of the HOST), operator settings changes at runtime (MaxCollateral, MaxContractDuration, AcceptingContracts, prices; every later renew / refresh judged by core's request validation against the settings in force when it arrives, price tables staying valid until they expire), fund, replenish accounts/pools, append, free, sector-roots, latest-revision, renew, refresh (full/partial), mine, broadcasting and mining an older doubly-signed revision while newer ones exist, 2-3-way races of honest RPCs and forced interleavings (a second RPC on the same contract issued exactly while the host waits for the second renter message of a renew, refresh, append, free or replenish) on 1-2 contracts against the real rhp4.Server, every revising RPC kind re-issued against a contract after it was renewed / refreshed or after the chain was mined past its proof height (must be refused, nothing signed or persisted), each RPC honest or with exactly one corruption (challenge: garbage / zero / other key / number -1 / +1 / replayed; renter signature: garbage / zero / other key / over another amount, root or number / replayed; replayed request; price table signed by another key / expired / altered; request for another contract; out-of-range indices, offsets, lengths; zero, missing or overflowing deposits and targets; honest-looking deposit lists and replenish targets at the edges of the 128-bit range (2^64-1, 2^64, 2^127, 2^128-1-k; sums that overflow early, late, or wrap to something affordable - the renter then signs the wrapped total); renewal parameters out of bounds; renewal funded with inputs whose signatures are invalid or that are double-spent through the pool), the rest of the exchange carried on honestly. Oracle over the recorded Contractor calls: every committed revision equals core's ReviseFor*/Renew*/Refresh* applied by the harness to the previous revision and the arguments it sent, is doubly signed, monotone and value conserving; corrupted or underivable requests change nothing and trigger no mutating call; the latest revision validates under core as a revision of the on-chain element. Non-trivial = >= 2 committed revisions and >= 1 rejected corrupted/replayed request in one sequence; distinct by hash of the case.",
	Assumptions: []string{
		"host = rhp4.Server over the repository's reference EphemeralContractor (which itself re-checks signatures and revision numbers) on the all-v2 test network, in-memory transport",
		"expired price tables are produced by signing a table with a past ValidUntil with the host key (the harness holds it); no sleeping",
		"races: rapid chooses the RPCs, the Go runtime the interleaving; nested pairs: the harness forces the interleaving point (between the first host response and the second renter message), no timing involved",
		"core (ReviseFor*, RenewContract/Refresh*, price functions, signature hashes, ValidateV2Transaction) is the trusted base",
	},
	Gen: genC08,
	Run: runC08,
}

func TestC08(t *testing.T) { c08Prop.Main(t) }
