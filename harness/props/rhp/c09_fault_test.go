package prhp

import (
	"fmt"
	"os"
	"reflect"
	"sort"
	"strconv"
	"testing"

	proto4 "go.sia.tech/core/rhp/v4"
	"go.sia.tech/core/types"

	"verif/kit"
	"verif/rhpx"
)

type faultPoint struct {
	AbortAt int
	Mode    string
}

func twoRound(kind string) bool {
	switch kind {
	case "append", "free", "replenish-accounts", "replenish-pools", "form", "renew", "refresh-full", "refresh-partial":
		return true
	}
	return false
}

// lastSend is the number of the renter's last sending step.
func lastSend(kind string) int {
	switch {
	case twoRound(kind):
		return 3
	case kind == "write":
		return 2
	}
	return 1
}

// faultPoints lists every point at which the renter can stop: close before any
// step, go silent where the host waits for it, or truncate a message.
func faultPoints(kind string) []faultPoint {
	switch {
	case twoRound(kind):
		return []faultPoint{{1, rhpx.ModeClose}, {2, rhpx.ModeClose}, {3, rhpx.ModeClose}, {4, rhpx.ModeClose},
			{1, rhpx.ModeStall}, {3, rhpx.ModeStall}, {1, rhpx.ModeTrunc}, {3, rhpx.ModeTrunc}}
	case kind == "write":
		return []faultPoint{{1, rhpx.ModeClose}, {2, rhpx.ModeClose}, {3, rhpx.ModeClose},
			{1, rhpx.ModeStall}, {2, rhpx.ModeStall}, {1, rhpx.ModeTrunc}, {2, rhpx.ModeTrunc}}
	}
	return []faultPoint{{1, rhpx.ModeClose}, {2, rhpx.ModeClose}, {1, rhpx.ModeStall}, {1, rhpx.ModeTrunc}}
}

var otherKey = rhpx.Key("somebody-else")

func sigTamper(kind string) *rhpx.Tamper {
	switch kind {
	case "random":
		return &rhpx.Tamper{Signature: func(s *types.Signature) {
			for i := range s {
				s[i] = byte(i*7 + 3)
			}
		}}
	case "other-number":
		return &rhpx.Tamper{Revision: func(r *types.V2FileContract) { r.RevisionNumber++ }}
	case "other-key":
		return &rhpx.Tamper{SigKey: &otherKey}
	case "bad-input-sig":
		// contract / renewal signatures are right, the signatures of the
		// renter's funding inputs are not: every check the handler does itself
		// passes, the pool rejects the finished set
		return &rhpx.Tamper{SecondMessage: func(o proto4.Object) {
			var pols []types.SatisfiedPolicy
			switch m := o.(type) {
			case *proto4.RPCFormContractSecondResponse:
				pols = m.RenterSatisfiedPolicies
			case *proto4.RPCRenewContractSecondResponse:
				pols = m.RenterSatisfiedPolicies
			}
			for i := range pols {
				for j := range pols[i].Signatures {
					pols[i].Signatures[j][0] ^= 1
				}
			}
		}}
	case "double-spend":
		// the renter's funding inputs are spent by another pooled transaction
		// right before the renter sends its (valid) signatures
		return &rhpx.Tamper{DoubleSpend: true}
	}
	return nil
}

// poolFaults are the deviations that make the host's pool reject the finished
// transaction set of form / renew / refresh.
var poolFaults = []string{"bad-input-sig", "double-spend"}

func fundsTxn(kind string) bool {
	switch kind {
	case "form", "renew", "refresh-full", "refresh-partial":
		return true
	}
	return false
}

var mutatingOps = map[string]bool{
	"ReviseV2Contract": true, "CreditAccountsWithContract": true, "CreditPoolsWithContract": true,
	"AddV2Contract": true, "RenewV2Contract": true, "DebitAccount": true, "AttachPools": true, "DetachPools": true, "StoreSector": true,
}

// quietLog checks the recorded calls of a failed or abandoned exchange: no
// mutating call may have succeeded, and every contract lock was released.
func quietLog(calls []rhpx.Call) error {
	locks := 0
	for _, c := range calls {
		if mutatingOps[c.Op] && !c.Failed() {
			return fmt.Errorf("the host performed %s although the exchange failed or was abandoned", c.Op)
		}
		if c.Op == "LockV2Contract" && !c.Failed() {
			locks++
		}
		if c.Op == "Unlock" {
			locks--
		}
	}
	if locks != 0 {
		return fmt.Errorf("%d contract lock(s) still held after the handler returned", locks)
	}
	return nil
}

func normalise(indices []uint64) []uint64 {
	idx := append([]uint64(nil), indices...)
	sort.Slice(idx, func(i, j int) bool { return idx[i] > idx[j] })
	var out []uint64
	for i, n := range idx {
		if i == 0 || n != idx[i-1] {
			out = append(out, n)
		}
	}
	return out
}

// fault runs one deviating exchange and applies the C09 oracle: unless the host
// received every renter message with valid signatures, nothing may change.
func (x *c09) fault(m *mcontract, f Fault, op C09Op) error {
	script := rhpx.Script{AbortAt: f.AbortAt, Mode: f.Mode}
	tamper := sigTamper(f.Sig)
	what := "fault " + f.String()
	x.cs.Class("fault:" + f.Kind)

	var res rhpx.Result
	var commit func() error // applies the expected effect to the model and checks the committed revision
	var proofErr error
	size := len(m.Roots)
	if f.Kind == "write" && f.Sig != "" && f.Sig != "unfunded" {
		return nil
	}
	if (f.Sig == "bad-input-sig" || f.Sig == "double-spend") && !fundsTxn(f.Kind) {
		return nil
	}

	// preparation that is itself an honest, checked operation
	switch f.Kind {
	case "free", "roots":
		if size == 0 {
			x.cs.Class("fault-skipped-empty-contract")
			return nil
		}
	case "write":
		if x.Bal[0].Cmp(types.Siacoins(1).Div64(2)) < 0 {
			if err := x.fundAccount(m, 0, types.Siacoins(1)); err != nil {
				return err
			}
		}
	}
	before := x.snapshot()
	logFrom := x.H.Log.Len()

	switch f.Kind {
	case "append":
		var roots, knownRoots []types.Hash256
		for _, k := range op.Roots {
			rt, ok := x.rootFor(k)
			roots = append(roots, rt)
			if ok {
				knownRoots = append(knownRoots, rt)
			}
		}
		if len(roots) == 0 {
			return nil
		}
		r := x.R.Append(m.view(), x.Prices, roots, script, tamper)
		res = r.Result
		commit = func() error {
			newRoots := listAppend(m.Roots, knownRoots)
			exp, _, err := proto4.ReviseForAppendSectors(m.Rev, x.Prices, proto4.MetaRoot(newRoots), uint64(len(knownRoots)))
			if err != nil {
				return fmt.Errorf("%s: committed although core cannot derive the revision: %v", what, err)
			}
			if err := x.expectCommitted(m, exp, what); err != nil {
				return err
			}
			m.Roots = newRoots
			return nil
		}
		if r.GotResp && !r.ProofOK {
			proofErr = fmt.Errorf("%s: the host's append proof does not verify", what)
		}
	case "free":
		indices := normalise(resolveIdx(op.Idx, 0, size))
		r := x.R.Free(m.view(), x.Prices, indices, script, tamper)
		res = r.Result
		commit = func() error {
			newRoots := listFree(m.Roots, indices)
			exp, _, err := proto4.ReviseForFreeSectors(m.Rev, x.Prices, proto4.MetaRoot(newRoots), len(indices))
			if err != nil {
				return fmt.Errorf("%s: committed although core cannot derive the revision: %v", what, err)
			}
			if err := x.expectCommitted(m, exp, what); err != nil {
				return err
			}
			m.Roots = newRoots
			return nil
		}
		if r.GotResp && !r.ProofOK {
			proofErr = fmt.Errorf("%s: the host's free proof does not verify for indices %v", what, indices)
		}
	case "roots":
		r := x.R.SectorRoots(m.view(), x.Prices, 0, uint64(size), script, tamper)
		res = r.Result
		commit = func() error {
			exp, _, err := proto4.ReviseForSectorRoots(m.Rev, x.Prices, uint64(size))
			if err != nil {
				return err
			}
			return x.expectCommitted(m, exp, what)
		}
	case "fund":
		deps := []proto4.AccountDeposit{{Account: x.Accts[0], Amount: types.NewCurrency64(1000)}, {Account: x.Accts[1], Amount: types.NewCurrency64(7)}}
		r := x.R.Fund(m.view(), deps, script, tamper)
		res = r.Result
		commit = func() error {
			exp, _, err := proto4.ReviseForFundAccounts(m.Rev, types.NewCurrency64(1007))
			if err != nil {
				return err
			}
			if err := x.expectCommitted(m, exp, what); err != nil {
				return err
			}
			x.Bal[0] = x.Bal[0].Add(deps[0].Amount)
			x.Bal[1] = x.Bal[1].Add(deps[1].Amount)
			return nil
		}
	case "replenish-accounts", "replenish-pools":
		pools := f.Kind == "replenish-pools"
		keys, bal := x.Accts, x.Bal
		if pools {
			keys, bal = x.Pools, x.PBal
		}
		target := types.Siacoins(1)
		for _, b := range bal {
			if b.Cmp(target) >= 0 {
				target = b.Add(types.Siacoins(1))
			}
		}
		r := x.R.Replenish(m.view(), pools, keys, target, script, tamper)
		res = r.Result
		commit = func() error {
			var sum types.Currency
			for _, b := range bal {
				sum = sum.Add(target.Sub(b))
			}
			exp, _, err := proto4.ReviseForReplenish(m.Rev, sum)
			if err != nil {
				return err
			}
			if err := x.expectCommitted(m, exp, what); err != nil {
				return err
			}
			for i := range bal {
				bal[i] = target
			}
			return nil
		}
	case "write":
		token := x.R.Token(x.AcctKeys[0])
		// every upload of a case carries different bytes (and a different length)
		x.writeSeq++
		seq := x.writeSeq
		data := make([]byte, []int{7, 1024, 4, 64, 1}[seq%5]*proto4.LeafSize) // the first one is the longest
		if f.Sig == "unfunded" {
			// a long upload paid from an account that cannot afford it: the host
			// reads the whole payload and then refuses
			token = x.R.Token(x.AcctKeys[1])
			data = make([]byte, 2048*proto4.LeafSize)
			if x.Bal[1].Cmp(x.Prices.RPCWriteSectorCost(uint64(len(data))).RenterCost()) >= 0 {
				x.cs.Class("fault-skipped-account-can-pay")
				return nil
			}
		}
		for i := range data {
			data[i] = byte(i*7 + seq*13 + 1)
		}
		r := x.R.Write(x.Prices, token, data, uint64(len(data)), script)
		res = r.Result
		if f.Sig == "unfunded" {
			x.cs.Class("upload-refused-insufficient-funds")
			if res.Done {
				return fmt.Errorf("%s: the host stored an upload the account cannot pay for", what)
			}
		}
		commit = func() error {
			x.Bal[0] = x.Bal[0].Sub(x.Prices.RPCWriteSectorCost(uint64(len(data))).RenterCost())
			// the host had every byte: the sector is stored under the root of
			// the padded data (computed here with core), whether or not the
			// renter read the answer
			sector := new([proto4.SectorSize]byte)
			copy(sector[:], data)
			root := proto4.SectorRoot(sector)
			if r.Done && r.Root != root {
				return fmt.Errorf("%s: host answered root %v, the padded data hashes to %v", what, r.Root, root)
			}
			x.uploads = append(x.uploads, upload{root: root, data: data})
			x.cs.Class("upload-stored")
			if !r.Done {
				x.cs.Class("upload-stored-answer-unread")
			}
			return nil
		}
	case "form":
		params := proto4.RPCFormContractParams{RenterPublicKey: x.H.RenterKey.PublicKey(), RenterAddress: x.H.RenterWallet.Address(),
			Allowance: types.Siacoins(10), Collateral: types.Siacoins(20), ProofHeight: x.H.CM.Tip().Height + 60}
		r := x.R.Form(x.Prices, params, script, tamper)
		res = r.Result
		commit = func() error {
			var id types.FileContractID
			found := false
			for _, c := range x.H.Log.Since(logFrom) {
				if c.Op == "AddV2Contract" && !c.Failed() {
					txn := c.Set.Transactions[len(c.Set.Transactions)-1]
					id, found = txn.V2FileContractID(txn.ID(), 0), true
				}
			}
			if !found {
				return fmt.Errorf("%s: the host received every message with valid signatures but did not add the contract", what)
			}
			nm := &mcontract{ID: id}
			x.C = append(x.C, nm)
			if err := x.expectCommitted(nm, r.Expected, what); err != nil {
				return err
			}
			nm.Formed = nm.Rev
			return x.H.Mine(types.VoidAddress, 1)
		}
	case "renew", "refresh-full", "refresh-partial":
		args := rhpx.RenewArgs{Kind: f.Kind, Allowance: types.Siacoins(10), Collateral: types.Siacoins(20), ProofHeight: m.Rev.ProofHeight + 10}
		r := x.R.Renew(m.view(), x.Prices, args, script, tamper)
		res = r.Result
		commit = func() error {
			nm := &mcontract{ID: m.ID.V2RenewalID(), Roots: append([]types.Hash256(nil), m.Roots...)}
			x.C = append(x.C, nm)
			m.Renewed = true
			if err := x.expectCommitted(nm, r.Expected.NewContract, what); err != nil {
				return err
			}
			nm.Formed = nm.Rev
			return x.H.Mine(types.VoidAddress, 1)
		}
	default:
		return fmt.Errorf("harness: unknown fault kind %q", f.Kind)
	}

	if res.Infra != nil {
		x.cs.Inconclusive("watchdog")
		return errInconclusive
	}
	if proofErr != nil {
		return proofErr
	}
	committed := res.Done || (res.Aborted && f.Mode == rhpx.ModeClose && f.AbortAt > lastSend(f.Kind))
	if f.Sig != "" && res.Done {
		return fmt.Errorf("%s: the host completed the exchange although the renter's signature was wrong", what)
	}
	if res.Aborted && twoRound(f.Kind) && f.AbortAt >= 3 {
		x.cs.Class("abort-after-first-response")
		x.nt = true
	}
	if res.Aborted {
		x.cs.Classf("abort@%d/%s", f.AbortAt, f.Mode)
	}
	if f.Sig != "" {
		x.cs.Class("wrong-signature:" + f.Sig)
	}
	if !committed {
		if err := quietLog(x.H.Log.Since(logFrom)); err != nil {
			return fmt.Errorf("%s (%v): %w", what, res, err)
		}
		if fundsTxn(f.Kind) && f.Kind != "form" {
			if rs, unlock, err := x.H.Contractor.LockV2Contract(m.ID.V2RenewalID()); err == nil {
				unlock()
				return fmt.Errorf("%s (%v): the exchange failed but the host now holds a contract under the renewal id with %d roots", what, res, len(rs.Roots))
			}
		}
		if f.Sig == "bad-input-sig" || f.Sig == "double-spend" {
			x.cs.Class("pool-rejects-finished-set:" + f.Kind)
		}
		return x.check(fmt.Sprintf("%s (%v)", what, res), &before)
	}
	x.cs.Class("fault-committed")
	if err := commit(); err != nil {
		return err
	}
	return x.check(fmt.Sprintf("%s (%v, host had everything it needs to commit)", what, res), nil)
}

// rawFree sends indices exactly as given (no sorting, no de-duplication).
func (x *c09) rawFree(m *mcontract, indices []uint64) error {
	what := fmt.Sprintf("raw free %v of %d", indices, len(m.Roots))
	size := uint64(len(m.Roots))
	valid := len(indices) > 0
	seen := map[uint64]bool{}
	desc := true
	for i, n := range indices {
		valid = valid && n < size && !seen[n]
		seen[n] = true
		if i > 0 && n >= indices[i-1] {
			desc = false
		}
	}
	before := x.snapshot()
	logFrom := x.H.Log.Len()
	r := x.R.Free(m.view(), x.Prices, indices, rhpx.Script{}, nil)
	if r.Infra != nil {
		x.cs.Inconclusive("watchdog")
		return errInconclusive
	}
	if !r.Done {
		if valid {
			return fmt.Errorf("%s: rejected although the indices are distinct and in range: %v", what, r.Err)
		}
		x.cs.Class("rawfree-rejected")
		if err := quietLog(x.H.Log.Since(logFrom)); err != nil {
			return fmt.Errorf("%s: %w", what, err)
		}
		return x.check(what+" -> rejected", &before)
	}
	if !valid {
		return fmt.Errorf("%s: accepted although an index is out of range or repeated", what)
	}
	snap := x.snapshot()
	if err := merkleInvariant(snap); err != nil {
		return fmt.Errorf("after %s: %w", what, err)
	}
	var host []types.Hash256
	for i, c := range x.C {
		if c == m {
			host = snap.Contracts[i].Roots
		}
	}
	model := listFree(m.Roots, indices)
	if desc {
		x.cs.Class("rawfree-descending")
		if !r.ProofOK {
			return fmt.Errorf("%s: the host's free proof does not verify", what)
		}
		if !reflect.DeepEqual(append([]types.Hash256{}, host...), append([]types.Hash256{}, model...)) {
			return fmt.Errorf("%s: host roots %s, list model %s", what, rhpx.ShortRoots(host), rhpx.ShortRoots(model))
		}
	} else {
		// outside the client's contract: only the commitment invariants and
		// "nothing foreign appears" are asserted; the difference from the set
		// model is recorded, not judged.
		x.cs.Class("rawfree-unsorted")
		if len(host) != len(model) {
			return fmt.Errorf("%s: host keeps %d roots, %d expected", what, len(host), len(model))
		}
		left := map[types.Hash256]int{}
		for _, h := range m.Roots {
			left[h]++
		}
		for _, h := range host {
			if left[h] == 0 {
				return fmt.Errorf("%s: host root %v was not in the contract", what, h)
			}
			left[h]--
		}
		if !reflect.DeepEqual(append([]types.Hash256{}, host...), append([]types.Hash256{}, model...)) {
			x.cs.Class("rawfree-unsorted-differs-from-list-model")
		}
		if !r.ProofOK {
			x.cs.Class("rawfree-unsorted-proof-does-not-verify")
		}
	}
	exp, _, err := proto4.ReviseForFreeSectors(m.Rev, x.Prices, proto4.MetaRoot(host), len(indices))
	if err != nil {
		return fmt.Errorf("%s succeeded although core cannot derive the revision: %v", what, err)
	}
	if err := x.expectCommitted(m, exp, what); err != nil {
		return err
	}
	if crossing(len(m.Roots), indices) {
		x.cs.Class("free-crossing-swap")
		x.nt = true
	}
	m.Roots = append([]types.Hash256(nil), host...)
	return x.check(what, nil)
}

// ---------------------------------------------------------------- enumerations

func shardOf() (int, int) {
	i, _ := strconv.Atoi(os.Getenv("VERIF_SHARD"))
	n, _ := strconv.Atoi(os.Getenv("VERIF_SHARDS"))
	if n <= 0 {
		n = 1
	}
	return i, n
}

func runDirect(t *testing.T, rule string, cases []C09Case) {
	if os.Getenv("VERIF_REPLAY") != "" {
		c09Prop.Main(t)
		return
	}
	d := kit.NewDirect(t, "C09", rule, c09Assumptions...)
	d.St.Exhaustive = true
	defer d.Done()
	shard, shards := shardOf()
	for i, c := range cases {
		if i%shards != shard {
			continue
		}
		cs := &kit.CaseStats{}
		err := c09Prop.SafeRun(c, cs)
		d.Case(c, cs, err)
	}
}

// TestC09Exhaustive: every subset of positions of contracts of 0..N sectors
// through the client, and every sequence (any order, duplicates, one
// out-of-range symbol) up to length L over contracts of up to M sectors as raw
// requests.
func TestC09Exhaustive(t *testing.T) {
	maxSubset, maxRawSize, maxRawLen := 6, 4, 3
	if kit.Thorough() {
		maxSubset, maxRawSize, maxRawLen = 8, 5, 4
	}
	var cases []C09Case
	for size := 0; size <= maxSubset; size++ {
		for mask := 0; mask < 1<<size; mask++ {
			var idx []int
			for b := 0; b < size; b++ {
				if mask&(1<<b) != 0 {
					idx = append(idx, b)
				}
			}
			if len(idx) == 0 {
				continue
			}
			c := C09Case{Sizes: []int{size}, Ops: []C09Op{{Op: "free", Idx: idx}, {Op: "roots", Off: 0, Len: -1}}}
			cases = append(cases, c)
		}
	}
	for size := 0; size <= maxRawSize; size++ {
		var seq []int
		var rec func()
		rec = func() {
			if len(seq) > 0 {
				cases = append(cases, C09Case{Sizes: []int{size}, Ops: []C09Op{{Op: "rawfree", Idx: append([]int(nil), seq...)}, {Op: "roots", Off: 0, Len: -1}}})
			}
			if len(seq) == maxRawLen {
				return
			}
			for s := 0; s <= size; s++ {
				seq = append(seq, s)
				rec()
				seq = seq[:len(seq)-1]
			}
		}
		rec()
	}
	rule := fmt.Sprintf("exhaustive: every non-empty subset of positions of contracts of 0..%d sectors freed through the client, and every index sequence of length 1..%d over {0..size} (any order, duplicates, size = out of range) on contracts of 0..%d sectors sent as raw requests; same oracle as the rapid family, then the whole root list is fetched with its proof", maxSubset, maxRawLen, maxRawSize)
	runDirect(t, rule, cases)
}

// TestC09Faults: every multi-message RPC x every point at which the renter can
// stop, close, stall, truncate or send a wrong signature, on contracts of 0..3
// sectors, each followed by honest operations on the same contract.
func TestC09Faults(t *testing.T) {
	var cases []C09Case
	follow := func(size int) []C09Op {
		// the Old ops address the original contract again: if the fault ended
		// in a committed renewal they must be refused, otherwise they are
		// ordinary operations
		return []C09Op{{Op: "append", Roots: []int{9}}, {Op: "free", Idx: []int{0}}, {Op: "roots", Off: 0, Len: -1},
			{Op: "roots", Len: -1, Old: true}, {Op: "append", Roots: []int{8}, Old: true}, {Op: "free", Idx: []int{0}, Old: true}}
	}
	add := func(size int, f Fault, op C09Op) {
		op.Op, op.Fault = "fault", &f
		c := C09Case{Sizes: []int{size}, Ops: append([]C09Op{op}, follow(size)...)}
		cases = append(cases, c)
	}
	forAll := func(kind string, fn func(f Fault)) {
		for _, p := range faultPoints(kind) {
			fn(Fault{Kind: kind, AbortAt: p.AbortAt, Mode: p.Mode})
		}
		if kind != "write" {
			for _, s := range []string{"random", "other-number", "other-key"} {
				fn(Fault{Kind: kind, Sig: s})
			}
		}
		if fundsTxn(kind) {
			for _, s := range poolFaults {
				fn(Fault{Kind: kind, Sig: s})
			}
		}
	}
	maxSize := 3
	if kit.Thorough() {
		maxSize = 5
	}
	// free: every non-empty subset of every size
	for size := 1; size <= maxSize; size++ {
		for mask := 1; mask < 1<<size; mask++ {
			var idx []int
			for b := 0; b < size; b++ {
				if mask&(1<<b) != 0 {
					idx = append(idx, b)
				}
			}
			forAll("free", func(f Fault) { add(size, f, C09Op{Idx: idx}) })
		}
	}
	// append: stored, several stored, stored + unknown
	for size := 0; size <= maxSize; size++ {
		for _, roots := range [][]int{{10}, {10, 11}, {-1, 10, -2}} {
			forAll("append", func(f Fault) { add(size, f, C09Op{Roots: roots}) })
		}
	}
	// account-paid RPCs that must fail, each kind on an empty and a filled contract
	for k := range paidFailKinds {
		for _, size := range []int{0, 2} {
			cases = append(cases, C09Case{Sizes: []int{size}, Ops: []C09Op{{Op: "paidfail", Len: k, Off: 5}, {Op: "paidfail", Len: k, Off: 70000}, {Op: "append", Roots: []int{9}}, {Op: "roots", Len: -1}}, ReadAll: true})
		}
	}
	// refused uploads (unfunded account; payload cut short) BEFORE shorter paid
	// ones: a paid upload must be stored as exactly the bytes sent
	for _, first := range []Fault{{Kind: "write", Sig: "unfunded"}, {Kind: "write", AbortAt: 2, Mode: rhpx.ModeTrunc}, {Kind: "write", AbortAt: 2, Mode: rhpx.ModeClose}} {
		for _, later := range []int{1, 3, 6} {
			f := first
			ops := []C09Op{{Op: "fault", Fault: &f}}
			if later > 1 {
				g := first
				ops = append(ops, C09Op{Op: "fault", Fault: &g})
			}
			for i := 0; i < later; i++ {
				ops = append(ops, C09Op{Op: "write"})
			}
			ops = append(ops, C09Op{Op: "append", Roots: []int{1000, 1001, 1002}}, C09Op{Op: "roots", Len: -1})
			cases = append(cases, C09Case{Sizes: []int{1}, Ops: ops, ReadAll: true})
		}
	}
	// uploads: every abort point of RPCWriteSector, then further uploads (other
	// bytes), then the sectors of this case - also the one whose answer was
	// never read - are appended, listed and EVERY listed sector is read back
	for _, p := range append(faultPoints("write"), faultPoint{}) {
		for _, later := range []int{1, 2, 9} {
			ops := []C09Op{{Op: "fault", Fault: &Fault{Kind: "write", AbortAt: p.AbortAt, Mode: p.Mode}}}
			for i := 0; i < later; i++ {
				ops = append(ops, C09Op{Op: "write"})
			}
			ops = append(ops, C09Op{Op: "append", Roots: []int{1000, 1001, 3}}, C09Op{Op: "append", Roots: []int{1002, 1000 + later}}, C09Op{Op: "roots", Len: -1})
			cases = append(cases, C09Case{Sizes: []int{1}, Ops: ops, ReadAll: true, Leaf: 0})
		}
	}
	for _, kind := range []string{"replenish-accounts", "replenish-pools", "fund", "roots", "write", "form", "renew", "refresh-full", "refresh-partial"} {
		for _, size := range []int{0, 2} {
			if size == 0 && (kind == "roots") {
				continue
			}
			forAll(kind, func(f Fault) { add(size, f, C09Op{}) })
		}
	}
	// directed: honest renew / refresh of a contract with 2..4 sectors, then a
	// free (every single position and the first two) or an append as the FIRST
	// root-changing RPC on the renewal, then the other one; the roots of the
	// old, renewed contract are part of every snapshot comparison
	for _, kind := range []string{"renew", "refresh-full", "refresh-partial"} {
		for size := 2; size <= 4; size++ {
			var firsts [][]int
			for i := 0; i < size; i++ {
				firsts = append(firsts, []int{i})
			}
			firsts = append(firsts, []int{1, 0})
			for _, idx := range firsts {
				cases = append(cases, C09Case{Sizes: []int{size}, Ops: []C09Op{{Op: kind}, {Op: "free", Idx: idx}, {Op: "roots", Len: -1}, {Op: "append", Roots: []int{12}}, {Op: "free", Idx: []int{0}}, {Op: "roots", Len: -1}}})
			}
			cases = append(cases, C09Case{Sizes: []int{size}, Ops: []C09Op{{Op: kind}, {Op: "append", Roots: []int{12}}, {Op: "free", Idx: []int{0}}, {Op: "roots", Len: -1}}})
		}
	}
	rule := fmt.Sprintf("fault enumeration: {uploads abandoned at every point (incl. after all data, answer unread) followed by 1, 2 or 9 further uploads, appends of the uploaded roots and a byte-wise read-back of every listed sector; append, free (every non-empty subset), replenish accounts, replenish pools, fund, sector roots, write, form, renew, refresh full, refresh partial} x {close before each renter step, host deadline fires while it waits for the renter, half a message then close} + {random signature, signature over another revision number, signature by another key} at the signing point + for form / renew / refresh {renter input signatures invalid, renter inputs double-spent through the pool right before the signatures are sent} (every handler check passes, the pool rejects the finished set), on contracts of 0..%d sectors; plus honest renew / refresh followed by a free of each position (or an append) as the first root-changing RPC on the renewal, with the renewed contract kept in every by-value comparison; afterwards an honest append, free and full root listing on the same (or renewed) contract, then the same three against the original contract id (refused if it was renewed)", maxSize)
	runDirect(t, rule, cases)
}
