package prhp

import (
	"bytes"
	"context"
	"fmt"
	"reflect"
	"sort"
	"testing"

	proto4 "go.sia.tech/core/rhp/v4"
	"go.sia.tech/core/types"
	rhp4 "go.sia.tech/coreutils/rhp/v4"
	"pgregory.net/rapid"

	"verif/kit"
	"verif/rhpx"
)

// ---------------------------------------------------------------- case types

// C09Op is one step of a C09 sequence.
type C09Op struct {
	Op    string `json:"op"`              // append | free | roots | fault
	C     int    `json:"c,omitempty"`     // contract (mod number of contracts)
	Roots []int  `json:"roots,omitempty"` // append: >= 0 pool sector, < 0 unknown root
	Idx   []int  `json:"idx,omitempty"`   // free: positions (mod current size); fault/free likewise
	OOB   int    `json:"oob,omitempty"`   // free: if > 0 one extra index = size + OOB - 1
	Off   int    `json:"off,omitempty"`   // roots: range start (mod size)
	Len   int    `json:"len,omitempty"`   // roots: range length (mod remaining, +1)
	Fault *Fault `json:"fault,omitempty"` // fault: what to do
	Old   bool   `json:"old,omitempty"`   // address contract C itself even if it has been renewed
}

// Fault describes a deviating exchange: the RPC kind, where the renter stops
// and how, or which wrong signature it sends at the signing point.
type Fault struct {
	Kind    string `json:"kind"` // append free replenish-accounts replenish-pools fund roots write form renew refresh-full refresh-partial
	AbortAt int    `json:"abort_at,omitempty"`
	Mode    string `json:"mode,omitempty"` // close | stall | trunc
	Sig     string `json:"sig,omitempty"`  // "" | random | other-number | other-key
}

func (f Fault) String() string {
	if f.Sig != "" {
		return fmt.Sprintf("%s/sig=%s", f.Kind, f.Sig)
	}
	return fmt.Sprintf("%s/abort@%d/%s", f.Kind, f.AbortAt, f.Mode)
}

// C09Case is a sequence of operations on one or two contracts.
type C09Case struct {
	Sizes    []int   `json:"sizes"` // initial number of sectors per contract
	Ops      []C09Op `json:"ops"`
	ReadBack []int   `json:"read_back,omitempty"` // positions (mod) to read back at the end
	ReadAll  bool    `json:"read_all,omitempty"`  // read back every listed sector of every live contract at the end
	Leaf     int     `json:"leaf,omitempty"`
}

// ---------------------------------------------------------------- executor

type c09 struct {
	*session
	acctFunded bool
	nt         bool
	// sectors the renter uploaded through RPCWriteSector and the host had
	// every byte of (also when the renter never read the answer): root
	// computed by the harness with core, plus the bytes sent
	uploads  []upload
	writeSeq int
}

type upload struct {
	root types.Hash256
	data []byte
}

// rootFor maps a small int of a case to a sector root: 1000+i is the i-th
// sector uploaded so far in this case (if any), otherwise see rootOf.
func (x *c09) rootFor(k int) (types.Hash256, bool) {
	if k >= 1000 && len(x.uploads) > 0 {
		return x.uploads[(k-1000)%len(x.uploads)].root, true
	}
	if k >= 1000 {
		k %= rhpx.PoolSize
	}
	return rootOf(k), known(k)
}

func (x *c09) uploadOf(root types.Hash256) *upload {
	for i := range x.uploads {
		if x.uploads[i].root == root {
			return &x.uploads[i]
		}
	}
	return nil
}

func newC09(sizes []int, cs *kit.CaseStats) (*c09, error) {
	s, err := newSession(rhpx.HostConfig{}, 2, 1, cs)
	if err != nil {
		return nil, err
	}
	x := &c09{session: s}
	for i, n := range sizes {
		m, err := s.form(types.Siacoins(100), types.Siacoins(200), 60)
		if err != nil {
			s.close()
			return nil, err
		}
		if n > 0 {
			var ks []int
			for j := 0; j < n; j++ {
				ks = append(ks, (i*7+j)%rhpx.PoolSize)
			}
			if err := x.appendClient(m, ks); err != nil {
				s.close()
				return nil, fmt.Errorf("set-up append: %w", err)
			}
		}
	}
	return x, nil
}

// expectCommitted checks that the host's committed revision of m equals exp in
// every field but the signatures, that both signatures verify over it, and
// records it in the model.
func (x *c09) expectCommitted(m *mcontract, exp types.V2FileContract, what string) error {
	rs, unlock, err := x.H.Contractor.LockV2Contract(m.ID)
	if err != nil {
		return fmt.Errorf("%s: cannot lock contract afterwards: %v", what, err)
	}
	got := rs.Revision
	unlock()
	cmp := got
	cmp.RenterSignature, cmp.HostSignature = types.Signature{}, types.Signature{}
	exp.RenterSignature, exp.HostSignature = types.Signature{}, types.Signature{}
	if !reflect.DeepEqual(cmp, exp) {
		return fmt.Errorf("%s: committed revision is not the one core derives from the previous revision and the request: %s", what, revDiff(exp, cmp))
	}
	h := x.tipState().ContractSigHash(got)
	if !got.RenterPublicKey.VerifyHash(h, got.RenterSignature) {
		return fmt.Errorf("%s: committed revision %d lacks a valid renter signature", what, got.RevisionNumber)
	}
	if !got.HostPublicKey.VerifyHash(h, got.HostSignature) {
		return fmt.Errorf("%s: committed revision %d lacks a valid host signature", what, got.RevisionNumber)
	}
	m.commit(got)
	return nil
}

// check is the oracle evaluated after every attempt.
func (x *c09) check(what string, before *rhpx.Snapshot) error {
	snap := x.snapshot()
	if err := merkleInvariant(snap); err != nil {
		return fmt.Errorf("after %s: %w", what, err)
	}
	if before != nil {
		if d := before.Diff(snap); d != "" {
			return fmt.Errorf("after %s (failed or abandoned, nothing may change): %s", what, d)
		}
	}
	if d := x.modelDiff(snap); d != "" {
		return fmt.Errorf("after %s: %s", what, d)
	}
	return nil
}

func (x *c09) appendClient(m *mcontract, ks []int) error {
	var roots, knownRoots []types.Hash256
	for _, k := range ks {
		r, ok := x.rootFor(k)
		roots = append(roots, r)
		if ok {
			knownRoots = append(knownRoots, r)
		}
	}
	what := fmt.Sprintf("append %v via client", ks)
	before := x.snapshot()
	res, err := x.clientAppend(m, roots)
	if stop, e := infra(x.cs, err); stop {
		return e
	}
	if err != nil {
		x.cs.Class("append-rejected")
		return x.check(what+" -> "+err.Error(), &before)
	}
	if !reflect.DeepEqual(append([]types.Hash256{}, res.Sectors...), append([]types.Hash256{}, knownRoots...)) {
		return fmt.Errorf("%s: host accepted %s, but exactly the stored sectors %s must be accepted", what, rhpx.ShortRoots(res.Sectors), rhpx.ShortRoots(knownRoots))
	}
	newRoots := listAppend(m.Roots, knownRoots)
	exp, _, rerr := proto4.ReviseForAppendSectors(m.Rev, x.Prices, proto4.MetaRoot(newRoots), uint64(len(knownRoots)))
	if rerr != nil {
		return fmt.Errorf("%s succeeded although core cannot derive the revision: %v", what, rerr)
	}
	if err := x.expectCommitted(m, exp, what); err != nil {
		return err
	}
	m.Roots = newRoots
	if len(knownRoots) != len(roots) {
		x.cs.Class("append-with-unknown-roots")
	}
	x.cs.Class("append-ok")
	return x.check(what, nil)
}

// crossing reports whether, processing the de-duplicated indices from the
// highest down, some removal takes its replacement from a position that is
// itself being freed.
func crossing(size int, indices []uint64) bool {
	set := map[uint64]bool{}
	for _, i := range indices {
		set[i] = true
	}
	if len(set) < 2 {
		return false
	}
	var idx []uint64
	for i := range set {
		idx = append(idx, i)
	}
	sort.Slice(idx, func(i, j int) bool { return idx[i] > idx[j] })
	for i, n := range idx {
		src := uint64(size - i - 1)
		if src != n && set[src] {
			return true
		}
	}
	return false
}

func (x *c09) freeClient(m *mcontract, indices []uint64) error {
	what := fmt.Sprintf("free %v of %d via client", indices, len(m.Roots))
	before := x.snapshot()
	res, err := x.clientFree(m, indices)
	if stop, e := infra(x.cs, err); stop {
		return e
	}
	inRange := true
	for _, i := range indices {
		inRange = inRange && i < uint64(len(m.Roots))
	}
	if err != nil {
		if inRange && len(indices) > 0 {
			return fmt.Errorf("%s: rejected although every index is in range: %v", what, err)
		}
		x.cs.Class("free-rejected")
		return x.check(what+" -> "+err.Error(), &before)
	}
	if !inRange {
		return fmt.Errorf("%s: accepted although an index is out of range", what)
	}
	newRoots := listFree(m.Roots, indices)
	removed := len(m.Roots) - len(newRoots)
	exp, _, rerr := proto4.ReviseForFreeSectors(m.Rev, x.Prices, proto4.MetaRoot(newRoots), removed)
	if rerr != nil {
		return fmt.Errorf("%s succeeded although core cannot derive the revision: %v", what, rerr)
	}
	_ = res
	if err := x.expectCommitted(m, exp, what); err != nil {
		return err
	}
	if crossing(len(m.Roots), indices) {
		x.cs.Class("free-crossing-swap")
		x.nt = true
	}
	if removed != len(indices) {
		x.cs.Class("free-duplicate-indices")
	}
	m.Roots = newRoots
	x.cs.Class("free-ok")
	return x.check(what, nil)
}

func (x *c09) rootsRange(m *mcontract, off, n uint64) error {
	what := fmt.Sprintf("sector roots [%d,+%d) of %d", off, n, len(m.Roots))
	before := x.snapshot()
	res := x.R.SectorRoots(m.view(), x.Prices, off, n, rhpx.Script{}, nil)
	if res.Infra != nil {
		x.cs.Inconclusive("watchdog")
		return errInconclusive
	}
	valid := n > 0 && off+n <= uint64(len(m.Roots))
	if !res.Done {
		if valid {
			return fmt.Errorf("%s: rejected although the range is valid: %v", what, res.Err)
		}
		x.cs.Class("roots-rejected")
		return x.check(what+" -> rejected", &before)
	}
	if !valid {
		return fmt.Errorf("%s: served although the range is invalid", what)
	}
	want := m.Roots[off : off+n]
	if !reflect.DeepEqual(append([]types.Hash256{}, res.Resp.Roots...), append([]types.Hash256{}, want...)) {
		return fmt.Errorf("%s: host listed %s, list model %s", what, rhpx.ShortRoots(res.Resp.Roots), rhpx.ShortRoots(want))
	}
	if !proto4.VerifySectorRootsProof(res.Resp.Proof, res.Resp.Roots, uint64(len(m.Roots)), off, off+n, proto4.MetaRoot(m.Roots)) {
		return fmt.Errorf("%s: the range proof does not verify against the Merkle root of the list model", what)
	}
	exp, _, rerr := proto4.ReviseForSectorRoots(m.Rev, x.Prices, n)
	if rerr != nil {
		return fmt.Errorf("%s succeeded although core cannot derive the revision: %v", what, rerr)
	}
	if err := x.expectCommitted(m, exp, what); err != nil {
		return err
	}
	x.cs.Class("roots-ok")
	return x.check(what, nil)
}

// fundAccount makes account a hold amount more, through the honest client.
func (x *c09) fundAccount(m *mcontract, a int, amount types.Currency) error {
	what := "fund account via client"
	res, err := x.clientFund(m, []proto4.AccountDeposit{{Account: x.Accts[a], Amount: amount}})
	if stop, e := infra(x.cs, err); stop {
		return e
	}
	if err != nil {
		return fmt.Errorf("%s failed: %v", what, err)
	}
	_ = res
	exp, _, rerr := proto4.ReviseForFundAccounts(m.Rev, amount)
	if rerr != nil {
		return rerr
	}
	if err := x.expectCommitted(m, exp, what); err != nil {
		return err
	}
	x.Bal[a] = x.Bal[a].Add(amount)
	return x.check(what, nil)
}

// readBack reads 64 bytes of every requested listed sector through the
// honest client and compares them with the known content.
func (x *c09) readBack(m *mcontract, positions []int, leaf int) error {
	if len(m.Roots) == 0 || len(positions) == 0 {
		return nil
	}
	if !x.acctFunded {
		if err := x.fundAccount(m, 0, types.Siacoins(1)); err != nil {
			return err
		}
		x.acctFunded = true
	}
	token := x.R.Token(x.AcctKeys[0])
	for _, p := range positions {
		root := m.Roots[mod(p, len(m.Roots))]
		pi := rhpx.PoolIndex(root)
		up := x.uploadOf(root)
		if pi < 0 && up == nil {
			return fmt.Errorf("harness: model holds a root that is neither a pool sector nor an upload")
		}
		l := uint64(mod(leaf+p*977, proto4.LeavesPerSector))
		var want [proto4.LeafSize]byte
		if up != nil {
			// uploaded sector: a leaf inside the bytes sent (the rest is padding)
			l = uint64(mod(leaf+p, len(up.data)/proto4.LeafSize))
			copy(want[:], up.data[l*proto4.LeafSize:])
			x.cs.Class("read-back-uploaded-sector")
		} else {
			want = rhpx.SectorLeaf(pi, l)
		}
		var buf bytes.Buffer
		_, err := rhp4.RPCReadSector(context.Background(), x.H.Client, x.Prices, token, &buf, root, l*proto4.LeafSize, proto4.LeafSize)
		if stop, e := infra(x.cs, x.idle(err)); stop {
			return e
		}
		if err != nil {
			return fmt.Errorf("listed sector %v (position %d) cannot be read back: %v", root, mod(p, len(m.Roots)), err)
		}
		if !bytes.Equal(buf.Bytes(), want[:]) {
			return fmt.Errorf("listed sector %v leaf %d reads back different bytes than were stored", root, l)
		}
		cost := x.Prices.RPCReadSectorCost(proto4.LeafSize).RenterCost()
		x.Bal[0] = x.Bal[0].Sub(cost)
		x.cs.Class("read-back")
	}
	return x.check("read back", nil)
}

func resolveIdx(idx []int, oob, size int) []uint64 {
	var out []uint64
	for _, i := range idx {
		if size > 0 {
			out = append(out, uint64(mod(i, size)))
		} else {
			out = append(out, uint64(mod(i, 8)))
		}
	}
	if oob > 0 {
		out = append(out, uint64(size+oob-1))
	}
	return out
}

func (x *c09) step(op C09Op) error {
	m := x.C[mod(op.C, len(x.C))]
	if op.Old && m.Renewed {
		return x.stale(m, op)
	}
	// a renewed contract is final; operate on its successor
	for m.Renewed {
		found := false
		for _, c := range x.C {
			if c.ID == m.ID.V2RenewalID() {
				m, found = c, true
				break
			}
		}
		if !found {
			return fmt.Errorf("harness: renewed contract without successor")
		}
	}
	switch op.Op {
	case "append":
		return x.appendClient(m, op.Roots)
	case "free":
		return x.freeClient(m, resolveIdx(op.Idx, op.OOB, len(m.Roots)))
	case "paidfail":
		return x.paidFail(op)
	case "write":
		// an honest upload (scripted renter, nothing withheld)
		return x.fault(m, Fault{Kind: "write"}, op)
	case "renew", "refresh-full", "refresh-partial":
		// an honest renewal through the scripted renter (no abort, no wrong
		// signature); the old contract stays in the snapshot, so its roots are
		// compared by value after every later operation on the renewal
		return x.fault(m, Fault{Kind: op.Op}, op)
	case "confirm":
		// broadcast and mine one of the revisions committed so far (usually an
		// older one): roots and latest revision must stay what they are
		if len(m.Chain) < 2 {
			return nil
		}
		rev := m.Chain[1+mod(op.Len, len(m.Chain)-1)]
		basis, fce, err := x.H.Contractor.V2FileContractElement(m.ID)
		if err != nil || rev.RevisionNumber <= fce.V2FileContract.RevisionNumber {
			return nil
		}
		txn := types.V2Transaction{FileContractRevisions: []types.V2FileContractRevision{{Parent: fce, Revision: rev}}}
		if _, err := x.H.CM.AddV2PoolTransactions(basis, []types.V2Transaction{txn}); err != nil {
			return fmt.Errorf("a revision the host committed (%d) is not accepted by the pool: %v", rev.RevisionNumber, err)
		}
		if err := x.H.Mine(types.VoidAddress, 1); err != nil {
			return err
		}
		x.cs.Class("confirmed-a-committed-revision")
		return x.check(fmt.Sprintf("revision %d (latest %d) confirmed on chain", rev.RevisionNumber, m.Rev.RevisionNumber), nil)
	case "rawfree":
		var idx []uint64
		for _, i := range op.Idx {
			idx = append(idx, uint64(i))
		}
		return x.rawFree(m, idx)
	case "roots":
		size := len(m.Roots)
		if op.Len < 0 { // the whole list
			return x.rootsRange(m, 0, uint64(size))
		}
		off := uint64(mod(op.Off, size+1))
		n := uint64(op.Len)
		if size > 0 {
			n = uint64(mod(op.Len, size-int(off)+1))
			if n == 0 && op.Len%3 != 0 {
				n = 1
			}
		}
		return x.rootsRange(m, off, n)
	case "fault":
		if op.Fault == nil {
			return nil
		}
		return x.fault(m, *op.Fault, op)
	}
	return fmt.Errorf("harness: unknown op %q", op.Op)
}

// stale issues an honest append / free / root listing, built on the last
// revision, against a contract that has been renewed or refreshed: the host
// must refuse it, sign and persist nothing and leave the snapshot unchanged.
func (x *c09) stale(m *mcontract, op C09Op) error {
	before := x.snapshot()
	logFrom := x.H.Log.Len()
	var res rhpx.Result
	what := op.Op + " on a renewed contract"
	switch op.Op {
	case "append":
		var roots []types.Hash256
		for _, k := range op.Roots {
			r, _ := x.rootFor(k)
			roots = append(roots, r)
		}
		if len(roots) == 0 {
			roots = []types.Hash256{rootOf(0)}
		}
		res = x.R.Append(m.view(), x.Prices, roots, rhpx.Script{}, nil).Result
	case "free", "rawfree":
		if len(m.Roots) == 0 {
			return nil
		}
		res = x.R.Free(m.view(), x.Prices, normalise(resolveIdx(op.Idx, 0, len(m.Roots))), rhpx.Script{}, nil).Result
	case "roots":
		if len(m.Roots) == 0 {
			return nil
		}
		res = x.R.SectorRoots(m.view(), x.Prices, 0, uint64(len(m.Roots)), rhpx.Script{}, nil).Result
	default:
		return nil
	}
	if res.Infra != nil {
		x.cs.Inconclusive("watchdog")
		return errInconclusive
	}
	x.cs.Class("stale:" + op.Op)
	if res.Done {
		return fmt.Errorf("%s: the host completed it although the contract is no longer revisable", what)
	}
	if err := quietLog(x.H.Log.Since(logFrom)); err != nil {
		return fmt.Errorf("%s (%v): %w", what, res, err)
	}
	return x.check(what+" -> "+res.String(), &before)
}

// paidFailKinds are account-paid RPCs that must fail: the sector is not on the
// host, or the request is outside what the request validation accepts.
var paidFailKinds = []string{"read-unknown-root", "verify-unknown-root", "read-length-zero", "read-beyond-sector", "read-end-unaligned",
	"read-offset-unaligned", "write-length-zero", "write-length-unaligned", "write-too-long", "verify-leaf-out-of-range", "read-refused-append-root"}

// paidFail issues one of them from a funded account with a valid token and a
// valid price table: it must fail and leave roots, revisions and every account
// and pool balance exactly as they were (no successful debit, no sector call).
func (x *c09) paidFail(op C09Op) error {
	m := x.C[0]
	if x.Bal[0].Cmp(types.Siacoins(1).Div64(2)) < 0 {
		for _, c := range x.C {
			if !c.Renewed {
				m = c
			}
		}
		if err := x.fundAccount(m, 0, types.Siacoins(1)); err != nil {
			return err
		}
		x.acctFunded = true
	}
	kind := paidFailKinds[mod(op.Len, len(paidFailKinds))]
	token := x.R.Token(x.AcctKeys[0])
	stored, _ := rhpx.PoolSector(mod(op.Off, rhpx.PoolSize))
	unknown := rhpx.UnknownRoot(1 + mod(op.Off, 7))
	before := x.snapshot()
	logFrom := x.H.Log.Len()
	var res rhpx.Result
	switch kind {
	case "read-unknown-root", "read-refused-append-root":
		if kind == "read-refused-append-root" {
			// let the host see (and refuse) the root in an append first
			for _, c := range x.C {
				if !c.Renewed {
					if err := x.appendClient(c, []int{-(1 + mod(op.Off, 7)), 2}); err != nil {
						return err
					}
					break
				}
			}
			before = x.snapshot()
			logFrom = x.H.Log.Len()
		}
		res = x.R.Read(x.Prices, token, unknown, 0, proto4.LeafSize*uint64(1+mod(op.Off, 64)), rhpx.Script{}).Result
	case "verify-unknown-root":
		res = x.R.Verify(x.Prices, token, unknown, uint64(mod(op.Off, proto4.LeavesPerSector)), rhpx.Script{}).Result
	case "read-length-zero":
		res = x.R.Read(x.Prices, token, stored, 0, 0, rhpx.Script{}).Result
	case "read-beyond-sector":
		res = x.R.Read(x.Prices, token, stored, proto4.SectorSize-proto4.LeafSize, 2*proto4.LeafSize, rhpx.Script{}).Result
	case "read-end-unaligned":
		res = x.R.Read(x.Prices, token, stored, 0, proto4.LeafSize/2, rhpx.Script{}).Result
	case "read-offset-unaligned":
		res = x.R.Read(x.Prices, token, stored, proto4.LeafSize/2, proto4.LeafSize/2, rhpx.Script{}).Result
	case "write-length-zero":
		res = x.R.Write(x.Prices, token, nil, 0, rhpx.Script{}).Result
	case "write-length-unaligned":
		res = x.R.Write(x.Prices, token, make([]byte, 100), 100, rhpx.Script{}).Result
	case "write-too-long":
		res = x.R.Write(x.Prices, token, make([]byte, 128), proto4.SectorSize+proto4.LeafSize, rhpx.Script{}).Result
	case "verify-leaf-out-of-range":
		res = x.R.Verify(x.Prices, token, stored, proto4.LeavesPerSector, rhpx.Script{}).Result
	}
	if res.Infra != nil {
		x.cs.Inconclusive("watchdog")
		return errInconclusive
	}
	x.cs.Class("paid-rpc-must-fail:" + kind)
	what := "account-paid " + kind
	if res.Done {
		return fmt.Errorf("%s: the host served it", what)
	}
	if err := quietLog(x.H.Log.Since(logFrom)); err != nil {
		return fmt.Errorf("%s (%v): %w", what, res, err)
	}
	return x.check(what+" -> "+res.String(), &before)
}

func runC09(c C09Case, cs *kit.CaseStats) error {
	sizes := c.Sizes
	if len(sizes) == 0 {
		sizes = []int{0}
	}
	x, err := newC09(sizes, cs)
	if stop, e := infra(cs, err); stop {
		return e
	}
	if err != nil {
		return err
	}
	defer x.close()
	for i, op := range c.Ops {
		if err := x.step(op); err != nil {
			if stop, e := infra(cs, err); stop {
				return e
			}
			return fmt.Errorf("step %d: %w", i, err)
		}
	}
	if c.ReadAll {
		for _, m := range x.C {
			if m.Renewed || len(m.Roots) == 0 {
				continue
			}
			var all []int
			for i := range m.Roots {
				all = append(all, i)
			}
			if err := x.readBack(m, all, c.Leaf); err != nil {
				if stop, e := infra(cs, err); stop {
					return e
				}
				return err
			}
		}
	}
	if len(c.ReadBack) > 0 {
		m := x.C[0]
		for m.Renewed {
			for _, c2 := range x.C {
				if c2.ID == m.ID.V2RenewalID() {
					m = c2
				}
			}
		}
		if err := x.readBack(m, c.ReadBack, c.Leaf); err != nil {
			if stop, e := infra(cs, err); stop {
				return e
			}
			return err
		}
	}
	if x.nt {
		cs.NonTrivial()
	}
	return nil
}

// ---------------------------------------------------------------- generator

func genIdx(t *rapid.T) []int {
	n := rapid.IntRange(0, 4).Draw(t, "nidx")
	idx := make([]int, n)
	for i := range idx {
		idx[i] = rapid.IntRange(0, 7).Draw(t, "idx")
	}
	return idx
}

func genFault(t *rapid.T, kinds []string) *Fault {
	f := &Fault{Kind: rapid.SampledFrom(kinds).Draw(t, "kind")}
	if f.Kind == "write" && rapid.IntRange(0, 2).Draw(t, "unfunded") == 0 {
		f.Sig = "unfunded"
		return f
	}
	if fundsTxn(f.Kind) && rapid.IntRange(0, 2).Draw(t, "poolfault") == 0 {
		f.Sig = rapid.SampledFrom(poolFaults).Draw(t, "poolsig")
		return f
	}
	if rapid.IntRange(0, 3).Draw(t, "sigfault") == 0 {
		f.Sig = rapid.SampledFrom([]string{"random", "other-number", "other-key"}).Draw(t, "sig")
		return f
	}
	pts := faultPoints(f.Kind)
	p := pts[rapid.IntRange(0, len(pts)-1).Draw(t, "point")]
	f.AbortAt, f.Mode = p.AbortAt, p.Mode
	return f
}

func genC09(t *rapid.T) C09Case {
	var c C09Case
	nc := 1
	if rapid.IntRange(0, 4).Draw(t, "two") == 0 {
		nc = 2
	}
	for i := 0; i < nc; i++ {
		maxSize := 6
		if kit.Thorough() {
			maxSize = 10
		}
		c.Sizes = append(c.Sizes, rapid.IntRange(0, maxSize).Draw(t, "size"))
	}
	maxOps := 10
	if kit.Thorough() {
		maxOps = 20
	}
	n := rapid.IntRange(1, maxOps).Draw(t, "nops")
	for i := 0; i < n; i++ {
		op := C09Op{C: rapid.IntRange(0, nc-1).Draw(t, "c"), Old: rapid.IntRange(0, 4).Draw(t, "old") == 0}
		switch k := rapid.IntRange(0, 21).Draw(t, "op"); {
		case k >= 20:
			op.Op = "paidfail"
			op.Len = rapid.IntRange(0, len(paidFailKinds)-1).Draw(t, "failkind")
			op.Off = rapid.IntRange(0, 1<<16).Draw(t, "failarg")
		case k >= 18:
			op.Op = "write"
		case k >= 16:
			op.Op = rapid.SampledFrom([]string{"renew", "refresh-full", "refresh-partial"}).Draw(t, "renewal")
		case k == 15:
			op.Op = "confirm"
			op.Len = rapid.IntRange(0, 7).Draw(t, "which")
		case k < 4:
			op.Op = "append"
			na := rapid.IntRange(1, 4).Draw(t, "nroots")
			for j := 0; j < na; j++ {
				if rapid.IntRange(0, 5).Draw(t, "unknown") == 0 {
					op.Roots = append(op.Roots, -1-rapid.IntRange(0, 3).Draw(t, "u"))
				} else if rapid.IntRange(0, 3).Draw(t, "uploaded") == 0 {
					op.Roots = append(op.Roots, 1000+rapid.IntRange(0, 5).Draw(t, "up"))
				} else {
					op.Roots = append(op.Roots, rapid.IntRange(0, rhpx.PoolSize-1).Draw(t, "root"))
				}
			}
		case k < 10:
			op.Op = "free"
			op.Idx = genIdx(t)
			if rapid.IntRange(0, 15).Draw(t, "oob") == 0 {
				op.OOB = rapid.IntRange(1, 3).Draw(t, "oobk")
			}
		case k < 12:
			op.Op = "roots"
			op.Off = rapid.IntRange(0, 7).Draw(t, "off")
			op.Len = rapid.IntRange(0, 7).Draw(t, "len")
		default:
			op.Op = "fault"
			op.Fault = genFault(t, []string{"free", "free", "free", "append", "append", "replenish-accounts", "fund", "roots", "renew", "refresh-full", "refresh-partial", "write", "write"})
			op.Idx = genIdx(t)
			if len(op.Idx) == 0 {
				op.Idx = []int{rapid.IntRange(0, 7).Draw(t, "idx1")}
			}
			op.Roots = []int{rapid.IntRange(0, rhpx.PoolSize-1).Draw(t, "root")}
		}
		c.Ops = append(c.Ops, op)
	}
	c.ReadAll = rapid.IntRange(0, 2).Draw(t, "readall") == 0
	nr := rapid.IntRange(0, 2).Draw(t, "nread")
	if kit.Thorough() {
		nr = rapid.IntRange(0, 6).Draw(t, "nread")
	}
	for i := 0; i < nr; i++ {
		c.ReadBack = append(c.ReadBack, rapid.IntRange(0, 15).Draw(t, "rb"))
	}
	c.Leaf = rapid.IntRange(0, proto4.LeavesPerSector-1).Draw(t, "leaf")
	return c
}

const c09Rule = "sequences of uploads (RPCWriteSector, honest or abandoned at any point incl. after all data was sent), append (stored, uploaded and unknown roots mixed), free (any positions, any order, duplicates, out of range), sector-roots ranges, account-paid RPCs that must fail (read / verify of roots the host does not store or refused in an append, reads and writes outside the accepted offsets / lengths; every account and pool balance must stay put), honest renewals / refreshes (the renewed contract stays under observation) and faulty exchanges (renter stops/closes/stalls/truncates at a message boundary, or sends a wrong signature; renew / refresh whose finished set the pool rejects) on 1-2 contracts of 0..6 (thorough 0..10) sectors against the real rhp4.Server; after every attempt MetaRoot(host roots) = committed FileMerkleRoot, count x SectorSize = Filesize, failed/abandoned attempts leave the by-value snapshot (revision, roots, balances) unchanged, successes equal the list model and core's ReviseFor*. Non-trivial = a free of >= 2 positions where a replacement comes from a position that is itself freed, or an abort after the host's first response; distinct by hash of the case."

var c09Assumptions = []string{
	"host = rhp4.Server over the repository's reference testutil.EphemeralContractor / EphemeralSectorStore on the all-v2 test network, reached through an in-memory buffered stream (net.Conn obligations only)",
	"a renter that goes silent is modelled by the host-side stream deadline firing (forced, no wall clock); QUIC/siamux specifics are out of scope",
	"free requests with positions not sorted descending are sent only as raw requests; for those only the commitment invariants are asserted (the client normalises, the host keeps the wire behaviour)",
	"core (Merkle arithmetic, ReviseFor*, signature hashes) is the trusted base",
}

var c09Prop = kit.Prop[C09Case]{ID: "C09", Rule: c09Rule, Assumptions: c09Assumptions, Gen: genC09, Run: runC09}

func TestC09(t *testing.T) { c09Prop.Main(t) }
