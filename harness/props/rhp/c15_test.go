package prhp

import (
	"bytes"
	"fmt"
	"reflect"
	"sync"
	"testing"
	"time"

	proto4 "go.sia.tech/core/rhp/v4"
	"go.sia.tech/core/types"
	"pgregory.net/rapid"

	"verif/kit"
	"verif/rhpx"
)

// ---------------------------------------------------------------- case types

// C15Op is one step of a C15 sequence.
type C15Op struct {
	Op string `json:"op"` // fund repl-acct repl-pool attach detach read write verify balance
	C  int    `json:"c,omitempty"`
	A  int    `json:"a,omitempty"` // account
	P  int    `json:"p,omitempty"` // pool

	Dep  []int  `json:"dep,omitempty"`  // fund: (account, amount code) pairs
	Keys []int  `json:"keys,omitempty"` // replenish: distinct account / pool indices
	Rel  int    `json:"rel,omitempty"`  // replenish: target = balance of the first key + Rel (if Abs == 0)
	Abs  int    `json:"abs,omitempty"`  // replenish: target = amount code Abs-1 (if > 0)
	Nest string `json:"nest,omitempty"` // replenish: pay | fund-other - an RPC forced between the host's quote and the renter's signature
	Dup  bool   `json:"dup,omitempty"`  // replenish: list the first key a second time at the end of the request

	Bad    string `json:"bad,omitempty"`    // attach/detach: wrong-key other-host expired; service: token-otherkey token-expired token-otherhost
	By     string `json:"by,omitempty"`     // detach: pool | account
	Batch  []int  `json:"batch,omitempty"`  // attach/detach: further valid (account, pool) pairs in the same request
	Ensure bool   `json:"ensure,omitempty"` // attach: credit never-funded pools with 1 H first so that they exist
	Pick   int    `json:"pick,omitempty"`   // detach: if > 0 address the (Pick-1)-th existing attachment instead of (A, P)

	AbortAt int    `json:"abort_at,omitempty"` // service: the renter stops right before this step (see rhpx.Script)
	Mode    string `json:"mode,omitempty"`     // service: close | stall | trunc
	Pref    bool   `json:"pref,omitempty"`     // service: pay from the (A-th) account that has pools attached, if any
	Delta   int    `json:"delta,omitempty"`    // service: drawable funds are topped up to cost+Delta first (-1, 0, +1); 9 = leave as they are
	Split   []int  `json:"split,omitempty"`    // service: weights of the top-up over own balance and attached pools
	Sector  int    `json:"sector,omitempty"`   // read/verify: pool sector; < 0: a root the host does not store
	Off     int    `json:"off,omitempty"`      // read: leaf offset
	Len     int    `json:"len,omitempty"`      // read/write: length code
	Edge    int    `json:"edge,omitempty"`     // read/verify: 1 range ends at the sector end, 2 whole sector, 3 offset not leaf aligned (end aligned), 4 last leaf only
}

// C15Case is a sequence over 3 accounts, 5 pools and 2 contracts.
type C15Case struct {
	Ops []C15Op `json:"ops"`
	// Dual: pool 4 and account 0 are the same key (accounts and pools are
	// separate ledgers keyed by the same type; one key may play both roles)
	Dual bool `json:"dual,omitempty"`
}

var lenTable = []uint64{64, 128, 4096, 4160, 1 << 16}

// amounts in the order of magnitude of the service prices, so that accounts do
// run dry
var c15Amounts = []types.Currency{
	types.NewCurrency64(1), types.NewCurrency64(7), types.NewCurrency64(1000), types.NewCurrency64(409_600),
	types.NewCurrency64(419_430_400), types.NewCurrency64(1_000_000_000_000),
}

func amount15(code int) types.Currency {
	if code >= 100 {
		return extremeTable[(code-100)%len(extremeTable)]
	}
	return c15Amounts[mod(code, len(c15Amounts))]
}

func genAmount15(t *rapid.T, label string) int {
	if rapid.IntRange(0, 7).Draw(t, label+"-extreme") == 0 {
		return 100 + rapid.IntRange(0, len(extremeTable)-1).Draw(t, label+"-x")
	}
	return rapid.IntRange(0, len(c15Amounts)-1).Draw(t, label)
}

// ---------------------------------------------------------------- executor

type c15 struct {
	*session
	dual bool
	// nest, if set, names an RPC the next replenish runs between the host's
	// quote and the renter's signature: "pay" (a verify paid from a listed
	// account / an account the listed pool is attached to) or "fund-other" (the
	// first listed key is funded / replenished through the other contract)
	nest     string
	pooled   bool // a debit drained an account and continued into a pool
	short1   bool // a request exactly one hasting short
	credits  int
	services int
}

func newC15(cs *kit.CaseStats) (*c15, error) {
	s, err := newSession(rhpx.HostConfig{}, 3, 5, cs)
	if err != nil {
		return nil, err
	}
	for i := 0; i < 2; i++ {
		if _, err := s.form(types.Siacoins(50), types.Siacoins(100), 60); err != nil {
			s.close()
			return nil, err
		}
	}
	return &c15{session: s}, nil
}

func (x *c15) after(what string, before *rhpx.Snapshot) error {
	snap := x.snapshot()
	if before != nil {
		if d := before.Diff(snap); d != "" {
			return fmt.Errorf("%s (must change nothing): %s", what, d)
		}
	}
	if d := x.modelDiff(snap); d != "" {
		return fmt.Errorf("%s: %s", what, d)
	}
	return nil
}

// creditOracle checks one funding exchange against the recorded calls: exactly
// one credit batch, carried by one committed revision that moves exactly the
// credited total from the renter payout to the host payout, doubly signed.
func (x *c15) creditOracle(what string, m *mcontract, logFrom int, wantOp string, want []proto4.AccountDeposit) error {
	var calls []rhpx.Call
	for _, c := range successfulCommits(x.H.Log.Since(logFrom)) {
		if c.ContractID == m.ID {
			calls = append(calls, c)
		}
	}
	if len(calls) != 1 {
		return fmt.Errorf("%s: %d credit batches / revisions committed on the paying contract, exactly one expected", what, len(calls))
	}
	c := calls[0]
	if c.Op != wantOp || c.ContractID != m.ID {
		return fmt.Errorf("%s: committed through %s on %v, expected %s on %v", what, c.Op, c.ContractID, wantOp, m.ID)
	}
	if !reflect.DeepEqual(append([]proto4.AccountDeposit{}, c.Deposits...), append([]proto4.AccountDeposit{}, want...)) {
		return fmt.Errorf("%s: credited %v, the harness' balance model gives %v", what, c.Deposits, want)
	}
	var total types.Currency
	for _, d := range c.Deposits {
		total = total.Add(d.Amount)
	}
	prev, next := m.Rev, c.Revision
	if next.RenterOutput.Value.Cmp(prev.RenterOutput.Value) > 0 || !prev.RenterOutput.Value.Sub(next.RenterOutput.Value).Equals(total) {
		return fmt.Errorf("%s: credits total %v but the revision lowers the renter payout by %v -> %v", what, total, prev.RenterOutput.Value, next.RenterOutput.Value)
	}
	if next.HostOutput.Value.Cmp(prev.HostOutput.Value) < 0 || !next.HostOutput.Value.Sub(prev.HostOutput.Value).Equals(total) {
		return fmt.Errorf("%s: credits total %v but the revision raises the host payout by %v -> %v", what, total, prev.HostOutput.Value, next.HostOutput.Value)
	}
	if err := pairInvariant(prev, next, x.tipState()); err != nil {
		return fmt.Errorf("%s: %w", what, err)
	}
	if !c.Usage.AccountFunding.Equals(total) || !c.Usage.RenterCost().Equals(total) {
		return fmt.Errorf("%s: recorded usage %+v for credits of %v", what, c.Usage, total)
	}
	m.commit(next)
	x.credits++
	return nil
}

// fundExact deposits amounts into accounts through RPCFundAccounts (honest,
// scripted renter) and applies the credit oracle.
func (x *c15) fund(m *mcontract, deps []proto4.AccountDeposit) error {
	what := fmt.Sprintf("fund %d deposits", len(deps))
	before := x.snapshot()
	logFrom := x.H.Log.Len()
	r := x.R.Fund(m.view(), deps, rhpx.Script{}, nil)
	if r.Infra != nil {
		x.cs.Inconclusive("watchdog")
		return errInconclusive
	}
	valid := len(deps) > 0 && !r.Unpayable
	if r.Unpayable {
		x.cs.Class("fund-total-overflows-or-unaffordable")
	}
	for _, d := range deps {
		valid = valid && !d.Amount.IsZero()
	}
	if !r.Done {
		if valid {
			return fmt.Errorf("%s: an honest affordable funding was refused: %v", what, r.Result)
		}
		x.cs.Class("fund-refused")
		if err := quietLog(x.H.Log.Since(logFrom)); err != nil {
			return fmt.Errorf("%s: %w", what, err)
		}
		return x.after(what+" -> refused", &before)
	}
	if !valid {
		return fmt.Errorf("%s: accepted although it is invalid", what)
	}
	if err := x.creditOracle(what, m, logFrom, "CreditAccountsWithContract", deps); err != nil {
		return err
	}
	if len(r.Resp.Balances) != len(deps) {
		return fmt.Errorf("%s: %d balances returned for %d deposits", what, len(r.Resp.Balances), len(deps))
	}
	for j, d := range deps {
		for i, a := range x.Accts {
			if a == d.Account {
				x.Bal[i] = x.Bal[i].Add(d.Amount)
				if !r.Resp.Balances[j].Equals(x.Bal[i]) {
					return fmt.Errorf("%s: host reports balance %v after deposit %d, model %v", what, r.Resp.Balances[j], j, x.Bal[i])
				}
			}
		}
	}
	x.cs.Class("fund-ok")
	return x.after(what, nil)
}

// replenish tops accounts or pools up to target. kidx may name a key more than
// once; the harness' expectation is the statement's: every listed balance ends
// at max(before, target), so a repeated key needs nothing the second time.
func (x *c15) replenish(m *mcontract, pools bool, kidx []int, target types.Currency) error {
	all, bal, creditOp, name := x.Accts, x.Bal, "CreditAccountsWithContract", "accounts"
	if pools {
		all, bal, creditOp, name = x.Pools, x.PBal, "CreditPoolsWithContract", "pools"
	}
	var keys []proto4.Account
	var deps []proto4.AccountDeposit
	var sum types.Currency
	running := map[int]types.Currency{}
	dup, sumOverflow := false, false
	var nest string
	for _, i := range kidx {
		b, seen := running[i]
		if !seen {
			b = bal[i]
		} else {
			dup = true
		}
		keys = append(keys, all[i])
		d := proto4.AccountDeposit{Account: all[i]}
		if target.Cmp(b) > 0 {
			d.Amount = target.Sub(b)
		}
		running[i] = b.Add(d.Amount)
		var o bool
		sum, o = sum.AddWithOverflow(d.Amount)
		sumOverflow = sumOverflow || o
		deps = append(deps, d)
	}
	what := fmt.Sprintf("replenish %s %v to %v", name, kidx, target)
	if dup {
		x.cs.Class("replenish-key-listed-twice")
	}
	before := x.snapshot()
	logFrom := x.H.Log.Len()
	_, _, rerr := proto4.ReviseForReplenish(m.Rev, sum)
	valid := len(keys) > 0 && !target.IsZero() && rerr == nil && !sumOverflow
	// optionally something happens to a listed balance between the quote and
	// the signature; the host must still credit exactly what it quoted
	nest, x.nest = x.nest, ""
	var tamper *rhpx.Tamper
	var nestedPay, nestedFund rhpx.Result
	var other *mcontract
	payAcct, nestedRan := -1, false
	payPrice := x.Prices.RPCVerifySectorCost().RenterCost()
	nestedDeposit := types.NewCurrency64(1000)
	if nest != "" && valid && !dup && !sum.IsZero() {
		for _, c := range x.C {
			if c != m {
				other = c
			}
		}
		if nest == "pay" {
			payAcct = kidx[0]
			if pools {
				payAcct = -1
				for a := range x.Accts {
					for _, p := range x.Att[x.Accts[a]] {
						if p == all[kidx[0]] {
							payAcct = a
						}
					}
				}
			}
		}
		switch {
		case nest == "pay" && payAcct >= 0:
			token := x.R.Token(x.AcctKeys[payAcct])
			root, _ := rhpx.PoolSector(1)
			tamper = &rhpx.Tamper{AfterFirstResponse: func() {
				nestedRan = true
				nestedPay = x.R.Verify(x.Prices, token, root, 3, rhpx.Script{}).Result
			}}
		case nest == "fund-other" && other != nil:
			key := all[kidx[0]]
			start := bal[kidx[0]]
			tamper = &rhpx.Tamper{AfterFirstResponse: func() {
				nestedRan = true
				if pools {
					nestedFund = x.R.Replenish(other.view(), true, []proto4.Account{key}, start.Add(nestedDeposit), rhpx.Script{}, nil).Result
				} else {
					nestedFund = x.R.Fund(other.view(), []proto4.AccountDeposit{{Account: key, Amount: nestedDeposit}}, rhpx.Script{}, nil).Result
				}
			}}
		}
	}
	r := x.R.Replenish(m.view(), pools, keys, target, rhpx.Script{}, tamper)
	if r.Infra != nil || nestedPay.Infra != nil || nestedFund.Infra != nil || !x.H.Client.WaitIdle(rhpx.Watchdog) {
		x.cs.Inconclusive("watchdog")
		return errInconclusive
	}
	if sumOverflow {
		x.cs.Class("replenish-total-overflows")
	}
	if !r.Done {
		if valid && !dup {
			return fmt.Errorf("%s: an honest affordable replenish was refused: %v", what, r.Result)
		}
		x.cs.Class("replenish-refused")
		if err := quietLog(x.H.Log.Since(logFrom)); err != nil {
			return fmt.Errorf("%s: %w", what, err)
		}
		return x.after(what+" -> refused", &before)
	}
	if !valid {
		return fmt.Errorf("%s: accepted although it is invalid or unaffordable", what)
	}
	if !reflect.DeepEqual(append([]proto4.AccountDeposit{}, r.Resp.Deposits...), append([]proto4.AccountDeposit{}, deps...)) {
		return fmt.Errorf("%s: host announces deposits %v, topping every listed key up to the target and not beyond needs %v", what, r.Resp.Deposits, deps)
	}
	if sum.IsZero() {
		if !r.NoOp {
			return fmt.Errorf("%s: a revision was exchanged although nothing needs depositing", what)
		}
		x.cs.Class("replenish-at-or-above-target")
		if err := quietLog(x.H.Log.Since(logFrom)); err != nil {
			return fmt.Errorf("%s: %w", what, err)
		}
		return x.after(what+" (nothing to deposit)", &before)
	}
	if err := x.creditOracle(what, m, logFrom, creditOp, deps); err != nil {
		return err
	}
	for i, b := range running {
		want := bal[i]
		if target.Cmp(want) > 0 {
			want = target
		}
		if !b.Equals(want) {
			return fmt.Errorf("harness: replenish model inconsistent")
		}
	}
	if nestedRan {
		x.cs.Class("replenish-with-" + nest + "-between-quote-and-signature")
		what += " [" + nest + " between quote and signature]"
		switch nest {
		case "pay":
			enough := x.drawable(payAcct).Cmp(payPrice) >= 0
			if nestedPay.Done != enough {
				return fmt.Errorf("%s: nested verify paid by account %d: served=%v, funds sufficient=%v", what, payAcct, nestedPay.Done, enough)
			}
			if nestedPay.Done {
				x.debitModel(payAcct, payPrice)
			}
		case "fund-other":
			if !nestedFund.Done {
				return fmt.Errorf("%s: the funding through the other contract was refused: %v", what, nestedFund)
			}
			op := "CreditAccountsWithContract"
			if pools {
				op = "CreditPoolsWithContract"
			}
			if err := x.creditOracle(what+" [nested]", other, logFrom, op, []proto4.AccountDeposit{{Account: all[kidx[0]], Amount: nestedDeposit}}); err != nil {
				return err
			}
			bal[kidx[0]] = bal[kidx[0]].Add(nestedDeposit)
		}
	}
	// the quoted deposits on top of whatever happened in between
	for j, i := range kidx {
		bal[i] = bal[i].Add(deps[j].Amount)
	}
	for _, d := range deps {
		if d.Amount.IsZero() {
			x.cs.Class("replenish-mixed-some-above-target")
		}
	}
	x.cs.Class("replenish-ok")
	return x.after(what, nil)
}

func distinct(idx []int, n int) []int {
	seen := map[int]bool{}
	var out []int
	for _, i := range idx {
		i = mod(i, n)
		if !seen[i] {
			seen[i] = true
			out = append(out, i)
		}
	}
	return out
}

func (x *c15) poolIdx(p proto4.Account) int {
	for i, q := range x.Pools {
		if q == p {
			return i
		}
	}
	return -1
}

// drawable is the model of what an account can spend: own balance, then the
// attached pools in attachment order.
func (x *c15) drawable(a int) types.Currency {
	d := x.Bal[a]
	for _, p := range x.Att[x.Accts[a]] {
		d = d.Add(x.PBal[x.poolIdx(p)])
	}
	return d
}

// debitModel applies a debit in draw order and reports whether it reached a
// pool after draining the own balance.
func (x *c15) debitModel(a int, cost types.Currency) (intoPool bool) {
	take := func(b *types.Currency) {
		t := *b
		if t.Cmp(cost) > 0 {
			t = cost
		}
		*b = b.Sub(t)
		cost = cost.Sub(t)
	}
	hadOwn := !x.Bal[a].IsZero()
	take(&x.Bal[a])
	for _, p := range x.Att[x.Accts[a]] {
		if cost.IsZero() {
			break
		}
		i := x.poolIdx(p)
		if !x.PBal[i].IsZero() {
			intoPool = intoPool || hadOwn
		}
		take(&x.PBal[i])
	}
	// the debit stopped before the end of the list: the order is observable
	// in the per-pool balances
	touched := false
	for k, p := range x.Att[x.Accts[a]] {
		_ = k
		if i := x.poolIdx(p); !x.PBal[i].IsZero() && touched {
			x.cs.Class("debit-stops-inside-pool-list")
		}
		touched = true
	}
	if n := len(x.Att[x.Accts[a]]); n >= 3 {
		x.cs.Classf("debit-with-%d-pools-attached", n)
	}
	return
}

// topUp brings the drawable funds of account a to exactly total (if they are
// not above it already), splitting what is missing over the own balance and
// the attached pools by the given weights.
func (x *c15) topUp(m *mcontract, a int, total types.Currency, split []int) error {
	d := x.drawable(a)
	if d.Cmp(total) >= 0 {
		return nil
	}
	need := total.Sub(d)
	att := x.Att[x.Accts[a]]
	parts := make([]types.Currency, 1+len(att))
	var wsum uint64
	ws := make([]uint64, len(parts))
	for i := range parts {
		w := uint64(1)
		if i < len(split) {
			w = uint64(mod(split[i], 5))
		}
		ws[i] = w
		wsum += w
	}
	if wsum == 0 {
		ws[0], wsum = 1, 1
	}
	left := need
	for i := range parts {
		parts[i] = need.Mul64(ws[i]).Div64(wsum)
		left = left.Sub(parts[i])
	}
	// the rounding remainder goes to the last component with a weight
	for i := len(parts) - 1; i >= 0; i-- {
		if ws[i] > 0 {
			parts[i] = parts[i].Add(left)
			break
		}
	}
	if !parts[0].IsZero() {
		if err := x.fund(m, []proto4.AccountDeposit{{Account: x.Accts[a], Amount: parts[0]}}); err != nil {
			return err
		}
	}
	for k, p := range att {
		if parts[k+1].IsZero() {
			continue
		}
		i := x.poolIdx(p)
		if err := x.replenish(m, true, []int{i}, x.PBal[i].Add(parts[k+1])); err != nil {
			return err
		}
	}
	if got := x.drawable(a); !got.Equals(total) {
		return fmt.Errorf("harness: top-up reached %v, wanted %v", got, total)
	}
	return nil
}

func (x *c15) token(a int, bad string) proto4.AccountToken {
	switch bad {
	case "token-otherkey":
		t := proto4.AccountToken{HostKey: x.H.HostKey.PublicKey(), Account: x.Accts[a], ValidUntil: time.Now().Add(5 * time.Minute)}
		t.Signature = otherKey.SignHash(t.SigHash())
		return t
	case "token-expired":
		t := proto4.AccountToken{HostKey: x.H.HostKey.PublicKey(), Account: x.Accts[a], ValidUntil: time.Now().Add(-time.Second)}
		t.Signature = x.AcctKeys[a].SignHash(t.SigHash())
		return t
	case "token-otherhost":
		return proto4.NewAccountToken(x.AcctKeys[a], otherKey.PublicKey())
	}
	return x.R.Token(x.AcctKeys[a])
}

// service runs a read, write or verify RPC paid from account a.
func (x *c15) service(op C15Op) error {
	m := x.C[mod(op.C, len(x.C))]
	a := mod(op.A, len(x.Accts))
	if op.Pref {
		var with []int
		for i := range x.Accts {
			if len(x.Att[x.Accts[i]]) > 0 {
				with = append(with, i)
			}
		}
		if len(with) > 0 {
			a = with[mod(op.A, len(with))]
		}
	}
	length := lenTable[mod(op.Len, len(lenTable))]
	// the read range, anywhere in the domain core's request validation accepts:
	// length > 0, end <= SectorSize, end leaf aligned (the offset need not be)
	readOff := uint64(mod(op.Off, int((proto4.SectorSize-length)/proto4.LeafSize)+1)) * proto4.LeafSize
	if op.Op == "read" {
		switch op.Edge {
		case 1:
			readOff = proto4.SectorSize - length
		case 2:
			readOff, length = 0, proto4.SectorSize
		case 3:
			readOff, length = readOff+proto4.LeafSize/2, length-proto4.LeafSize/2
		case 4:
			readOff, length = proto4.SectorSize-proto4.LeafSize, proto4.LeafSize
		}
	}
	unaligned := op.Op == "read" && readOff%proto4.LeafSize != 0
	var cost proto4.Usage
	switch op.Op {
	case "read":
		cost = x.Prices.RPCReadSectorCost(length)
	case "write":
		cost = x.Prices.RPCWriteSectorCost(length)
	case "verify":
		cost = x.Prices.RPCVerifySectorCost()
	}
	price := cost.RenterCost()
	unknown := op.Sector < 0 && op.Op != "write"
	badToken := len(op.Bad) > 5 && op.Bad[:6] == "token-"
	if op.Delta != 9 {
		total := price
		switch op.Delta {
		case -1:
			total = price.Sub(types.NewCurrency64(1))
		case 1:
			total = price.Add(types.NewCurrency64(1))
		case 2: // plenty: the debit stops in the middle of the pool list
			total = price.Mul64(2)
		case 3:
			total = price.Add(price.Div64(2))
		}
		if err := x.topUp(m, a, total, op.Split); err != nil {
			return err
		}
	}
	d := x.drawable(a)
	enough := d.Cmp(price) >= 0
	switch {
	case !enough && price.Sub(d).Equals(types.NewCurrency64(1)):
		x.cs.Class("funds=cost-1")
	case d.Equals(price):
		x.cs.Class("funds=cost")
	case enough && d.Sub(price).Equals(types.NewCurrency64(1)):
		x.cs.Class("funds=cost+1")
	case enough:
		x.cs.Class("funds>cost+1")
	default:
		x.cs.Class("funds<cost-1")
	}
	token := x.token(a, op.Bad)
	what := fmt.Sprintf("%s paid by account %d (own %v + %d pools, drawable %v, cost %v)", op.Op, a, x.Bal[a], len(x.Att[x.Accts[a]]), d, price)
	if op.Op == "read" {
		what = fmt.Sprintf("read [%d,+%d) paid by account %d (own %v + %d pools, drawable %v, cost %v)", readOff, length, a, x.Bal[a], len(x.Att[x.Accts[a]]), d, price)
	}
	if badToken {
		what += " [" + op.Bad + "]"
	}
	before := x.snapshot()
	logFrom := x.H.Log.Len()
	script := rhpx.Script{AbortAt: op.AbortAt, Mode: op.Mode}
	lastSendStep := 1
	if op.Op == "write" {
		lastSendStep = 2
	}
	// the host can act only if every renter message reached it
	hostHasAll := op.AbortAt == 0 || (op.Mode == rhpx.ModeClose && op.AbortAt > lastSendStep)
	shouldServe := enough && !unknown && !badToken && hostHasAll
	if op.AbortAt != 0 {
		what += fmt.Sprintf(" [renter stops before step %d, %s]", op.AbortAt, op.Mode)
	}

	var res rhpx.Result
	var root types.Hash256
	var verifyServe func() error
	var storedRoot *types.Hash256 // write: the root the sector must be stored under
	switch op.Op {
	case "read":
		root = rootOf(op.Sector)
		off := readOff
		x.cs.Classf("read-edge=%d", op.Edge)
		r := x.R.Read(x.Prices, token, root, off, length, script)
		res = r.Result
		verifyServe = func() error {
			if uint64(len(r.Data)) != length || r.Resp.DataLength != length {
				return fmt.Errorf("%s: %d bytes delivered, %d requested", what, len(r.Data), length)
			}
			_, sector := rhpx.PoolSector(rhpx.PoolIndex(root))
			if !bytes.Equal(r.Data, sector[off:off+length]) {
				return fmt.Errorf("%s: delivered bytes differ from the stored sector range [%d,+%d)", what, off, length)
			}
			if !unaligned && !r.ProofOK {
				return fmt.Errorf("%s: the range proof does not verify", what)
			}
			return nil
		}
		if !r.Done && !r.Aborted && len(r.Data) > 0 {
			return fmt.Errorf("%s: data was delivered although the RPC failed", what)
		}
	case "verify":
		root = rootOf(op.Sector)
		leaf := uint64(mod(op.Off, proto4.LeavesPerSector))
		switch op.Edge {
		case 1, 4:
			leaf = proto4.LeavesPerSector - 1
		case 2:
			leaf = 0
		}
		x.cs.Classf("verify-edge=%d", op.Edge)
		r := x.R.Verify(x.Prices, token, root, leaf, script)
		res = r.Result
		verifyServe = func() error {
			want := rhpx.SectorLeaf(rhpx.PoolIndex(root), leaf)
			if r.Resp.Leaf != want || !r.ProofOK {
				return fmt.Errorf("%s: wrong leaf or proof", what)
			}
			return nil
		}
	case "write":
		data := make([]byte, length)
		for i := range data {
			data[i] = byte(i*13 + op.Off + 1)
		}
		r := x.R.Write(x.Prices, token, data, length, script)
		res = r.Result
		// a paid write stores exactly the bytes sent, zero padded: the root the
		// host stores them under (and answers) is core's root of that sector
		wantRoot := paddedRoot(data)
		storedRoot = &wantRoot
		verifyServe = func() error {
			if r.Root != wantRoot {
				return fmt.Errorf("%s: the host answered root %v, the %d bytes sent (zero padded) hash to %v: something else was stored and paid for", what, r.Root, length, wantRoot)
			}
			return nil
		}
	}
	if res.Infra != nil {
		x.cs.Inconclusive("watchdog")
		return errInconclusive
	}
	x.services++
	x.cs.Class("service:" + op.Op)

	// what the recorder saw, in order
	calls := x.H.Log.Since(logFrom)
	debitSeq, serveSeq := -1, -1
	var debit rhpx.Call
	for _, c := range calls {
		switch c.Op {
		case "DebitAccount":
			if debitSeq >= 0 {
				return fmt.Errorf("%s: more than one debit", what)
			}
			debitSeq, debit = c.Seq, c
		case "ReadSector", "StoreSector":
			if serveSeq >= 0 {
				return fmt.Errorf("%s: more than one sector operation", what)
			}
			serveSeq = c.Seq
			if c.Op == "StoreSector" && !c.Failed() && storedRoot != nil && c.Root != *storedRoot {
				return fmt.Errorf("%s: the host stored a sector under root %v, the bytes sent (zero padded) hash to %v", what, c.Root, *storedRoot)
			}
			if c.Op == "ReadSector" && (op.Op == "write" || c.Root != root) {
				return fmt.Errorf("%s: host read sector %v", what, c.Root)
			}
		default:
			if mutatingOps[c.Op] && !c.Failed() {
				return fmt.Errorf("%s: unexpected %s", what, c.Op)
			}
		}
	}
	if debitSeq >= 0 {
		if debit.Account != x.Accts[a] {
			return fmt.Errorf("%s: debited account %v", what, debit.Account)
		}
		if debit.Usage != cost {
			return fmt.Errorf("%s: debited usage %+v, core's price of this request is %+v", what, debit.Usage, cost)
		}
	}
	if serveSeq >= 0 && (debitSeq < 0 || debit.Failed() || debitSeq > serveSeq) {
		return fmt.Errorf("%s: the host touched sector data without a preceding successful debit (debit call %d, sector call %d)", what, debitSeq, serveSeq)
	}
	if !shouldServe {
		switch {
		case !hostHasAll:
			x.cs.Classf("service-abandoned@%d/%s", op.AbortAt, op.Mode)
		case badToken:
			x.cs.Class("refused:" + op.Bad)
		case unknown:
			x.cs.Class("refused:unknown-sector")
		default:
			x.cs.Class("refused:insufficient-funds")
			if price.Sub(d).Equals(types.NewCurrency64(1)) {
				x.short1 = true
			}
		}
		if res.Done {
			return fmt.Errorf("%s: served although it must be refused", what)
		}
		if serveSeq >= 0 {
			return fmt.Errorf("%s: sector data touched although the request must be refused", what)
		}
		if debitSeq >= 0 && !debit.Failed() {
			return fmt.Errorf("%s: debited although the request must be refused", what)
		}
		return x.after(what+" -> "+res.String(), &before)
	}
	if unaligned && !res.Done && !res.Aborted {
		// core's validation admits an offset inside a leaf as long as the end is
		// aligned; a host may refuse to serve it (no proof exists for half a
		// leaf) - but then it must not take the money
		x.cs.Class("read-unaligned-offset-refused")
		if debitSeq >= 0 && !debit.Failed() {
			return fmt.Errorf("%s: the request passed validation, the account was debited %v, and then the read failed (%v): paid, nothing delivered", what, price, res)
		}
		if serveSeq >= 0 && !debit.Failed() {
			return fmt.Errorf("%s: sector touched although the request was refused", what)
		}
		return x.after(what+" -> "+res.String(), &before)
	}
	if !res.Done && !res.Aborted {
		return fmt.Errorf("%s: refused although the drawable funds cover the cost: %v", what, res)
	}
	if unaligned && res.Aborted && debitSeq < 0 && serveSeq < 0 {
		// refused (see above), the renter just did not wait for the answer
		x.cs.Class("read-unaligned-offset-refused")
		return x.after(what+" -> refused, answer unread", &before)
	}
	if debitSeq < 0 || debit.Failed() || serveSeq < 0 {
		return fmt.Errorf("%s: served without the debit / sector operation being recorded", what)
	}
	if res.Aborted {
		// the renter did not wait for the answer; the host had the whole
		// request, so it debits and serves as usual
		x.cs.Class("service-unread-response")
	} else if err := verifyServe(); err != nil {
		return err
	}
	if x.debitModel(a, price) {
		x.cs.Class("debit-drains-account-then-pool")
		x.pooled = true
	}
	return x.after(what, nil)
}

func (x *c15) attach(op C15Op) error {
	type pair struct{ a, p int }
	pairs := []pair{{mod(op.A, len(x.Accts)), mod(op.P, len(x.Pools))}}
	for i := 0; i+1 < len(op.Batch); i += 2 {
		pairs = append(pairs, pair{mod(op.Batch[i], len(x.Accts)), mod(op.Batch[i+1], len(x.Pools))})
	}
	if x.dual {
		for i := range pairs {
			if pairs[i].a == 0 && pairs[i].p == 4 {
				pairs[i].p = 3 // the dual-role key is never attached to itself
			}
		}
	}
	hostKey := x.H.HostKey.PublicKey()
	detach := op.Op == "detach"
	if detach && op.Pick > 0 {
		var existing []pair
		for a := range x.Accts {
			for _, p := range x.Att[x.Accts[a]] {
				existing = append(existing, pair{a, x.poolIdx(p)})
			}
		}
		if len(existing) > 0 {
			pairs[0] = existing[mod(op.Pick-1, len(existing))]
		}
	}
	if !detach && op.Ensure {
		for _, pr := range pairs {
			if !x.poolCredited(pr.p) {
				if err := x.replenish(x.C[mod(op.C, len(x.C))], true, []int{pr.p}, types.NewCurrency64(1)); err != nil {
					return err
				}
			}
		}
	}
	var atts []proto4.PoolAttachment
	var dets []proto4.PoolDetachment
	valid := true
	for j, pr := range pairs {
		until := time.Now().Add(time.Minute)
		signer := x.PoolKeys[pr.p]
		if detach && op.By == "account" {
			signer = x.AcctKeys[pr.a]
		}
		bindKey := hostKey
		if j == 0 { // the corruption applies to the first entry only
			switch op.Bad {
			case "wrong-key":
				signer = otherKey
				if !detach && op.By == "account" {
					signer = x.AcctKeys[pr.a] // an account may not attach itself to a pool
				}
				valid = false
			case "other-host":
				bindKey, valid = otherKey.PublicKey(), false
			case "expired":
				until, valid = time.Now().Add(-time.Second), false
			}
		}
		if detach {
			d := proto4.PoolDetachment{Account: x.Accts[pr.a], Pool: x.Pools[pr.p], ValidUntil: until}
			d.Signature = signer.SignHash(d.SigHash(bindKey))
			dets = append(dets, d)
		} else {
			at := proto4.PoolAttachment{Account: x.Accts[pr.a], Pool: x.Pools[pr.p], ValidUntil: until}
			at.Signature = signer.SignHash(at.SigHash(bindKey))
			atts = append(atts, at)
		}
	}
	// a pool exists once it has been credited
	exists := true
	if !detach {
		for _, pr := range pairs {
			exists = exists && x.poolCredited(pr.p)
		}
	}
	what := fmt.Sprintf("%s %v", op.Op, pairs)
	if op.Bad != "" {
		what += " [" + op.Bad + "]"
	}
	before := x.snapshot()
	logFrom := x.H.Log.Len()
	var res rhpx.Result
	if detach {
		res = x.R.Detach(dets, rhpx.Script{})
	} else {
		res = x.R.Attach(atts, rhpx.Script{})
	}
	if res.Infra != nil {
		x.cs.Inconclusive("watchdog")
		return errInconclusive
	}
	x.cs.Class("rpc:" + op.Op)
	calls := x.H.Log.Since(logFrom)
	if !valid {
		x.cs.Class(op.Op + "-refused:" + op.Bad)
		if res.Done {
			return fmt.Errorf("%s: accepted", what)
		}
		for _, c := range calls {
			if c.Op == "AttachPools" || c.Op == "DetachPools" {
				return fmt.Errorf("%s: the request reached the contractor (%s)", what, c.Op)
			}
		}
		return x.after(what+" -> "+res.String(), &before)
	}
	if !exists {
		x.cs.Class("attach-refused:no-such-pool")
		if res.Done {
			return fmt.Errorf("%s: accepted although a pool was never funded", what)
		}
		return x.after(what+" -> "+res.String(), &before)
	}
	if !res.Done {
		return fmt.Errorf("%s: a valid request was refused: %v", what, res)
	}
	for _, pr := range pairs {
		acct, pool := x.Accts[pr.a], x.Pools[pr.p]
		l := x.Att[acct]
		pos := -1
		for i, q := range l {
			if q == pool {
				pos = i
			}
		}
		if detach {
			if pos >= 0 {
				x.Att[acct] = append(append([]proto4.Account(nil), l[:pos]...), l[pos+1:]...)
				x.cs.Class("detach-existing")
			} else {
				x.cs.Class("detach-missing-idempotent")
			}
			if len(x.Att[acct]) == 0 {
				delete(x.Att, acct)
			}
		} else if pos < 0 {
			x.Att[acct] = append(l, pool)
			x.cs.Class("attach-new")
		} else {
			x.cs.Class("attach-again-idempotent")
		}
	}
	return x.after(what, nil)
}

func (x *c15) poolCredited(p int) bool {
	for _, c := range x.H.Log.Since(0) {
		if c.Op == "CreditPoolsWithContract" && !c.Failed() {
			for _, d := range c.Deposits {
				if d.Account == x.Pools[p] {
					return true
				}
			}
		}
	}
	return false
}

func (x *c15) step(op C15Op) error {
	m := x.C[mod(op.C, len(x.C))]
	switch op.Op {
	case "fund":
		var deps []proto4.AccountDeposit
		for i := 0; i+1 < len(op.Dep); i += 2 {
			deps = append(deps, proto4.AccountDeposit{Account: x.Accts[mod(op.Dep[i], len(x.Accts))], Amount: amount15(op.Dep[i+1])})
		}
		if len(deps) == 0 {
			return nil
		}
		return x.fund(m, deps)
	case "repl-acct", "repl-pool":
		pools := op.Op == "repl-pool"
		bal, n := x.Bal, len(x.Accts)
		if pools {
			bal, n = x.PBal, len(x.Pools)
		}
		kidx := distinct(op.Keys, n)
		if len(kidx) == 0 {
			kidx = []int{0}
		}
		if op.Dup {
			kidx = append(kidx, kidx[0])
		}
		var target types.Currency
		if op.Abs > 0 {
			target = amount15(op.Abs - 1)
		} else {
			target = bal[kidx[0]]
			switch {
			case op.Rel > 0:
				target = target.Add(types.NewCurrency64(uint64(op.Rel)))
				x.cs.Class("replenish-target-above-balance")
			case op.Rel < 0 && !target.IsZero():
				target = target.Sub(types.NewCurrency64(1))
				x.cs.Class("replenish-target-below-balance")
			default:
				x.cs.Class("replenish-target-at-balance")
			}
		}
		x.nest = op.Nest
		return x.replenish(m, pools, kidx, target)
	case "attach", "detach":
		return x.attach(op)
	case "read", "write", "verify":
		return x.service(op)
	case "balance":
		a := mod(op.A, len(x.Accts))
		b, err := x.R.Balance(x.Accts[a])
		if stop, e := infra(x.cs, err); stop {
			return e
		}
		if err != nil || !b.Equals(x.Bal[a]) {
			return fmt.Errorf("RPCAccountBalance(account %d) = %v, %v; model %v", a, b, err, x.Bal[a])
		}
		return nil
	}
	return fmt.Errorf("harness: unknown op %q", op.Op)
}

func runC15(c C15Case, cs *kit.CaseStats) error {
	x, err := newC15(cs)
	if stop, e := infra(cs, err); stop {
		return e
	}
	if err != nil {
		return err
	}
	defer x.close()
	if c.Dual {
		x.dual = true
		x.PoolKeys[4], x.Pools[4] = x.AcctKeys[0], x.Accts[0]
		cs.Class("one-key-is-both-account-and-pool")
	}
	for i, op := range c.Ops {
		if err := x.step(op); err != nil {
			if stop, e := infra(cs, err); stop {
				return e
			}
			return fmt.Errorf("step %d (%s): %w", i, op.Op, err)
		}
	}
	if x.pooled {
		cs.NonTrivial()
	}
	if x.short1 {
		cs.Class("request-one-hasting-short")
		cs.NonTrivial()
	}
	return nil
}

var paddedRootCache sync.Map

// paddedRoot is core's sector root of data zero padded to a full sector.
func paddedRoot(data []byte) types.Hash256 {
	key := string(data)
	if len(data) > 256 {
		key = fmt.Sprintf("%d/%x/%x", len(data), data[:64], data[len(data)-64:])
	}
	if v, ok := paddedRootCache.Load(key); ok {
		return v.(types.Hash256)
	}
	sector := new([proto4.SectorSize]byte)
	copy(sector[:], data)
	root := proto4.SectorRoot(sector)
	paddedRootCache.Store(key, root)
	return root
}

// ---------------------------------------------------------------- generator

func genC15(t *rapid.T) C15Case {
	var c C15Case
	maxOps := 14
	if kit.Thorough() {
		maxOps = 24
	}
	n := rapid.IntRange(2, maxOps).Draw(t, "nops")
	init := rapid.IntRange(0, 8).Draw(t, "ninit")
	hub := rapid.IntRange(0, 2).Draw(t, "hub") // the account most initial attachments go to, so that 3-5 pools pile up on it
	for i := 0; i < n; i++ {
		op := C15Op{C: rapid.IntRange(0, 1).Draw(t, "c"), A: rapid.IntRange(0, 2).Draw(t, "a"), P: rapid.IntRange(0, 4).Draw(t, "p")}
		k := rapid.IntRange(0, 23).Draw(t, "op")
		if i < init {
			k = 9 // start with attachments so that pooled debits are reachable
			if rapid.IntRange(0, 5).Draw(t, "tohub") > 0 {
				op.A = hub
			}
		}
		switch {
		case k < 2:
			op.Op = "fund"
			nd := rapid.IntRange(1, 3).Draw(t, "ndep")
			for j := 0; j < nd; j++ {
				op.Dep = append(op.Dep, rapid.IntRange(0, 2).Draw(t, "acct"), genAmount15(t, "amt"))
			}
		case k < 4:
			op.Op = "repl-acct"
		case k < 7:
			op.Op = "repl-pool"
		case k < 11:
			op.Op = "attach"
		case k < 14:
			op.Op = "detach"
			op.By = rapid.SampledFrom([]string{"pool", "account"}).Draw(t, "by")
		case k < 17:
			op.Op = "read"
		case k < 20:
			op.Op = "verify"
		case k < 23:
			op.Op = "write"
		default:
			op.Op = "balance"
		}
		switch op.Op {
		case "repl-acct", "repl-pool":
			nk := rapid.IntRange(1, 3).Draw(t, "nkeys")
			for j := 0; j < nk; j++ {
				op.Keys = append(op.Keys, rapid.IntRange(0, 4).Draw(t, "key"))
			}
			op.Dup = rapid.IntRange(0, 5).Draw(t, "dup") == 0
			if !op.Dup && rapid.IntRange(0, 2).Draw(t, "nest?") == 0 {
				op.Nest = rapid.SampledFrom([]string{"pay", "fund-other"}).Draw(t, "nest")
			}
			if rapid.Bool().Draw(t, "abs") {
				op.Abs = 1 + genAmount15(t, "target")
			} else {
				op.Rel = rapid.IntRange(-1, 1).Draw(t, "rel")
			}
		case "attach", "detach":
			if op.Op == "attach" {
				op.Ensure = rapid.IntRange(0, 5).Draw(t, "ensure") > 0
			} else if rapid.IntRange(0, 3).Draw(t, "pick?") > 0 {
				op.Pick = 1 + rapid.IntRange(0, 9).Draw(t, "pick")
			}
			if rapid.IntRange(0, 3).Draw(t, "bad?") == 0 {
				op.Bad = rapid.SampledFrom([]string{"wrong-key", "other-host", "expired"}).Draw(t, "bad")
				if op.Op == "attach" && rapid.Bool().Draw(t, "self") {
					op.By = "account"
				}
			}
			if rapid.IntRange(0, 3).Draw(t, "batch?") == 0 {
				op.Batch = []int{rapid.IntRange(0, 2).Draw(t, "ba"), rapid.IntRange(0, 4).Draw(t, "bp")}
			}
		case "read", "verify", "write":
			if rapid.IntRange(0, 7).Draw(t, "abort?") == 0 {
				pts := []faultPoint{{1, rhpx.ModeClose}, {1, rhpx.ModeStall}, {1, rhpx.ModeTrunc}, {2, rhpx.ModeClose}}
				if op.Op == "write" {
					pts = faultPoints("write")
				}
				p := pts[rapid.IntRange(0, len(pts)-1).Draw(t, "point")]
				op.AbortAt, op.Mode = p.AbortAt, p.Mode
			}
			op.Pref = rapid.IntRange(0, 3).Draw(t, "pref") > 0
			op.Delta = rapid.SampledFrom([]int{-1, -1, 0, 0, 0, 1, 1, 2, 2, 3, 9}).Draw(t, "delta")
			ns := rapid.IntRange(0, 6).Draw(t, "nsplit")
			for j := 0; j < ns; j++ {
				op.Split = append(op.Split, rapid.SampledFrom([]int{0, 1, 1, 2, 3, 4}).Draw(t, "w"))
			}
			op.Sector = rapid.IntRange(0, rhpx.PoolSize-1).Draw(t, "sector")
			if rapid.IntRange(0, 11).Draw(t, "unknown") == 0 {
				op.Sector = -1
			}
			op.Off = rapid.IntRange(0, 1<<16).Draw(t, "off")
			op.Edge = rapid.SampledFrom([]int{0, 0, 0, 1, 2, 3, 3, 4}).Draw(t, "edge")
			op.Len = rapid.IntRange(0, len(lenTable)-1).Draw(t, "len")
			if rapid.IntRange(0, 9).Draw(t, "badtoken") == 0 {
				op.Bad = rapid.SampledFrom([]string{"token-otherkey", "token-expired", "token-otherhost"}).Draw(t, "tokbad")
			}
		}
		c.Ops = append(c.Ops, op)
	}
	if rapid.IntRange(0, 3).Draw(t, "dual") == 0 {
		c.Dual = true
		for i := range c.Ops {
			if op := &c.Ops[i]; (op.Op == "attach" || op.Op == "detach") && op.A != 0 && op.Pick == 0 && rapid.Bool().Draw(t, "dualpool") {
				op.P = 4
			}
		}
	}
	return c
}

var c15Prop = kit.Prop[C15Case]{
	ID:   "C15",
	Rule: "sequences (2..14, thorough 2..24) over 3 accounts, 5 pools (in a quarter of the cases pool 4 and account 0 are one and the same key) and 2 contracts against the real rhp4.Server: fund, replenish accounts/pools (targets below, at and above the current balance, mixed keys; amounts and targets up to the edges of the 128-bit range, the renter signing the wrapped total when a sum overflows), a verify paid from a listed account or a funding of the listed key through the other contract forced between a replenish quote and the renter's signature (the host must credit exactly the quoted deposits), attach/detach (valid incl. batches and idempotent repeats; signed by the wrong key; bound to another host key; expired; never-funded pool), read/write/verify with the drawable funds (own balance + attached pools, split by drawn weights) topped up to cost-1, cost or cost+1, ranges over the whole domain the request validation accepts (offset inside a leaf with aligned end, range ending at the sector end, last leaf, whole sector, leaf index 65535), unknown sectors, invalid account tokens, a renter that stops / stalls / truncates the request or the data stream or does not read the answer, balance queries. Oracle from the recorded Contractor/Sectors calls and a balance model: every credit batch is carried by exactly one doubly-signed revision moving the same total from renter to host; every debit carries core's price of the request and precedes the single sector operation; insufficient funds / invalid token / unknown sector => no data, no sector operation, no balance change; replenish leaves max(before, target); rejected attach/detach never reach the contractor; balances and the ordered attachment table (read by value) equal the model (own balance first, then pools in attachment order) after every step. Non-trivial = a debit that drains the account's own balance and continues into a pool, or a request exactly one hasting short; distinct by hash of the case.",
	Assumptions: []string{
		"host = rhp4.Server over the repository's reference EphemeralContractor / EphemeralSectorStore, in-memory transport",
		"a replenish request may list a key twice (the request validation does not exclude it); the expectation is the statement's: the balance ends at max(before, target); a host that refuses such a request outright is accepted too",
		"attachment table is read from the reference contractor by value (reflection) and cross-checked with the recorded Attach/Detach calls",
		"core's price functions and signature hashes are the trusted base",
	},
	Gen: genC15,
	Run: runC15,
}

func TestC15(t *testing.T) { c15Prop.Main(t) }
