package prhp

import (
	"context"
	"errors"
	"fmt"
	"reflect"
	"sort"

	"go.sia.tech/core/consensus"
	proto4 "go.sia.tech/core/rhp/v4"
	"go.sia.tech/core/types"
	rhp4 "go.sia.tech/coreutils/rhp/v4"

	"verif/kit"
	"verif/rhpx"
)

// errInfra marks fixture failures (never expected on a tree that builds);
// errInconclusive marks a case that could not reach a verdict (watchdog) and
// has already been counted as such.
var (
	errInfra        = errors.New("INFRA")
	errInconclusive = errors.New("inconclusive")
)

func mod(i, n int) int {
	if n <= 0 {
		return 0
	}
	return ((i % n) + n) % n
}

// mcontract is the harness' own model of one contract: the revision it knows
// to be committed (derived with core's builders from what the harness itself
// sent) and the plain list of roots.
type mcontract struct {
	ID      types.FileContractID
	Rev     types.V2FileContract // latest committed revision incl. signatures
	Roots   []types.Hash256
	Chain   []types.V2FileContract // every committed revision, formation first
	Renewed bool
	Formed  types.V2FileContract
}

func (m *mcontract) view() rhpx.Contract { return rhpx.Contract{ID: m.ID, Revision: m.Rev} }
func (m *mcontract) cr() rhp4.ContractRevision {
	return rhp4.ContractRevision{ID: m.ID, Revision: m.Rev}
}

// session is one fixture + the model kept next to it.
type session struct {
	H      *rhpx.Host
	R      *rhpx.Renter
	Prices proto4.HostPrices
	C      []*mcontract

	AcctKeys []types.PrivateKey
	Accts    []proto4.Account
	PoolKeys []types.PrivateKey
	Pools    []proto4.Account
	Bal      []types.Currency // model account balances (parallel to Accts)
	PBal     []types.Currency // model pool balances
	Att      map[proto4.Account][]proto4.Account

	cs *kit.CaseStats
}

func newSession(cfg rhpx.HostConfig, nAccts, nPools int, cs *kit.CaseStats) (*session, error) {
	h, err := rhpx.NewHost(cfg)
	if err != nil {
		return nil, fmt.Errorf("%w: %v", errInfra, err)
	}
	s := &session{H: h, R: rhpx.NewRenter(h), Att: map[proto4.Account][]proto4.Account{}, cs: cs}
	s.Prices, err = h.FetchPrices()
	if err != nil {
		h.Close()
		return nil, fmt.Errorf("%w: settings: %v", errInfra, err)
	}
	for i := 0; i < nAccts; i++ {
		k := rhpx.Key(fmt.Sprintf("account-%d", i))
		s.AcctKeys = append(s.AcctKeys, k)
		s.Accts = append(s.Accts, proto4.Account(k.PublicKey()))
		s.Bal = append(s.Bal, types.ZeroCurrency)
	}
	for i := 0; i < nPools; i++ {
		k := rhpx.Key(fmt.Sprintf("pool-%d", i))
		s.PoolKeys = append(s.PoolKeys, k)
		s.Pools = append(s.Pools, proto4.Account(k.PublicKey()))
		s.PBal = append(s.PBal, types.ZeroCurrency)
	}
	return s, nil
}

func (s *session) close() { s.H.Close() }

func (s *session) tipState() consensus.State { return s.H.CM.TipState() }

// form forms a contract honestly (scripted renter, no deviation), confirms it
// and adds it to the model.
func (s *session) form(allowance, collateral types.Currency, proofDelta uint64) (*mcontract, error) {
	params := proto4.RPCFormContractParams{
		RenterPublicKey: s.H.RenterKey.PublicKey(), RenterAddress: s.H.RenterWallet.Address(),
		Allowance: allowance, Collateral: collateral, ProofHeight: s.H.CM.Tip().Height + proofDelta,
	}
	fr := s.R.Form(s.Prices, params, rhpx.Script{}, nil)
	if fr.Infra != nil {
		return nil, fr.Infra
	}
	if !fr.Done {
		return nil, fmt.Errorf("honest contract formation failed: %v", fr.Result)
	}
	if err := s.H.Mine(types.VoidAddress, 1); err != nil {
		return nil, fmt.Errorf("%w: %v", errInfra, err)
	}
	m := &mcontract{ID: fr.Contract.ID, Rev: fr.Contract.Revision, Formed: fr.Contract.Revision}
	m.Chain = append(m.Chain, m.Rev)
	s.C = append(s.C, m)
	return m, nil
}

func (s *session) ids() []types.FileContractID {
	var ids []types.FileContractID
	for _, c := range s.C {
		ids = append(ids, c.ID)
	}
	return ids
}

func (s *session) snapshot() rhpx.Snapshot { return s.H.Snapshot(s.ids(), s.Accts, s.Pools) }

// merkleInvariant is C09's state invariant: for every contract the stored
// roots hash to the committed Merkle root and their count matches the file
// size.
func merkleInvariant(snap rhpx.Snapshot) error {
	for i, c := range snap.Contracts {
		if c.Err != "" {
			return fmt.Errorf("contract[%d] cannot be locked while no RPC is running: %s", i, c.Err)
		}
		if got := proto4.MetaRoot(c.Roots); got != c.Revision.FileMerkleRoot {
			return fmt.Errorf("contract[%d] (revision %d): MetaRoot(host roots %s) = %v but the committed FileMerkleRoot is %v", i, c.Revision.RevisionNumber, rhpx.ShortRoots(c.Roots), got, c.Revision.FileMerkleRoot)
		}
		if uint64(len(c.Roots))*proto4.SectorSize != c.Revision.Filesize {
			return fmt.Errorf("contract[%d] (revision %d): %d roots stored but Filesize = %d (= %d sectors)", i, c.Revision.RevisionNumber, len(c.Roots), c.Revision.Filesize, c.Revision.Filesize/proto4.SectorSize)
		}
	}
	return nil
}

// modelDiff compares a snapshot with the harness' model ("" if equal).
func (s *session) modelDiff(snap rhpx.Snapshot) string {
	for i, m := range s.C {
		c := snap.Contracts[i]
		if c.Err != "" {
			return fmt.Sprintf("contract[%d]: %s", i, c.Err)
		}
		if !reflect.DeepEqual(c.Revision, m.Rev) {
			return fmt.Sprintf("contract[%d] host revision differs from the model: %s", i, revDiff(m.Rev, c.Revision))
		}
		if len(c.Roots) != len(m.Roots) {
			return fmt.Sprintf("contract[%d] host has %d roots %s, list model %d %s", i, len(c.Roots), rhpx.ShortRoots(c.Roots), len(m.Roots), rhpx.ShortRoots(m.Roots))
		}
		for j := range c.Roots {
			if c.Roots[j] != m.Roots[j] {
				return fmt.Sprintf("contract[%d] roots[%d]: host %s, list model %s", i, j, rhpx.ShortRoots(c.Roots), rhpx.ShortRoots(m.Roots))
			}
		}
		if c.Renewed != m.Renewed {
			return fmt.Sprintf("contract[%d] renewed=%v, model %v", i, c.Renewed, m.Renewed)
		}
	}
	for i := range s.Accts {
		if !snap.Accounts[i].Equals(s.Bal[i]) {
			return fmt.Sprintf("account[%d] balance %s, model %s", i, snap.Accounts[i].ExactString(), s.Bal[i].ExactString())
		}
	}
	for i := range s.Pools {
		if !snap.Pools[i].Equals(s.PBal[i]) {
			return fmt.Sprintf("pool[%d] balance %s, model %s", i, snap.Pools[i].ExactString(), s.PBal[i].ExactString())
		}
	}
	if snap.AttachedFromState {
		if d := attDiff(s.Att, snap.Attached); d != "" {
			return "attachments: host " + d
		}
	}
	return ""
}

func attDiff(model, host map[proto4.Account][]proto4.Account) string {
	keys := map[proto4.Account]bool{}
	for k, v := range model {
		if len(v) > 0 {
			keys[k] = true
		}
	}
	for k, v := range host {
		if len(v) > 0 {
			keys[k] = true
		}
	}
	var ks []proto4.Account
	for k := range keys {
		ks = append(ks, k)
	}
	sort.Slice(ks, func(i, j int) bool { return string(ks[i][:]) < string(ks[j][:]) })
	for _, k := range ks {
		if !reflect.DeepEqual(append([]proto4.Account{}, model[k]...), append([]proto4.Account{}, host[k]...)) {
			return fmt.Sprintf("%v -> %v, model %v", k, host[k], model[k])
		}
	}
	return ""
}

func revDiff(want, got types.V2FileContract) string {
	var d []string
	add := func(name string, a, b any) {
		if !reflect.DeepEqual(a, b) {
			d = append(d, fmt.Sprintf("%s: expected %v, host %v", name, a, b))
		}
	}
	add("RevisionNumber", want.RevisionNumber, got.RevisionNumber)
	add("Filesize", want.Filesize, got.Filesize)
	add("Capacity", want.Capacity, got.Capacity)
	add("FileMerkleRoot", want.FileMerkleRoot, got.FileMerkleRoot)
	add("ProofHeight", want.ProofHeight, got.ProofHeight)
	add("ExpirationHeight", want.ExpirationHeight, got.ExpirationHeight)
	add("RenterOutput", want.RenterOutput, got.RenterOutput)
	add("HostOutput", want.HostOutput, got.HostOutput)
	add("MissedHostValue", want.MissedHostValue, got.MissedHostValue)
	add("TotalCollateral", want.TotalCollateral, got.TotalCollateral)
	add("RenterPublicKey", want.RenterPublicKey, got.RenterPublicKey)
	add("HostPublicKey", want.HostPublicKey, got.HostPublicKey)
	add("RenterSignature", want.RenterSignature, got.RenterSignature)
	add("HostSignature", want.HostSignature, got.HostSignature)
	if len(d) == 0 {
		return "equal"
	}
	return fmt.Sprint(d)
}

// commit records a revision as committed in the model.
func (m *mcontract) commit(rev types.V2FileContract) {
	m.Rev = rev
	m.Chain = append(m.Chain, rev)
}

// listAppend / listFree are the plain list model of the property statement.
func listAppend(roots, add []types.Hash256) []types.Hash256 {
	return append(append([]types.Hash256(nil), roots...), add...)
}

// listFree removes the given positions: indices are de-duplicated and
// processed from the highest to the lowest; each removal moves the current
// last element into the freed slot and shrinks the list by one.
func listFree(roots []types.Hash256, indices []uint64) []types.Hash256 {
	out := append([]types.Hash256(nil), roots...)
	idx := append([]uint64(nil), indices...)
	sort.Slice(idx, func(i, j int) bool { return idx[i] > idx[j] })
	var last uint64
	for i, n := range idx {
		if i > 0 && n == last {
			continue
		}
		last = n
		out[n] = out[len(out)-1]
		out = out[:len(out)-1]
	}
	return out
}

// rootOf maps a small int of a case to a sector root: >= 0 is a pool sector
// the host stores, < 0 a root the host has never seen.
func rootOf(k int) types.Hash256 {
	if k >= 0 {
		r, _ := rhpx.PoolSector(k)
		return r
	}
	return rhpx.UnknownRoot(-k)
}

func known(k int) bool { return k >= 0 }

// honest client calls; each waits for the host handler to finish.

func (s *session) clientAppend(m *mcontract, roots []types.Hash256) (rhp4.RPCAppendSectorsResult, error) {
	res, err := rhp4.RPCAppendSectors(context.Background(), s.H.Client, s.H.Signer(), s.tipState(), s.Prices, m.cr(), roots)
	return res, s.idle(err)
}

func (s *session) clientFree(m *mcontract, indices []uint64) (rhp4.RPCFreeSectorsResult, error) {
	res, err := rhp4.RPCFreeSectors(context.Background(), s.H.Client, s.H.Signer(), s.tipState(), s.Prices, m.cr(), indices)
	return res, s.idle(err)
}

func (s *session) clientRoots(m *mcontract, off, n uint64) (rhp4.RPCSectorRootsResult, error) {
	res, err := rhp4.RPCSectorRoots(context.Background(), s.H.Client, s.tipState(), s.Prices, s.H.Signer(), m.cr(), off, n)
	return res, s.idle(err)
}

func (s *session) clientFund(m *mcontract, deposits []proto4.AccountDeposit) (rhp4.RPCFundAccountResult, error) {
	res, err := rhp4.RPCFundAccounts(context.Background(), s.H.Client, s.tipState(), s.H.Signer(), m.cr(), deposits)
	return res, s.idle(err)
}

func (s *session) idle(err error) error {
	if !s.H.Client.WaitIdle(rhpx.Watchdog) {
		return rhpx.ErrWatchdog
	}
	return err
}

// infra converts infrastructure conditions into an inconclusive case.
func infra(cs *kit.CaseStats, err error) (bool, error) {
	if err == nil {
		return false, nil
	}
	switch {
	case errors.Is(err, errInconclusive):
		return true, nil
	case errors.Is(err, rhpx.ErrWatchdog):
		cs.Inconclusive("watchdog")
		return true, nil
	case errors.Is(err, errInfra):
		return true, err
	}
	return false, err
}
