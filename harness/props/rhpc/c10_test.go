package prhpc

import (
	"bytes"
	"context"
	"encoding/json"
	"fmt"
	"os"
	"sort"
	"strconv"
	"strings"
	"sync"
	"testing"
	"time"

	"go.sia.tech/core/consensus"
	proto4 "go.sia.tech/core/rhp/v4"
	"go.sia.tech/core/types"
	rhp4 "go.sia.tech/coreutils/rhp/v4"
	"pgregory.net/rapid"

	"verif/kit"
	"verif/rhpc"
)

// C10Case: one renter call against the scripted host with at most one
// mutation of one response message.
type C10Case struct {
	RPC string   `json:"rpc"`
	N   int      `json:"n"`           // sectors in the contract before the call
	P   []int    `json:"p,omitempty"` // call parameters, meaning per RPC (see c10Run*)
	Mut rhpc.Mut `json:"mut"`
	// Keys draws the session key, the price table's signer and the contract's
	// host key independently (the contract's host key is always A):
	//   ""                      all A
	//   "session=B,prices=B"    a session with host B, B's prices, contract with A
	//   "session=B,prices=A"    a session with B that presents A's price table
	//   "session=A,prices=B"    the right host with a price table signed by B
	// The host signs revisions with its session key and is honest otherwise.
	Keys string `json:"keys,omitempty"`
	// Args, when set, calls the function with arguments outside the honest
	// range against a host that plays along (see c10Args); Mut is then unused.
	Args string `json:"args,omitempty"`
}

// c10Args: per client function, the argument shapes outside the honest range.
// "impossible" ones have no correct answer (the call must return an error);
// the two degenerate ones (nothing to free / nothing to append) have one and
// are judged by the ordinary oracle.
var c10Keys = []string{"session=B,prices=B", "session=B,prices=A", "session=A,prices=B"}

// c10KeyRPCs are the client functions that take (or create) a contract.
var c10KeyRPCs = map[string]bool{"roots": true, "append": true, "free": true, "fund": true, "replenish": true, "replpools": true, "form": true, "renew": true, "refresh-full": true, "refresh-partial": true}

var c10Args = map[string][]string{
	"roots":     {"empty-contract", "beyond-end", "offset-beyond-end", "zero-length", "zero-length-empty-contract", "huge-length"},
	"read":      {"beyond-sector", "offset-beyond-sector", "zero-length", "unaligned-end", "overflowing-range"},
	"free":      {"index-beyond-end", "index-equals-count", "empty-contract", "more-indices-than-sectors", "huge-index", "no-indices"},
	"append":    {"no-sectors"},
	"fund":      {"no-deposits"},
	"replenish": {"no-accounts"},
	"replpools": {"no-accounts"},
}

func c10ArgsDegenerate(rpc, args string) bool {
	return (rpc == "free" && args == "no-indices") || (rpc == "append" && args == "no-sectors")
}

func p(c C10Case, i int) int {
	if i < len(c.P) {
		return c.P[i]
	}
	return 0
}

func mod(i, n int) int {
	if n <= 0 {
		return 0
	}
	return ((i % n) + n) % n
}

func genC10(t *rapid.T) C10Case {
	c := C10Case{RPC: rapid.SampledFrom(rhpc.RPCs).Draw(t, "rpc"), N: rapid.IntRange(0, 9).Draw(t, "n")}
	switch rapid.IntRange(0, 7).Draw(t, "big") {
	case 0, 1:
		c.N = rapid.IntRange(10, 40).Draw(t, "nbig") // deeper Merkle trees over the sector roots
	case 2:
		// several 4 KiB price buckets of sector roots (128 roots each)
		c.N = rapid.IntRange(129, 400).Draw(t, "nhuge")
	}
	np := 6
	for i := 0; i < np; i++ {
		c.P = append(c.P, rapid.IntRange(0, 70000).Draw(t, "p"))
	}
	if c10KeyRPCs[c.RPC] && rapid.IntRange(0, 7).Draw(t, "keyConfusion") == 0 {
		c.Keys = rapid.SampledFrom(c10Keys).Draw(t, "keys")
		return c
	}
	if l := c10Args[c.RPC]; len(l) > 0 && rapid.IntRange(0, 5).Draw(t, "oddArgs") == 0 {
		c.Args = rapid.SampledFrom(l).Draw(t, "args")
		return c
	}
	if rapid.IntRange(0, 9).Draw(t, "honest") == 0 {
		return c
	}
	kinds := rhpc.Kinds[c.RPC]
	c.Mut.Msg = rapid.IntRange(0, len(kinds)-1).Draw(t, "msg")
	c.Mut.Kind = rapid.SampledFrom(kinds[c.Mut.Msg]).Draw(t, "kind")
	if c.Mut.Kind == "stall" {
		c.Mut.Kind = "close" // each stall costs the compressed timeout; the enumeration covers every message
	}
	if (c.RPC == "free" || c.RPC == "append") && rapid.IntRange(0, 4).Draw(t, "degenerate") == 0 {
		c.Args = map[string]string{"free": "no-indices", "append": "no-sectors"}[c.RPC]
	}
	c.Mut.A = rapid.IntRange(0, 5000).Draw(t, "a")
	c.Mut.B = rapid.IntRange(0, 300).Draw(t, "b")
	return c
}

// ---------------------------------------------------------------- environment

var (
	genesisOnce  sync.Once
	genesisState consensus.State
)

// baseState is the state of the all-v2 test network at genesis: enough for
// signature hashes and contract tax (the non-formation RPCs never touch a
// chain).
func baseState() consensus.State {
	genesisOnce.Do(func() {
		n, g := rhpc.Network()
		nd, err := rhpc.NewNode("base", n, g)
		if err != nil {
			panic(err)
		}
		genesisState = nd.CM.TipState()
	})
	return genesisState
}

var (
	c10HostKey   = rhpc.Key("c10-host")
	c10RenterKey = rhpc.Key("c10-renter")
	// c10OtherHostKey is host B of the key-confusion cases
	c10OtherHostKey = rhpc.Key("c10-host-B")
	basePrices      = rhpc.DefaultSettings(types.Address{}).Prices
)

type c10Env struct {
	cs       consensus.State
	prices   proto4.HostPrices
	host     *rhpc.ByzHost
	id       types.FileContractID
	rev      types.V2FileContract
	roots    []types.Hash256
	token    proto4.AccountToken
	signer   rhpc.KeySigner
	contract rhp4.ContractRevision
}

func signBoth(cs consensus.State, fc *types.V2FileContract) {
	h := cs.ContractSigHash(*fc)
	fc.RenterSignature = c10RenterKey.SignHash(h)
	fc.HostSignature = c10HostKey.SignHash(h)
}

// poolRoots returns n distinct sector roots: the roots of the pre-hashed pool
// sectors first, then synthetic hashes (roots are opaque to every RPC that
// does not touch sector data, and only pool sectors are ever read).
func poolRoots(n int) []types.Hash256 {
	out := make([]types.Hash256, n)
	for i := range out {
		if i < rhpc.PoolSize {
			out[i] = rhpc.PoolSector(i).Root
		} else {
			out[i] = types.HashBytes([]byte(fmt.Sprintf("verif-synthetic-sector-root-%d", i)))
		}
	}
	return out
}

// newC10Env builds ground truth: a host that stores the first max(n,3) pool
// sectors and holds one contract over the first n of them.
func newC10Env(c C10Case, cs consensus.State) *c10Env {
	e := &c10Env{cs: cs, signer: rhpc.KeySigner{K: c10RenterKey}}
	e.prices = rhpc.SignPrices(c10HostKey, basePrices, cs.Index.Height)
	e.host = rhpc.NewByzHost(c10HostKey, cs, e.prices, c.Mut)
	if c.Mut.Kind == "stall" {
		e.host.T.DeadlineScale = c10StallScale
	}
	if c.Args != "" {
		e.host.PlayAlong = true
	}
	n := mod(c.N, 401)
	for i := 0; i < min(max(n, 3), rhpc.PoolSize); i++ {
		s := rhpc.PoolSector(i)
		e.host.Sectors[s.Root] = s
	}
	e.roots = poolRoots(n)
	slack := uint64(mod(p(c, 5), 3)) // paid-for capacity beyond the file size, in sectors
	e.rev = types.V2FileContract{
		Capacity:         (uint64(n) + slack) * proto4.SectorSize,
		Filesize:         uint64(n) * proto4.SectorSize,
		FileMerkleRoot:   proto4.MetaRoot(e.roots),
		ProofHeight:      cs.Index.Height + 60,
		ExpirationHeight: cs.Index.Height + 60 + proto4.ProofWindow,
		RenterOutput:     types.SiacoinOutput{Value: types.Siacoins(1000), Address: rhpc.AddrOf(c10RenterKey)},
		HostOutput:       types.SiacoinOutput{Value: types.Siacoins(600), Address: rhpc.AddrOf(c10HostKey)},
		MissedHostValue:  types.Siacoins(500),
		TotalCollateral:  types.Siacoins(500),
		RenterPublicKey:  c10RenterKey.PublicKey(),
		HostPublicKey:    c10HostKey.PublicKey(),
		RevisionNumber:   5,
	}
	signBoth(cs, &e.rev)
	e.id = types.FileContractID{0xC1, byte(n)}
	e.host.Contracts[e.id] = &rhpc.BContract{Rev: e.rev, Roots: append([]types.Hash256(nil), e.roots...)}
	e.token = proto4.NewAccountToken(c10RenterKey, c10HostKey.PublicKey())
	e.contract = rhp4.ContractRevision{ID: e.id, Revision: e.rev}
	if c.Keys != "" {
		session, pricer := c10HostKey, c10HostKey
		if strings.Contains(c.Keys, "session=B") {
			session = c10OtherHostKey
		}
		if strings.Contains(c.Keys, "prices=B") {
			pricer = c10OtherHostKey
		}
		e.prices = rhpc.SignPrices(pricer, basePrices, cs.Index.Height)
		e.host.Prices = e.prices
		e.host.Key = pricer                         // requests are validated against the price signer
		e.host.SignKey = session                    // revisions are signed with the session identity
		e.host.ContractKey = c10HostKey.PublicKey() // the contract names host A
		e.host.T.SetPeerKey(session.PublicKey())
	}
	return e
}

func (e *c10Env) hostSigned(fc types.V2FileContract) bool {
	return c10HostKey.PublicKey().VerifyHash(e.cs.ContractSigHash(fc), fc.HostSignature)
}

func (e *c10Env) renterSigned(fc types.V2FileContract) bool {
	return c10RenterKey.PublicKey().VerifyHash(e.cs.ContractSigHash(fc), fc.RenterSignature)
}

// checkRevision is the clause common to every RPC that returns a revision:
// signed by the host over the returned value itself, and the renter pays no
// more than bound.
func (e *c10Env) checkRevision(what string, prev, got types.V2FileContract, bound types.Currency) error {
	if !e.hostSigned(got) {
		return fmt.Errorf("%s returned nil but the returned revision's host signature does not verify under the host key over the returned revision (renter payout %v, host payout %v, revision %d)", what, got.RenterOutput.Value, got.HostOutput.Value, got.RevisionNumber)
	}
	if !e.renterSigned(got) {
		return fmt.Errorf("%s returned a revision that does not carry the renter's own signature over it", what)
	}
	paid, under := prev.RenterOutput.Value.SubWithUnderflow(got.RenterOutput.Value)
	if under {
		return nil // the renter gained; nothing was charged
	}
	if paid.Cmp(bound) > 0 {
		return fmt.Errorf("%s returned nil but the revision charges the renter %v, more than the agreed bound %v", what, paid, bound)
	}
	if got.RenterPublicKey != prev.RenterPublicKey || got.HostPublicKey != prev.HostPublicKey {
		return fmt.Errorf("%s returned a revision with different keys", what)
	}
	return nil
}

var c10Timeout = 30 * time.Second

// stalled host: compressed client deadline clock and the watchdog beyond it
const (
	c10StallScale    = 400
	c10StallWatchdog = 20 * time.Second
)

// lastGenericN is how many leaves / slices the last generic mutation could
// choose from (the enumeration walks them all).
var lastGenericN int

// ---------------------------------------------------------------- executor

type c10Outcome struct {
	err       error // what the client returned
	violation error
	legit     bool // the mutated behaviour is something an honest host may do
}

func runC10(c C10Case, cs *kit.CaseStats) error {
	return runC10With(c, cs, nil)
}

func runC10With(c C10Case, cs *kit.CaseStats, raw func(idx int, wire []byte) []byte) error {
	kinds, ok := rhpc.Kinds[c.RPC]
	if !ok {
		return fmt.Errorf("HARNESS: unknown rpc %q", c.RPC)
	}
	if c.Keys != "" {
		c.Mut, c.Args = rhpc.Mut{}, ""
	}
	if c.Mut.Kind != "" {
		c.Mut.Msg = mod(c.Mut.Msg, len(kinds))
	}
	started := time.Now()
	ctx, cancel := context.WithTimeout(context.Background(), c10Timeout)
	defer cancel()

	var out c10Outcome
	var env *c10Env
	formation := c.RPC == "form" || c.RPC == "renew" || c.RPC == "refresh-full" || c.RPC == "refresh-partial"
	// a degenerate argument (nothing to free / append) combined with a response
	// mutation goes through the ordinary mutation path and oracle
	degenerateMut := c.Args != "" && c10ArgsDegenerate(c.RPC, c.Args) && (c.Mut.Kind != "" || raw != nil)
	if !formation && c.Args != "" && !degenerateMut {
		return runC10Args(ctx, c, cs)
	}
	exec := func(ctx context.Context) (env *c10Env, out c10Outcome, cleanup func(), err error) {
		if formation {
			return runC10Formation(ctx, c, raw)
		}
		// domain: sector-root and free ranges lie inside the contract
		if c.RPC == "roots" && mod(c.N, 401) == 0 {
			c.N = 1
		}
		if c.RPC == "free" && mod(c.N, 401) == 0 {
			c.N = 2
		}
		env = newC10Env(c, baseState())
		env.host.RawMutate = raw
		return env, runC10Plain(ctx, c, env), env.host.Close, nil
	}
	if c.Mut.Kind == "stall" && raw == nil {
		// the host neither answers nor closes; the call is made with a context
		// WITHOUT deadline, so only the client's own default stream timeout
		// (2 min, on a clock compressed 400x by the transport) can end it. On
		// the unchanged tree the client always sets it: not returning within a
		// watchdog ~65x that long is a violation.
		type result struct {
			env     *c10Env
			out     c10Outcome
			cleanup func()
			err     error
		}
		done := make(chan result, 1)
		go func() {
			e, o, cl, err := exec(context.Background())
			done <- result{e, o, cl, err}
		}()
		select {
		case r := <-done:
			if r.cleanup != nil {
				defer r.cleanup()
			}
			if r.err != nil {
				return fmt.Errorf("INFRA: %v", r.err)
			}
			env, out = r.env, r.out
		case <-time.After(c10StallWatchdog):
			return fmt.Errorf("%s: the host stalled at message %d without closing the stream and the call, made with a context without deadline, had not returned after %v although the client's default stream timeout (2 min, compressed to %v here) should have ended it", c.RPC, c.Mut.Msg, c10StallWatchdog, 2*time.Minute/c10StallScale)
		}
	} else {
		var cleanup func()
		var err error
		env, out, cleanup, err = exec(ctx)
		if cleanup != nil {
			defer cleanup()
		}
		if err != nil {
			return fmt.Errorf("INFRA: %v", err)
		}
	}
	applied, differs, harness := env.host.Status()
	lastGenericN = env.host.GenericN
	if env.host.Greedy {
		cs.Class("greedy-host-countersigned-another-revision")
	}
	if harness != "" {
		return fmt.Errorf("HARNESS: %s", harness)
	}
	if ctx.Err() != nil && out.err != nil && out.violation == nil {
		// the harness watchdog ended the call: no verdict
		cs.Inconclusive("client call hit the harness watchdog")
		return nil
	}
	diag := fmt.Sprintf(" [elapsed %v, watchdog %v]", time.Since(started).Round(time.Millisecond), ctx.Err())
	if c.Keys != "" {
		// key confusion: the host is honest apart from who it is; the ordinary
		// oracle applies (a returned revision must verify under the CONTRACT's
		// host key), success is not required
		cs.Class("rpc=" + c.RPC)
		cs.Class(c.RPC + "/keys=" + c.Keys)
		cs.NonTrivial()
		if ctx.Err() != nil && out.err != nil && out.violation == nil {
			cs.Inconclusive("client call hit the harness watchdog")
			return nil
		}
		if out.err == nil {
			cs.Class("accepted:" + c.RPC + "/keys=" + c.Keys)
		}
		if out.violation != nil {
			return fmt.Errorf("%s with key confusion (%s; contract host key A, host signs with its session key): %w", c.RPC, c.Keys, out.violation)
		}
		return nil
	}
	label := "honest"
	if c.Mut.Kind != "" {
		label = fmt.Sprintf("msg%d/%s", c.Mut.Msg, c.Mut.Kind)
	}
	if raw != nil {
		label = "raw"
	}
	cs.Class("rpc=" + c.RPC)
	switch {
	case c.Mut.Kind == "" && raw == nil:
		cs.Class(c.RPC + "/honest")
		if out.err != nil {
			return fmt.Errorf("non-vacuity: %s against the unmutated scripted host failed: %v%s", c.RPC, out.err, diag)
		}
	case !applied:
		cs.Class("mutation-not-reached")
	case !differs:
		cs.Class("mutation-noop")
		if out.err != nil && c.Mut.Kind != "close" && c.Mut.Kind != "rpc-error" && raw == nil {
			return fmt.Errorf("non-vacuity: mutation %s left the bytes unchanged, yet %s failed: %v%s", label, c.RPC, out.err, diag)
		}
	default:
		cs.NonTrivial()
		cs.Class(c.RPC + "/" + label)
		if c.Args != "" {
			cs.Class(c.RPC + "/args=" + c.Args + "+mutation")
		}
		if out.err == nil {
			cs.Class("accepted:" + c.RPC + "/" + label)
		} else {
			cs.Class("outcome=rejected")
		}
	}
	if out.violation != nil {
		return fmt.Errorf("%s with %s: %w", c.RPC, label, out.violation)
	}
	if out.err == nil {
		cs.Class("outcome=nil")
	}
	return nil
}

// runC10Args calls a client function with arguments that have no honest
// answer (or a degenerate one) against a host that plays along.
func runC10Args(ctx context.Context, c C10Case, cs *kit.CaseStats) error {
	ok := false
	for _, a := range c10Args[c.RPC] {
		ok = ok || a == c.Args
	}
	if !ok {
		return fmt.Errorf("HARNESS: argument shape %q does not apply to %s", c.Args, c.RPC)
	}
	c.Mut = rhpc.Mut{}
	switch c.Args {
	case "empty-contract", "zero-length-empty-contract":
		c.N = 0
	default:
		if mod(c.N, 401) == 0 {
			c.N = 3
		}
	}
	e := newC10Env(c, baseState())
	e.host.PlayAlong = true
	defer e.host.Close()
	n := uint64(len(e.roots))
	t := e.host.T
	cs.Class("rpc=" + c.RPC)
	cs.Class(c.RPC + "/args=" + c.Args)
	cs.NonTrivial()
	degenerate := c10ArgsDegenerate(c.RPC, c.Args)
	var err error
	var violation error
	switch c.RPC {
	case "roots":
		var off, ln uint64
		switch c.Args {
		case "empty-contract":
			off, ln = 0, 1+uint64(mod(p(c, 1), 4))
		case "beyond-end":
			off = uint64(mod(p(c, 0), int(n)))
			ln = n - off + 1 + uint64(mod(p(c, 1), 3))
		case "offset-beyond-end":
			off, ln = n+1+uint64(mod(p(c, 0), 3)), 1
		case "zero-length":
			off, ln = uint64(mod(p(c, 0), int(n)+1)), 0
		case "zero-length-empty-contract":
			off, ln = 0, 0
		case "huge-length":
			off, ln = 0, 1<<40
		}
		var res rhp4.RPCSectorRootsResult
		res, err = rhp4.RPCSectorRoots(ctx, t, e.cs, e.prices, e.signer, e.contract, off, ln)
		if err == nil {
			violation = fmt.Errorf("RPCSectorRoots(offset %d, length %d) on a contract of %d sectors returned nil with %d roots and a revision paying the host %v more: there are no such sector roots", off, ln, n, len(res.Roots), res.Revision.HostOutput.Value.Sub(e.rev.HostOutput.Value))
		} else if _, sent := rhpc.LastRequest[proto4.RPCSectorRootsRequest](e.host); sent {
			violation = fmt.Errorf("RPCSectorRoots(offset %d, length %d) on a contract of %d sectors failed (%v) only after the request, which carries the renter's signature over the paying revision, was sent to the host", off, ln, n, err)
		}
	case "read":
		sec := rhpc.PoolSector(mod(p(c, 0), 3))
		var off, ln uint64
		switch c.Args {
		case "beyond-sector":
			off = proto4.SectorSize - 64*uint64(1+mod(p(c, 1), 8))
			ln = proto4.SectorSize - off + 64*uint64(1+mod(p(c, 2), 4))
		case "offset-beyond-sector":
			off, ln = proto4.SectorSize+64*uint64(1+mod(p(c, 1), 8)), 64
		case "zero-length":
			off, ln = 64*uint64(mod(p(c, 1), 1000)), 0
		case "unaligned-end":
			off, ln = 64*uint64(mod(p(c, 1), 1000)), 64+uint64(1+mod(p(c, 2), 63))
		case "overflowing-range":
			off, ln = 64, ^uint64(0)-31
		}
		var buf bytes.Buffer
		_, err = rhp4.RPCReadSector(ctx, t, e.prices, e.token, &buf, sec.Root, off, ln)
		if err == nil {
			violation = fmt.Errorf("RPCReadSector(offset %d, length %d) returned nil (%d bytes written): the range is not a leaf-aligned range of a sector", off, ln, buf.Len())
		}
	case "free":
		var idx []uint64
		switch c.Args {
		case "index-beyond-end":
			idx = []uint64{n + uint64(mod(p(c, 1), 5)) + 1}
			if mod(p(c, 0), 2) == 1 && n > 0 {
				idx = append(idx, uint64(mod(p(c, 2), int(n))))
			}
		case "index-equals-count":
			idx = []uint64{n}
		case "empty-contract":
			idx = []uint64{uint64(mod(p(c, 1), 3))}
		case "more-indices-than-sectors":
			for i := uint64(0); i <= n+1; i++ {
				idx = append(idx, i)
			}
		case "huge-index":
			idx = []uint64{^uint64(0) - uint64(mod(p(c, 1), 3))}
		case "no-indices":
			idx = nil
		}
		var res rhp4.RPCFreeSectorsResult
		res, err = rhp4.RPCFreeSectors(ctx, t, e.signer, e.cs, e.prices, e.contract, idx)
		if err == nil && !degenerate {
			violation = fmt.Errorf("RPCFreeSectors(%v) on a contract of %d sectors returned nil (new file size %d, revision %d): there are no such sectors to free", idx, n, res.Revision.Filesize, res.Revision.RevisionNumber)
		}
		if err == nil && degenerate {
			if res.Revision.FileMerkleRoot != e.rev.FileMerkleRoot || res.Revision.Filesize != e.rev.Filesize {
				violation = fmt.Errorf("RPCFreeSectors(no indices) returned nil with a changed root or file size")
			} else {
				violation = e.checkRevision("RPCFreeSectors", e.rev, res.Revision, types.ZeroCurrency)
			}
		}
	case "fund":
		var res rhp4.RPCFundAccountResult
		res, err = rhp4.RPCFundAccounts(ctx, t, e.cs, e.signer, e.contract, nil)
		if err == nil {
			violation = fmt.Errorf("RPCFundAccounts(no deposits) returned nil (revision %d): there is nothing to fund", res.Revision.RevisionNumber)
		}
	case "replenish":
		var res rhp4.RPCReplenishAccountsResult
		res, err = rhp4.RPCReplenishAccounts(ctx, t, rhp4.RPCReplenishAccountsParams{Target: types.Siacoins(5), Contract: e.contract}, e.cs, e.signer)
		if err == nil {
			violation = fmt.Errorf("RPCReplenishAccounts(no accounts) returned nil (revision %d)", res.Revision.RevisionNumber)
		}
	case "replpools":
		var res rhp4.RPCReplenishPoolsResult
		res, err = rhp4.RPCReplenishPools(ctx, t, rhp4.RPCReplenishPoolsParams{Target: types.Siacoins(5), Contract: e.contract}, e.cs, e.signer)
		if err == nil {
			violation = fmt.Errorf("RPCReplenishPools(no pools) returned nil (revision %d)", res.Revision.RevisionNumber)
		}
	case "append":
		var res rhp4.RPCAppendSectorsResult
		res, err = rhp4.RPCAppendSectors(ctx, t, e.signer, e.cs, e.prices, e.contract, nil)
		if err == nil {
			if res.Revision.FileMerkleRoot != e.rev.FileMerkleRoot || res.Revision.Filesize != e.rev.Filesize || len(res.Sectors) != 0 {
				violation = fmt.Errorf("RPCAppendSectors(no sectors) returned nil with a changed root, file size or a non-empty list")
			} else {
				violation = e.checkRevision("RPCAppendSectors", e.rev, res.Revision, types.ZeroCurrency)
			}
		}
	}
	if _, _, h := e.host.Status(); h != "" {
		return fmt.Errorf("HARNESS: %s", h)
	}
	if ctx.Err() != nil && err != nil && violation == nil {
		cs.Inconclusive("client call hit the harness watchdog")
		return nil
	}
	if err == nil {
		cs.Class("outcome=nil")
	} else {
		cs.Class("outcome=rejected")
	}
	if violation != nil {
		return fmt.Errorf("%s with arguments outside the honest range (%s), host playing along: %w", c.RPC, c.Args, violation)
	}
	return nil
}

func sectorRange(c C10Case) (off, ln uint64) {
	lens := []uint64{1, 1, 2, 3, 64, 65, 1000, proto4.LeavesPerSector}
	ln = lens[mod(p(c, 2), len(lens))]
	off = uint64(mod(p(c, 1), int(proto4.LeavesPerSector-ln+1)))
	return off * proto4.LeafSize, ln * proto4.LeafSize
}

func runC10Plain(ctx context.Context, c C10Case, e *c10Env) (out c10Outcome) {
	t := e.host.T
	n := len(e.roots)
	switch c.RPC {
	case "read":
		sec := rhpc.PoolSector(mod(p(c, 0), 3))
		off, ln := sectorRange(c)
		var buf bytes.Buffer
		_, err := rhp4.RPCReadSector(ctx, t, e.prices, e.token, &buf, sec.Root, off, ln)
		out.err = err
		if err == nil && !bytes.Equal(buf.Bytes(), sec.Data[off:off+ln]) {
			got := buf.Bytes()
			at := 0
			for at < len(got) && at < int(ln) && got[at] == sec.Data[int(off)+at] {
				at++
			}
			out.violation = fmt.Errorf("RPCReadSector(offset %d, length %d) returned nil but the writer received %d bytes that differ from the sector's range (first difference at byte %d)", off, ln, len(got), at)
		}
	case "write":
		sec := rhpc.PoolSector(mod(p(c, 0), 3))
		lens := []uint64{64, 128, 4096, 1 << 20, proto4.SectorSize - 64, proto4.SectorSize}
		ln := lens[mod(p(c, 1), len(lens))]
		data := sec.Data[:ln]
		res, err := rhp4.RPCWriteSector(ctx, t, e.prices, e.token, bytes.NewReader(data), ln)
		out.err = err
		if err == nil {
			if want := rhpc.TrueWriteRoot(data); res.Root != want {
				out.violation = fmt.Errorf("RPCWriteSector(%d bytes) returned nil with root %v, the root of the padded bytes sent is %v", ln, res.Root, want)
			}
		}
	case "verify":
		sec := rhpc.PoolSector(mod(p(c, 0), 3))
		_, err := rhp4.RPCVerifySector(ctx, t, e.prices, e.token, sec.Root)
		out.err = err
		if err == nil {
			req, ok1 := rhpc.LastRequest[proto4.RPCVerifySectorRequest](e.host)
			sent, ok2 := rhpc.SentObj[*proto4.RPCVerifySectorResponse](e.host, 0)
			if !ok1 || !ok2 {
				out.violation = fmt.Errorf("RPCVerifySector returned nil although the host never answered")
			} else if sent.Leaf != sec.Leaf(req.LeafIndex) {
				out.violation = fmt.Errorf("RPCVerifySector returned nil but the leaf the host answered for index %d is not that leaf of the requested sector", req.LeafIndex)
			}
		}
	case "roots":
		ln := 1 + mod(p(c, 1), n)
		off := mod(p(c, 0), n-ln+1)
		res, err := rhp4.RPCSectorRoots(ctx, t, e.cs, e.prices, e.signer, e.contract, uint64(off), uint64(ln))
		out.err = err
		if err == nil {
			want := e.roots[off : off+ln]
			if len(res.Roots) != len(want) {
				out.violation = fmt.Errorf("RPCSectorRoots(%d,%d) returned nil with %d roots", off, ln, len(res.Roots))
				break
			}
			for i := range want {
				if res.Roots[i] != want[i] {
					out.violation = fmt.Errorf("RPCSectorRoots(%d,%d) returned nil but root %d is not the contract's sector root", off, ln, i)
					return
				}
			}
			out.violation = e.checkRevision("RPCSectorRoots", e.rev, res.Revision, e.prices.RPCSectorRootsCost(uint64(ln)).RenterCost())
		}
	case "append":
		k := 1 + mod(p(c, 0), 4)
		unknown := p(c, 1)
		var req []types.Hash256
		for i := 0; i < k; i++ {
			s := rhpc.PoolSector(n + i)
			if unknown&(1<<i) == 0 || i == 0 {
				e.host.Sectors[s.Root] = s // the host stores it (uploaded earlier)
			} else if _, stored := e.host.Sectors[s.Root]; !stored {
				out.legit = true // the host honestly declines what it does not store
			}
			req = append(req, s.Root)
		}
		if c.Args == "no-sectors" {
			req = nil // nothing to append: the root must stay what it is
		}
		res, err := rhp4.RPCAppendSectors(ctx, t, e.signer, e.cs, e.prices, e.contract, req)
		out.err = err
		if err == nil {
			// res.Sectors must be a subsequence of the request
			j := 0
			for _, r := range res.Sectors {
				for j < len(req) && req[j] != r {
					j++
				}
				if j == len(req) {
					out.violation = fmt.Errorf("RPCAppendSectors returned nil with appended sectors that are not a subsequence of the requested ones")
					return
				}
				j++
			}
			model := append(append([]types.Hash256(nil), e.roots...), res.Sectors...)
			if res.Revision.FileMerkleRoot != proto4.MetaRoot(model) {
				out.violation = fmt.Errorf("RPCAppendSectors returned nil but the revision's Merkle root is not the root of the previous %d roots followed by the %d sectors it reports appended (of %d requested)", n, len(res.Sectors), len(req))
				return
			}
			if res.Revision.Filesize != uint64(len(model))*proto4.SectorSize {
				out.violation = fmt.Errorf("RPCAppendSectors returned nil with file size %d for %d sectors", res.Revision.Filesize, len(model))
				return
			}
			bound := e.prices.RPCAppendSectorsCost(uint64(len(res.Sectors)), e.rev.ExpirationHeight-e.prices.TipHeight).RenterCost()
			out.violation = e.checkRevision("RPCAppendSectors", e.rev, res.Revision, bound)
		}
	case "free":
		k := 1 + mod(p(c, 0), min(n, 4))
		var idx []uint64
		for i := 0; i < k; i++ {
			idx = append(idx, uint64(mod(p(c, 1+i)+i*7, n)))
		}
		if c.Args == "no-indices" {
			idx = nil // nothing to free: the root must stay what it is
			if mod(p(c, 0), 2) == 1 {
				idx = []uint64{}
			}
		}
		res, err := rhp4.RPCFreeSectors(ctx, t, e.signer, e.cs, e.prices, e.contract, idx)
		out.err = err
		if err == nil {
			norm := append([]uint64(nil), idx...)
			sort.Slice(norm, func(i, j int) bool { return norm[i] > norm[j] })
			var uniq []uint64
			for i, x := range norm {
				if i == 0 || x != norm[i-1] {
					uniq = append(uniq, x)
				}
			}
			model := rhpc.SwapRemove(e.roots, uniq)
			if res.Revision.FileMerkleRoot != proto4.MetaRoot(model) {
				out.violation = fmt.Errorf("RPCFreeSectors(%v) returned nil but the revision's Merkle root is not the root of the list after removing those indices", idx)
				return
			}
			if res.Revision.Filesize != uint64(len(model))*proto4.SectorSize {
				out.violation = fmt.Errorf("RPCFreeSectors(%v) returned nil with file size %d for %d sectors", idx, res.Revision.Filesize, len(model))
				return
			}
			out.violation = e.checkRevision("RPCFreeSectors", e.rev, res.Revision, e.prices.RPCFreeSectorsCost(len(uniq)).RenterCost())
		}
	case "fund":
		k := 1 + mod(p(c, 0), 3)
		var deps []proto4.AccountDeposit
		var total types.Currency
		for i := 0; i < k; i++ {
			amt := types.Siacoins(uint32(1 + mod(p(c, 1+i), 20)))
			deps = append(deps, proto4.AccountDeposit{Account: proto4.Account(rhpc.Key(fmt.Sprintf("acct-%d", i)).PublicKey()), Amount: amt})
			total = total.Add(amt)
		}
		res, err := rhp4.RPCFundAccounts(ctx, t, e.cs, e.signer, e.contract, deps)
		out.err = err
		if err == nil {
			out.violation = e.checkRevision("RPCFundAccounts", e.rev, res.Revision, total)
		}
	case "replenish", "replpools":
		k := 1 + mod(p(c, 0), 3)
		target := types.Siacoins(uint32(5 + mod(p(c, 1), 10)))
		var accts []proto4.Account
		allAbove := true
		for i := 0; i < k; i++ {
			a := proto4.Account(rhpc.Key(fmt.Sprintf("acct-%d", i)).PublicKey())
			accts = append(accts, a)
			// balance before: empty, half, at target, above target
			var bal types.Currency
			switch mod(p(c, 2+i), 4) {
			case 1:
				bal = target.Div64(2)
			case 2:
				bal = target
			case 3:
				bal = target.Add(types.Siacoins(1))
			}
			if bal.Cmp(target) < 0 {
				allAbove = false
			}
			if c.RPC == "replpools" {
				e.host.Pools[a] = bal
			} else {
				e.host.Balances[a] = bal
			}
		}
		_ = allAbove
		bound := target.Mul64(uint64(k))
		if c.RPC == "replenish" {
			res, err := rhp4.RPCReplenishAccounts(ctx, t, rhp4.RPCReplenishAccountsParams{Accounts: accts, Target: target, Contract: e.contract}, e.cs, e.signer)
			out.err = err
			if err == nil {
				out.violation = e.checkRevision("RPCReplenishAccounts", e.rev, res.Revision, bound)
			}
		} else {
			res, err := rhp4.RPCReplenishPools(ctx, t, rhp4.RPCReplenishPoolsParams{Pools: accts, Target: target, Contract: e.contract}, e.cs, e.signer)
			out.err = err
			if err == nil {
				out.violation = e.checkRevision("RPCReplenishPools", e.rev, res.Revision, bound)
			}
		}
	default:
		out.violation = fmt.Errorf("HARNESS: unhandled rpc %q", c.RPC)
	}
	return
}

// c10World is a funded renter on a real chain (formation RPCs need a real
// wallet and transaction pool on the renter side; the scripted host
// fabricates its own inputs, which a renter cannot check anyway).
func c10World() (*rhpc.Party, error) { return c10WorldFor(c10RenterKey) }

func c10WorldFor(key types.PrivateKey) (*rhpc.Party, error) {
	n, g := rhpc.Network()
	r, err := rhpc.NewParty("renter", key, n, g)
	if err != nil {
		return nil, err
	}
	add := func(addr types.Address, salt uint64) error {
		b := rhpc.MineOn(r.CM.TipState(), addr, nil, salt)
		return r.CM.AddBlocks([]types.Block{b})
	}
	for i := 0; i < 2; i++ {
		if err := add(r.Addr(), uint64(i)); err != nil {
			r.Close()
			return nil, err
		}
	}
	for i := 0; i < int(n.MaturityDelay)+1; i++ {
		if err := add(rhpc.VoidAddr, uint64(10+i)); err != nil {
			r.Close()
			return nil, err
		}
	}
	if err := r.Sync(); err != nil {
		r.Close()
		return nil, err
	}
	return r, nil
}

func stripSigs(fc types.V2FileContract) types.V2FileContract {
	fc.RenterSignature, fc.HostSignature = types.Signature{}, types.Signature{}
	return fc
}

func runC10Formation(ctx context.Context, c C10Case, raw func(int, []byte) []byte) (*c10Env, c10Outcome, func(), error) {
	var out c10Outcome
	r, err := c10World()
	if err != nil {
		return nil, out, nil, err
	}
	cs := r.CM.TipState()
	c.N = mod(c.N, 3) // renewals of up to two sectors keep collateral inside realistic bounds
	e := newC10Env(c, cs)
	e.host.RawMutate = raw
	cleanup := func() { e.host.Close(); r.Close() }
	signer := &rhpc.FundAndSign{W: r.W, PK: c10RenterKey}
	hostAddr := rhpc.AddrOf(c10HostKey)
	allowance := types.Siacoins(uint32(50 + mod(p(c, 0), 100)))
	collateral := types.Siacoins(uint32(mod(p(c, 1), 80)))
	check := func(what string, got rhp4.ContractRevision, want types.V2FileContract) {
		if !e.hostSigned(got.Revision) {
			out.violation = fmt.Errorf("%s returned nil but the returned contract's host signature does not verify under the host key over the returned contract (renter payout %v, host payout %v, missed host value %v, proof height %d)", what, got.Revision.RenterOutput.Value, got.Revision.HostOutput.Value, got.Revision.MissedHostValue, got.Revision.ProofHeight)
			return
		}
		if !e.renterSigned(got.Revision) {
			out.violation = fmt.Errorf("%s returned nil but the returned contract does not carry the renter's signature over it", what)
			return
		}
		if stripSigs(got.Revision) != stripSigs(want) {
			a, _ := json.Marshal(stripSigs(got.Revision))
			b, _ := json.Marshal(stripSigs(want))
			out.violation = fmt.Errorf("%s returned nil with a contract that is not the one the price table and the request determine:\n got  %s\n want %s", what, a, b)
		}
	}
	switch c.RPC {
	case "form":
		params := proto4.RPCFormContractParams{RenterPublicKey: c10RenterKey.PublicKey(), RenterAddress: r.Addr(), Allowance: allowance, Collateral: collateral, ProofHeight: cs.Index.Height + 40 + uint64(mod(p(c, 2), 30))}
		res, err := rhp4.RPCFormContract(ctx, e.host.T, r.CM, signer, cs, e.prices, c10HostKey.PublicKey(), hostAddr, params)
		out.err = err
		if err == nil {
			want, _ := proto4.NewContract(e.prices, params, c10HostKey.PublicKey(), hostAddr)
			check("RPCFormContract", res.Contract, want)
		}
	case "renew":
		params := proto4.RPCRenewContractParams{ContractID: e.id, Allowance: allowance, Collateral: collateral, ProofHeight: e.rev.ProofHeight + 1 + uint64(mod(p(c, 2), 30))}
		res, err := rhp4.RPCRenewContract(ctx, e.host.T, r.CM, signer, cs, e.prices, hostAddr, e.rev, params)
		out.err = err
		if err == nil {
			want, _ := proto4.RenewContract(e.rev, e.prices, hostAddr, params)
			check("RPCRenewContract", res.Contract, want.NewContract)
			if out.violation == nil && res.Contract.ID != e.id.V2RenewalID() {
				out.violation = fmt.Errorf("RPCRenewContract returned a contract id that is not the renewal id")
			}
		}
	case "refresh-full", "refresh-partial":
		params := proto4.RPCRefreshContractParams{ContractID: e.id, Allowance: allowance, Collateral: collateral}
		if c.RPC == "refresh-full" {
			res, err := rhp4.RPCRefreshContractFullRollover(ctx, e.host.T, r.CM, signer, cs, e.prices, hostAddr, e.rev, params)
			out.err = err
			if err == nil {
				want, _ := proto4.RefreshContractFullRollover(e.rev, e.prices, hostAddr, params)
				check("RPCRefreshContractFullRollover", res.Contract, want.NewContract)
			}
		} else {
			res, err := rhp4.RPCRefreshContractPartialRollover(ctx, e.host.T, r.CM, signer, cs, e.prices, hostAddr, e.rev, params)
			out.err = err
			if err == nil {
				want, _ := proto4.RefreshContractPartialRollover(e.rev, e.prices, hostAddr, params)
				check("RPCRefreshContractPartialRollover", res.Contract, want.NewContract)
			}
		}
	}
	return e, out, cleanup, nil
}

var c10Assumptions = []string{
	"the scripted host answers from ground truth held by the harness (real 4 MiB sectors and their Merkle roots, a contract revision signed by both keys, a price table signed by the host key); exactly one response message is changed and the rest of the exchange continues consistently with what was sent (a cheating host signs what it claimed)",
	"read offsets and lengths are multiples of the 64-byte leaf size (what the reference sector store accepts); sector-root and free ranges lie inside the contract",
	"for form / renew / refresh the host's inputs are fabricated elements of the right value (a renter cannot check elements or proofs); only the clause 'the returned contract is host-signed over the returned value and is the one the price table determines' is checked here, wallet effects belong to C16",
	"settings, latest-revision and account-balance promise nothing verifiable and are not part of the property",
	"go.sia.tech/core is trusted for Merkle arithmetic, signature hashes and price functions",
}

var c10Prop = kit.Prop[C10Case]{
	ID:          "C10",
	Rule:        "one renter call (read, write, verify, roots, append, free, fund, replenish accounts, replenish pools, form, renew, refresh full/partial) against the scripted Byzantine host with one mutation (family drawn from the per-message catalogue: flip / zero / truncate / extend of every list and hash, proofs and data for another range or sector, consistent lies, lengths off by one, genuine signatures from another exchange, re-signing another revision with the real host key, deposits above target / more / fewer than accounts, over-flowing input values, RPC error, early close). Oracle from ground truth, one-directional: nil error => delivered bytes / root / leaf / roots / new Merkle root are the true ones, every returned revision verifies under the host key over the returned value and charges no more than the price table. Non-trivial = the mutated message's bytes differ from the honest bytes; distinct by (rpc, parameters, mutation).",
	Assumptions: c10Assumptions,
	Gen:         genC10,
	Run:         runC10,
}

func TestC10(t *testing.T) { c10Prop.Main(t) }

// TestC10Enum walks every (client function x response message x mutation
// family) with a few parameter presets and variant selectors, and every
// client function unmutated (non-vacuity).
func TestC10Enum(t *testing.T) {
	d := kit.NewDirect(t, "C10", "enumeration: every client function x every response message x every mutation family of the catalogue x parameter presets x variant selectors, plus every client function against the unmutated scripted host (which must succeed)", c10Assumptions...)
	d.St.Exhaustive = true
	defer d.Done()
	presets := []struct {
		n int
		p []int
	}{
		{4, []int{1, 3, 2, 1, 0, 0}},
		{7, []int{2, 65000, 5, 6, 3, 1}},
		{1, []int{0, 0, 0, 0, 0, 2}},
	}
	variants := [][2]int{{0, 0}, {3, 77}, {1001, 200}}
	if !kit.Thorough() {
		variants = variants[:2]
	}
	all := os.Getenv("VERIF_C10_ALL") != ""
	var failures []string
	report := func(c C10Case, cs *kit.CaseStats, err error) {
		if err != nil && all {
			js, _ := json.Marshal(c)
			failures = append(failures, fmt.Sprintf("%s\n    %s", js, strings.SplitN(err.Error(), "\n", 2)[0]))
			err = nil
		}
		d.Case(c, cs, err)
	}
	shard, shards := 0, 1
	if v, err := strconv.Atoi(os.Getenv("VERIF_SHARDS")); err == nil && v > 1 {
		shards = v
		shard, _ = strconv.Atoi(os.Getenv("VERIF_SHARD"))
	}
	unit := 0
	mine := func() bool { unit++; return (unit-1)%shards == shard }
	for _, rpc := range rhpc.RPCs {
		for pi, ps := range presets {
			if (rpc == "write") && pi > 0 && !kit.Thorough() {
				continue // each write hashes 4 MiB on the client
			}
			if mine() {
				c := C10Case{RPC: rpc, N: ps.n, P: ps.p}
				cs := &kit.CaseStats{}
				report(c, cs, c10Prop.SafeRun(c, cs))
			}
			for msg, kinds := range rhpc.Kinds[rpc] {
				for _, k := range kinds {
					if !mine() {
						continue
					}
					if rhpc.IsGeneric(k) {
						// every leaf / slice of the message (first preset only in quick)
						if pi > 0 && !kit.Thorough() {
							continue
						}
						bs := []int{0}
						if k == "g-flip" {
							bs = []int{0, 13}
						}
						for a, n := 0, 1; a < n && a < 400; a++ {
							for _, b := range bs {
								c := C10Case{RPC: rpc, N: ps.n, P: ps.p, Mut: rhpc.Mut{Msg: msg, Kind: k, A: a, B: b}}
								cs := &kit.CaseStats{}
								lastGenericN = 0
								report(c, cs, c10Prop.SafeRun(c, cs))
								if lastGenericN > n {
									n = lastGenericN
								}
							}
						}
						continue
					}
					if k == "trunc-bytes" {
						// a prefix of every length class of the encoded message
						for _, a := range []int{0, 1, 2, 9, 17, 33, 40, 41, 73, 97, 105, 129, 1 << 20} {
							c := C10Case{RPC: rpc, N: ps.n, P: ps.p, Mut: rhpc.Mut{Msg: msg, Kind: k, A: a}}
							cs := &kit.CaseStats{}
							report(c, cs, c10Prop.SafeRun(c, cs))
						}
						continue
					}
					for vi, v := range variants {
						if vi > 0 && (k == "rpc-error" || k == "close" || k == "stall" || strings.HasSuffix(k, "-zero") || strings.HasSuffix(k, "-empty")) {
							continue
						}
						if rpc == "write" && vi > 0 {
							continue
						}
						c := C10Case{RPC: rpc, N: ps.n, P: ps.p, Mut: rhpc.Mut{Msg: msg, Kind: k, A: v[0], B: v[1]}}
						cs := &kit.CaseStats{}
						report(c, cs, c10Prop.SafeRun(c, cs))
					}
				}
			}
		}
	}
	// nothing to free / nothing to append, combined with every response mutation
	for _, rpc := range []string{"free", "append"} {
		args := map[string]string{"free": "no-indices", "append": "no-sectors"}[rpc]
		for msg, kinds := range rhpc.Kinds[rpc] {
			for _, k := range kinds {
				if !mine() {
					continue
				}
				if k == "stall" {
					continue
				}
				for _, n := range []int{1, 4, 7} {
					for v := 0; v < 2; v++ {
						c := C10Case{RPC: rpc, N: n, P: []int{v, 3, 2, 1, 0, v}, Args: args, Mut: rhpc.Mut{Msg: msg, Kind: k, A: 3 * v, B: 77 * v}}
						cs := &kit.CaseStats{}
						report(c, cs, c10Prop.SafeRun(c, cs))
					}
				}
			}
		}
	}
	// price buckets: sector roots are priced per 4 KiB (128 roots); offsets and
	// lengths on both sides of the bucket boundaries of a 300-sector contract
	if mine() {
		for _, off := range []int{0, 1, 100, 127, 128, 129, 200, 255, 256, 290} {
			for _, ln := range []int{1, 10, 27, 28, 100, 127, 128, 129, 172} {
				if off+ln > 300 {
					continue
				}
				c := C10Case{RPC: "roots", N: 300, P: []int{off, ln - 1, 0, 0, 0, 0}}
				cs := &kit.CaseStats{}
				report(c, cs, c10Prop.SafeRun(c, cs))
			}
		}
		for _, n := range []int{127, 128, 129, 300} {
			for _, rpc := range []string{"append", "free", "fund", "replenish", "replpools"} {
				for v := 0; v < 3; v++ {
					c := C10Case{RPC: rpc, N: n, P: []int{v, 2 * v, 300 - v, 129, 7, v}}
					cs := &kit.CaseStats{}
					report(c, cs, c10Prop.SafeRun(c, cs))
				}
			}
		}
	}
	// key confusion: session key / price signer / contract host key
	for _, rpc := range rhpc.RPCs {
		if !c10KeyRPCs[rpc] || !mine() {
			continue
		}
		for _, k := range c10Keys {
			for _, ps := range presets {
				c := C10Case{RPC: rpc, N: ps.n, P: ps.p, Keys: k}
				cs := &kit.CaseStats{}
				report(c, cs, c10Prop.SafeRun(c, cs))
			}
		}
	}
	// arguments outside the honest range against a host that plays along
	for _, rpc := range rhpc.RPCs {
		for _, a := range c10Args[rpc] {
			if !mine() {
				continue
			}
			for _, n := range []int{1, 2, 5, 8, 13} {
				for v := 0; v < 4; v++ {
					c := C10Case{RPC: rpc, N: n, P: []int{v, v * 3, v + 1, 2, 0, 0}, Args: a}
					cs := &kit.CaseStats{}
					report(c, cs, c10Prop.SafeRun(c, cs))
				}
			}
		}
	}
	// shape sweep: Merkle diff / range proofs depend on the tree shape, so the
	// consistent-lie families are run for every contract size 2..20, every
	// requested index and a few alternatives
	for n := 2; n <= 20; n++ {
		if !mine() {
			continue
		}
		for idx := 0; idx < n; idx++ {
			for a := 0; a < 3; a++ {
				for k := 0; k < 2; k++ {
					c := C10Case{RPC: "free", N: n, P: []int{k, idx, idx + 2, 0, 0, 0}, Mut: rhpc.Mut{Msg: 0, Kind: "lie-other-indices", A: a}}
					cs := &kit.CaseStats{}
					report(c, cs, c10Prop.SafeRun(c, cs))
				}
				c := C10Case{RPC: "roots", N: n, P: []int{idx, a, 0, 0, 0, 0}, Mut: rhpc.Mut{Msg: 0, Kind: "lie-other-range", A: idx + a}}
				cs := &kit.CaseStats{}
				report(c, cs, c10Prop.SafeRun(c, cs))
			}
		}
	}
	if len(failures) > 0 {
		t.Fatalf("%d failing cases:\n%s", len(failures), strings.Join(failures, "\n"))
	}
}
