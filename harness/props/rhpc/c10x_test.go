package prhpc

import (
	"bytes"
	"context"
	"encoding/json"
	"fmt"
	"testing"
	"time"

	proto4 "go.sia.tech/core/rhp/v4"
	"go.sia.tech/core/types"
	rhp4 "go.sia.tech/coreutils/rhp/v4"

	"verif/kit"
	"verif/rhpc"
)

// TestC10Cross cross-checks the scripted host's honest behaviour against the
// repository's server: the same sequence of client calls is run against both,
// starting from the same contract, sectors and price table, and every result
// the client returns must be identical (signatures are deterministic).
func TestC10Cross(t *testing.T) {
	d := kit.NewDirect(t, "C10", "cross-check: the unmutated scripted host and the real rhp4.Server, driven by the same client calls from the same state, make the client return identical results (revisions, roots, balances, usage, delivered bytes) for all thirteen client functions", c10Assumptions...)
	defer d.Done()
	cs := &kit.CaseStats{}
	err := crossPlain(cs)
	d.Case(map[string]string{"cross": "plain"}, cs, err)
	for _, rpc := range []string{"form", "renew", "refresh-full", "refresh-partial"} {
		cs := &kit.CaseStats{}
		err := crossFormation(rpc, cs)
		d.Case(map[string]string{"cross": rpc}, cs, err)
	}
}

func sameJSON(what string, a, b any) error {
	ja, _ := json.Marshal(a)
	jb, _ := json.Marshal(b)
	if !bytes.Equal(ja, jb) {
		return fmt.Errorf("HARNESS cross-check: %s differs between the real server and the scripted host:\n real %s\n byz  %s", what, ja, jb)
	}
	return nil
}

func crossPlain(cs *kit.CaseStats) error {
	ctx, cancel := context.WithTimeout(context.Background(), 60*time.Second)
	defer cancel()
	n, g := rhpc.Network()
	nd, err := rhpc.NewNode("cross", n, g)
	if err != nil {
		return err
	}
	state := nd.CM.TipState()
	real := rhpc.NewRealHost(c10HostKey, nd.CM, rhpc.NoWallet{Addr: rhpc.AddrOf(c10HostKey)}, rhpc.DefaultSettings(rhpc.AddrOf(c10HostKey)))
	defer real.Close()
	prices := rhpc.SignPrices(c10HostKey, basePrices, state.Index.Height)
	byz := rhpc.NewByzHost(c10HostKey, state, prices, rhpc.Mut{})
	defer byz.Close()

	fc := types.V2FileContract{
		ProofHeight: 60, ExpirationHeight: 60 + proto4.ProofWindow,
		RenterOutput:    types.SiacoinOutput{Value: types.Siacoins(1000), Address: rhpc.AddrOf(c10RenterKey)},
		HostOutput:      types.SiacoinOutput{Value: types.Siacoins(600), Address: rhpc.AddrOf(c10HostKey)},
		MissedHostValue: types.Siacoins(500), TotalCollateral: types.Siacoins(500),
		RenterPublicKey: c10RenterKey.PublicKey(), HostPublicKey: c10HostKey.PublicKey(),
	}
	signBoth(state, &fc)
	txn := types.V2Transaction{FileContracts: []types.V2FileContract{fc}}
	id := txn.V2FileContractID(txn.ID(), 0)
	if err := real.Contractor.AddV2Contract(rhp4.TransactionSet{Transactions: []types.V2Transaction{txn}}, proto4.Usage{}); err != nil {
		return err
	}
	byz.Contracts[id] = &rhpc.BContract{Rev: fc}
	for i := 0; i < 4; i++ {
		s := rhpc.PoolSector(i)
		if err := real.Sectors.StoreSector(s.Root, s.Data, s.Subtrees, 1000); err != nil {
			return err
		}
		byz.Sectors[s.Root] = s
	}
	signer := rhpc.KeySigner{K: c10RenterKey}
	token := proto4.NewAccountToken(c10RenterKey, c10HostKey.PublicKey())
	// the server releases the contract lock after it wrote its last message, so
	// the next call must wait until the handler has returned
	idle := func() { real.T.WaitIdle(20 * time.Second) }
	revR, revB := rhp4.ContractRevision{ID: id, Revision: fc}, rhp4.ContractRevision{ID: id, Revision: fc}
	acct := proto4.Account(c10RenterKey.PublicKey())
	a2 := proto4.Account(rhpc.Key("acct-2").PublicKey())

	// fund
	deps := []proto4.AccountDeposit{{Account: acct, Amount: types.Siacoins(50)}, {Account: a2, Amount: types.Siacoins(3)}}
	fr, err1 := rhp4.RPCFundAccounts(ctx, real.T, state, signer, revR, deps)
	idle()
	fb, err2 := rhp4.RPCFundAccounts(ctx, byz.T, state, signer, revB, deps)
	if err1 != nil || err2 != nil {
		return fmt.Errorf("fund: real %v byz %v", err1, err2)
	}
	if err := sameJSON("RPCFundAccounts", fr, fb); err != nil {
		return err
	}
	revR.Revision, revB.Revision = fr.Revision, fb.Revision
	cs.Class("cross=fund")

	// write
	data := rhpc.PoolSector(5).Data[:4096]
	wr, err1 := rhp4.RPCWriteSector(ctx, real.T, prices, token, bytes.NewReader(data), 4096)
	idle()
	wb, err2 := rhp4.RPCWriteSector(ctx, byz.T, prices, token, bytes.NewReader(data), 4096)
	if err1 != nil || err2 != nil {
		return fmt.Errorf("write: real %v byz %v", err1, err2)
	}
	if err := sameJSON("RPCWriteSector", wr, wb); err != nil {
		return err
	}
	cs.Class("cross=write")

	// read
	for _, r := range [][2]uint64{{0, 64}, {4096 * 3, 64 * 65}, {proto4.SectorSize - 128, 128}} {
		var b1, b2 bytes.Buffer
		rr, err1 := rhp4.RPCReadSector(ctx, real.T, prices, token, &b1, rhpc.PoolSector(1).Root, r[0], r[1])
		idle()
		rb, err2 := rhp4.RPCReadSector(ctx, byz.T, prices, token, &b2, rhpc.PoolSector(1).Root, r[0], r[1])
		if err1 != nil || err2 != nil {
			return fmt.Errorf("read %v: real %v byz %v", r, err1, err2)
		}
		if err := sameJSON("RPCReadSector", rr, rb); err != nil {
			return err
		}
		if !bytes.Equal(b1.Bytes(), b2.Bytes()) {
			return fmt.Errorf("HARNESS cross-check: read bytes differ")
		}
	}
	cs.Class("cross=read")

	// verify
	_, err1 = rhp4.RPCVerifySector(ctx, real.T, prices, token, rhpc.PoolSector(2).Root)
	idle()
	_, err2 = rhp4.RPCVerifySector(ctx, byz.T, prices, token, rhpc.PoolSector(2).Root)
	if err1 != nil || err2 != nil {
		return fmt.Errorf("verify: real %v byz %v", err1, err2)
	}
	cs.Class("cross=verify")

	// append (one root unknown to both hosts)
	roots := []types.Hash256{rhpc.PoolSector(0).Root, rhpc.PoolSector(1).Root, {0xEE}, rhpc.PoolSector(2).Root, rhpc.PoolSector(3).Root}
	ar, err1 := rhp4.RPCAppendSectors(ctx, real.T, signer, state, prices, revR, roots)
	idle()
	ab, err2 := rhp4.RPCAppendSectors(ctx, byz.T, signer, state, prices, revB, roots)
	if err1 != nil || err2 != nil {
		return fmt.Errorf("append: real %v byz %v", err1, err2)
	}
	if err := sameJSON("RPCAppendSectors", ar, ab); err != nil {
		return err
	}
	revR.Revision, revB.Revision = ar.Revision, ab.Revision
	cs.Class("cross=append")

	// roots
	sr, err1 := rhp4.RPCSectorRoots(ctx, real.T, state, prices, signer, revR, 1, 3)
	idle()
	sb, err2 := rhp4.RPCSectorRoots(ctx, byz.T, state, prices, signer, revB, 1, 3)
	if err1 != nil || err2 != nil {
		return fmt.Errorf("roots: real %v byz %v", err1, err2)
	}
	if err := sameJSON("RPCSectorRoots", sr, sb); err != nil {
		return err
	}
	revR.Revision, revB.Revision = sr.Revision, sb.Revision
	cs.Class("cross=roots")

	// free
	fsr, err1 := rhp4.RPCFreeSectors(ctx, real.T, signer, state, prices, revR, []uint64{0, 2, 0})
	idle()
	fsb, err2 := rhp4.RPCFreeSectors(ctx, byz.T, signer, state, prices, revB, []uint64{0, 2, 0})
	if err1 != nil || err2 != nil {
		return fmt.Errorf("free: real %v byz %v", err1, err2)
	}
	if err := sameJSON("RPCFreeSectors", fsr, fsb); err != nil {
		return err
	}
	revR.Revision, revB.Revision = fsr.Revision, fsb.Revision
	cs.Class("cross=free")

	// replenish accounts (the scripted host tracks balances of funded accounts)
	a3 := proto4.Account(rhpc.Key("acct-3").PublicKey())
	rp := rhp4.RPCReplenishAccountsParams{Accounts: []proto4.Account{acct, a2, a3}, Target: types.Siacoins(10)}
	rp.Contract = revR
	rr, err1 := rhp4.RPCReplenishAccounts(ctx, real.T, rp, state, signer)
	idle()
	rp.Contract = revB
	rb, err2 := rhp4.RPCReplenishAccounts(ctx, byz.T, rp, state, signer)
	if err1 != nil || err2 != nil {
		return fmt.Errorf("replenish: real %v byz %v", err1, err2)
	}
	if err := sameJSON("RPCReplenishAccounts", rr, rb); err != nil {
		return err
	}
	revR.Revision, revB.Revision = rr.Revision, rb.Revision
	cs.Class("cross=replenish")

	// replenish pools
	pp := rhp4.RPCReplenishPoolsParams{Pools: []proto4.Account{a2, a3}, Target: types.Siacoins(7)}
	pp.Contract = revR
	pr, err1 := rhp4.RPCReplenishPools(ctx, real.T, pp, state, signer)
	idle()
	pp.Contract = revB
	pb, err2 := rhp4.RPCReplenishPools(ctx, byz.T, pp, state, signer)
	if err1 != nil || err2 != nil {
		return fmt.Errorf("replpools: real %v byz %v", err1, err2)
	}
	if err := sameJSON("RPCReplenishPools", pr, pb); err != nil {
		return err
	}
	cs.Class("cross=replpools")
	if _, _, h := byz.Status(); h != "" {
		return fmt.Errorf("HARNESS: %s", h)
	}
	return nil
}

// crossFormation compares contract, cost and usage returned by a formation
// RPC against the real server (real chain, real host wallet) with what the
// scripted host makes the client return for the same request.
func crossFormation(rpc string, cs *kit.CaseStats) error {
	ctx, cancel := context.WithTimeout(context.Background(), 60*time.Second)
	defer cancel()
	c := C16Case{RPC: rpc, Allow: 25, Coll: 33, Proof: 9, Sectors: 2, Basis: "same"}
	w, err := newC16World(c)
	if err != nil {
		return fmt.Errorf("INFRA: %v", err)
	}
	defer w.close()
	// scripted twin: same identity key, same payout address, same prices,
	// same existing contract, its own renter chain
	r, err := c10WorldFor(c16RenterKey)
	if err != nil {
		return fmt.Errorf("INFRA: %v", err)
	}
	defer r.Close()
	byz := rhpc.NewByzHost(c16HostID, r.CM.TipState(), w.prices, rhpc.Mut{})
	defer byz.Close()
	byz.Addr = w.settled.WalletAddress
	if rpc != "form" {
		byz.Contracts[w.existingID] = &rhpc.BContract{Rev: w.existing}
	}
	allowance, collateral, proof := w.params(c)
	signerB := &rhpc.FundAndSign{W: r.W, PK: c16ContractKey}
	real, err1 := w.attempt(ctx, c)
	var twin c16Result
	var err2 error
	csB := r.CM.TipState()
	switch rpc {
	case "form":
		res, e := rhp4.RPCFormContract(ctx, byz.T, r.CM, signerB, csB, w.prices, c16HostID.PublicKey(), w.settled.WalletAddress, proto4.RPCFormContractParams{
			RenterPublicKey: c16ContractKey.PublicKey(), RenterAddress: w.R.Addr(), Allowance: allowance, Collateral: collateral, ProofHeight: proof})
		twin, err2 = c16Result{res.Contract, res.FormationSet, res.Cost}, e
	case "renew":
		res, e := rhp4.RPCRenewContract(ctx, byz.T, r.CM, signerB, csB, w.prices, w.settled.WalletAddress, w.existing, proto4.RPCRenewContractParams{
			ContractID: w.existingID, Allowance: allowance, Collateral: collateral, ProofHeight: proof})
		twin, err2 = c16Result{res.Contract, res.RenewalSet, res.Cost}, e
	case "refresh-full":
		res, e := rhp4.RPCRefreshContractFullRollover(ctx, byz.T, r.CM, signerB, csB, w.prices, w.settled.WalletAddress, w.existing, proto4.RPCRefreshContractParams{
			ContractID: w.existingID, Allowance: allowance, Collateral: collateral})
		twin, err2 = c16Result{res.Contract, res.RenewalSet, res.Cost}, e
	case "refresh-partial":
		res, e := rhp4.RPCRefreshContractPartialRollover(ctx, byz.T, r.CM, signerB, csB, w.prices, w.settled.WalletAddress, w.existing, proto4.RPCRefreshContractParams{
			ContractID: w.existingID, Allowance: allowance, Collateral: collateral})
		twin, err2 = c16Result{res.Contract, res.RenewalSet, res.Cost}, e
	}
	if err1 != nil || err2 != nil {
		return fmt.Errorf("%s: real %v byz %v", rpc, err1, err2)
	}
	if err := sameJSON(rpc+" contract revision", real.contract.Revision, twin.contract.Revision); err != nil {
		return err
	}
	if rpc != "form" { // a formation id depends on the funding inputs
		if err := sameJSON(rpc+" contract id", real.contract.ID, twin.contract.ID); err != nil {
			return err
		}
	}
	if err := sameJSON(rpc+" cost", real.cost, twin.cost); err != nil {
		return err
	}
	cs.Class("cross=" + rpc)
	return nil
}

// FuzzC10Response perturbs the encoded bytes of one response message of one
// client function (coverage-guided) and applies the C10 oracle.
func FuzzC10Response(f *testing.F) {
	c10Timeout = 4 * time.Second // the fuzz engine kills a worker whose input takes 10 s
	fuzzRPCs := []string{"read", "verify", "roots", "append", "free", "fund", "replenish", "replpools", "form", "renew", "refresh-full", "refresh-partial"}
	for i := range fuzzRPCs {
		f.Add(byte(i), byte(0), []byte{0, 9, 1})
		f.Add(byte(i), byte(1), []byte{1, 40, 0, 2, 3, 0xff})
	}
	f.Fuzz(func(t *testing.T, rpcSel, msgSel byte, ops []byte) {
		rpc := fuzzRPCs[int(rpcSel)%len(fuzzRPCs)]
		msg := int(msgSel) % len(rhpc.Kinds[rpc])
		if len(ops) > 60 {
			ops = ops[:60]
		}
		c := C10Case{RPC: rpc, N: 5, P: []int{1, 130, 2, 4, 1, 1}}
		raw := func(idx int, wire []byte) []byte {
			if idx != msg {
				return wire
			}
			for i := 0; i+2 < len(ops); i += 3 {
				pos := 0
				if len(wire) > 0 {
					pos = (int(ops[i+1]) * 7) % len(wire)
				}
				switch ops[i] % 4 {
				case 0: // xor a byte
					if len(wire) > 0 {
						wire[pos] ^= ops[i+2] | 1
					}
				case 1: // set a byte
					if len(wire) > 0 {
						wire[pos] = ops[i+2]
					}
				case 2: // truncate
					wire = wire[:pos]
				case 3: // insert
					wire = append(wire[:pos], append([]byte{ops[i+2]}, wire[pos:]...)...)
				}
			}
			return wire
		}
		if err := runC10With(c, &kit.CaseStats{}, raw); err != nil {
			t.Fatal(err)
		}
	})
}
